import GrafeoModel.Proofs.LpgLemmas

/-!
Helper lemmas for `Props/C14Paths.lean`: the inductive invariants that tie the edge table, the two
adjacency tables, the node table, the property table and the property indexes of the LPG store
model together, and their preservation by every store-level function.

Everything here is about the *store-level world* of the correspondence stream `lpg`: the store's
own epoch stays 0 and every version is created by `TxId::SYSTEM`, so a version chain is always one
of `liveC` (one version, not deleted) or `deadC` (the same version, stamped deleted).
-/

namespace Grafeo.Lpg.Paths

/-! ### association lists -/

theorem aget_eq_none_iff {ν : Type} (l : AList ν) (k : Nat) : aget l k = none ↔ k ∉ l.map (·.1) := by
  induction l with
  | nil => simp [aget]
  | cons kv rest ih =>
    obtain ⟨k0, v0⟩ := kv
    simp only [aget, List.map_cons, List.mem_cons]
    by_cases h : k0 = k
    · simp [h]
    · have : ¬ k = k0 := fun e => h e.symm
      simp [h, this, ih]

theorem filterMap_congr' {α β : Type} (l : List α) (f g : α → Option β) (h : ∀ x ∈ l, f x = g x) :
    l.filterMap f = l.filterMap g := by
  induction l with
  | nil => rfl
  | cons x xs ih =>
    have hx := h x (List.mem_cons_self ..)
    have := ih (fun y hy => h y (List.mem_cons_of_mem _ hy))
    simp only [List.filterMap_cons, hx, this]

/-- enumeration of an association list with distinct keys = enumeration of its keys with point lookups -/
theorem alist_filter_map {ν β : Type} (l : AList ν) (p : Nat × ν → Bool) (f : Nat × ν → β)
    (hk : (l.map (·.1)).Nodup) :
    (l.filter p).map f = (l.map (·.1)).filterMap (fun k =>
      (aget l k).bind (fun v => if p (k, v) then some (f (k, v)) else none)) := by
  induction l with
  | nil => simp
  | cons kv rest ih =>
    obtain ⟨k0, v0⟩ := kv
    simp only [List.map_cons, List.nodup_cons] at hk
    obtain ⟨hk0, hk⟩ := hk
    have htail : (rest.map (·.1)).filterMap (fun k =>
        (aget ((k0, v0) :: rest) k).bind (fun v => if p (k, v) then some (f (k, v)) else none))
        = (rest.map (·.1)).filterMap (fun k =>
        (aget rest k).bind (fun v => if p (k, v) then some (f (k, v)) else none)) := by
      apply filterMap_congr'
      intro k hkm
      have : ¬ k0 = k := fun e => hk0 (e ▸ hkm)
      simp [aget, this]
    rw [List.map_cons, List.filterMap_cons, htail, ← ih hk]
    simp only [aget, if_true, Option.bind_some, List.filter_cons]
    by_cases hp : p (k0, v0) = true
    · simp [hp]
    · simp [hp]

theorem mem_iff_aget {ν : Type} (l : AList ν) (hk : (l.map (·.1)).Nodup) (k : Nat) (v : ν) :
    (k, v) ∈ l ↔ aget l k = some v := by
  induction l with
  | nil => simp [aget]
  | cons kv rest ih =>
    obtain ⟨k0, v0⟩ := kv
    simp only [List.map_cons, List.nodup_cons] at hk
    obtain ⟨hk0, hk⟩ := hk
    simp only [List.mem_cons, aget, Prod.mk.injEq]
    by_cases h : k0 = k
    · subst h
      simp only [if_true, Option.some.injEq, true_and]
      constructor
      · rintro (e | e)
        · exact e.symm
        · exact absurd (List.mem_map_of_mem (f := (·.1)) e) hk0
      · intro e; exact Or.inl e.symm
    · have : ¬ k = k0 := fun e => h e.symm
      simp [h, this, ih hk]

theorem aset_keys {ν : Type} (l : AList ν) (k : Nat) (v : ν) :
    (aset l k v).map (·.1) = if k ∈ l.map (·.1) then l.map (·.1) else l.map (·.1) ++ [k] := by
  induction l with
  | nil => simp [aset]
  | cons kv rest ih =>
    obtain ⟨k0, v0⟩ := kv
    simp only [aset]
    by_cases h : k0 = k
    · subst h; simp
    · have : ¬ k = k0 := fun e => h e.symm
      simp only [h, if_false, List.map_cons, ih, List.mem_cons, this, false_or]
      split <;> simp

/-- a table whose keys are `0 … n-1` in order keeps that shape under an update of an existing key … -/
theorem aset_keys_range_lt {ν : Type} (l : AList ν) (n k : Nat) (v : ν)
    (h : l.map (·.1) = List.range n) (hk : k < n) : (aset l k v).map (·.1) = List.range n := by
  rw [aset_keys, h]; simp [hk]

/-- … and grows to `0 … n` when the next key is inserted -/
theorem aset_keys_range_succ {ν : Type} (l : AList ν) (n : Nat) (v : ν)
    (h : l.map (·.1) = List.range n) : (aset l n v).map (·.1) = List.range (n + 1) := by
  rw [aset_keys, h]; simp [List.range_succ]

theorem aget_none_of_range {ν : Type} (l : AList ν) (n k : Nat)
    (h : l.map (·.1) = List.range n) (hk : n ≤ k) : aget l k = none := by
  rw [aget_eq_none_iff, h]; simp; omega

theorem lt_of_aget_range {ν : Type} (l : AList ν) (n k : Nat) (v : ν)
    (h : l.map (·.1) = List.range n) (hk : aget l k = some v) : k < n := by
  apply Nat.lt_of_not_le
  intro hle
  rw [aget_none_of_range l n k h hle] at hk
  exact absurd hk (by simp)

/-! ### version chains in the store-level world -/

/-- the chain of an entity created at store epoch 0 by SYSTEM and not deleted -/
def liveC : List Ver := [⟨0, systemTx, none⟩]
/-- the same chain after `mark_deleted(0)` -/
def deadC : List Ver := [⟨0, systemTx, some 0⟩]

theorem liveC_ne_deadC : liveC ≠ deadC := by decide
theorem vis_liveC : chainVisibleAt liveC 0 = true := by decide
theorem vis_deadC : chainVisibleAt deadC 0 = false := by decide
theorem visTo_liveC : chainVisibleTo liveC 0 systemTx = true := by decide
theorem visTo_deadC : chainVisibleTo deadC 0 systemTx = false := by decide
theorem mark_liveC : chainMarkDeleted 0 liveC = deadC := by decide

/-- in the store-level world "visible" and "is the live chain" are the same thing -/
theorem vis_iff_live (c : List Ver) (h : c = liveC ∨ c = deadC) : chainVisibleAt c 0 = true ↔ c = liveC := by
  rcases h with rfl | rfl
  · simp [vis_liveC]
  · simp [vis_deadC, liveC_ne_deadC.symm]

theorem visTo_iff_live (c : List Ver) (h : c = liveC ∨ c = deadC) :
    chainVisibleTo c 0 systemTx = true ↔ c = liveC := by
  rcases h with rfl | rfl
  · simp [visTo_liveC]
  · simp [visTo_deadC, liveC_ne_deadC.symm]

/-! ### adjacency tables -/

/-- the listing stored for `n` -/
def adjOf (a : AList (List (Nat × Nat))) (n : Nat) : List (Nat × Nat) := (aget a n).getD []

theorem adjOf_add (a : AList (List (Nat × Nat))) (k o e n : Nat) :
    adjOf (adjAdd a k o e) n = if n = k then adjOf a k ++ [(o, e)] else adjOf a n := by
  unfold adjOf adjAdd
  rw [aget_aset]
  split <;> simp

theorem adjOf_del (a : AList (List (Nat × Nat))) (k e n : Nat) :
    adjOf (adjDel a k e) n = if n = k then (adjOf a k).filter (fun p => p.2 != e) else adjOf a n := by
  unfold adjOf adjDel
  cases h : aget a k with
  | none =>
    simp only
    split
    · rename_i hn; subst hn; simp [h]
    · rfl
  | some l =>
    simp only
    rw [aget_aset]
    split
    · simp
    · rfl

/-- an adjacency table keyed by `key` (the edge's source for the forward table, its target for the
backward table) lists under `n` exactly the live edges whose `key` is `n`, each once, together with
the `other` endpoint -/
structure AdjOk (edges : AList (List Ver × EdgeRec)) (a : AList (List (Nat × Nat)))
    (key other : EdgeRec → Nat) : Prop where
  iff : ∀ n o e, (o, e) ∈ adjOf a n ↔ ∃ r, aget edges e = some (liveC, r) ∧ key r = n ∧ other r = o
  nodup : ∀ n, (adjOf a n).Nodup

theorem adjOk_add (edges a key other) (h : AdjOk edges a key other) (ne : Nat) (r : EdgeRec)
    (hnone : aget edges ne = none) :
    AdjOk (aset edges ne (liveC, r)) (adjAdd a (key r) (other r) ne) key other := by
  have hfresh : ∀ n o, (o, ne) ∉ adjOf a n := by
    intro n o hm
    obtain ⟨r', ht, _⟩ := (h.iff n o _).mp hm
    rw [hnone] at ht; exact absurd ht (by simp)
  constructor
  · intro n o e
    rw [adjOf_add]
    simp only [aget_aset]
    by_cases he : e = ne
    · subst he
      by_cases hn : n = key r
      · subst hn
        simp only [if_true, List.mem_append, hfresh _ o, false_or, List.mem_singleton, Prod.mk.injEq, and_true,
          Option.some.injEq, true_and]
        constructor
        · intro hd; exact ⟨r, rfl, rfl, hd.symm⟩
        · rintro ⟨_, rfl, _, hd⟩; exact hd.symm
      · simp only [hn, if_false, hfresh n o, if_true, Option.some.injEq, Prod.mk.injEq, true_and,
          false_iff, not_exists]
        rintro x ⟨rfl, hx, _⟩; exact hn hx.symm
    · by_cases hn : n = key r
      · subst hn
        simp only [if_true, he, if_false, List.mem_append, List.mem_singleton, Prod.mk.injEq, and_false, or_false]
        exact h.iff _ o e
      · simp only [hn, he, if_false]
        exact h.iff n o e
  · intro n
    rw [adjOf_add]
    split
    · rw [List.nodup_append]
      refine ⟨h.nodup _, by simp, ?_⟩
      intro x hx y hy
      simp only [List.mem_singleton] at hy
      subst hy
      intro hxy; subst hxy
      exact hfresh _ _ hx
    · exact h.nodup n

theorem adjOk_del (edges a key other) (h : AdjOk edges a key other) (e0 : Nat) (r0 : EdgeRec)
    (hlive : aget edges e0 = some (liveC, r0)) :
    AdjOk (aset edges e0 (deadC, r0)) (adjDel a (key r0) e0) key other := by
  constructor
  · intro n o e
    rw [adjOf_del]
    simp only [aget_aset]
    by_cases he : e = e0
    · subst he
      have hdead : ¬ ∃ r, some (deadC, r0) = some (liveC, r) ∧ key r = n ∧ other r = o := by
        rintro ⟨r, hr, _⟩
        simp only [Option.some.injEq, Prod.mk.injEq] at hr
        exact liveC_ne_deadC hr.1.symm
      simp only [if_true, hdead, iff_false]
      split
      · simp [List.mem_filter]
      · rename_i hn
        intro hm
        obtain ⟨r, hr, hk, _⟩ := (h.iff n o e).mp hm
        rw [hlive] at hr
        simp only [Option.some.injEq, Prod.mk.injEq, true_and] at hr
        subst hr; exact hn hk.symm
    · simp only [he, if_false]
      split
      · rename_i hn
        subst hn
        simp only [List.mem_filter, bne_iff_ne, ne_eq, he, not_false_eq_true, and_true]
        exact h.iff _ o e
      · exact h.iff n o e
  · intro n
    rw [adjOf_del]
    split
    · exact (h.nodup _).filter _
    · exact h.nodup n

/-- what ties the edge table and the two adjacency tables together -/
structure EdgeInv (s : Store) : Prop where
  epoch0 : s.epoch = 0
  keys : s.edges.map (·.1) = List.range s.nextEdge
  chains : ∀ e c r, aget s.edges e = some (c, r) → c = liveC ∨ c = deadC
  fwdOk : AdjOk s.edges s.fwd (·.src) (·.dst)
  bwdOk : s.hasBwd = true → AdjOk s.edges s.bwd (·.dst) (·.src)

theorem edgeInv_init (b : Bool) : EdgeInv { hasBwd := b } := by
  refine ⟨rfl, rfl, ?_, ⟨?_, ?_⟩, fun _ => ⟨?_, ?_⟩⟩ <;> simp [aget, adjOf]

theorem edgeInv_of_same (s s' : Store) (h : EdgeInv s) (h0 : s'.epoch = s.epoch)
    (h1 : s'.edges = s.edges) (h2 : s'.nextEdge = s.nextEdge) (h3 : s'.fwd = s.fwd)
    (h4 : s'.bwd = s.bwd) (h5 : s'.hasBwd = s.hasBwd) : EdgeInv s' := by
  refine ⟨?_, ?_, ?_, ?_, ?_⟩
  · rw [h0]; exact h.epoch0
  · rw [h1, h2]; exact h.keys
  · rw [h1]; exact h.chains
  · rw [h1, h3]; exact h.fwdOk
  · rw [h1, h4, h5]; exact h.bwdOk

theorem edgeInv_createEdge (s : Store) (a b t : Nat) (h : EdgeInv s) :
    EdgeInv (s.createEdge a b t s.epoch systemTx).1 := by
  have hnone : aget s.edges s.nextEdge = none := aget_none_of_range _ _ _ h.keys (Nat.le_refl _)
  have hrec : ([⟨s.epoch, systemTx, none⟩] : List Ver) = liveC := by rw [h.epoch0]; rfl
  refine ⟨h.epoch0, ?_, ?_, ?_, ?_⟩
  · exact aset_keys_range_succ _ _ _ h.keys
  · intro e c r
    show aget (aset s.edges s.nextEdge _) e = _ → _
    rw [aget_aset, hrec]
    split
    · intro he; simp at he; exact Or.inl he.1.symm
    · exact h.chains e c r
  · show AdjOk (aset s.edges s.nextEdge _) (adjAdd s.fwd a b s.nextEdge) _ _
    rw [hrec]
    exact adjOk_add s.edges s.fwd (·.src) (·.dst) h.fwdOk s.nextEdge ⟨a, b, t⟩ hnone
  · intro hb
    have hb' : s.hasBwd = true := hb
    show AdjOk (aset s.edges s.nextEdge _) (if s.hasBwd then adjAdd s.bwd b a s.nextEdge else s.bwd) _ _
    rw [hrec, hb']
    exact adjOk_add s.edges s.bwd (·.dst) (·.src) (h.bwdOk hb') s.nextEdge ⟨a, b, t⟩ hnone

/-- `delete_edge` on a live edge, written out -/
theorem deleteEdgeAt_live (s : Store) (e : Nat) (r : EdgeRec) (h0 : s.epoch = 0)
    (hl : aget s.edges e = some (liveC, r)) :
    (s.deleteEdgeAt e s.epoch).1 =
      { s with edges := aset s.edges e (deadC, r), fwd := adjDel s.fwd r.src e,
               bwd := if s.hasBwd then adjDel s.bwd r.dst e else s.bwd, eprops := aerase s.eprops e } := by
  unfold Store.deleteEdgeAt
  rw [hl, h0]
  simp [vis_liveC, mark_liveC]

/-- `delete_edge` on anything else changes nothing -/
theorem deleteEdgeAt_notLive (s : Store) (e : Nat) (h : EdgeInv s)
    (hl : ∀ r, aget s.edges e ≠ some (liveC, r)) : (s.deleteEdgeAt e s.epoch).1 = s := by
  unfold Store.deleteEdgeAt
  cases hg : aget s.edges e with
  | none => rfl
  | some cr =>
    obtain ⟨c, r⟩ := cr
    rcases h.chains e c r hg with rfl | rfl
    · exact absurd hg (hl r)
    · simp [h.epoch0, vis_deadC]

theorem edgeInv_deleteEdge (s : Store) (e : Nat) (h : EdgeInv s) : EdgeInv (s.deleteEdgeAt e s.epoch).1 := by
  by_cases hl : ∃ r, aget s.edges e = some (liveC, r)
  · obtain ⟨r, hl⟩ := hl
    rw [deleteEdgeAt_live s e r h.epoch0 hl]
    refine ⟨h.epoch0, ?_, ?_, ?_, ?_⟩
    · exact aset_keys_range_lt _ _ _ _ h.keys (lt_of_aget_range _ _ _ _ h.keys hl)
    · intro e' c r'
      show aget (aset s.edges e _) e' = _ → _
      rw [aget_aset]
      split
      · intro he; simp at he; exact Or.inr he.1.symm
      · exact h.chains e' c r'
    · exact adjOk_del s.edges s.fwd (·.src) (·.dst) h.fwdOk e r hl
    · intro hb
      have hb' : s.hasBwd = true := hb
      show AdjOk (aset s.edges e _) (if s.hasBwd then adjDel s.bwd r.dst e else s.bwd) _ _
      rw [hb']
      exact adjOk_del s.edges s.bwd (·.dst) (·.src) (h.bwdOk hb') e r hl
  · rw [deleteEdgeAt_notLive s e h (fun r hr => hl ⟨r, hr⟩)]
    exact h

/-! ### property-index buckets -/

/-- the node set an index on some key holds for value token `v` -/
def bucket (vals : List (String × List Nat)) (v : String) : List Nat :=
  ((vals.find? (fun p => p.1 == v)).map (·.2)).getD []

theorem bucket_nil (v : String) : bucket [] v = [] := rfl

theorem bucket_cons (v0 : String) (ids : List Nat) (rest : List (String × List Nat)) (v : String) :
    bucket ((v0, ids) :: rest) v = if v0 = v then ids else bucket rest v := by
  unfold bucket
  by_cases h : v0 = v
  · simp [h]
  · have hb : (v0 == v) = false := by simp [h]
    simp [hb, h]

theorem bucket_eq_nil_of_not_key (vals : List (String × List Nat)) (v : String)
    (h : v ∉ vals.map (·.1)) : bucket vals v = [] := by
  induction vals with
  | nil => rfl
  | cons p rest ih =>
    obtain ⟨v0, ids⟩ := p
    simp only [List.map_cons, List.mem_cons, not_or] at h
    rw [bucket_cons]
    have : ¬ v0 = v := fun e => h.1 e.symm
    simp [this, ih h.2]

theorem bucket_pidxAdd (vals : List (String × List Nat)) (v : String) (id : Nat) (v' : String) :
    bucket (pidxAdd vals v id) v' = if v' = v then sinsert (bucket vals v) id else bucket vals v' := by
  induction vals with
  | nil =>
    simp only [pidxAdd, bucket_cons, bucket_nil]
    by_cases h : v' = v
    · subst h; simp [sinsert]
    · have : ¬ v = v' := fun e => h e.symm
      simp [h, this]
  | cons p rest ih =>
    obtain ⟨v0, ids⟩ := p
    simp only [pidxAdd]
    by_cases h0 : v0 = v
    · subst h0
      simp only [if_true, bucket_cons]
      by_cases h : v' = v0
      · subst h; simp
      · have : ¬ v0 = v' := fun e => h e.symm
        simp [h, this]
    · simp only [h0, if_false, bucket_cons, ih]
      by_cases h : v0 = v'
      · subst h
        have : ¬ v0 = v := h0
        simp [this]
      · simp [h]

theorem keys_pidxAdd (vals : List (String × List Nat)) (v : String) (id : Nat) :
    (pidxAdd vals v id).map (·.1) = if v ∈ vals.map (·.1) then vals.map (·.1) else vals.map (·.1) ++ [v] := by
  induction vals with
  | nil => simp [pidxAdd]
  | cons p rest ih =>
    obtain ⟨v0, ids⟩ := p
    simp only [pidxAdd]
    by_cases h0 : v0 = v
    · subst h0; simp
    · have : ¬ v = v0 := fun e => h0 e.symm
      simp only [h0, if_false, List.map_cons, ih, List.mem_cons, this, false_or]
      split <;> simp

theorem keys_nodup_pidxAdd (vals : List (String × List Nat)) (v : String) (id : Nat)
    (h : (vals.map (·.1)).Nodup) : ((pidxAdd vals v id).map (·.1)).Nodup := by
  rw [keys_pidxAdd]
  split
  · exact h
  · rename_i hn
    rw [List.nodup_append]
    refine ⟨h, by simp, ?_⟩
    intro x hx y hy
    simp only [List.mem_singleton] at hy
    subst hy
    intro e; subst e; exact hn hx

theorem keys_pidxRemove_sublist (vals : List (String × List Nat)) (v : String) (id : Nat) :
    List.Sublist ((pidxRemove vals v id).map (·.1)) (vals.map (·.1)) := by
  induction vals with
  | nil => simp [pidxRemove]
  | cons p rest ih =>
    obtain ⟨v0, ids⟩ := p
    simp only [pidxRemove]
    by_cases h0 : v0 = v
    · subst h0
      simp only [if_true]
      split
      · simp
      · simp
    · simp only [h0, if_false, List.map_cons]
      exact List.Sublist.cons_cons _ ih

theorem keys_nodup_pidxRemove (vals : List (String × List Nat)) (v : String) (id : Nat)
    (h : (vals.map (·.1)).Nodup) : ((pidxRemove vals v id).map (·.1)).Nodup :=
  List.Nodup.sublist (keys_pidxRemove_sublist vals v id) h

theorem serase_eq_nil_of_isEmpty (ids : List Nat) (id : Nat) (h : (serase ids id).isEmpty = true) :
    serase ids id = [] := by simpa using h

theorem bucket_pidxRemove (vals : List (String × List Nat)) (v : String) (id : Nat) (v' : String)
    (hk : (vals.map (·.1)).Nodup) :
    bucket (pidxRemove vals v id) v' = if v' = v then serase (bucket vals v) id else bucket vals v' := by
  induction vals with
  | nil => simp [pidxRemove, bucket_nil, serase]
  | cons p rest ih =>
    obtain ⟨v0, ids⟩ := p
    simp only [List.map_cons, List.nodup_cons] at hk
    simp only [pidxRemove]
    by_cases h0 : v0 = v
    · subst h0
      simp only [if_true, bucket_cons]
      by_cases hE : (serase ids id).isEmpty = true
      · simp only [hE, if_true]
        by_cases h : v' = v0
        · subst h
          simp only [if_true]
          rw [bucket_eq_nil_of_not_key rest v' hk.1, serase_eq_nil_of_isEmpty ids id hE]
        · have : ¬ v0 = v' := fun e => h e.symm
          simp [h, this]
      · rw [if_neg hE]
        simp only [bucket_cons]
        by_cases h : v' = v0
        · subst h; simp
        · have : ¬ v0 = v' := fun e => h e.symm
          simp [h, this]
    · simp only [h0, if_false, bucket_cons, ih hk.2]
      by_cases h : v0 = v'
      · subst h
        have : ¬ v0 = v := h0
        simp [this]
      · simp [h]

theorem nodup_sinsert (s : List Nat) (x : Nat) (h : s.Nodup) : (sinsert s x).Nodup := by
  unfold sinsert
  split
  · exact h
  · rename_i hn
    rw [List.nodup_append]
    refine ⟨h, by simp, ?_⟩
    intro a ha b hb
    simp only [List.mem_singleton] at hb
    subst hb
    intro e; subst e; exact hn ha

theorem nodup_serase (s : List Nat) (x : Nat) (h : s.Nodup) : (serase s x).Nodup := h.filter _

/-! ### the table of property indexes -/

abbrev PIdx := AList (List (String × List Nat))

/-- the node set the index on `k` holds for `v` (empty when `k` is not indexed) -/
def idxBucket (px : PIdx) (k : Nat) (v : String) : List Nat :=
  match aget px k with
  | some vals => bucket vals v
  | none => []

/-- every index has distinct value keys and duplicate-free buckets -/
def PxWf (px : PIdx) : Prop :=
  ∀ k vals, aget px k = some vals → (vals.map (·.1)).Nodup ∧ ∀ v, (bucket vals v).Nodup

/-- take `id` out of the bucket of `v` in the index on `k`, if there is such an index -/
def pxRemove (px : PIdx) (k : Nat) (v : String) (id : Nat) : PIdx :=
  match aget px k with
  | some vals => aset px k (pidxRemove vals v id)
  | none => px

theorem pxRemove_isSome (px : PIdx) (k : Nat) (v : String) (id k' : Nat) :
    (aget (pxRemove px k v id) k').isSome = (aget px k').isSome := by
  unfold pxRemove
  cases h : aget px k with
  | none => rfl
  | some vals =>
    simp only [aget_aset]
    split
    · rename_i hk; subst hk; simp [h]
    · rfl

theorem pxWf_pxRemove (px : PIdx) (k : Nat) (v : String) (id : Nat) (h : PxWf px) :
    PxWf (pxRemove px k v id) := by
  unfold pxRemove
  cases hg : aget px k with
  | none => exact h
  | some vals =>
    intro k' vals'
    simp only [aget_aset]
    split
    · rename_i hk
      intro he
      simp only [Option.some.injEq] at he
      subst he
      obtain ⟨a, b⟩ := h k vals hg
      refine ⟨keys_nodup_pidxRemove vals v id a, ?_⟩
      intro v'
      rw [bucket_pidxRemove vals v id v' a]
      split
      · exact nodup_serase _ _ (b v)
      · exact b v'
    · exact h k' vals'

theorem idxBucket_pxRemove (px : PIdx) (k : Nat) (v : String) (id k' : Nat) (v' : String) (h : PxWf px) :
    idxBucket (pxRemove px k v id) k' v' =
      if k' = k ∧ v' = v then serase (idxBucket px k v) id else idxBucket px k' v' := by
  unfold pxRemove idxBucket
  cases hg : aget px k with
  | none =>
    simp only
    by_cases hkv : k' = k ∧ v' = v
    · obtain ⟨rfl, rfl⟩ := hkv; simp [hg, serase]
    · simp [hkv]
  | some vals =>
    simp only [aget_aset]
    by_cases hk : k' = k
    · subst hk
      simp only [if_true, true_and, hg]
      exact bucket_pidxRemove vals v id v' (h k' vals hg).1
    · simp [hk]

/-- the loop of `delete_node_at_epoch` over the node's properties -/
def pxEraseAll (px : PIdx) (props : AList String) (id : Nat) : PIdx :=
  props.foldl (fun px kv => pxRemove px kv.1 kv.2 id) px

theorem pxEraseAll_isSome (px : PIdx) (props : AList String) (id k' : Nat) :
    (aget (pxEraseAll px props id) k').isSome = (aget px k').isSome := by
  induction props generalizing px with
  | nil => rfl
  | cons kv rest ih =>
    unfold pxEraseAll at ih ⊢
    simp only [List.foldl_cons]
    rw [ih, pxRemove_isSome]

theorem pxWf_pxEraseAll (px : PIdx) (props : AList String) (id : Nat) (h : PxWf px) :
    PxWf (pxEraseAll px props id) := by
  induction props generalizing px with
  | nil => exact h
  | cons kv rest ih =>
    unfold pxEraseAll at ih ⊢
    simp only [List.foldl_cons]
    exact ih _ (pxWf_pxRemove px kv.1 kv.2 id h)

theorem mem_idxBucket_pxEraseAll (px : PIdx) (props : AList String) (id k : Nat) (v : String) (x : Nat)
    (h : PxWf px) :
    x ∈ idxBucket (pxEraseAll px props id) k v ↔ x ∈ idxBucket px k v ∧ ¬ (x = id ∧ (k, v) ∈ props) := by
  induction props generalizing px with
  | nil => simp [pxEraseAll]
  | cons kv rest ih =>
    obtain ⟨k0, v0⟩ := kv
    unfold pxEraseAll at ih ⊢
    simp only [List.foldl_cons]
    rw [ih _ (pxWf_pxRemove px k0 v0 id h), idxBucket_pxRemove px k0 v0 id k v h]
    by_cases hkv : k = k0 ∧ v = v0
    · obtain ⟨rfl, rfl⟩ := hkv
      simp only [and_self, if_true, mem_serase, List.mem_cons, true_or, and_true]
      constructor
      · rintro ⟨⟨a, b⟩, _⟩; exact ⟨b, a⟩
      · rintro ⟨a, b⟩; exact ⟨⟨b, a⟩, fun c => b c.1⟩
    · simp only [hkv, if_false, List.mem_cons, Prod.mk.injEq, false_or]


/-- the old value's entry is taken out first -/
def rmOld (vals : List (String × List Nat)) (old : Option String) (id : Nat) : List (String × List Nat) :=
  match old with
  | some o => pidxRemove vals o id
  | none => vals

/-- index maintenance of `set_node_property` -/
def pxSet (px : PIdx) (k : Nat) (old : Option String) (v : String) (id : Nat) : PIdx :=
  match aget px k with
  | none => px
  | some vals => aset px k (pidxAdd (rmOld vals old id) v id)

theorem pxSet_isSome (px : PIdx) (k : Nat) (old : Option String) (v : String) (id k' : Nat) :
    (aget (pxSet px k old v id) k').isSome = (aget px k').isSome := by
  unfold pxSet
  cases h : aget px k with
  | none => rfl
  | some vals =>
    simp only [aget_aset]
    split
    · rename_i hk; subst hk; simp [h]
    · rfl

/-- the bucket contents after the remove-old / add-new pair -/
theorem bucket_set (vals : List (String × List Nat)) (old : Option String) (v : String) (id : Nat) (v' : String)
    (x : Nat) (hk : (vals.map (·.1)).Nodup) :
    x ∈ bucket (pidxAdd (rmOld vals old id) v id) v' ↔
      (v' = v ∧ x = id) ∨ (x ∈ bucket vals v' ∧ ¬ (x = id ∧ old = some v')) := by
  rw [bucket_pidxAdd]
  unfold rmOld
  cases old with
  | none =>
    simp only [reduceCtorEq, and_false, not_false_eq_true, and_true]
    split
    · rename_i hv; subst hv; simp [mem_sinsert]
    · rename_i hv; simp [hv]
  | some o =>
    simp only [Option.some.injEq]
    by_cases hv : v' = v
    · subst hv
      simp only [if_true, mem_sinsert, true_and, bucket_pidxRemove vals o id v' hk]
      by_cases ho : v' = o
      · subst ho
        simp only [if_true, mem_serase, and_true]
        constructor
        · rintro (a | ⟨a, b⟩)
          · exact Or.inl a
          · exact Or.inr ⟨b, a⟩
        · rintro (a | ⟨a, b⟩)
          · exact Or.inl a
          · exact Or.inr ⟨b, a⟩
      · have : ¬ o = v' := fun e => ho e.symm
        simp [ho, this]
    · simp only [hv, if_false, false_and, false_or, bucket_pidxRemove vals o id v' hk]
      by_cases ho : v' = o
      · subst ho
        simp only [if_true, mem_serase, and_true]
        constructor
        · rintro ⟨a, b⟩; exact ⟨b, a⟩
        · rintro ⟨a, b⟩; exact ⟨b, a⟩
      · have : ¬ o = v' := fun e => ho e.symm
        simp [ho, this]

theorem pxWf_pxSet (px : PIdx) (k : Nat) (old : Option String) (v : String) (id : Nat) (h : PxWf px) :
    PxWf (pxSet px k old v id) := by
  unfold pxSet
  cases hg : aget px k with
  | none => exact h
  | some vals =>
    intro k' vals'
    simp only [aget_aset]
    split
    · intro he
      simp only [Option.some.injEq] at he
      subst he
      obtain ⟨a, b⟩ := h k vals hg
      have a1 : ((rmOld vals old id).map (·.1)).Nodup := by
        unfold rmOld
        cases old with
        | none => exact a
        | some o => exact keys_nodup_pidxRemove vals o id a
      have b1 : ∀ w, (bucket (rmOld vals old id) w).Nodup := by
        intro w
        unfold rmOld
        cases old with
        | none => exact b w
        | some o =>
          simp only [bucket_pidxRemove vals o id w a]
          split
          · exact nodup_serase _ _ (b o)
          · exact b w
      refine ⟨keys_nodup_pidxAdd _ v id a1, ?_⟩
      intro v'
      rw [bucket_pidxAdd]
      split
      · exact nodup_sinsert _ _ (b1 v)
      · exact b1 v'
    · exact h k' vals'

theorem mem_idxBucket_pxSet (px : PIdx) (k : Nat) (old : Option String) (v : String) (id k' : Nat)
    (v' : String) (x : Nat) (h : PxWf px) :
    x ∈ idxBucket (pxSet px k old v id) k' v' ↔
      ((aget px k).isSome = true ∧ k' = k ∧ v' = v ∧ x = id) ∨
      (x ∈ idxBucket px k' v' ∧ ¬ (k' = k ∧ x = id ∧ old = some v')) := by
  unfold pxSet idxBucket
  cases hg : aget px k with
  | none =>
    simp only [Option.isSome_none, Bool.false_eq_true, false_and, false_or]
    by_cases hk : k' = k
    · subst hk; simp [hg]
    · simp [hk]
  | some vals =>
    simp only [aget_aset, Option.isSome_some, true_and]
    by_cases hk : k' = k
    · subst hk
      simp only [if_true, hg, true_and]
      exact bucket_set vals old v id v' x (h k' vals hg).1
    · simp [hk]

/-- the loop of `create_property_index` over the enumerated nodes -/
def buildIdx (f : Nat → Option String) (ids : List Nat) (acc : List (String × List Nat)) :
    List (String × List Nat) :=
  ids.foldl (fun acc id => match f id with | some v => pidxAdd acc v id | none => acc) acc

theorem buildIdx_ok (f : Nat → Option String) (ids : List Nat) (acc : List (String × List Nat))
    (hk : (acc.map (·.1)).Nodup) (hb : ∀ v, (bucket acc v).Nodup) :
    ((buildIdx f ids acc).map (·.1)).Nodup ∧ (∀ v, (bucket (buildIdx f ids acc) v).Nodup) ∧
    ∀ v x, x ∈ bucket (buildIdx f ids acc) v ↔ x ∈ bucket acc v ∨ (x ∈ ids ∧ f x = some v) := by
  induction ids generalizing acc with
  | nil => exact ⟨hk, hb, by simp [buildIdx]⟩
  | cons i rest ih =>
    unfold buildIdx at ih ⊢
    simp only [List.foldl_cons]
    cases hf : f i with
    | none =>
      simp only
      obtain ⟨a, b, c⟩ := ih acc hk hb
      refine ⟨a, b, ?_⟩
      intro v x
      rw [c v x]
      constructor
      · rintro (h | ⟨h1, h2⟩)
        · exact Or.inl h
        · exact Or.inr ⟨List.mem_cons_of_mem _ h1, h2⟩
      · rintro (h | ⟨h1, h2⟩)
        · exact Or.inl h
        · rcases List.mem_cons.mp h1 with rfl | h1
          · rw [hf] at h2; exact absurd h2 (by simp)
          · exact Or.inr ⟨h1, h2⟩
    | some w =>
      simp only
      have hk' := keys_nodup_pidxAdd acc w i hk
      have hb' : ∀ v, (bucket (pidxAdd acc w i) v).Nodup := by
        intro v
        rw [bucket_pidxAdd]
        split
        · exact nodup_sinsert _ _ (hb w)
        · exact hb v
      obtain ⟨a, b, c⟩ := ih _ hk' hb'
      refine ⟨a, b, ?_⟩
      intro v x
      rw [c v x, bucket_pidxAdd]
      by_cases hv : v = w
      · subst hv
        simp only [if_true, mem_sinsert, List.mem_cons]
        constructor
        · rintro ((h | h) | ⟨h1, h2⟩)
          · subst h; exact Or.inr ⟨Or.inl rfl, hf⟩
          · exact Or.inl h
          · exact Or.inr ⟨Or.inr h1, h2⟩
        · rintro (h | ⟨h1 | h1, h2⟩)
          · exact Or.inl (Or.inr h)
          · exact Or.inl (Or.inl h1)
          · exact Or.inr ⟨h1, h2⟩
      · simp only [hv, if_false, List.mem_cons]
        constructor
        · rintro (h | ⟨h1, h2⟩)
          · exact Or.inl h
          · exact Or.inr ⟨Or.inr h1, h2⟩
        · rintro (h | ⟨h1 | h1, h2⟩)
          · exact Or.inl h
          · subst h1; rw [hf] at h2; simp only [Option.some.injEq] at h2; exact absurd h2.symm hv
          · exact Or.inr ⟨h1, h2⟩

/-! ### the node table -/

/-- node `id` exists and is not deleted -/
def nodeLive (s : Store) (id : Nat) : Prop := aget s.nodes id = some liveC

instance (s : Store) (id : Nat) : Decidable (nodeLive s id) := by unfold nodeLive; infer_instance

structure NodeInv (s : Store) : Prop where
  epoch0 : s.epoch = 0
  keys : s.nodes.map (·.1) = List.range s.nextNode
  chains : ∀ id c, aget s.nodes id = some c → c = liveC ∨ c = deadC

theorem nodeInv_init (b : Bool) : NodeInv { hasBwd := b } := by
  refine ⟨rfl, rfl, ?_⟩; simp [aget]

theorem nodeInv_of_same (s s' : Store) (h : NodeInv s) (h0 : s'.epoch = s.epoch)
    (h1 : s'.nodes = s.nodes) (h2 : s'.nextNode = s.nextNode) : NodeInv s' := by
  refine ⟨by rw [h0]; exact h.epoch0, by rw [h1, h2]; exact h.keys, by rw [h1]; exact h.chains⟩

theorem nodeLive_lt (s : Store) (h : NodeInv s) (id : Nat) (hl : nodeLive s id) : id < s.nextNode :=
  lt_of_aget_range _ _ _ _ h.keys hl

/-- `get_node` answers for exactly the live nodes -/
theorem getNodeAt_eq (s : Store) (h : NodeInv s) (id : Nat) :
    s.getNodeAt id s.epoch = if nodeLive s id then some (s.nodeLabelsOf id, s.nodePropsOf id) else none := by
  unfold Store.getNodeAt
  by_cases hl : nodeLive s id
  · rw [if_pos hl]
    unfold nodeLive at hl
    rw [hl]; simp [h.epoch0, vis_liveC]
  · rw [if_neg hl]
    unfold nodeLive at hl
    cases hg : aget s.nodes id with
    | none => rfl
    | some c =>
      rcases h.chains id c hg with rfl | rfl
      · exact absurd hg hl
      · simp [h.epoch0, vis_deadC]

theorem getNodeAt_isSome (s : Store) (h : NodeInv s) (id : Nat) :
    (s.getNodeAt id s.epoch).isSome = true ↔ nodeLive s id := by
  rw [getNodeAt_eq s h]; split <;> simp [*]

/-- `node_ids()` = the ids handed out so far, in order, minus the deleted ones -/
theorem nodeIds_eq (s : Store) (h : NodeInv s) :
    s.nodeIds = (List.range s.nextNode).filter (fun i => decide (nodeLive s i)) := by
  unfold Store.nodeIds
  rw [alist_filter_map s.nodes _ _ (by rw [h.keys]; exact List.nodup_range), h.keys,
    ← List.filterMap_eq_filter]
  apply filterMap_congr'
  intro i _
  by_cases hl : nodeLive s i
  · have hl' : aget s.nodes i = some liveC := hl
    simp [hl, hl', h.epoch0, vis_liveC, Option.guard]
  · have hl' : ¬ aget s.nodes i = some liveC := hl
    cases hg : aget s.nodes i with
    | none => simp [hl, Option.guard]
    | some c =>
      rcases h.chains i c hg with rfl | rfl
      · exact absurd hg hl'
      · simp [hl, h.epoch0, vis_deadC, Option.guard]

theorem mem_nodeIds (s : Store) (h : NodeInv s) (id : Nat) : id ∈ s.nodeIds ↔ nodeLive s id := by
  rw [nodeIds_eq s h]
  simp only [List.mem_filter, List.mem_range, decide_eq_true_eq]
  exact ⟨fun a => a.2, fun a => ⟨nodeLive_lt s h id a, a⟩⟩

theorem nodeIds_nodup (s : Store) (h : NodeInv s) : s.nodeIds.Nodup := by
  rw [nodeIds_eq s h]; exact List.nodup_range.filter _

/-- `create_node`, written out -/
theorem createNode_eq (s : Store) (ls : List Nat) :
    (s.createNode ls s.epoch systemTx).1 =
      { s with nextNode := s.nextNode + 1, nodes := aset s.nodes s.nextNode [⟨s.epoch, systemTx, none⟩],
               nodeLabels := aset s.nodeLabels s.nextNode (ls.foldl sinsert []),
               labelIdx := idxInsertAll s.labelIdx ls s.nextNode } := rfl

theorem nodeInv_createNode (s : Store) (ls : List Nat) (h : NodeInv s) :
    NodeInv (s.createNode ls s.epoch systemTx).1 := by
  rw [createNode_eq]
  refine ⟨h.epoch0, aset_keys_range_succ _ _ _ h.keys, ?_⟩
  intro id c
  show aget (aset s.nodes s.nextNode _) id = _ → _
  rw [aget_aset, h.epoch0]
  split
  · intro he; simp at he; exact Or.inl he.symm
  · exact h.chains id c

/-- `delete_node` (no detach), written out -/
theorem deleteNodeAt_eq (s : Store) (h : NodeInv s) (id : Nat) :
    (s.deleteNodeAt id s.epoch).1 =
      if nodeLive s id then
        { s with nodes := aset s.nodes id deadC, nodeLabels := aerase s.nodeLabels id,
                 labelIdx := idxEraseAll s.labelIdx (s.nodeLabelsOf id) id,
                 nprops := aerase s.nprops id, pidx := pxEraseAll s.pidx (s.nodePropsOf id) id }
      else s := by
  unfold Store.deleteNodeAt
  by_cases hl : nodeLive s id
  · rw [if_pos hl]
    unfold nodeLive at hl
    rw [hl]
    simp only [h.epoch0, vis_liveC, mark_liveC]
    rfl
  · rw [if_neg hl]
    unfold nodeLive at hl
    cases hg : aget s.nodes id with
    | none => rfl
    | some c =>
      rcases h.chains id c hg with rfl | rfl
      · exact absurd hg hl
      · simp [h.epoch0, vis_deadC]

theorem nodeInv_deleteNode (s : Store) (id : Nat) (h : NodeInv s) : NodeInv (s.deleteNodeAt id s.epoch).1 := by
  rw [deleteNodeAt_eq s h]
  split
  · rename_i hl
    refine ⟨h.epoch0, aset_keys_range_lt _ _ _ _ h.keys (nodeLive_lt s h id hl), ?_⟩
    intro id' c
    show aget (aset s.nodes id deadC) id' = _ → _
    rw [aget_aset]
    split
    · intro he; simp at he; exact Or.inr he.symm
    · exact h.chains id' c
  · exact h

/-! ### the edge table: point lookups, enumeration, listings -/

theorem nodup_of_map {α β : Type} (f : α → β) (l : List α) (h : (l.map f).Nodup) : l.Nodup :=
  List.Pairwise.of_map f (fun _ _ hne e => hne (e ▸ rfl)) h

/-- the record of edge `e` when it exists and is not deleted -/
def liveRec (s : Store) (e : Nat) : Option EdgeRec :=
  match aget s.edges e with
  | some (c, r) => if c = liveC then some r else none
  | none => none

theorem liveRec_eq_some (s : Store) (e : Nat) (r : EdgeRec) :
    liveRec s e = some r ↔ aget s.edges e = some (liveC, r) := by
  unfold liveRec
  cases hg : aget s.edges e with
  | none => simp
  | some cr =>
    obtain ⟨c, r'⟩ := cr
    by_cases hc : c = liveC
    · simp [hc]
    · simp [hc]

theorem liveRec_lt (s : Store) (h : EdgeInv s) (e : Nat) (r : EdgeRec) (hl : liveRec s e = some r) :
    e < s.nextEdge :=
  lt_of_aget_range _ _ _ _ h.keys ((liveRec_eq_some s e r).mp hl)

/-- `get_edge` answers for exactly the live edges -/
theorem getEdgeTo_eq (s : Store) (h : EdgeInv s) (e : Nat) :
    s.getEdgeTo e s.epoch systemTx = (liveRec s e).map (fun r => (r, (aget s.eprops e).getD [])) := by
  unfold Store.getEdgeTo liveRec
  cases hg : aget s.edges e with
  | none => rfl
  | some cr =>
    obtain ⟨c, r⟩ := cr
    rcases h.chains e c r hg with rfl | rfl
    · simp [h.epoch0, visTo_liveC]
    · simp [h.epoch0, visTo_deadC, liveC_ne_deadC.symm]

/-- `all_edges` / `edge_count`: the ids handed out so far, in order, minus the deleted ones -/
theorem edgeIds_eq (s : Store) (h : EdgeInv s) :
    s.edgeIds = (List.range s.nextEdge).filter (fun e => (liveRec s e).isSome) := by
  unfold Store.edgeIds
  rw [alist_filter_map s.edges _ _ (by rw [h.keys]; exact List.nodup_range), h.keys,
    ← List.filterMap_eq_filter]
  apply filterMap_congr'
  intro e _
  unfold liveRec
  cases hg : aget s.edges e with
  | none => simp [Option.guard, hg]
  | some cr =>
    obtain ⟨c, r⟩ := cr
    rcases h.chains e c r hg with rfl | rfl
    · simp [h.epoch0, vis_liveC, Option.guard, hg]
    · simp [h.epoch0, vis_deadC, liveC_ne_deadC.symm, Option.guard, hg]

theorem mem_edgeIds (s : Store) (h : EdgeInv s) (e : Nat) : e ∈ s.edgeIds ↔ (liveRec s e).isSome = true := by
  rw [edgeIds_eq s h]
  simp only [List.mem_filter, List.mem_range]
  constructor
  · exact fun a => a.2
  · intro a
    obtain ⟨r, hr⟩ := Option.isSome_iff_exists.mp a
    exact ⟨liveRec_lt s h e r hr, a⟩

theorem edgeIds_nodup (s : Store) (h : EdgeInv s) : s.edgeIds.Nodup := by
  rw [edgeIds_eq s h]; exact List.nodup_range.filter _

/-- `edges_from(n, Outgoing)`: exactly the live edges with source `n`, each once -/
theorem mem_outEdges (s : Store) (h : EdgeInv s) (n d e : Nat) :
    (d, e) ∈ s.outEdges n ↔ ∃ r, liveRec s e = some r ∧ r.src = n ∧ r.dst = d := by
  simp only [liveRec_eq_some]
  exact h.fwdOk.iff n d e

theorem outEdges_nodup (s : Store) (h : EdgeInv s) (n : Nat) : (s.outEdges n).Nodup := h.fwdOk.nodup n

/-- `edges_to(n)`: exactly the live edges with target `n`, each once — with the backward table and,
without it, by the scan the store falls back to -/
theorem mem_inEdges (s : Store) (h : EdgeInv s) (n o e : Nat) :
    (o, e) ∈ s.inEdges n ↔ ∃ r, liveRec s e = some r ∧ r.dst = n ∧ r.src = o := by
  simp only [liveRec_eq_some]
  unfold Store.inEdges
  by_cases hb : s.hasBwd = true
  · rw [if_pos hb]; exact (h.bwdOk hb).iff n o e
  · rw [if_neg hb]
    have hk : (s.edges.map (·.1)).Nodup := by rw [h.keys]; exact List.nodup_range
    simp only [List.mem_map, List.mem_filter, Bool.and_eq_true, beq_iff_eq, Prod.mk.injEq]
    constructor
    · rintro ⟨⟨k, c, r⟩, ⟨hm, hv, hd⟩, hs, rfl⟩
      have hg := (mem_iff_aget s.edges hk k (c, r)).mp hm
      have hc := (vis_iff_live c (h.chains k c r hg)).mp (by rw [← h.epoch0]; exact hv)
      subst hc
      exact ⟨r, hg, hd, hs⟩
    · rintro ⟨r, hg, hd, hs⟩
      refine ⟨(e, liveC, r), ⟨(mem_iff_aget s.edges hk e (liveC, r)).mpr hg, ?_, hd⟩, hs, rfl⟩
      rw [h.epoch0]; exact vis_liveC

theorem inEdges_nodup (s : Store) (h : EdgeInv s) (n : Nat) : (s.inEdges n).Nodup := by
  unfold Store.inEdges
  by_cases hb : s.hasBwd = true
  · rw [if_pos hb]; exact (h.bwdOk hb).nodup n
  · rw [if_neg hb]
    have hk : (s.edges.map (·.1)).Nodup := by rw [h.keys]; exact List.nodup_range
    apply nodup_of_map (·.2)
    rw [List.map_map]
    have : ((fun (x : Nat × Nat) => x.2) ∘ fun (kv : Nat × List Ver × EdgeRec) => (kv.2.2.src, kv.1)) = (·.1) := rfl
    rw [this]
    exact List.Nodup.sublist (List.Sublist.map _ List.filter_sublist) hk

/-! ### `delete_node_edges`: a fold of `delete_edge` -/

/-- the node side of the store (everything `delete_edge` never touches) is the same -/
structure SameNodeSide (s s' : Store) : Prop where
  epoch : s'.epoch = s.epoch
  nextNode : s'.nextNode = s.nextNode
  nodes : s'.nodes = s.nodes
  nodeLabels : s'.nodeLabels = s.nodeLabels
  labelIdx : s'.labelIdx = s.labelIdx
  nprops : s'.nprops = s.nprops
  pidx : s'.pidx = s.pidx
  hasBwd : s'.hasBwd = s.hasBwd
  nextEdge : s'.nextEdge = s.nextEdge

theorem SameNodeSide.rfl' (s : Store) : SameNodeSide s s := ⟨rfl, rfl, rfl, rfl, rfl, rfl, rfl, rfl, rfl⟩

theorem SameNodeSide.trans {a b c : Store} (h1 : SameNodeSide a b) (h2 : SameNodeSide b c) : SameNodeSide a c :=
  ⟨h2.epoch.trans h1.epoch, h2.nextNode.trans h1.nextNode, h2.nodes.trans h1.nodes,
   h2.nodeLabels.trans h1.nodeLabels, h2.labelIdx.trans h1.labelIdx, h2.nprops.trans h1.nprops,
   h2.pidx.trans h1.pidx, h2.hasBwd.trans h1.hasBwd, h2.nextEdge.trans h1.nextEdge⟩

theorem deleteEdgeAt_sameNodeSide (s : Store) (e ep : Nat) : SameNodeSide s (s.deleteEdgeAt e ep).1 := by
  unfold Store.deleteEdgeAt
  split
  · exact SameNodeSide.rfl' s
  · split
    · exact SameNodeSide.rfl' s
    · exact ⟨rfl, rfl, rfl, rfl, rfl, rfl, rfl, rfl, rfl⟩

theorem liveRec_deleteEdge (s : Store) (h : EdgeInv s) (e e' : Nat) :
    liveRec (s.deleteEdgeAt e s.epoch).1 e' = if e' = e then none else liveRec s e' := by
  cases hl : liveRec s e with
  | none =>
    rw [deleteEdgeAt_notLive s e h (fun r hr => by rw [(liveRec_eq_some s e r).mpr hr] at hl; simp at hl)]
    split
    · rename_i he; subst he; exact hl
    · rfl
  | some r =>
    rw [deleteEdgeAt_live s e r h.epoch0 ((liveRec_eq_some s e r).mp hl)]
    unfold liveRec
    simp only [aget_aset]
    by_cases he : e' = e
    · simp [he, liveC_ne_deadC.symm]
    · simp [he]

theorem eprops_deleteEdge (s : Store) (h : EdgeInv s) (e e' : Nat) :
    aget (s.deleteEdgeAt e s.epoch).1.eprops e' =
      if e' = e ∧ (liveRec s e).isSome = true then none else aget s.eprops e' := by
  cases hl : liveRec s e with
  | none =>
    rw [deleteEdgeAt_notLive s e h (fun r hr => by rw [(liveRec_eq_some s e r).mpr hr] at hl; simp at hl)]
    simp
  | some r =>
    rw [deleteEdgeAt_live s e r h.epoch0 ((liveRec_eq_some s e r).mp hl)]
    simp only [aget_aerase, Option.isSome_some, and_true]

/-- deleting the listed edges one after the other -/
def delEdges (s : Store) (es : List Nat) : Store := es.foldl (fun st e => (st.deleteEdgeAt e st.epoch).1) s

theorem deleteNodeEdges_eq (s : Store) (n : Nat) :
    s.deleteNodeEdges n = delEdges s ((s.outEdges n).map (·.2) ++ (s.inEdges n).map (·.2)) := rfl

theorem delEdges_ok (s : Store) (h : EdgeInv s) (es : List Nat) :
    EdgeInv (delEdges s es) ∧ SameNodeSide s (delEdges s es) ∧
    (∀ e', liveRec (delEdges s es) e' = if e' ∈ es then none else liveRec s e') ∧
    (∀ e', aget (delEdges s es).eprops e' =
      if e' ∈ es ∧ (liveRec s e').isSome = true then none else aget s.eprops e') := by
  induction es generalizing s with
  | nil => exact ⟨h, SameNodeSide.rfl' s, by simp [delEdges], by simp [delEdges]⟩
  | cons e rest ih =>
    unfold delEdges at ih ⊢
    simp only [List.foldl_cons]
    obtain ⟨a, b, c, d⟩ := ih _ (edgeInv_deleteEdge s e h)
    refine ⟨a, (deleteEdgeAt_sameNodeSide s e s.epoch).trans b, ?_, ?_⟩
    · intro e'
      rw [c e', liveRec_deleteEdge s h]
      by_cases he : e' = e
      · subst he; simp
      · simp [he]
    · intro e'
      rw [d e', liveRec_deleteEdge s h, eprops_deleteEdge s h]
      by_cases he : e' = e
      · subst he; simp
      · simp [he]

/-! ### the remaining store functions, written out -/

theorem alive_liveC : chainAlive liveC = true := by decide
theorem alive_deadC : chainAlive deadC = false := by decide

/-- `set_node_property`, written out: nothing happens unless the node is live (the repaired code) -/
theorem setNodeProp_eq (s : Store) (h : NodeInv s) (id k : Nat) (v : String) :
    s.setNodeProp id k v =
      if nodeLive s id then
        { s with nprops := aset s.nprops id (aset (s.nodePropsOf id) k v),
                 pidx := pxSet s.pidx k (aget (s.nodePropsOf id) k) v id }
      else s := by
  unfold Store.setNodeProp
  by_cases hl : nodeLive s id
  · rw [if_pos hl]
    have hl' : aget s.nodes id = some liveC := hl
    rw [hl']
    simp only [Option.map_some, Option.getD_some, alive_liveC, Bool.not_true, Bool.false_eq_true, if_false]
    rfl
  · rw [if_neg hl]
    have hl' : ¬ aget s.nodes id = some liveC := hl
    cases hg : aget s.nodes id with
    | none => simp
    | some c =>
      rcases h.chains id c hg with rfl | rfl
      · exact absurd hg hl'
      · simp [alive_deadC]

/-- `set_edge_property`, written out: nothing happens unless the edge is live (the repaired code) -/
theorem setEdgeProp_eq (s : Store) (h : EdgeInv s) (e k : Nat) (v : String) :
    s.setEdgeProp e k v =
      if (liveRec s e).isSome = true then
        { s with eprops := aset s.eprops e (aset ((aget s.eprops e).getD []) k v) }
      else s := by
  unfold Store.setEdgeProp liveRec
  cases hg : aget s.edges e with
  | none => simp
  | some cr =>
    obtain ⟨c, r⟩ := cr
    rcases h.chains e c r hg with rfl | rfl
    · simp [alive_liveC]
    · simp [alive_deadC, liveC_ne_deadC.symm]

theorem removeNodeProp_eq (s : Store) (id k : Nat) :
    (s.removeNodeProp id k).1 =
      { s with nprops := if (aget s.nprops id).isSome then aset s.nprops id (aerase (s.nodePropsOf id) k) else s.nprops,
               pidx := match aget (s.nodePropsOf id) k with
                 | some o => pxRemove s.pidx k o id
                 | none => s.pidx } := by
  unfold Store.removeNodeProp pxRemove
  cases h1 : aget s.pidx k <;> cases h2 : aget (s.nodePropsOf id) k <;> rfl

theorem addLabel_eq (s : Store) (h : NodeInv s) (id l : Nat) :
    (s.addLabel id l).1 =
      if nodeLive s id ∧ l ∉ s.nodeLabelsOf id then
        { s with nodeLabels := aset s.nodeLabels id (s.nodeLabelsOf id ++ [l]),
                 labelIdx := aset s.labelIdx l (sinsert ((aget s.labelIdx l).getD []) id) }
      else s := by
  unfold Store.addLabel
  by_cases hl : nodeLive s id
  · have hl' : aget s.nodes id = some liveC := hl
    rw [hl']
    simp only [h.epoch0, vis_liveC, Bool.not_true, Bool.false_eq_true, if_false, hl, true_and]
    by_cases hm : l ∈ s.nodeLabelsOf id
    · simp [hm]
    · simp [hm]
  · have hn : ¬ (nodeLive s id ∧ l ∉ s.nodeLabelsOf id) := fun a => hl a.1
    rw [if_neg hn]
    have hl' : ¬ aget s.nodes id = some liveC := hl
    cases hg : aget s.nodes id with
    | none => rfl
    | some c =>
      rcases h.chains id c hg with rfl | rfl
      · exact absurd hg hl'
      · simp [h.epoch0, vis_deadC]

theorem removeLabel_eq (s : Store) (h : NodeInv s) (id l : Nat) :
    (s.removeLabel id l).1 =
      if nodeLive s id ∧ l ∈ s.nodeLabelsOf id then
        { s with nodeLabels := aset s.nodeLabels id (serase (s.nodeLabelsOf id) l),
                 labelIdx := match aget s.labelIdx l with
                   | some set => aset s.labelIdx l (serase set id)
                   | none => s.labelIdx }
      else s := by
  unfold Store.removeLabel
  by_cases hl : nodeLive s id
  · have hl' : aget s.nodes id = some liveC := hl
    rw [hl']
    simp only [h.epoch0, vis_liveC, Bool.not_true, Bool.false_eq_true, if_false, hl, true_and]
    unfold Store.nodeLabelsOf
    cases hg : aget s.nodeLabels id with
    | none => simp
    | some ls =>
      simp only [Option.getD_some]
      by_cases hm : l ∈ ls
      · simp only [hm, not_true_eq_false, if_false, if_true]
        cases aget s.labelIdx l <;> rfl
      · simp [hm]
  · have hn : ¬ (nodeLive s id ∧ l ∈ s.nodeLabelsOf id) := fun a => hl a.1
    rw [if_neg hn]
    have hl' : ¬ aget s.nodes id = some liveC := hl
    cases hg : aget s.nodes id with
    | none => rfl
    | some c =>
      rcases h.chains id c hg with rfl | rfl
      · exact absurd hg hl'
      · simp [h.epoch0, vis_deadC]

theorem createIndex_eq (s : Store) (k : Nat) :
    s.createIndex k =
      if (aget s.pidx k).isSome then s
      else { s with pidx := aset s.pidx k (buildIdx (fun id => aget (s.nodePropsOf id) k) s.nodeIds []) } := rfl

theorem createEdge_eq (s : Store) (a b t : Nat) (h0 : s.epoch = 0) :
    (s.createEdge a b t s.epoch systemTx).1 =
      { s with nextEdge := s.nextEdge + 1, edges := aset s.edges s.nextEdge (liveC, ⟨a, b, t⟩),
               fwd := adjAdd s.fwd a b s.nextEdge,
               bwd := if s.hasBwd then adjAdd s.bwd b a s.nextEdge else s.bwd } := by
  unfold Store.createEdge; rw [h0]; rfl

/-! ### property table ⟷ property indexes -/

/-- the property map stored for `id` -/
def propsOf (np : AList (AList String)) (id : Nat) : AList String := (aget np id).getD []

theorem nodePropsOf_eq (s : Store) (id : Nat) : s.nodePropsOf id = propsOf s.nprops id := rfl

theorem propsOf_aset (np : AList (AList String)) (id : Nat) (ps : AList String) (id' : Nat) :
    propsOf (aset np id ps) id' = if id' = id then ps else propsOf np id' := by
  unfold propsOf; rw [aget_aset]; split <;> rfl

theorem propsOf_aerase (np : AList (AList String)) (id id' : Nat) :
    propsOf (aerase np id) id' = if id' = id then [] else propsOf np id' := by
  unfold propsOf; rw [aget_aerase]; split <;> rfl

/-- the table after `remove_node_property` -/
theorem propsOf_remove (np : AList (AList String)) (id k id' : Nat) :
    propsOf (if (aget np id).isSome then aset np id (aerase (propsOf np id) k) else np) id' =
      if id' = id then aerase (propsOf np id) k else propsOf np id' := by
  cases h : aget np id with
  | some ps => simp only [Option.isSome_some, if_true]; exact propsOf_aset ..
  | none =>
    simp only [Option.isSome_none, Bool.false_eq_true, if_false]
    split
    · rename_i e; subst e; unfold propsOf; rw [h]; rfl
    · rfl

theorem mem_of_aget {ν : Type} (l : AList ν) (k : Nat) (v : ν) (h : aget l k = some v) : (k, v) ∈ l := by
  induction l with
  | nil => simp [aget] at h
  | cons kv rest ih =>
    obtain ⟨k0, v0⟩ := kv
    simp only [aget] at h
    by_cases h0 : k0 = k
    · simp only [h0, if_true, Option.some.injEq] at h; subst h; subst h0; exact List.mem_cons_self ..
    · simp only [h0, if_false] at h; exact List.mem_cons_of_mem _ (ih h)

theorem idxBucket_aset (px : PIdx) (k : Nat) (vals : List (String × List Nat)) (k' : Nat) (v : String) :
    idxBucket (aset px k vals) k' v = if k' = k then bucket vals v else idxBucket px k' v := by
  unfold idxBucket; rw [aget_aset]
  by_cases h : k' = k
  · simp [h]
  · simp [h]

theorem idxBucket_aerase (px : PIdx) (k k' : Nat) (v : String) :
    idxBucket (aerase px k) k' v = if k' = k then [] else idxBucket px k' v := by
  unfold idxBucket; rw [aget_aerase]
  by_cases h : k' = k
  · simp [h]
  · simp [h]

/-- every index entry is backed by the property table -/
def PxSound (np : AList (AList String)) (px : PIdx) : Prop :=
  ∀ k v id, id ∈ idxBucket px k v → aget (propsOf np id) k = some v

/-- every stored value of an indexed key has its index entry -/
def PxExact (np : AList (AList String)) (px : PIdx) : Prop :=
  ∀ k v id, (aget px k).isSome = true → aget (propsOf np id) k = some v → id ∈ idxBucket px k v

theorem pxSound_set (np px) (id k : Nat) (v : String) (hw : PxWf px) (h : PxSound np px) :
    PxSound (aset np id (aset (propsOf np id) k v)) (pxSet px k (aget (propsOf np id) k) v id) := by
  intro k' v' x hx
  rw [mem_idxBucket_pxSet _ _ _ _ _ _ _ _ hw] at hx
  rw [propsOf_aset]
  rcases hx with ⟨_, rfl, rfl, rfl⟩ | ⟨hm, hn⟩
  · simp [aget_aset]
  · have := h k' v' x hm
    by_cases hxi : x = id
    · subst hxi
      simp only [if_true, aget_aset]
      by_cases hk : k' = k
      · subst hk; exact absurd ⟨rfl, rfl, this⟩ hn
      · simp [hk, this]
    · simp [hxi, this]

theorem pxExact_set (np px) (id k : Nat) (v : String) (hw : PxWf px) (h : PxExact np px) :
    PxExact (aset np id (aset (propsOf np id) k v)) (pxSet px k (aget (propsOf np id) k) v id) := by
  intro k' v' x hs hp
  rw [pxSet_isSome] at hs
  rw [propsOf_aset] at hp
  rw [mem_idxBucket_pxSet _ _ _ _ _ _ _ _ hw]
  by_cases hxi : x = id
  · subst hxi
    simp only [if_true, aget_aset] at hp
    by_cases hk : k' = k
    · subst hk
      simp only [if_true, Option.some.injEq] at hp
      exact Or.inl ⟨hs, rfl, hp.symm, rfl⟩
    · simp only [hk, if_false] at hp
      exact Or.inr ⟨h k' v' x hs hp, fun a => hk a.1⟩
  · simp only [hxi, if_false] at hp
    exact Or.inr ⟨h k' v' x hs hp, fun a => hxi a.2.1⟩

theorem pxWf_match_remove (px : PIdx) (k : Nat) (old : Option String) (id : Nat) (hw : PxWf px) :
    PxWf (match old with | some o => pxRemove px k o id | none => px) := by
  cases old with
  | none => exact hw
  | some o => exact pxWf_pxRemove px k o id hw

theorem pxSound_remove (np px) (id k : Nat) (hw : PxWf px) (h : PxSound np px) :
    PxSound (if (aget np id).isSome then aset np id (aerase (propsOf np id) k) else np)
      (match aget (propsOf np id) k with | some o => pxRemove px k o id | none => px) := by
  intro k' v' x hx
  rw [propsOf_remove]
  cases ho : aget (propsOf np id) k with
  | none =>
    rw [ho] at hx
    have := h k' v' x hx
    by_cases hxi : x = id
    · subst hxi
      simp only [if_true, aget_aerase]
      by_cases hk : k' = k
      · subst hk; rw [ho] at this; exact absurd this (by simp)
      · simp [hk, this]
    · simp [hxi, this]
  | some o =>
    rw [ho] at hx
    simp only at hx
    rw [idxBucket_pxRemove _ _ _ _ _ _ hw] at hx
    by_cases hkv : k' = k ∧ v' = o
    · obtain ⟨rfl, rfl⟩ := hkv
      simp only [and_self, if_true, mem_serase] at hx
      have := h k' v' x hx.2
      simp [hx.1, this]
    · simp only [hkv, if_false] at hx
      have := h k' v' x hx
      by_cases hxi : x = id
      · subst hxi
        simp only [if_true, aget_aerase]
        by_cases hk : k' = k
        · subst hk
          rw [ho] at this
          simp only [Option.some.injEq] at this
          exact absurd ⟨rfl, this.symm⟩ hkv
        · simp [hk, this]
      · simp [hxi, this]

theorem pxExact_remove (np px) (id k : Nat) (hw : PxWf px) (h : PxExact np px) :
    PxExact (if (aget np id).isSome then aset np id (aerase (propsOf np id) k) else np)
      (match aget (propsOf np id) k with | some o => pxRemove px k o id | none => px) := by
  intro k' v' x hs hp
  rw [propsOf_remove] at hp
  have hx : ¬ (x = id ∧ k' = k) := by
    rintro ⟨rfl, rfl⟩
    simp [aget_aerase] at hp
  have hp' : aget (propsOf np x) k' = some v' := by
    by_cases hxi : x = id
    · subst hxi
      simp only [if_true, aget_aerase] at hp
      have hk : ¬ k' = k := fun e => hx ⟨rfl, e⟩
      simpa [hk] using hp
    · simpa [hxi] using hp
  cases ho : aget (propsOf np id) k with
  | none =>
    rw [ho] at hs
    exact h k' v' x hs hp'
  | some o =>
    rw [ho] at hs
    simp only at hs ⊢
    rw [pxRemove_isSome] at hs
    rw [idxBucket_pxRemove _ _ _ _ _ _ hw]
    have hm := h k' v' x hs hp'
    by_cases hkv : k' = k ∧ v' = o
    · obtain ⟨rfl, rfl⟩ := hkv
      simp only [and_self, if_true, mem_serase]
      exact ⟨fun e => hx ⟨e, rfl⟩, hm⟩
    · simp [hkv, hm]

theorem pxSound_deleteNode (np px) (id : Nat) (hw : PxWf px) (h : PxSound np px) :
    PxSound (aerase np id) (pxEraseAll px (propsOf np id) id) := by
  intro k v x hx
  rw [mem_idxBucket_pxEraseAll _ _ _ _ _ _ hw] at hx
  rw [propsOf_aerase]
  have := h k v x hx.1
  by_cases hxi : x = id
  · subst hxi
    exact absurd ⟨rfl, mem_of_aget _ _ _ this⟩ hx.2
  · simp [hxi, this]

theorem pxExact_deleteNode (np px) (id : Nat) (hw : PxWf px) (h : PxExact np px) :
    PxExact (aerase np id) (pxEraseAll px (propsOf np id) id) := by
  intro k v x hs hp
  rw [pxEraseAll_isSome] at hs
  rw [propsOf_aerase] at hp
  rw [mem_idxBucket_pxEraseAll _ _ _ _ _ _ hw]
  by_cases hxi : x = id
  · subst hxi; simp [aget] at hp
  · simp only [hxi, if_false] at hp
    exact ⟨h k v x hs hp, fun a => hxi a.1⟩

theorem pxWf_createIndex (np : AList (AList String)) (px : PIdx) (k : Nat) (ids : List Nat) (hw : PxWf px) :
    PxWf (aset px k (buildIdx (fun id => aget (propsOf np id) k) ids [])) := by
  intro k' vals
  rw [aget_aset]
  split
  · intro he
    simp only [Option.some.injEq] at he
    subst he
    obtain ⟨a, b, _⟩ := buildIdx_ok (fun id => aget (propsOf np id) k) ids [] (by simp) (by simp [bucket_nil])
    exact ⟨a, b⟩
  · exact hw k' vals

theorem pxSound_createIndex (np px) (k : Nat) (ids : List Nat) (h : PxSound np px) :
    PxSound np (aset px k (buildIdx (fun id => aget (propsOf np id) k) ids [])) := by
  intro k' v x hx
  rw [idxBucket_aset] at hx
  by_cases hk : k' = k
  · subst hk
    simp only [if_true] at hx
    obtain ⟨_, _, c⟩ := buildIdx_ok (fun id => aget (propsOf np id) k') ids [] (by simp) (by simp [bucket_nil])
    rw [c v x] at hx
    simp only [bucket_nil, List.not_mem_nil, false_or] at hx
    exact hx.2
  · simp only [hk, if_false] at hx
    exact h k' v x hx

theorem pxExact_createIndex (np px) (k : Nat) (ids : List Nat) (h : PxExact np px)
    (hids : ∀ id v, aget (propsOf np id) k = some v → id ∈ ids) :
    PxExact np (aset px k (buildIdx (fun id => aget (propsOf np id) k) ids [])) := by
  intro k' v x hs hp
  rw [idxBucket_aset]
  by_cases hk : k' = k
  · subst hk
    simp only [if_true]
    obtain ⟨_, _, c⟩ := buildIdx_ok (fun id => aget (propsOf np id) k') ids [] (by simp) (by simp [bucket_nil])
    rw [c v x]
    exact Or.inr ⟨hids x v hp, hp⟩
  · rw [aget_aset] at hs
    simp only [hk, if_false] at hs ⊢
    exact h k' v x hs hp

theorem pxWf_dropIndex (px : PIdx) (k : Nat) (hw : PxWf px) : PxWf (aerase px k) := by
  intro k' vals
  rw [aget_aerase]
  split
  · intro he; exact absurd he (by simp)
  · exact hw k' vals

theorem pxSound_dropIndex (np px) (k : Nat) (h : PxSound np px) : PxSound np (aerase px k) := by
  intro k' v x hx
  rw [idxBucket_aerase] at hx
  split at hx
  · simp at hx
  · exact h k' v x hx

theorem pxExact_dropIndex (np px) (k : Nat) (h : PxExact np px) : PxExact np (aerase px k) := by
  intro k' v x hs hp
  rw [aget_aerase] at hs
  rw [idxBucket_aerase]
  split at hs
  · simp at hs
  · rename_i hk; simp only [hk, if_false]; exact h k' v x hs hp

/-! ### label index: no duplicates -/

def LblNodup (idx : AList (List Nat)) : Prop := ∀ l, ((aget idx l).getD []).Nodup

theorem lblNodup_insert (idx : AList (List Nat)) (l id : Nat) (h : LblNodup idx) :
    LblNodup (aset idx l (sinsert ((aget idx l).getD []) id)) := by
  intro l'
  rw [aget_aset]
  split
  · exact nodup_sinsert _ _ (h l)
  · exact h l'

theorem lblNodup_insertAll (idx : AList (List Nat)) (ls : List Nat) (id : Nat) (h : LblNodup idx) :
    LblNodup (idxInsertAll idx ls id) := by
  induction ls generalizing idx with
  | nil => exact h
  | cons l rest ih =>
    unfold idxInsertAll at ih ⊢
    simp only [List.foldl_cons]
    exact ih _ (lblNodup_insert idx l id h)

theorem lblNodup_erase (idx : AList (List Nat)) (l id : Nat) (h : LblNodup idx) :
    LblNodup (match aget idx l with | some set => aset idx l (serase set id) | none => idx) := by
  cases hg : aget idx l with
  | none => exact h
  | some set =>
    intro l'
    simp only [aget_aset]
    split
    · have := h l
      rw [hg] at this
      exact nodup_serase _ _ this
    · exact h l'

theorem lblNodup_eraseAll (idx : AList (List Nat)) (ls : List Nat) (id : Nat) (h : LblNodup idx) :
    LblNodup (idxEraseAll idx ls id) := by
  induction ls generalizing idx with
  | nil => exact h
  | cons l rest ih =>
    unfold idxEraseAll at ih ⊢
    simp only [List.foldl_cons]
    exact ih _ (lblNodup_erase idx l id h)

end Grafeo.Lpg.Paths
