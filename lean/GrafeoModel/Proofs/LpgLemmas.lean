import GrafeoModel.Model.Lpg

/-! Association-list and set lemmas, and the label-index mirror invariant of the LPG store. -/

namespace Grafeo.Lpg

theorem aget_aset {ν : Type} (l : AList ν) (k k' : Nat) (v : ν) :
    aget (aset l k v) k' = if k' = k then some v else aget l k' := by
  induction l with
  | nil =>
    simp only [aset, aget]
    by_cases h : k' = k
    · subst h; simp
    · have : ¬ k = k' := fun e => h e.symm
      simp [h, this]
  | cons kv rest ih =>
    obtain ⟨k0, v0⟩ := kv
    simp only [aset]
    by_cases h0 : k0 = k
    · subst h0
      simp only [if_true, aget]
      by_cases h : k' = k0
      · subst h; simp
      · have : ¬ k0 = k' := fun e => h e.symm
        simp [h, this]
    · simp only [h0, if_false, aget]
      by_cases h1 : k0 = k'
      · subst h1; simp [h0]
      · simp only [h1, if_false]; exact ih

theorem aget_aerase {ν : Type} (l : AList ν) (k k' : Nat) :
    aget (aerase l k) k' = if k' = k then none else aget l k' := by
  induction l with
  | nil => simp [aerase, aget]
  | cons kv rest ih =>
    obtain ⟨k0, v0⟩ := kv
    unfold aerase at ih ⊢
    simp only [List.filter_cons]
    by_cases h0 : k0 = k
    · subst h0
      simp only [bne_self_eq_false, Bool.false_eq_true, if_false, aget]
      rw [ih]
      by_cases h : k' = k0
      · simp [h]
      · have : ¬ k0 = k' := fun e => h e.symm
        simp [h, this]
    · have : (k0 != k) = true := by simp [h0]
      simp only [this, if_true, aget]
      by_cases h1 : k0 = k'
      · subst h1; simp [h0]
      · simp only [h1, if_false]; rw [ih]

theorem mem_sinsert (s : List Nat) (x y : Nat) : y ∈ sinsert s x ↔ y = x ∨ y ∈ s := by
  unfold sinsert
  split
  · rename_i h
    constructor
    · exact Or.inr
    · rintro (rfl | h') <;> assumption
  · simp [or_comm]

theorem mem_serase (s : List Nat) (x y : Nat) : y ∈ serase s x ↔ y ≠ x ∧ y ∈ s := by
  unfold serase; simp [List.mem_filter, and_comm]

/-- membership in the label index entry of `l` -/
def inIdx (idx : AList (List Nat)) (l id : Nat) : Prop := id ∈ (aget idx l).getD []

/-- the loop of `create_node_versioned` that inserts `id` under every label -/
def idxInsertAll (idx : AList (List Nat)) (labels : List Nat) (id : Nat) : AList (List Nat) :=
  labels.foldl (fun idx l => aset idx l (sinsert ((aget idx l).getD []) id)) idx

theorem inIdx_insertAll (idx : AList (List Nat)) (labels : List Nat) (id l x : Nat) :
    inIdx (idxInsertAll idx labels id) l x ↔ (x = id ∧ l ∈ labels) ∨ inIdx idx l x := by
  induction labels generalizing idx with
  | nil => simp [idxInsertAll]
  | cons l0 ls ih =>
    unfold idxInsertAll at ih ⊢
    simp only [List.foldl_cons]
    rw [ih]
    unfold inIdx
    rw [aget_aset]
    by_cases h : l = l0
    · subst h
      simp only [if_true, Option.getD_some, mem_sinsert, List.mem_cons, true_or, and_true]
      constructor
      · rintro (⟨a, b⟩ | (a | a))
        · exact Or.inl a
        · exact Or.inl a
        · exact Or.inr a
      · rintro (a | a)
        · exact Or.inr (Or.inl a)
        · exact Or.inr (Or.inr a)
    · simp only [h, if_false, List.mem_cons, false_or]

/-- the loop of `delete_node_at_epoch` that removes `id` from the index entry of each of its labels -/
def idxEraseAll (idx : AList (List Nat)) (labels : List Nat) (id : Nat) : AList (List Nat) :=
  labels.foldl (fun idx l => match aget idx l with
    | some set => aset idx l (serase set id)
    | none => idx) idx

theorem inIdx_eraseAll (idx : AList (List Nat)) (labels : List Nat) (id l x : Nat) :
    inIdx (idxEraseAll idx labels id) l x ↔ inIdx idx l x ∧ ¬ (x = id ∧ l ∈ labels) := by
  induction labels generalizing idx with
  | nil => simp [idxEraseAll]
  | cons l0 ls ih =>
    unfold idxEraseAll at ih ⊢
    simp only [List.foldl_cons]
    rw [ih]
    unfold inIdx
    cases hg : aget idx l0 with
    | none =>
      simp only
      by_cases h : l = l0
      · subst h; simp [hg]
      · simp [h]
    | some set =>
      simp only
      rw [aget_aset]
      by_cases h : l = l0
      · subst h
        simp only [if_true, Option.getD_some, mem_serase, hg, List.mem_cons, true_or, and_true]
        constructor
        · rintro ⟨⟨a, b⟩, c⟩; exact ⟨b, fun e => a e⟩
        · rintro ⟨a, b⟩; exact ⟨⟨b, a⟩, fun e => b e.1⟩
      · simp only [h, if_false, List.mem_cons, false_or]

/-- labels a node carries according to `node_labels` -/
def hasLabel (s : Store) (id l : Nat) : Prop := l ∈ s.nodeLabelsOf id

/-- **mirror invariant**: the label index lists a node under a label iff `node_labels` gives
the node that label. -/
def Mirror (s : Store) : Prop := ∀ l id, inIdx s.labelIdx l id ↔ hasLabel s id l

/-- nothing refers to node ids that have not been handed out yet -/
def Fresh (s : Store) : Prop :=
  ∀ id, s.nextNode ≤ id → aget s.nodeLabels id = none ∧ aget s.nodes id = none ∧ ∀ l, ¬ inIdx s.labelIdx l id

theorem mem_foldl_sinsert (labels : List Nat) (acc : List Nat) (l : Nat) :
    l ∈ labels.foldl sinsert acc ↔ l ∈ labels ∨ l ∈ acc := by
  induction labels generalizing acc with
  | nil => simp
  | cons x xs ih =>
    simp only [List.foldl_cons, ih, mem_sinsert, List.mem_cons]
    constructor
    · rintro (a | a | a)
      · exact Or.inl (Or.inr a)
      · exact Or.inl (Or.inl a)
      · exact Or.inr a
    · rintro ((a | a) | a)
      · exact Or.inr (Or.inl a)
      · exact Or.inl a
      · exact Or.inr (Or.inr a)

end Grafeo.Lpg
