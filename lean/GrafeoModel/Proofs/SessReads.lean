import GrafeoModel.Proofs.SessInv

/-!
State-level consequences of the invariant `Inv` (Proofs/SessInv.lean): what every session reads equals
the oracle's view (point lookups, scans, neighbour listings), the results of the calls agree, and the
snapshot-isolation corollaries (no dirty read, repeatable read, rollback, commit) for one step from an
arbitrary reachable state. `Props/C01SI.lean` states them for histories.
-/

set_option linter.unusedSimpArgs false
set_option linter.unusedVariables false

namespace Grafeo.SessSpec
open Grafeo.Lpg Grafeo.Sess Grafeo.TxMgr

/-- the table a session reads according to the oracle: snapshot plus own creations, or the committed table -/
def viewTab {π : Type} (com : AList π) (ot : Nat → Option (AList π × AList π)) (k : Nat) : AList π :=
  match ot k with
  | some (sn, wr) => sn ++ wr
  | none => com

theorem option_ext_some {α : Type} {a b : Option α} (h : ∀ x, a = some x ↔ b = some x) : a = b := by
  cases a with
  | none =>
    cases b with
    | none => rfl
    | some y => exact absurd ((h y).mpr rfl) (by simp)
  | some x => exact ((h x).mp rfl).symm

/-- inside the invariant, the oracle's view of a session is its snapshot followed by its own creations -/
theorem view_tabs {z : St} (h : Inv z) (k : Nat) :
    (z.view k).nodes = viewTab z.committed.nodes (otN (otxOf z)) k ∧
    (z.view k).edges = viewTab z.committed.edges (otE (otxOf z)) k := by
  rw [view_def]
  cases hot : otxOf z k with
  | none => simp [viewTab, otN, otE, hot]
  | some t =>
    have hs := h.sess k
    rw [hot] at hs
    cases hk : z.w.curOf k with
    | none => rw [hk] at hs; cases hs
    | some slot =>
      obtain ⟨tt, hg, _⟩ := h.mgr.active k slot hk
      have hotN : otN (otxOf z) k = some (t.snap.nodes, wsNodes t.writes) := by simp [otN, hot]
      have hotE : otE (otxOf z) k = some (t.snap.edges, wsEdges t.writes) := by simp [otE, hot]
      obtain ⟨hcN, hcE⟩ := foldl_apply_create t.writes t.snap (h.creat k t hot).1
      obtain ⟨_, hwN, _, _⟩ := h.nodes.open_ k slot tt _ _ hk hg hotN
      obtain ⟨_, hwE, _, _⟩ := h.edges.open_ k slot tt _ _ hk hg hotE
      rw [asetAll_fresh _ _ hwN (h.nodes.sn_wr_disjoint hk hg hotN)] at hcN
      rw [asetAll_fresh _ _ hwE (h.edges.sn_wr_disjoint hk hg hotE)] at hcE
      simp only [viewTab, hotN, hotE]
      exact ⟨hcN, hcE⟩

/-- generic: the view table has distinct keys and is what the session's context makes visible -/
theorem TabRel.view_nodup {π : Type} {m : Mgr} {cur : Nat → Option Nat} {ents : AList (Ver × π)} {com : AList π}
    {ot : Nat → Option (AList π × AList π)} (h : TabRel m cur ents com ot) (hm : MgrOK m cur)
    (hs : ∀ k, (ot k).isSome = (cur k).isSome) (k : Nat) : NodupKeys (viewTab com ot k) := by
  unfold viewTab
  cases hot : ot k with
  | none => exact h.nodupC
  | some p =>
    obtain ⟨sn, wr⟩ := p
    have := hs k
    rw [hot] at this
    cases hk : cur k with
    | none => rw [hk] at this; cases this
    | some slot =>
      obtain ⟨tt, hg, _⟩ := hm.active k slot hk
      obtain ⟨a, b, _, _⟩ := h.open_ k slot tt sn wr hk hg hot
      refine nodupKeys_append a b ?_
      intro id h1 h2
      exact h.sn_wr_disjoint hk hg hot id h2 h1

/-- the context a session reads with -/
def ctxOf (m : Mgr) (cur : Nat → Option Nat) (k : Nat) : Nat × Nat :=
  match cur k with
  | some slot => ((match m.get slot with | some t => t.start | none => m.epoch), txIdOf slot)
  | none => (m.epoch, systemTx)

theorem ctx_eq (w : World) (k : Nat) : w.ctx k = ctxOf w.mgr w.curOf k := by
  unfold World.ctx ctxOf
  cases w.curOf k <;> rfl

theorem TabRel.read {π : Type} {m : Mgr} {cur : Nat → Option Nat} {ents : AList (Ver × π)} {com : AList π}
    {ot : Nat → Option (AList π × AList π)} (h : TabRel m cur ents com ot) (hm : MgrOK m cur)
    (hs : ∀ k, (ot k).isSome = (cur k).isSome) (hE : m.epoch < pendingEpoch) (k id : Nat) (p : π) :
    (∃ v, (id, v, p) ∈ ents ∧ v.visibleTo (ctxOf m cur k).1 (ctxOf m cur k).2 = true) ↔ (id, p) ∈ viewTab com ot k := by
  unfold viewTab ctxOf
  have hsk := hs k
  cases hk : cur k with
  | none =>
    rw [hk] at hsk
    cases hot : ot k with
    | some p => rw [hot] at hsk; cases hsk
    | none => exact h.read_auto hE id p
  | some slot =>
    rw [hk] at hsk
    cases hot : ot k with
    | none => rw [hot] at hsk; cases hsk
    | some q =>
      obtain ⟨sn, wr⟩ := q
      obtain ⟨tt, hg, _⟩ := hm.active k slot hk
      simp only [hg]
      exact h.read_tx hm hE hk hg hot id p


theorem InvC.sessN {w : World} {com : SGraph} {otx : Nat → Option STx} (h : InvC w com otx) :
    ∀ k, (otN otx k).isSome = (w.curOf k).isSome := by
  intro k; rw [← h.sess k]; simp [otN]

theorem InvC.sessE {w : World} {com : SGraph} {otx : Nat → Option STx} (h : InvC w com otx) :
    ∀ k, (otE otx k).isSome = (w.curOf k).isSome := by
  intro k; rw [← h.sess k]; simp [otE]

/-! ## what a session reads, state by state -/

/-- (1) point lookup of a node -/
theorem getNode_eq_view {z : St} (h : Inv z) (hE : z.w.mgr.epoch < pendingEpoch) (k id : Nat) :
    z.w.getNode k id = aget (z.view k).nodes id := by
  apply option_ext_some
  intro X
  have hv := (view_tabs h k).1
  have hn : NodupKeys (z.view k).nodes := by rw [hv]; exact h.nodes.view_nodup h.mgr h.sessN k
  rw [aget_some_iff hn, hv, ← h.nodes.read h.mgr h.sessN hE k id X, ← ctx_eq]
  show z.w.store.getNodeTo id (z.w.ctx k).1 (z.w.ctx k).2 = some X ↔ _
  exact getNodeTo_iff h.store id _ _ X

/-- (3a) point lookup of an edge -/
theorem getEdge_eq_view {z : St} (h : Inv z) (hE : z.w.mgr.epoch < pendingEpoch) (k id : Nat) :
    z.w.getEdge k id = (aget (z.view k).edges id).map (fun r => (r, ([] : AList String))) := by
  apply option_ext_some
  intro X
  have hv := (view_tabs h k).2
  have hn : NodupKeys (z.view k).edges := by rw [hv]; exact h.edges.view_nodup h.mgr h.sessE k
  have h1 : z.w.getEdge k id = some X ↔ X.2 = [] ∧ (id, X.1) ∈ (z.view k).edges := by
    rw [hv, ← h.edges.read h.mgr h.sessE hE k id X.1, ← ctx_eq]
    show z.w.store.getEdgeTo id (z.w.ctx k).1 (z.w.ctx k).2 = some X ↔ _
    exact getEdgeTo_iff h.store id _ _ X
  rw [h1, ← aget_some_iff hn]
  obtain ⟨r, ps⟩ := X
  constructor
  · rintro ⟨a, b⟩
    simp only at a b
    rw [b, a]; rfl
  · intro hm
    cases hg : aget (z.view k).edges id with
    | none => rw [hg] at hm; cases hm
    | some r' =>
      rw [hg] at hm
      simp only [Option.map_some, Option.some.injEq, Prod.mk.injEq] at hm
      exact ⟨hm.2.symm, by rw [hm.1]⟩

theorem view_nodes_nodup {z : St} (h : Inv z) (k : Nat) : NodupKeys (z.view k).nodes := by
  rw [(view_tabs h k).1]; exact h.nodes.view_nodup h.mgr h.sessN k

theorem view_edges_nodup {z : St} (h : Inv z) (k : Nat) : NodupKeys (z.view k).edges := by
  rw [(view_tabs h k).2]; exact h.edges.view_nodup h.mgr h.sessE k

theorem getNodeTo_isSome_mem {s : Store} {id ep tx : Nat} (h : (s.getNodeTo id ep tx).isSome = true) : id ∈ s.allNodeIds := by
  unfold Store.getNodeTo at h
  cases hc : aget s.nodes id with
  | none => rw [hc] at h; cases h
  | some c => exact mem_keys_of_mem (mem_of_aget hc)

theorem isSome_iff_mem_keys {ν : Type} (l : AList ν) (k : Nat) : (aget l k).isSome = true ↔ k ∈ keys l := by
  cases hc : aget l k with
  | none => simp [(aget_none_iff l k).mp hc]
  | some v => simp [mem_keys_of_mem (mem_of_aget hc)]

theorem mem_scanAll {z : St} (h : Inv z) (hE : z.w.mgr.epoch < pendingEpoch) (k id : Nat) :
    id ∈ z.w.scanAll k ↔ id ∈ (z.view k).ids := by
  have hg := getNode_eq_view h hE k id
  show id ∈ z.w.store.allNodeIds.filter (fun id => (z.w.store.getNodeTo id (z.w.ctx k).1 (z.w.ctx k).2).isSome) ↔ id ∈ keys (z.view k).nodes
  rw [List.mem_filter, ← isSome_iff_mem_keys, ← hg]
  constructor
  · rintro ⟨_, b⟩; exact b
  · intro b; exact ⟨getNodeTo_isSome_mem b, b⟩

/-- (2a) the unlabelled scan -/
theorem scanAll_perm_view {z : St} (h : Inv z) (hE : z.w.mgr.epoch < pendingEpoch) (k : Nat) :
    (z.w.scanAll k).Perm (z.view k).ids ∧ (z.w.scanAll k).Nodup := by
  have hn1 : (z.w.scanAll k).Nodup :=
    List.Nodup.sublist List.filter_sublist h.store.nodesNodup
  have hn2 : ((z.view k).ids).Nodup := view_nodes_nodup h k
  exact ⟨(List.perm_ext_iff_of_nodup hn1 hn2).mpr (fun id => mem_scanAll h hE k id), hn1⟩

theorem mem_idsWithLabel (v : SGraph) (l id : Nat) :
    id ∈ v.idsWithLabel l ↔ ∃ X, (id, X) ∈ v.nodes ∧ l ∈ X.1 := by
  unfold SGraph.idsWithLabel
  simp only [List.mem_map, List.mem_filter, List.contains_iff_mem]
  constructor
  · rintro ⟨⟨i, X⟩, ⟨hm, hl⟩, rfl⟩; exact ⟨X, hm, hl⟩
  · rintro ⟨X, hm, hl⟩; exact ⟨(id, X), ⟨hm, hl⟩, rfl⟩

theorem getNodeTo_labels {s : Store} {id ep tx : Nat} {X : List Nat × AList String} (h : s.getNodeTo id ep tx = some X) :
    X.1 = s.nodeLabelsOf id := by
  unfold Store.getNodeTo at h
  cases hc : aget s.nodes id with
  | none => rw [hc] at h; cases h
  | some c =>
    rw [hc] at h
    simp only at h
    split at h
    · injection h with h; rw [← h]
    · cases h

theorem mem_scanLabel {z : St} (h : Inv z) (hE : z.w.mgr.epoch < pendingEpoch) (k l id : Nat) :
    id ∈ z.w.scanLabel k l ↔ id ∈ (z.view k).idsWithLabel l := by
  have hg := getNode_eq_view h hE k id
  have hg' : z.w.store.getNodeTo id (z.w.ctx k).1 (z.w.ctx k).2 = aget (z.view k).nodes id := hg
  show id ∈ (z.w.store.nodesByLabel l).filter (fun id => (z.w.store.getNodeTo id (z.w.ctx k).1 (z.w.ctx k).2).isSome) ↔ _
  rw [List.mem_filter, mem_idsWithLabel]
  have hmir : id ∈ z.w.store.nodesByLabel l ↔ l ∈ z.w.store.nodeLabelsOf id := h.store.mirror l id
  constructor
  · rintro ⟨a, b⟩
    cases hx : z.w.store.getNodeTo id (z.w.ctx k).1 (z.w.ctx k).2 with
    | none => rw [hx] at b; cases b
    | some X =>
      refine ⟨X, mem_of_aget (by rw [← hg', hx]), ?_⟩
      rw [getNodeTo_labels hx]; exact hmir.mp a
  · rintro ⟨X, hm, hl⟩
    have hx : z.w.store.getNodeTo id (z.w.ctx k).1 (z.w.ctx k).2 = some X := by
      rw [hg']; exact aget_of_mem (view_nodes_nodup h k) hm
    refine ⟨hmir.mpr ?_, by rw [hx]; rfl⟩
    rw [← getNodeTo_labels hx]; exact hl

/-- (2b) the label scan -/
theorem scanLabel_perm_view {z : St} (h : Inv z) (hE : z.w.mgr.epoch < pendingEpoch) (k l : Nat) :
    (z.w.scanLabel k l).Perm ((z.view k).idsWithLabel l) ∧ (z.w.scanLabel k l).Nodup := by
  have hn1 : (z.w.scanLabel k l).Nodup :=
    List.Nodup.sublist List.filter_sublist (h.store.idxNodup l)
  have hn2 : ((z.view k).idsWithLabel l).Nodup :=
    List.Nodup.sublist (List.Sublist.map _ List.filter_sublist) (view_nodes_nodup h k)
  exact ⟨(List.perm_ext_iff_of_nodup hn1 hn2).mpr (fun id => mem_scanLabel h hE k l id), hn1⟩

theorem mem_viewOut (v : SGraph) (n d e : Nat) :
    (d, e) ∈ v.out n ↔ ∃ ty, (e, (⟨n, d, ty⟩ : EdgeRec)) ∈ v.edges ∧ (aget v.nodes d).isSome = true := by
  unfold SGraph.out
  simp only [List.mem_map, List.mem_filter, beq_iff_eq, Prod.mk.injEq]
  constructor
  · rintro ⟨⟨i, r⟩, ⟨⟨hm, hs⟩, hd⟩, he1, he2⟩
    simp only at hs hd he1 he2
    subst he1; subst he2; subst hs
    exact ⟨r.ty, hm, hd⟩
  · rintro ⟨ty, hm, hd⟩
    exact ⟨(e, ⟨n, d, ty⟩), ⟨⟨hm, rfl⟩, hd⟩, rfl, rfl⟩

theorem mem_outgoing {z : St} (h : Inv z) (hE : z.w.mgr.epoch < pendingEpoch) (k n d e : Nat) :
    (d, e) ∈ z.w.outgoing k n ↔ (d, e) ∈ (z.view k).out n := by
  have hgN : z.w.store.getNodeTo d (z.w.ctx k).1 (z.w.ctx k).2 = aget (z.view k).nodes d := getNode_eq_view h hE k d
  have hgE : z.w.store.getEdgeTo e (z.w.ctx k).1 (z.w.ctx k).2 =
      (aget (z.view k).edges e).map (fun r => (r, ([] : AList String))) := getEdge_eq_view h hE k e
  have hnE := view_edges_nodup h k
  show (d, e) ∈ (z.w.store.outEdges n).filter (fun p =>
      (z.w.store.getEdgeTo p.2 (z.w.ctx k).1 (z.w.ctx k).2).isSome && (z.w.store.getNodeTo p.1 (z.w.ctx k).1 (z.w.ctx k).2).isSome) ↔ _
  rw [List.mem_filter, mem_viewOut, h.store.fwdIff]
  simp only [Bool.and_eq_true]
  rw [hgN, hgE]
  constructor
  · rintro ⟨⟨c, ty, hm⟩, hvis, hd⟩
    refine ⟨ty, ?_, hd⟩
    cases hx : aget (z.view k).edges e with
    | none => rw [hx] at hvis; cases hvis
    | some r =>
      -- the visible record is the stored one
      have h1 : z.w.store.getEdgeTo e (z.w.ctx k).1 (z.w.ctx k).2 = some (r, []) := by rw [hgE, hx]; rfl
      obtain ⟨_, v, hmem, _⟩ := (getEdgeTo_iff h.store e _ _ (r, [])).mp h1
      obtain ⟨kv, hkv, he⟩ := List.mem_map.mp hmem
      obtain ⟨k0, c0, r0⟩ := kv
      simp only [Prod.mk.injEq] at he
      obtain ⟨rfl, _, rfl⟩ := he
      have := nodupKeys_unique h.store.edgesNodup hkv hm
      injection this with _ hr
      rw [← hr]
      exact mem_of_aget hx
  · rintro ⟨ty, hm, hd⟩
    have hx := aget_of_mem hnE hm
    have h1 : z.w.store.getEdgeTo e (z.w.ctx k).1 (z.w.ctx k).2 = some (⟨n, d, ty⟩, []) := by rw [hgE, hx]; rfl
    obtain ⟨_, v, hmem, _⟩ := (getEdgeTo_iff h.store e _ _ (⟨n, d, ty⟩, [])).mp h1
    obtain ⟨kv, hkv, he⟩ := List.mem_map.mp hmem
    obtain ⟨k0, c0, r0⟩ := kv
    simp only [Prod.mk.injEq] at he
    obtain ⟨rfl, _, rfl⟩ := he
    refine ⟨⟨c0, ty, hkv⟩, ?_, hd⟩
    rw [hx]; rfl

theorem nodup_of_nodup_map {α β : Type} (f : α → β) {l : List α} (h : (l.map f).Nodup) : l.Nodup := by
  induction l with
  | nil => exact List.nodup_nil
  | cons a rest ih =>
    simp only [List.map_cons, List.nodup_cons] at h ⊢
    exact ⟨fun hm => h.1 (List.mem_map_of_mem hm), ih h.2⟩

theorem viewOut_nodup (v : SGraph) (n : Nat) (hn : NodupKeys v.edges) : (v.out n).Nodup := by
  unfold SGraph.out
  apply nodup_of_nodup_map (·.2)
  rw [List.map_map]
  have : ((fun x : Nat × Nat => x.2) ∘ fun kv : Nat × EdgeRec => (kv.2.dst, kv.1)) = (·.1) := rfl
  rw [this]
  exact List.Nodup.sublist (List.Sublist.map _ (List.Sublist.trans List.filter_sublist List.filter_sublist)) hn

/-- (3b) the neighbour listing -/
theorem outgoing_perm_view {z : St} (h : Inv z) (hE : z.w.mgr.epoch < pendingEpoch) (k n : Nat) :
    (z.w.outgoing k n).Perm ((z.view k).out n) ∧ (z.w.outgoing k n).Nodup := by
  have hn1 : (z.w.outgoing k n).Nodup :=
    List.Nodup.sublist List.filter_sublist (nodup_of_nodup_map (·.2) (h.store.fwdNodup n))
  have hn2 := viewOut_nodup (z.view k) n (view_edges_nodup h k)
  exact ⟨(List.perm_ext_iff_of_nodup hn1 hn2).mpr (fun p => mem_outgoing h hE k n p.1 p.2), hn1⟩

/-! ## results of the calls -/

/-- `begin`, `commit`, `rollback` answer what the oracle answers; in particular the manager never
refuses a commit of the session layer and first-committer-wins never fires (nothing is modified) -/
theorem res_agree {z : St} (h : Inv z) (op : Op) : (z.res op).1 = (z.res op).2 := by
  cases op with
  | begin k iso =>
    cases hk : z.w.curOf k with
    | some s =>
      obtain ⟨t, ht⟩ := h.otx_some hk
      simp only [St.res, begin_some iso hk, ht, Option.isSome_some, if_true]
    | none =>
      have ht := h.otx_none hk
      simp only [St.res, begin_none iso hk, ht, Option.isSome_none, Bool.false_eq_true, if_false]
  | commit k =>
    cases hk : z.w.curOf k with
    | none =>
      have ht := h.otx_none hk
      simp only [St.res, commit_none hk, ht, Option.isNone_none, if_true]
    | some slot =>
      obtain ⟨ot, hot⟩ := h.otx_some hk
      obtain ⟨t, hg, ha, hw, hr, _⟩ := h.mgr.active k slot hk
      have hmod : ot.modified = [] := (h.creat k ot hot).2
      simp [St.res, commit_some hk hg ha hw hr, hot, hmod]
  | rollback k =>
    cases hk : z.w.curOf k with
    | none =>
      have ht := h.otx_none hk
      simp [St.res, rollback_none hk, ht]
    | some slot =>
      obtain ⟨ot, hot⟩ := h.otx_some hk
      obtain ⟨t, hg, ha, _⟩ := h.mgr.active k slot hk
      simp [St.res, rollback_some hk hg ha, hot]
  | cn k ls => rfl
  | ce k a b ty => rfl
  | qce k a ty l => rfl
  | dbcn ls => rfl
  | qmerge k l => rfl

theorem qMerge_matched (w : World) (k l : Nat) : (w.qMerge k l).2.isNone = !(w.scanLabel k l).isEmpty := by
  have hc : w.scanLabel k l =
      (w.store.nodesByLabel l).filter (fun id => (w.store.getNodeTo id (w.ctx k).1 (w.ctx k).2).isSome) := rfl
  cases hk : w.curOf k with
  | some slot =>
    rw [qMerge_tx l hk, hc]
    split <;> simp_all
  | none =>
    rw [qMerge_auto l hk, hc]
    split <;> simp_all

/-- the `MATCH` of `qce` finds its anchor, and `MERGE` matches, exactly when the oracle says so -/
theorem matched_agree {z : St} (h : Inv z) (hE : z.w.mgr.epoch < pendingEpoch) (op : Op) :
    (z.matched op).1 = (z.matched op).2 := by
  cases op with
  | qce k a ty l =>
    simp only [St.matched]
    rw [Bool.eq_iff_iff, List.contains_iff_mem, mem_scanAll h hE k a, isSome_iff_mem_keys]
    rfl
  | qmerge k l =>
    simp only [St.matched, qMerge_matched]
    rw [Bool.eq_iff_iff]
    simp only [Bool.not_eq_true', List.isEmpty_eq_false_iff_exists_mem, List.any_eq_true, List.contains_iff_mem]
    constructor
    · rintro ⟨id, hid⟩
      obtain ⟨X, hm, hl⟩ := (mem_idsWithLabel _ l id).mp ((mem_scanLabel h hE k l id).mp hid)
      exact ⟨(id, X), hm, hl⟩
    · rintro ⟨⟨id, X⟩, hm, hl⟩
      exact ⟨id, (mem_scanLabel h hE k l id).mpr ((mem_idsWithLabel _ l id).mpr ⟨X, hm, hl⟩)⟩
  | begin k iso => rfl
  | commit k => rfl
  | rollback k => rfl
  | cn k ls => rfl
  | ce k a b ty => rfl
  | dbcn ls => rfl

/-! ## corollaries in the property's own words -/

/-- node `id` is work of the transaction that is open in session `k`: its version is owned by that
transaction -/
def OwnedNode (z : St) (k id : Nat) : Prop :=
  ∃ slot v, z.w.curOf k = some slot ∧ aget z.w.store.nodes id = some [v] ∧ v.owner = txIdOf slot

def OwnedEdge (z : St) (k e : Nat) : Prop :=
  ∃ slot v r, z.w.curOf k = some slot ∧ aget z.w.store.edges e = some ([v], r) ∧ v.owner = txIdOf slot

theorem OwnedNode.ent {z : St} {k id : Nat} (ho : OwnedNode z k id) :
    ∃ slot v p, z.w.curOf k = some slot ∧ (id, v, p) ∈ nodeEnts z.w.store ∧ v.owner = txIdOf slot := by
  obtain ⟨slot, v, hk, hg, hv⟩ := ho
  exact ⟨slot, v, _, hk, List.mem_map.mpr ⟨(id, [v]), mem_of_aget hg, rfl⟩, hv⟩

theorem OwnedEdge.ent {z : St} {k e : Nat} (ho : OwnedEdge z k e) :
    ∃ slot v p, z.w.curOf k = some slot ∧ (e, v, p) ∈ edgeEnts z.w.store ∧ v.owner = txIdOf slot := by
  obtain ⟨slot, v, r, hk, hg, hv⟩ := ho
  exact ⟨slot, v, r, hk, List.mem_map.mpr ⟨(e, ([v], r)), mem_of_aget hg, rfl⟩, hv⟩

/-- what the store stamps as owned by the open transaction of `k` is exactly what the oracle lists as
that transaction's creations -/
theorem ownedNode_iff_written {z : St} (h : Inv z) (k id : Nat) :
    OwnedNode z k id ↔ ∃ t ls, otxOf z k = some t ∧ W.node id ls ∈ t.writes := by
  constructor
  · intro ho
    obtain ⟨slot, v, p, hk, hmem, hv⟩ := ho.ent
    obtain ⟨t, ht⟩ := h.otx_some hk
    obtain ⟨tt, hg, _⟩ := h.mgr.active k slot hk
    have hotN : otN (otxOf z) k = some (t.snap.nodes, wsNodes t.writes) := by simp [otN, otxOf, ht]
    obtain ⟨_, _, _, hwr⟩ := h.nodes.open_ k slot tt _ _ hk hg hotN
    have := (hwr id p).mpr ⟨v, hmem, hv⟩
    unfold wsNodes at this
    obtain ⟨w, hw, he⟩ := List.mem_filterMap.mp this
    cases w with
    | node id' ls =>
      simp only [Option.some.injEq, Prod.mk.injEq] at he
      obtain ⟨rfl, _⟩ := he
      exact ⟨t, ls, ht, hw⟩
    | edge _ _ => cases he
    | setProp _ _ _ => cases he
    | addLabel _ _ => cases he
    | remLabel _ _ => cases he
    | delNode _ _ => cases he
    | delEdge _ => cases he
  · rintro ⟨t, ls, ht, hw⟩
    have hs := h.sess k
    rw [ht] at hs
    cases hk : z.w.curOf k with
    | none => rw [hk] at hs; cases hs
    | some slot =>
      obtain ⟨tt, hg, _⟩ := h.mgr.active k slot hk
      have hotN : otN (otxOf z) k = some (t.snap.nodes, wsNodes t.writes) := by simp [otN, ht]
      obtain ⟨_, _, _, hwr⟩ := h.nodes.open_ k slot tt _ _ hk hg hotN
      have hin : (id, (ls.foldl sinsert [], ([] : AList String))) ∈ wsNodes t.writes :=
        List.mem_filterMap.mpr ⟨_, hw, rfl⟩
      obtain ⟨v, hmem, hv⟩ := (hwr id _).mp hin
      obtain ⟨kv, hkv, he⟩ := List.mem_map.mp hmem
      obtain ⟨k0, c⟩ := kv
      simp only [Prod.mk.injEq] at he
      obtain ⟨rfl, rfl, _⟩ := he
      have hc := h.store.nodesSing _ hkv
      simp only at hc
      refine ⟨slot, hd c, hk, ?_, hv⟩
      rw [aget_of_mem h.store.nodesNodup hkv, ← hc]

/-- generic: an entity owned by the open transaction of session `k` is in no other session's view -/
theorem TabRel.foreign_not_in_view {π : Type} {m : Mgr} {cur : Nat → Option Nat} {ents : AList (Ver × π)} {com : AList π}
    {ot : Nat → Option (AList π × AList π)} (h : TabRel m cur ents com ot) (hm : MgrOK m cur)
    (hs : ∀ k, (ot k).isSome = (cur k).isSome) {k slot id : Nat} {v : Ver} {p : π}
    (hk : cur k = some slot) (hmem : (id, v, p) ∈ ents) (ho : v.owner = txIdOf slot) {k' : Nat} (hne : k' ≠ k) :
    id ∉ keys (viewTab com ot k') := by
  intro hin
  obtain ⟨p', hp'⟩ := mem_keys.mp hin
  unfold viewTab at hp'
  have hsk := hs k'
  cases hot : ot k' with
  | none =>
    rw [hot] at hp'
    obtain ⟨v', hm', hc'⟩ := (h.comIff id p').mp hp'
    have := nodupKeys_unique h.nodupE hm' hmem
    injection this with hv _
    subst hv
    exact hc'.2 k slot hk ho
  | some q =>
    obtain ⟨sn, wr⟩ := q
    rw [hot] at hp' hsk
    cases hk' : cur k' with
    | none => rw [hk'] at hsk; cases hsk
    | some slot' =>
      obtain ⟨tt, hg, _⟩ := hm.active k' slot' hk'
      obtain ⟨_, _, hsn, hwr⟩ := h.open_ k' slot' tt sn wr hk' hg hot
      rcases List.mem_append.mp hp' with x | x
      · obtain ⟨v', hm', hc', _⟩ := (hsn id p').mp x
        have := nodupKeys_unique h.nodupE hm' hmem
        injection this with hv _
        subst hv
        exact hc'.2 k slot hk ho
      · obtain ⟨v', hm', ho'⟩ := (hwr id p').mp x
        have := nodupKeys_unique h.nodupE hm' hmem
        injection this with hv _
        subst hv
        have : slot' = slot := txIdOf_inj (ho'.symm.trans ho)
        subst this
        exact hne (hm.inj k' k slot' hk' hk)

theorem owned_node_not_in_view {z : St} (h : Inv z) {k id k' : Nat} (ho : OwnedNode z k id) (hne : k' ≠ k) :
    aget (z.view k').nodes id = none := by
  obtain ⟨slot, v, p, hk, hmem, hv⟩ := ho.ent
  rw [aget_none_iff, (view_tabs h k').1]
  exact h.nodes.foreign_not_in_view h.mgr h.sessN hk hmem hv hne

theorem owned_edge_not_in_view {z : St} (h : Inv z) {k e k' : Nat} (ho : OwnedEdge z k e) (hne : k' ≠ k) :
    aget (z.view k').edges e = none := by
  obtain ⟨slot, v, p, hk, hmem, hv⟩ := ho.ent
  rw [aget_none_iff, (view_tabs h k').2]
  exact h.edges.foreign_not_in_view h.mgr h.sessE hk hmem hv hne

/-- what "node `id` is not in any result of session `k`" means -/
def NodeHidden (z : St) (k id : Nat) : Prop :=
  z.w.getNode k id = none ∧ id ∉ z.w.scanAll k ∧ (∀ l, id ∉ z.w.scanLabel k l) ∧ (∀ n e, (id, e) ∉ z.w.outgoing k n)

def EdgeHidden (z : St) (k e : Nat) : Prop :=
  z.w.getEdge k e = none ∧ ∀ n d, (d, e) ∉ z.w.outgoing k n

theorem nodeHidden_of_view {z : St} (h : Inv z) (hE : z.w.mgr.epoch < pendingEpoch) {k id : Nat}
    (hv : aget (z.view k).nodes id = none) : NodeHidden z k id := by
  have hk := (aget_none_iff _ _).mp hv
  refine ⟨by rw [getNode_eq_view h hE]; exact hv, ?_, ?_, ?_⟩
  · rw [mem_scanAll h hE]; exact hk
  · intro l hm
    obtain ⟨X, hx, _⟩ := (mem_idsWithLabel _ l id).mp ((mem_scanLabel h hE k l id).mp hm)
    exact hk (mem_keys_of_mem hx)
  · intro n e hm
    obtain ⟨ty, _, hd⟩ := (mem_viewOut _ n id e).mp ((mem_outgoing h hE k n id e).mp hm)
    rw [hv] at hd; cases hd

theorem edgeHidden_of_view {z : St} (h : Inv z) (hE : z.w.mgr.epoch < pendingEpoch) {k e : Nat}
    (hv : aget (z.view k).edges e = none) : EdgeHidden z k e := by
  refine ⟨by rw [getEdge_eq_view h hE, hv]; rfl, ?_⟩
  intro n d hm
  obtain ⟨ty, hx, _⟩ := (mem_viewOut _ n d e).mp ((mem_outgoing h hE k n d e).mp hm)
  exact (aget_none_iff _ _).mp hv (mem_keys_of_mem hx)

/-- **no dirty read**, state form: work of the open transaction of session `k` is in no result of any
other session -/
theorem no_dirty_read_state {z : St} (h : Inv z) (hE : z.w.mgr.epoch < pendingEpoch) {k k' : Nat} (hne : k' ≠ k) :
    (∀ id, OwnedNode z k id → NodeHidden z k' id) ∧ (∀ e, OwnedEdge z k e → EdgeHidden z k' e) :=
  ⟨fun id ho => nodeHidden_of_view h hE (owned_node_not_in_view h ho hne),
   fun e ho => edgeHidden_of_view h hE (owned_edge_not_in_view h ho hne)⟩

/-! ### repeatable read -/

theorem otxOf_w (z : St) (w' : World) (c' : SGraph) (sq : Nat) (cm : List (Nat × List Nat)) (tc ab : List Nat) (k' : Nat) :
    otxOf { w := w', committed := c', txs := z.txs, seq := sq, commits := cm, touched := tc, abortedTouched := ab } k' = otxOf z k' := rfl

/-- a step issued by another session (or through the database handle) leaves the oracle's open
transaction of session `k` alone -/
theorem otxOf_step_other (z : St) (op : Op) (k : Nat) (h : op.session ≠ some k) : otxOf (z.step op) k = otxOf z k := by
  cases op with
  | begin k' iso =>
    have e : k ≠ k' := fun e => h (by rw [e]; rfl)
    simp only [St.step]
    split
    · rfl
    · rw [otxOf_txs]; simp [e]
  | commit k' =>
    have e : k ≠ k' := fun e => h (by rw [e]; rfl)
    simp only [St.step]
    rw [otxOf_txs]; simp [e]
  | rollback k' =>
    have e : k ≠ k' := fun e => h (by rw [e]; rfl)
    simp only [St.step]
    rw [otxOf_txs]; simp [e]
  | cn k' ls =>
    have e : k ≠ k' := fun e => h (by rw [e]; rfl)
    simp only [St.step]
    split
    · rw [otxOf_txs]; simp [e]
    · rfl
  | ce k' a b ty =>
    have e : k ≠ k' := fun e => h (by rw [e]; rfl)
    simp only [St.step]
    split
    · rw [otxOf_txs]; simp [e]
    · rfl
  | qce k' a ty l =>
    have e : k ≠ k' := fun e => h (by rw [e]; rfl)
    simp only [St.step]
    split
    · split
      · rw [otxOf_txs]; simp [e]
      · rfl
    · rfl
  | dbcn ls => rfl
  | qmerge k' l =>
    have e : k ≠ k' := fun e => h (by rw [e]; rfl)
    simp only [St.step]
    split
    · split
      · rw [otxOf_txs]; simp [e]
      · rfl
    · rfl

theorem otxOf_foldl_other (z : St) (post : List Op) (k : Nat) (h : ∀ op ∈ post, op.session ≠ some k) :
    otxOf (post.foldl St.step z) k = otxOf z k := by
  induction post generalizing z with
  | nil => rfl
  | cons op rest ih =>
    simp only [List.foldl_cons]
    rw [ih (z.step op) (fun o ho => h o (List.mem_cons_of_mem _ ho)), otxOf_step_other z op k (h op (by simp))]

theorem view_of_otx {z z' : St} {k : Nat} {t : STx} (h1 : otxOf z k = some t) (h2 : otxOf z' k = some t) :
    z'.view k = z.view k := by
  rw [view_def, view_def, h1, h2]

/-- everything a session can read -/
structure SameReads (z z' : St) (k k' : Nat) : Prop where
  node : ∀ id, z'.w.getNode k' id = z.w.getNode k id
  edge : ∀ id, z'.w.getEdge k' id = z.w.getEdge k id
  scan : (z'.w.scanAll k').Perm (z.w.scanAll k)
  scanl : ∀ l, (z'.w.scanLabel k' l).Perm (z.w.scanLabel k l)
  out : ∀ n, (z'.w.outgoing k' n).Perm (z.w.outgoing k n)

theorem sameReads_of_view {z z' : St} (h : Inv z) (hE : z.w.mgr.epoch < pendingEpoch) (h' : Inv z')
    (hE' : z'.w.mgr.epoch < pendingEpoch) {k k' : Nat} (hv : z'.view k' = z.view k) : SameReads z z' k k' := by
  refine ⟨?_, ?_, ?_, ?_, ?_⟩
  · intro id; rw [getNode_eq_view h hE, getNode_eq_view h' hE', hv]
  · intro id; rw [getEdge_eq_view h hE, getEdge_eq_view h' hE', hv]
  · exact ((scanAll_perm_view h' hE' k').1.trans (by rw [hv])).trans (scanAll_perm_view h hE k).1.symm
  · intro l; exact ((scanLabel_perm_view h' hE' k' l).1.trans (by rw [hv])).trans (scanLabel_perm_view h hE k l).1.symm
  · intro n; exact ((outgoing_perm_view h' hE' k' n).1.trans (by rw [hv])).trans (outgoing_perm_view h hE k n).1.symm

/-! ### rollback and commit -/

theorem view_congr {z z' : St} {k k' : Nat} (hc : z'.committed = z.committed) (ho : otxOf z' k' = otxOf z k) :
    z'.view k' = z.view k := by
  rw [view_def, view_def, hc, ho]

theorem owned_node_not_committed {z : St} (h : Inv z) {k id : Nat} (ho : OwnedNode z k id) :
    aget z.committed.nodes id = none := by
  obtain ⟨slot, v, p, hk, hmem, hv⟩ := ho.ent
  rw [aget_none_iff]
  intro hin
  obtain ⟨p', hp'⟩ := mem_keys.mp hin
  obtain ⟨v', hm', hc'⟩ := (h.nodes.comIff id p').mp hp'
  have := nodupKeys_unique h.nodes.nodupE hm' hmem
  injection this with hv' _
  subst hv'
  exact hc'.2 k slot hk hv

theorem owned_edge_not_committed {z : St} (h : Inv z) {k e : Nat} (ho : OwnedEdge z k e) :
    aget z.committed.edges e = none := by
  obtain ⟨slot, v, p, hk, hmem, hv⟩ := ho.ent
  rw [aget_none_iff]
  intro hin
  obtain ⟨p', hp'⟩ := mem_keys.mp hin
  obtain ⟨v', hm', hc'⟩ := (h.edges.comIff e p').mp hp'
  have := nodupKeys_unique h.edges.nodupE hm' hmem
  injection this with hv' _
  subst hv'
  exact hc'.2 k slot hk hv

theorem rollback_oracle (z : St) (k : Nat) :
    (z.step (.rollback k)).committed = z.committed ∧
    ∀ k', otxOf (z.step (.rollback k)) k' = if k' = k then none else otxOf z k' := by
  refine ⟨rfl, ?_⟩
  intro k'
  simp only [St.step]
  exact otxOf_txs z _ _ k _ _ _ _ _ k'

/-- **rollback**, state form. `z` is any reachable state in which session `k` has an open transaction;
`z'` is the state after `rollback k`.
(a) every other session reads exactly what it read before;
(b) session `k` itself now reads what a non-transactional reader read before (the committed state, which
    the rollback did not touch);
(c) everything the rolled-back transaction created is hidden from every session, `k` included. -/
theorem rollback_state {z : St} (h : Inv z) (hE : z.w.mgr.epoch + 1 < pendingEpoch) (k : Nat) :
    (∀ k', k' ≠ k → SameReads z (z.step (.rollback k)) k' k') ∧
    (∀ k0, z.w.curOf k0 = none → SameReads z (z.step (.rollback k)) k0 k) ∧
    (∀ id, OwnedNode z k id → ∀ k', NodeHidden (z.step (.rollback k)) k' id) ∧
    (∀ e, OwnedEdge z k e → ∀ k', EdgeHidden (z.step (.rollback k)) k' e) := by
  have h' := inv_step h (.rollback k)
  have hE1 : z.w.mgr.epoch < pendingEpoch := by omega
  have hE' : (z.step (.rollback k)).w.mgr.epoch < pendingEpoch := by
    have := step_epoch_le z (.rollback k); omega
  obtain ⟨hc, ho⟩ := rollback_oracle z k
  have hvo : ∀ k', k' ≠ k → (z.step (.rollback k)).view k' = z.view k' := by
    intro k' hne
    exact view_congr hc (by rw [ho]; simp [hne])
  have hvk : (z.step (.rollback k)).view k = z.committed := by
    rw [view_def, ho]; simp [hc]
  refine ⟨?_, ?_, ?_, ?_⟩
  · intro k' hne
    exact sameReads_of_view h hE1 h' hE' (hvo k' hne)
  · intro k0 hk0
    refine sameReads_of_view h hE1 h' hE' ?_
    rw [hvk, view_def]
    have : otxOf z k0 = none := h.otx_none hk0
    rw [this]
  · intro id hown k'
    apply nodeHidden_of_view h' hE'
    by_cases e : k' = k
    · rw [e, hvk]; exact owned_node_not_committed h hown
    · rw [hvo k' e]; exact owned_node_not_in_view h hown e
  · intro e hown k'
    apply edgeHidden_of_view h' hE'
    by_cases e' : k' = k
    · rw [e', hvk]; exact owned_edge_not_committed h hown
    · rw [hvo k' e']; exact owned_edge_not_in_view h hown e'

theorem step_commit_eq {z : St} (h : Inv z) {k slot : Nat} (hk : z.w.curOf k = some slot) :
    ∃ t ot, z.w.mgr.get slot = some t ∧ otxOf z k = some ot ∧
      (z.step (.commit k)).committed = ot.writes.foldl SGraph.apply z.committed ∧
      (∀ k', otxOf (z.step (.commit k)) k' = if k' = k then none else otxOf z k') ∧
      (∀ k', (z.step (.commit k)).w.curOf k' = if k' = k then none else z.w.curOf k') := by
  obtain ⟨ot, hot⟩ := h.otx_some hk
  obtain ⟨t, hg, ha, hw, hr, _⟩ := h.mgr.active k slot hk
  have : z.step (.commit k) =
      { z with w := { z.w with store := z.w.store.finalize (txIdOf slot) (z.w.mgr.epoch + 1),
                               mgr := ⟨z.w.mgr.epoch + 1, z.w.mgr.slots.set slot (some { t with state := .committed, cepoch := some (z.w.mgr.epoch + 1) })⟩,
                               cur := aset z.w.cur k none },
               committed := ot.writes.foldl SGraph.apply z.committed,
               txs := aset z.txs k none, seq := z.seq + 1, commits := (z.seq + 1, ot.modified) :: z.commits } := by
    simp only [St.step, commit_some hk hg ha hw hr, hot]
  refine ⟨t, ot, hg, hot, by rw [this], ?_, ?_⟩
  · intro k'; rw [this]; exact otxOf_txs z _ _ k _ _ _ _ _ k'
  · intro k'; rw [this]; exact curOf_aset z.w k k' _ _ _

theorem commit_tables {z : St} (h : Inv z) {k slot : Nat} {t : Tx} {ot : STx} (hk : z.w.curOf k = some slot)
    (hg : z.w.mgr.get slot = some t) (hot : otxOf z k = some ot) :
    (ot.writes.foldl SGraph.apply z.committed).nodes = z.committed.nodes ++ wsNodes ot.writes ∧
    (ot.writes.foldl SGraph.apply z.committed).edges = z.committed.edges ++ wsEdges ot.writes := by
  obtain ⟨hcN, hcE⟩ := foldl_apply_create ot.writes z.committed (h.creat k ot hot).1
  have hotN : otN (otxOf z) k = some (ot.snap.nodes, wsNodes ot.writes) := by simp [otN, hot]
  have hotE : otE (otxOf z) k = some (ot.snap.edges, wsEdges ot.writes) := by simp [otE, hot]
  obtain ⟨_, hwN, _, _⟩ := h.nodes.open_ k slot t _ _ hk hg hotN
  obtain ⟨_, hwE, _, _⟩ := h.edges.open_ k slot t _ _ hk hg hotE
  rw [asetAll_fresh _ _ hwN (h.nodes.com_wr_disjoint hk hg hotN)] at hcN
  rw [asetAll_fresh _ _ hwE (h.edges.com_wr_disjoint hk hg hotE)] at hcE
  exact ⟨hcN, hcE⟩

/-- a session always sees the work of its own open transaction (read-your-writes) -/
theorem owned_node_in_own_view {z : St} (h : Inv z) {k id : Nat} (ho : OwnedNode z k id) :
    ∃ X t, otxOf z k = some t ∧ (id, X) ∈ wsNodes t.writes ∧ aget (z.view k).nodes id = some X := by
  obtain ⟨slot, v, p, hk, hmem, hv⟩ := ho.ent
  obtain ⟨t, ht⟩ := h.otx_some hk
  obtain ⟨tt, hg, _⟩ := h.mgr.active k slot hk
  have hotN : otN (otxOf z) k = some (t.snap.nodes, wsNodes t.writes) := by simp [otN, otxOf, ht]
  obtain ⟨_, _, _, hwr⟩ := h.nodes.open_ k slot tt _ _ hk hg hotN
  have hin := (hwr id p).mpr ⟨v, hmem, hv⟩
  refine ⟨p, t, ht, hin, ?_⟩
  apply aget_of_mem (view_nodes_nodup h k)
  rw [(view_tabs h k).1]
  simp only [viewTab, hotN]
  exact List.mem_append.mpr (Or.inr hin)

theorem owned_edge_in_own_view {z : St} (h : Inv z) {k e : Nat} (ho : OwnedEdge z k e) :
    ∃ X t, otxOf z k = some t ∧ (e, X) ∈ wsEdges t.writes ∧ aget (z.view k).edges e = some X := by
  obtain ⟨slot, v, p, hk, hmem, hv⟩ := ho.ent
  obtain ⟨t, ht⟩ := h.otx_some hk
  obtain ⟨tt, hg, _⟩ := h.mgr.active k slot hk
  have hotE : otE (otxOf z) k = some (t.snap.edges, wsEdges t.writes) := by simp [otE, otxOf, ht]
  obtain ⟨_, _, _, hwr⟩ := h.edges.open_ k slot tt _ _ hk hg hotE
  have hin := (hwr e p).mpr ⟨v, hmem, hv⟩
  refine ⟨p, t, ht, hin, ?_⟩
  apply aget_of_mem (view_edges_nodup h k)
  rw [(view_tabs h k).2]
  simp only [viewTab, hotE]
  exact List.mem_append.mpr (Or.inr hin)

/-- a transaction that begins reads exactly what its session read just before as a non-transactional
reader: its snapshot is the committed state of that moment -/
theorem begin_state {z : St} (h : Inv z) (hE : z.w.mgr.epoch + 1 < pendingEpoch) (k1 : Nat) (iso : Iso)
    (hk1 : z.w.curOf k1 = none) : SameReads z (z.step (.begin k1 iso)) k1 k1 := by
  have h' := inv_step h (.begin k1 iso)
  have hE1 : z.w.mgr.epoch < pendingEpoch := by omega
  have hE' : (z.step (.begin k1 iso)).w.mgr.epoch < pendingEpoch := by
    have := step_epoch_le z (.begin k1 iso); omega
  refine sameReads_of_view h hE1 h' hE' ?_
  have ht := h.otx_none hk1
  have hz : z.step (.begin k1 iso) =
      { z with w := { z.w with mgr := (z.w.mgr.begin iso).1, cur := aset z.w.cur k1 (some z.w.mgr.slots.length) },
               txs := aset z.txs k1 (some { snap := z.committed, beginSeq := z.seq }) } := by
    simp only [St.step, begin_none iso hk1, ht, Option.isSome_none, Bool.false_eq_true, if_false]
  have ho : otxOf (z.step (.begin k1 iso)) k1 = some { snap := z.committed, beginSeq := z.seq } := by
    rw [hz, otxOf_txs]; simp
  rw [view_def, view_def, ho]
  have : otxOf z k1 = none := ht
  rw [this]
  rfl

/-- **commit**, state form. `z`: any reachable state in which session `k` has an open transaction;
`z' = z.step (commit k)`.
(a) a session whose transaction was already open (a snapshot taken before) reads exactly what it read
    before — in particular nothing of what `k` created;
(b) every non-transactional reader afterwards (session `k` included) gets every node and edge the
    transaction created, with the content the transaction itself saw;
(c) so does every transaction that begins next. -/
theorem commit_state {z : St} (h : Inv z) (hE : z.w.mgr.epoch + 2 < pendingEpoch) (k : Nat)
    (hk : (z.w.curOf k).isSome = true) :
    (∀ k', k' ≠ k → (z.w.curOf k').isSome = true →
        SameReads z (z.step (.commit k)) k' k' ∧
        (∀ id, OwnedNode z k id → NodeHidden (z.step (.commit k)) k' id) ∧
        (∀ e, OwnedEdge z k e → EdgeHidden (z.step (.commit k)) k' e)) ∧
    (∀ k0, (z.step (.commit k)).w.curOf k0 = none →
        (∀ id, OwnedNode z k id → (z.step (.commit k)).w.getNode k0 id = z.w.getNode k id ∧
            (z.w.getNode k id).isSome = true ∧ id ∈ (z.step (.commit k)).w.scanAll k0) ∧
        (∀ e, OwnedEdge z k e → (z.step (.commit k)).w.getEdge k0 e = z.w.getEdge k e ∧
            (z.w.getEdge k e).isSome = true)) ∧
    (∀ k1 iso, (z.step (.commit k)).w.curOf k1 = none →
        (∀ id, OwnedNode z k id → ((z.step (.commit k)).step (.begin k1 iso)).w.getNode k1 id = z.w.getNode k id ∧
            id ∈ ((z.step (.commit k)).step (.begin k1 iso)).w.scanAll k1) ∧
        (∀ e, OwnedEdge z k e → ((z.step (.commit k)).step (.begin k1 iso)).w.getEdge k1 e = z.w.getEdge k e)) := by
  cases hks : z.w.curOf k with
  | none => rw [hks] at hk; cases hk
  | some slot =>
  have h' := inv_step h (.commit k)
  have hE1 : z.w.mgr.epoch < pendingEpoch := by omega
  have hEs := step_epoch_le z (.commit k)
  have hE' : (z.step (.commit k)).w.mgr.epoch < pendingEpoch := by omega
  obtain ⟨t, ot, hg, hot, hcom, hotx, hcur⟩ := step_commit_eq h hks
  obtain ⟨hcN, hcE⟩ := commit_tables h hks hg hot
  -- what non-transactional readers get afterwards
  have hb : ∀ k0, (z.step (.commit k)).w.curOf k0 = none →
      (∀ id, OwnedNode z k id → (z.step (.commit k)).w.getNode k0 id = z.w.getNode k id ∧
          (z.w.getNode k id).isSome = true ∧ id ∈ (z.step (.commit k)).w.scanAll k0) ∧
      (∀ e, OwnedEdge z k e → (z.step (.commit k)).w.getEdge k0 e = z.w.getEdge k e ∧
          (z.w.getEdge k e).isSome = true) := by
    intro k0 hk0
    have hv0 : (z.step (.commit k)).view k0 = (z.step (.commit k)).committed := by
      rw [view_def]
      have : otxOf (z.step (.commit k)) k0 = none := h'.otx_none hk0
      rw [this]
    refine ⟨?_, ?_⟩
    · intro id hown
      obtain ⟨X, t', ht', hin, hview⟩ := owned_node_in_own_view h hown
      rw [hot] at ht'; injection ht' with ht'; subst ht'
      have h2 : aget ((z.step (.commit k)).view k0).nodes id = some X := by
        rw [hv0]
        apply aget_of_mem h'.nodes.nodupC
        rw [hcom, hcN]
        exact List.mem_append.mpr (Or.inr hin)
      refine ⟨by rw [getNode_eq_view h' hE', getNode_eq_view h hE1, h2, hview], by rw [getNode_eq_view h hE1, hview]; rfl, ?_⟩
      rw [mem_scanAll h' hE']
      exact mem_keys_of_mem (mem_of_aget h2)
    · intro e hown
      obtain ⟨X, t', ht', hin, hview⟩ := owned_edge_in_own_view h hown
      rw [hot] at ht'; injection ht' with ht'; subst ht'
      have h2 : aget ((z.step (.commit k)).view k0).edges e = some X := by
        rw [hv0]
        apply aget_of_mem h'.edges.nodupC
        rw [hcom, hcE]
        exact List.mem_append.mpr (Or.inr hin)
      exact ⟨by rw [getEdge_eq_view h' hE', getEdge_eq_view h hE1, h2, hview], by rw [getEdge_eq_view h hE1, hview]; rfl⟩
  refine ⟨?_, hb, ?_⟩
  · intro k' hne hk'
    have hv : (z.step (.commit k)).view k' = z.view k' := by
      cases hx : otxOf z k' with
      | none =>
        have := h.sess k'
        rw [hx, hk'] at this; cases this
      | some t' =>
        exact view_of_otx hx (by rw [hotx]; simp [hne, hx])
    refine ⟨sameReads_of_view h hE1 h' hE' hv, ?_, ?_⟩
    · intro id hown
      apply nodeHidden_of_view h' hE'
      rw [hv]; exact owned_node_not_in_view h hown hne
    · intro e hown
      apply edgeHidden_of_view h' hE'
      rw [hv]; exact owned_edge_not_in_view h hown hne
  · intro k1 iso hk1
    have hs := begin_state h' (by omega) k1 iso hk1
    obtain ⟨hbn, hbe⟩ := hb k1 hk1
    refine ⟨?_, ?_⟩
    · intro id hown
      obtain ⟨a, _, c⟩ := hbn id hown
      exact ⟨by rw [hs.node, a], (hs.scan.mem_iff).mpr c⟩
    · intro e hown
      rw [hs.edge, (hbe e hown).1]

/-! ### the committed graph only grows -/

def ComMono (c c' : SGraph) : Prop := (∀ x ∈ c.nodes, x ∈ c'.nodes) ∧ (∀ x ∈ c.edges, x ∈ c'.edges)

theorem ComMono.refl (c : SGraph) : ComMono c c := ⟨fun _ h => h, fun _ h => h⟩
theorem ComMono.trans {a b c : SGraph} (h1 : ComMono a b) (h2 : ComMono b c) : ComMono a c :=
  ⟨fun x h => h2.1 x (h1.1 x h), fun x h => h2.2 x (h1.2 x h)⟩

theorem mono_apply_node {w : World} {com : SGraph} {otx : Nat → Option STx} (h : InvC w com otx) (ls : List Nat) :
    ComMono com (com.apply (.node w.store.nextNode ls)) := by
  refine ⟨?_, fun _ hx => hx⟩
  intro x hx
  show x ∈ aset com.nodes w.store.nextNode _
  rw [aset_fresh _ _ _ (h.nodes.fresh_com (nextNode_fresh h.store))]
  exact List.mem_append.mpr (Or.inl hx)

theorem mono_apply_edge {w : World} {com : SGraph} {otx : Nat → Option STx} (h : InvC w com otx) (r : EdgeRec) :
    ComMono com (com.apply (.edge w.store.nextEdge r)) := by
  refine ⟨fun _ hx => hx, ?_⟩
  intro x hx
  show x ∈ aset com.edges w.store.nextEdge _
  rw [aset_fresh _ _ _ (h.edges.fresh_com (nextEdge_fresh h.store))]
  exact List.mem_append.mpr (Or.inl hx)

theorem step_mono {z : St} (h : Inv z) (op : Op) : ComMono z.committed (z.step op).committed := by
  cases op with
  | begin k iso => exact ComMono.refl _
  | rollback k => exact ComMono.refl _
  | commit k =>
    cases hk : z.w.curOf k with
    | none =>
      have ht := h.otx_none hk
      have : (z.step (.commit k)).committed = z.committed := by
        simp only [St.step, commit_none hk, ht]
      rw [this]; exact ComMono.refl _
    | some slot =>
      obtain ⟨t, ot, hg, hot, hcom, _, _⟩ := step_commit_eq h hk
      obtain ⟨hcN, hcE⟩ := commit_tables h hk hg hot
      rw [hcom]
      exact ⟨fun x hx => by rw [hcN]; exact List.mem_append.mpr (Or.inl hx),
             fun x hx => by rw [hcE]; exact List.mem_append.mpr (Or.inl hx)⟩
  | cn k ls =>
    cases hk : z.w.curOf k with
    | some slot =>
      obtain ⟨t, ht⟩ := h.otx_some hk
      have : (z.step (.cn k ls)).committed = z.committed := by
        simp only [St.step, createNode_tx ls hk, ht]
      rw [this]; exact ComMono.refl _
    | none =>
      have ht := h.otx_none hk
      have : (z.step (.cn k ls)).committed = z.committed.apply (.node z.w.freshEpoch.1.store.nextNode ls) := by
        simp only [St.step, createNode_auto ls hk, ht]
      rw [this]; exact mono_apply_node (invC_bump h).1 ls
  | dbcn ls => exact mono_apply_node (invC_bump h).1 ls
  | ce k a b ty =>
    cases hk : z.w.curOf k with
    | some slot =>
      obtain ⟨t, ht⟩ := h.otx_some hk
      have : (z.step (.ce k a b ty)).committed = z.committed := by
        simp only [St.step, createEdge_tx a b ty hk, ht]
      rw [this]; exact ComMono.refl _
    | none =>
      have ht := h.otx_none hk
      have : (z.step (.ce k a b ty)).committed = z.committed.apply (.edge z.w.freshEpoch.1.store.nextEdge ⟨a, b, ty⟩) := by
        simp only [St.step, createEdge_auto a b ty hk, ht]
      rw [this]; exact mono_apply_edge (invC_bump h).1 _
  | qce k a ty l =>
    by_cases hv : (z.w.scanAll k).contains a = true
    · cases hk : z.w.curOf k with
      | some slot =>
        obtain ⟨t, ht⟩ := h.otx_some hk
        have : (z.step (.qce k a ty l)).committed = z.committed := by
          simp only [St.step, hv, if_true, createNodeAndEdge_tx a l ty hk, ht]
        rw [this]; exact ComMono.refl _
      | none =>
        have ht := h.otx_none hk
        have : (z.step (.qce k a ty l)).committed =
            (z.committed.apply (.node z.w.freshEpoch.1.store.nextNode [l])).apply
              (.edge z.w.freshEpoch.1.store.nextEdge ⟨a, z.w.freshEpoch.1.store.nextNode, ty⟩) := by
          simp only [St.step, hv, if_true, createNodeAndEdge_auto a l ty hk, ht, List.foldl_cons, List.foldl_nil]
        rw [this]
        obtain ⟨h1, hb⟩ := invC_bump h
        exact (mono_apply_node h1 [l]).trans (mono_apply_edge (invC_addNodeAuto h1 hb [l]) _)
    · have : z.step (.qce k a ty l) = z := by
        simp only [St.step, hv, if_false, Bool.false_eq_true]
      rw [this]; exact ComMono.refl _
  | qmerge k l =>
    cases hk : z.w.curOf k with
    | some slot =>
      obtain ⟨t, ht⟩ := h.otx_some hk
      by_cases hc : ((z.w.store.nodesByLabel l).filter (fun id => (z.w.store.getNodeTo id (z.w.ctx k).1 (z.w.ctx k).2).isSome)).isEmpty = true
      · have : (z.step (.qmerge k l)).committed = z.committed := by
          simp only [St.step, qMerge_tx l hk, hc, if_true, ht]
        rw [this]; exact ComMono.refl _
      · have : z.step (.qmerge k l) = z := by
          simp only [St.step, qMerge_tx l hk, hc, if_false, Bool.false_eq_true]
        rw [this]; exact ComMono.refl _
    | none =>
      have ht := h.otx_none hk
      by_cases hc : ((z.w.store.nodesByLabel l).filter (fun id => (z.w.store.getNodeTo id (z.w.ctx k).1 (z.w.ctx k).2).isSome)).isEmpty = true
      · have : (z.step (.qmerge k l)).committed = z.committed.apply (.node z.w.freshEpoch.1.store.nextNode [l]) := by
          simp only [St.step, qMerge_auto l hk, hc, if_true, ht]
        rw [this]; exact mono_apply_node (invC_bump h).1 [l]
      · have : (z.step (.qmerge k l)).committed = z.committed := by
          simp only [St.step, qMerge_auto l hk, hc, if_false, Bool.false_eq_true]
        rw [this]; exact ComMono.refl _

theorem foldl_mono {z : St} (h : Inv z) (post : List Op) : ComMono z.committed (post.foldl St.step z).committed := by
  induction post generalizing z with
  | nil => exact ComMono.refl _
  | cons op rest ih => exact (step_mono h op).trans (ih (inv_step h op))

/-- **commit is durable for readers**: whatever happens after `commit k` (`post`: any ops of any sessions),
every non-transactional reader, and every transaction at the moment it begins, gets every node and edge the
committed transaction created, with the content that transaction saw. (By repeatable read the new
transaction keeps seeing it.) -/
theorem commit_forever {z : St} (h : Inv z) (k : Nat) (hk : (z.w.curOf k).isSome = true) (post : List Op)
    (hE : z.w.mgr.epoch + post.length + 2 < pendingEpoch) :
    (∀ k0, (post.foldl St.step (z.step (.commit k))).w.curOf k0 = none →
        (∀ id, OwnedNode z k id → (post.foldl St.step (z.step (.commit k))).w.getNode k0 id = z.w.getNode k id ∧
            (z.w.getNode k id).isSome = true) ∧
        (∀ e, OwnedEdge z k e → (post.foldl St.step (z.step (.commit k))).w.getEdge k0 e = z.w.getEdge k e ∧
            (z.w.getEdge k e).isSome = true)) ∧
    (∀ k1 iso, (post.foldl St.step (z.step (.commit k))).w.curOf k1 = none →
        (∀ id, OwnedNode z k id →
            ((post.foldl St.step (z.step (.commit k))).step (.begin k1 iso)).w.getNode k1 id = z.w.getNode k id) ∧
        (∀ e, OwnedEdge z k e →
            ((post.foldl St.step (z.step (.commit k))).step (.begin k1 iso)).w.getEdge k1 e = z.w.getEdge k e)) := by
  cases hks : z.w.curOf k with
  | none => rw [hks] at hk; cases hk
  | some slot =>
  have h2 := inv_step h (.commit k)
  have h3 := inv_foldl h2 post
  have hE1 : z.w.mgr.epoch < pendingEpoch := by omega
  have hEs := step_epoch_le z (.commit k)
  have hEf := foldl_epoch_le (z.step (.commit k)) post
  have hE3 : (post.foldl St.step (z.step (.commit k))).w.mgr.epoch < pendingEpoch := by omega
  obtain ⟨t, ot, hg, hot, hcom, _, _⟩ := step_commit_eq h hks
  obtain ⟨hcN, hcE⟩ := commit_tables h hks hg hot
  have hmono := foldl_mono h2 post
  have hb : ∀ k0, (post.foldl St.step (z.step (.commit k))).w.curOf k0 = none →
      (∀ id, OwnedNode z k id → (post.foldl St.step (z.step (.commit k))).w.getNode k0 id = z.w.getNode k id ∧
          (z.w.getNode k id).isSome = true) ∧
      (∀ e, OwnedEdge z k e → (post.foldl St.step (z.step (.commit k))).w.getEdge k0 e = z.w.getEdge k e ∧
          (z.w.getEdge k e).isSome = true) := by
    intro k0 hk0
    have hv0 : (post.foldl St.step (z.step (.commit k))).view k0 = (post.foldl St.step (z.step (.commit k))).committed := by
      rw [view_def]
      have : otxOf (post.foldl St.step (z.step (.commit k))) k0 = none := h3.otx_none hk0
      rw [this]
    refine ⟨?_, ?_⟩
    · intro id hown
      obtain ⟨X, t', ht', hin, hview⟩ := owned_node_in_own_view h hown
      rw [hot] at ht'; injection ht' with ht'; subst ht'
      have h2' : aget ((post.foldl St.step (z.step (.commit k))).view k0).nodes id = some X := by
        rw [hv0]
        apply aget_of_mem h3.nodes.nodupC
        apply hmono.1
        rw [hcom, hcN]
        exact List.mem_append.mpr (Or.inr hin)
      exact ⟨by rw [getNode_eq_view h3 hE3, getNode_eq_view h hE1, h2', hview], by rw [getNode_eq_view h hE1, hview]; rfl⟩
    · intro e hown
      obtain ⟨X, t', ht', hin, hview⟩ := owned_edge_in_own_view h hown
      rw [hot] at ht'; injection ht' with ht'; subst ht'
      have h2' : aget ((post.foldl St.step (z.step (.commit k))).view k0).edges e = some X := by
        rw [hv0]
        apply aget_of_mem h3.edges.nodupC
        apply hmono.2
        rw [hcom, hcE]
        exact List.mem_append.mpr (Or.inr hin)
      exact ⟨by rw [getEdge_eq_view h3 hE3, getEdge_eq_view h hE1, h2', hview], by rw [getEdge_eq_view h hE1, hview]; rfl⟩
  refine ⟨hb, ?_⟩
  intro k1 iso hk1
  have hs := begin_state h3 (by omega) k1 iso hk1
  obtain ⟨hbn, hbe⟩ := hb k1 hk1
  exact ⟨fun id hown => by rw [hs.node, (hbn id hown).1], fun e hown => by rw [hs.edge, (hbe e hown).1]⟩

/-! ### what a rollback removed never comes back -/

/-- the id was handed out and the store holds no version chain for it -/
def GoneNode (s : Store) (id : Nat) : Prop := id < s.nextNode ∧ aget s.nodes id = none
def GoneEdge (s : Store) (e : Nat) : Prop := e < s.nextEdge ∧ aget s.edges e = none

theorem aget_mapVal_none {ν μ : Type} (l : AList ν) (f : Nat × ν → μ) (k : Nat) (h : aget l k = none) :
    aget (l.map (fun kv => (kv.1, f kv))) k = none := by
  rw [aget_none_iff] at h ⊢
  simpa [keys, List.map_map, Function.comp_def] using h

theorem aget_filter_none {ν : Type} (l : AList ν) (p : Nat × ν → Bool) (k : Nat) (h : aget l k = none) :
    aget (l.filter p) k = none := by
  rw [aget_none_iff] at h ⊢
  intro hk
  obtain ⟨v, hv⟩ := mem_keys.mp hk
  exact h (mem_keys_of_mem (List.mem_filter.mp hv).1)

theorem gone_createNode {s : Store} {id : Nat} (ls : List Nat) (ep tx : Nat) :
    (GoneNode s id → GoneNode (s.createNode ls ep tx).1 id) ∧ (∀ e, GoneEdge s e → GoneEdge (s.createNode ls ep tx).1 e) := by
  refine ⟨?_, fun e h => h⟩
  rintro ⟨a, b⟩
  refine ⟨Nat.lt_succ_of_lt a, ?_⟩
  show aget (aset s.nodes s.nextNode _) id = none
  rw [aget_aset]
  have : id ≠ s.nextNode := by omega
  simp [this, b]

theorem gone_createEdge {s : Store} {e : Nat} (a b ty ep tx : Nat) :
    (∀ id, GoneNode s id → GoneNode (s.createEdge a b ty ep tx).1 id) ∧ (GoneEdge s e → GoneEdge (s.createEdge a b ty ep tx).1 e) := by
  refine ⟨fun id h => h, ?_⟩
  rintro ⟨x, y⟩
  refine ⟨Nat.lt_succ_of_lt x, ?_⟩
  show aget (aset s.edges s.nextEdge _) e = none
  rw [aget_aset]
  have : e ≠ s.nextEdge := by omega
  simp [this, y]

theorem gone_finalize {s : Store} (tx ep : Nat) :
    (∀ id, GoneNode s id → GoneNode (s.finalize tx ep) id) ∧ (∀ e, GoneEdge s e → GoneEdge (s.finalize tx ep) e) := by
  refine ⟨?_, ?_⟩
  · rintro id ⟨a, b⟩
    exact ⟨a, aget_mapVal_none s.nodes (fun kv => restamp tx ep kv.2) id b⟩
  · rintro e ⟨a, b⟩
    exact ⟨a, aget_mapVal_none s.edges (fun kv => (restamp tx ep kv.2.1, kv.2.2)) e b⟩

theorem gone_discard {s : Store} (tx : Nat) :
    (∀ id, GoneNode s id → GoneNode (s.discard tx) id) ∧ (∀ e, GoneEdge s e → GoneEdge (s.discard tx) e) := by
  have hf := discardFold_fields (goneEdges s tx) s
  refine ⟨?_, ?_⟩
  · rintro id ⟨a, b⟩
    refine ⟨?_, ?_⟩
    · rw [discard_eq]; show id < ((goneEdges s tx).foldl discardStep s).nextNode
      rw [hf.1]; exact a
    · rw [discard_eq]
      exact aget_filter_none _ _ id (aget_mapVal_none s.nodes (fun kv => kv.2.filter (fun v => v.owner != tx)) id b)
  · rintro e ⟨a, b⟩
    refine ⟨?_, ?_⟩
    · rw [discard_eq]; show e < ((goneEdges s tx).foldl discardStep s).nextEdge
      rw [hf.2.1]; exact a
    · rw [discard_eq]
      exact aget_filter_none _ _ e (aget_mapVal_none s.edges (fun kv => (kv.2.1.filter (fun v => v.owner != tx), kv.2.2)) e b)

/-- a property of the store that every store operation used by the session layer preserves -/
structure StoreStable (P : Store → Prop) : Prop where
  cn : ∀ s ls ep tx, P s → P (s.createNode ls ep tx).1
  ce : ∀ s a b ty ep tx, P s → P (s.createEdge a b ty ep tx).1
  fin : ∀ s tx ep, P s → P (s.finalize tx ep)
  dis : ∀ s tx, P s → P (s.discard tx)
  syn : ∀ s e, P s → P (s.syncEpoch e)

theorem writeCtx_stable {P : Store → Prop} (hP : StoreStable P) (w : World) (k : Nat) (h : P w.store) :
    P (w.writeCtx k).1.store := by
  unfold World.writeCtx
  split
  · exact h
  · exact hP.syn _ _ h

theorem mstep_stable {P : Store → Prop} (hP : StoreStable P) (w : World) (op : Op) (h : P w.store) :
    P (mstep w op).store := by
  cases op with
  | begin k iso =>
    simp only [mstep]; unfold World.begin; split
    · exact h
    · exact h
  | commit k =>
    simp only [mstep]; unfold World.commit; split
    · exact h
    · simp only
      split
      · exact hP.fin _ _ _ h
      · exact hP.dis _ _ h
  | rollback k =>
    simp only [mstep]; unfold World.rollback; split
    · exact h
    · exact hP.dis _ _ h
  | cn k ls => exact hP.cn _ _ _ _ (writeCtx_stable hP w k h)
  | ce k a b ty => exact hP.ce _ _ _ _ _ _ (writeCtx_stable hP w k h)
  | qce k a ty l =>
    simp only [mstep]; split
    · exact hP.ce _ _ _ _ _ _ (hP.cn _ _ _ _ (writeCtx_stable hP w k h))
    · exact h
  | dbcn ls => exact hP.cn _ _ _ _ (hP.syn _ _ h)
  | qmerge k l =>
    simp only [mstep]; unfold World.qMerge
    simp only
    split
    · exact hP.cn _ _ _ _ (writeCtx_stable hP w k h)
    · exact writeCtx_stable hP w k h

theorem foldl_stable {P : Store → Prop} (hP : StoreStable P) (z : St) (post : List Op) (h : P z.w.store) :
    P (post.foldl St.step z).w.store := by
  induction post generalizing z with
  | nil => exact h
  | cons op rest ih =>
    apply ih
    rw [step_w]; exact mstep_stable hP z.w op h

theorem goneNode_stable (id : Nat) : StoreStable (fun s => GoneNode s id) :=
  ⟨fun s ls ep tx h => (gone_createNode ls ep tx).1 h, fun s a b ty ep tx h => (gone_createEdge (e := 0) a b ty ep tx).1 id h,
   fun s tx ep h => (gone_finalize tx ep).1 id h, fun s tx h => (gone_discard tx).1 id h, fun s e h => h⟩

theorem goneEdge_stable (e : Nat) : StoreStable (fun s => GoneEdge s e) :=
  ⟨fun s ls ep tx h => (gone_createNode (id := 0) ls ep tx).2 e h, fun s a b ty ep tx h => (gone_createEdge a b ty ep tx).2 h,
   fun s tx ep h => (gone_finalize tx ep).2 e h, fun s tx h => (gone_discard tx).2 e h, fun s x h => h⟩

theorem goneNode_hidden {z : St} {id : Nat} (hg : GoneNode z.w.store id) (k : Nat) : NodeHidden z k id := by
  have hn : ∀ ep tx, z.w.store.getNodeTo id ep tx = none := by
    intro ep tx; unfold Store.getNodeTo; rw [hg.2]
  refine ⟨hn _ _, ?_, ?_, ?_⟩
  · intro hm
    have := (List.mem_filter.mp (show id ∈ z.w.store.allNodeIds.filter _ from hm)).2
    rw [hn] at this; cases this
  · intro l hm
    have := (List.mem_filter.mp (show id ∈ (z.w.store.nodesByLabel l).filter _ from hm)).2
    rw [hn] at this; cases this
  · intro n e hm
    have := (List.mem_filter.mp (show (id, e) ∈ (z.w.store.outEdges n).filter _ from hm)).2
    simp only [hn, Option.isSome_none, Bool.and_false] at this
    cases this

theorem goneEdge_hidden {z : St} {e : Nat} (hg : GoneEdge z.w.store e) (k : Nat) : EdgeHidden z k e := by
  have hn : ∀ ep tx, z.w.store.getEdgeTo e ep tx = none := by
    intro ep tx; unfold Store.getEdgeTo; rw [hg.2]
  refine ⟨hn _ _, ?_⟩
  intro n d hm
  have := (List.mem_filter.mp (show (d, e) ∈ (z.w.store.outEdges n).filter _ from hm)).2
  simp only [hn, Option.isSome_none, Bool.false_and] at this
  cases this

theorem rollback_gone {z : St} (h : Inv z) (k : Nat) :
    (∀ id, OwnedNode z k id → GoneNode (z.step (.rollback k)).w.store id) ∧
    (∀ e, OwnedEdge z k e → GoneEdge (z.step (.rollback k)).w.store e) := by
  refine ⟨?_, ?_⟩
  · rintro id ⟨slot, v, hk, hg, hv⟩
    obtain ⟨t, hgt, ha, _⟩ := h.mgr.active k slot hk
    have hst : (z.step (.rollback k)).w.store = z.w.store.discard (txIdOf slot) := by
      rw [step_w]; simp only [mstep, rollback_some hk hgt ha]
    rw [hst]
    have hmem := mem_of_aget hg
    refine ⟨?_, ?_⟩
    · have := (storeOK_discard _ (txIdOf slot) h.store).nodesLt
      have hlt := h.store.nodesLt _ hmem
      have hn : (z.w.store.discard (txIdOf slot)).nextNode = z.w.store.nextNode := by
        rw [discard_eq]; exact (discardFold_fields _ _).1
      rw [hn]; exact hlt
    · rw [aget_none_iff, discard_nodes _ _ h.store]
      intro hin
      obtain ⟨c, hc⟩ := mem_keys.mp hin
      obtain ⟨hc1, hc2⟩ := List.mem_filter.mp hc
      have := nodupKeys_unique h.store.nodesNodup hc1 hmem
      subst this
      simp [hv] at hc2
  · rintro e ⟨slot, v, r, hk, hg, hv⟩
    obtain ⟨t, hgt, ha, _⟩ := h.mgr.active k slot hk
    have hst : (z.step (.rollback k)).w.store = z.w.store.discard (txIdOf slot) := by
      rw [step_w]; simp only [mstep, rollback_some hk hgt ha]
    rw [hst]
    have hmem := mem_of_aget hg
    refine ⟨?_, ?_⟩
    · have hlt := h.store.edgesLt _ hmem
      have hn : (z.w.store.discard (txIdOf slot)).nextEdge = z.w.store.nextEdge := by
        rw [discard_eq]; exact (discardFold_fields _ _).2.1
      rw [hn]; exact hlt
    · rw [aget_none_iff, discard_edges _ _ h.store]
      intro hin
      obtain ⟨c, hc⟩ := mem_keys.mp hin
      obtain ⟨hc1, hc2⟩ := List.mem_filter.mp hc
      have := nodupKeys_unique h.store.edgesNodup hc1 hmem
      subst this
      simp [hv] at hc2

/-- **rollback is final**: whatever happens afterwards (`post`: any ops of any sessions), nothing the
rolled-back transaction created is in any result of any session -/
theorem rollback_forever {z : St} (h : Inv z) (k : Nat) (post : List Op) :
    (∀ id, OwnedNode z k id → ∀ k', NodeHidden (post.foldl St.step (z.step (.rollback k))) k' id) ∧
    (∀ e, OwnedEdge z k e → ∀ k', EdgeHidden (post.foldl St.step (z.step (.rollback k))) k' e) :=
  ⟨fun id ho k' => goneNode_hidden (foldl_stable (goneNode_stable id) _ post ((rollback_gone h k).1 id ho)) k',
   fun e ho k' => goneEdge_hidden (foldl_stable (goneEdge_stable e) _ post ((rollback_gone h k).2 e ho)) k'⟩
end Grafeo.SessSpec
