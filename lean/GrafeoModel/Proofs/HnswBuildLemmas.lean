import GrafeoModel.Model.HnswBuild
import GrafeoModel.Props.C18

/-! Helper lemmas for `Props/C18Build.lean`: the association list behaves like a map; generic
preservation of "every neighbour list satisfies `R owner layer list`" by the insert loops. -/
namespace Grafeo.HnswBuild
open Grafeo.Hnsw

variable {V : Type}

/-! ### the map -/

theorem find_put (ns : NodeMap V) (k : Nat) (n : Node V) (k' : Nat) :
    find (put ns k n) k' = if k = k' then some n else find ns k' := by
  induction ns with
  | nil => simp [put, find]
  | cons p r ih =>
    obtain ⟨a, b⟩ := p
    simp only [put]
    by_cases h : a = k
    · subst h; simp only [if_true, find]
      by_cases h2 : a = k' <;> simp [h2]
    · simp only [h, if_false, find, ih]
      by_cases h2 : a = k'
      · subst h2; simp [Ne.symm h]
      · simp [h2]

theorem find_modify (ns : NodeMap V) (k : Nat) (f : Node V → Node V) (k' : Nat) :
    find (modify ns k f) k' = if k = k' then (find ns k').map f else find ns k' := by
  induction ns with
  | nil => simp [modify, find]
  | cons p r ih =>
    obtain ⟨a, b⟩ := p
    simp only [modify]
    by_cases h : a = k
    · subst h
      simp only [if_true, find]
      by_cases h2 : a = k'
      · simp [h2]
      · simp [h2]
    · simp only [h, if_false, find, ih]
      by_cases h2 : a = k'
      · subst h2; simp [Ne.symm h]
      · simp [h2]

theorem keys_modify (ns : NodeMap V) (k : Nat) (f : Node V → Node V) :
    keys (modify ns k f) = keys ns := by
  induction ns with
  | nil => rfl
  | cons p r ih =>
    obtain ⟨a, b⟩ := p
    simp only [modify]
    by_cases h : a = k
    · simp [h, keys]
    · simp only [h, if_false]
      simp only [keys, List.map_cons] at ih ⊢
      rw [ih]

theorem find_isSome_iff (ns : NodeMap V) (k : Nat) : (find ns k).isSome = true ↔ k ∈ keys ns := by
  induction ns with
  | nil => simp [find, keys]
  | cons p r ih =>
    obtain ⟨a, b⟩ := p
    simp only [find, keys, List.map_cons, List.mem_cons]
    by_cases h : a = k
    · simp [h]
    · simp only [h, if_false]
      simp only [keys] at ih
      rw [ih]
      constructor
      · intro h1; exact Or.inr h1
      · intro h1; cases h1 with
        | inl h1 => exact absurd h1.symm h
        | inr h1 => exact h1

theorem keys_put (ns : NodeMap V) (k : Nat) (n : Node V) :
    keys (put ns k n) = if k ∈ keys ns then keys ns else keys ns ++ [k] := by
  induction ns with
  | nil => simp [put, keys]
  | cons p r ih =>
    obtain ⟨a, b⟩ := p
    simp only [put]
    by_cases h : a = k
    · subst h; simp [keys]
    · simp only [h, if_false]
      simp only [keys, List.map_cons, List.mem_cons] at ih ⊢
      rw [ih]
      by_cases h2 : k ∈ List.map (fun x => x.1) r
      · simp [h2]
      · simp [h2, Ne.symm h]

theorem find_eraseKey (ns : NodeMap V) (id k : Nat) :
    find (eraseKey ns id) k = if k = id then none else find ns k := by
  induction ns with
  | nil => simp [eraseKey, find]
  | cons p r ih =>
    obtain ⟨a, b⟩ := p
    simp only [eraseKey, List.filter] at ih ⊢
    by_cases h : a = id
    · subst h
      simp only [ne_eq, not_true_eq_false, decide_false, find]
      rw [ih]
      by_cases h2 : a = k
      · simp [h2]
      · simp [h2]
    · simp only [ne_eq, h, not_false_eq_true, decide_true, find]
      rw [ih]
      by_cases h2 : a = k
      · subst h2; simp [h]
      · simp [h2]

theorem find_unlink (ns : NodeMap V) (id k : Nat) :
    find (unlink ns id) k =
      (find ns k).map (fun n => { n with nbrs := n.nbrs.map (fun l => l.filter (· ≠ id)) }) := by
  induction ns with
  | nil => simp [unlink, find]
  | cons p r ih =>
    obtain ⟨a, b⟩ := p
    simp only [unlink, List.map_cons, find] at ih ⊢
    by_cases h : a = k
    · simp [h]
    · simp only [h, if_false]
      exact ih

theorem keys_unlink (ns : NodeMap V) (id : Nat) : keys (unlink ns id) = keys ns := by
  simp [keys, unlink, List.map_map, Function.comp_def]

theorem keys_eraseKey (ns : NodeMap V) (id : Nat) :
    keys (eraseKey ns id) = (keys ns).filter (· ≠ id) := by
  induction ns with
  | nil => rfl
  | cons p r ih =>
    obtain ⟨a, b⟩ := p
    simp only [keys, eraseKey] at ih ⊢
    rw [List.filter_cons]
    by_cases h : a = id
    · simp only [h, ne_eq, not_true_eq_false, decide_false, Bool.false_eq_true, if_false,
        List.map_cons, List.filter_cons]
      exact ih
    · simp only [ne_eq, h, not_false_eq_true, decide_true, if_true, List.map_cons, List.filter_cons]
      rw [← ih]

/-! ### "every list of every node satisfies `R owner layer list`" -/

def LOK (R : Nat → Nat → List Nat → Prop) (ns : NodeMap V) : Prop :=
  ∀ k n, find ns k = some n → ∀ i l, n.nbrs[i]? = some l → R k i l

theorem LOK_setLayer {R : Nat → Nat → List Nat → Prop} {ns : NodeMap V} (h : LOK R ns)
    (k lc : Nat) (l : List Nat) (hl : R k lc l) : LOK R (setLayer ns k lc l) := by
  intro k' n' hf i l' hget
  rw [setLayer, find_modify] at hf
  by_cases hk : k = k'
  · subst hk
    simp only [if_true] at hf
    cases hfn : find ns k with
    | none => rw [hfn] at hf; simp at hf
    | some n =>
      rw [hfn] at hf
      simp only [Option.map_some, Option.some.injEq] at hf
      subst hf
      simp only [List.getElem?_set] at hget
      by_cases hi : lc = i
      · subst hi
        simp only [if_true] at hget
        split at hget
        · simp only [Option.some.injEq] at hget; subst hget; exact hl
        · simp at hget
      · simp only [hi, if_false] at hget
        exact h k n hfn i l' hget
  · simp only [hk, if_false] at hf
    exact h k' n' hf i l' hget

/-- the layer list a guarded access reads satisfies `R` -/
theorem LOK_getD {R : Nat → Nat → List Nat → Prop} {ns : NodeMap V} (h : LOK R ns)
    {k : Nat} {n : Node V} (hf : find ns k = some n) {lc : Nat} (hlc : lc < n.nbrs.length) :
    R k lc (n.nbrs.getD lc []) := by
  apply h k n hf lc
  simp [List.getD, List.getElem?_eq_getElem hlc]

theorem LOK_linkStep {R : Nat → Nat → List Nat → Prop} (id lc mMax : Nat)
    (hpush : ∀ nb old, R nb lc old → R nb lc (old ++ [id]))
    (acc : NodeMap V × List Nat) (nb : Nat) (h : LOK R acc.1) :
    LOK R (linkStep id lc mMax acc nb).1 := by
  unfold linkStep
  cases hf : find acc.1 nb with
  | none => exact h
  | some n =>
    simp only
    by_cases hlc : lc < n.nbrs.length
    · simp only [hlc, if_true]
      exact LOK_setLayer h nb lc _ (hpush nb _ (LOK_getD h hf hlc))
    · simp only [hlc, if_false]; exact h

theorem LOK_linkFold {R : Nat → Nat → List Nat → Prop} (id lc mMax : Nat)
    (hpush : ∀ nb old, R nb lc old → R nb lc (old ++ [id]))
    (sel : List Nat) (acc : NodeMap V × List Nat) (h : LOK R acc.1) :
    LOK R (sel.foldl (linkStep id lc mMax) acc).1 := by
  induction sel generalizing acc with
  | nil => exact h
  | cons x xs ih => exact ih _ (LOK_linkStep id lc mMax hpush acc x h)

theorem LOK_pruneOne {R : Nat → Nat → List Nat → Prop} (c : Cfg V) (lc mMax : Nat)
    (hprune : ∀ nb old (key : Nat → Nat), R nb lc old → R nb lc ((sortBy key old).take mMax))
    (ns : NodeMap V) (nb : Nat) (h : LOK R ns) : LOK R (pruneOne c lc mMax ns nb) := by
  unfold pruneOne
  cases hf : find ns nb with
  | none => exact h
  | some n =>
    simp only
    by_cases hlc : lc < n.nbrs.length
    · simp only [hlc, if_true]
      split
      · exact h
      · exact LOK_setLayer h nb lc _ (hprune nb _ _ (LOK_getD h hf hlc))
    · simp only [hlc, if_false]; exact h

theorem LOK_pruneFold {R : Nat → Nat → List Nat → Prop} (c : Cfg V) (lc mMax : Nat)
    (hprune : ∀ nb old (key : Nat → Nat), R nb lc old → R nb lc ((sortBy key old).take mMax))
    (needs : List Nat) (ns : NodeMap V) (h : LOK R ns) :
    LOK R (needs.foldl (pruneOne c lc mMax) ns) := by
  induction needs generalizing ns with
  | nil => exact h
  | cons x xs ih => exact ih _ (LOK_pruneOne c lc mMax hprune ns x h)

/-! ### keys and vectors are not touched by the layer loop -/

theorem keys_setLayer (ns : NodeMap V) (k lc : Nat) (l : List Nat) :
    keys (setLayer ns k lc l) = keys ns := keys_modify _ _ _

theorem keys_linkStep (id lc mMax : Nat) (acc : NodeMap V × List Nat) (nb : Nat) :
    keys (linkStep id lc mMax acc nb).1 = keys acc.1 := by
  unfold linkStep
  cases find acc.1 nb with
  | none => rfl
  | some n =>
    simp only
    split
    · exact keys_setLayer _ _ _ _
    · rfl

theorem keys_linkFold (id lc mMax : Nat) (sel : List Nat) (acc : NodeMap V × List Nat) :
    keys (sel.foldl (linkStep id lc mMax) acc).1 = keys acc.1 := by
  induction sel generalizing acc with
  | nil => rfl
  | cons x xs ih => rw [List.foldl_cons, ih, keys_linkStep]

theorem keys_pruneOne (c : Cfg V) (lc mMax : Nat) (ns : NodeMap V) (nb : Nat) :
    keys (pruneOne c lc mMax ns nb) = keys ns := by
  unfold pruneOne
  cases find ns nb with
  | none => rfl
  | some n =>
    simp only
    split
    · split
      · rfl
      · exact keys_setLayer _ _ _ _
    · rfl

theorem keys_pruneFold (c : Cfg V) (lc mMax : Nat) (needs : List Nat) (ns : NodeMap V) :
    keys (needs.foldl (pruneOne c lc mMax) ns) = keys ns := by
  induction needs generalizing ns with
  | nil => rfl
  | cons x xs ih => rw [List.foldl_cons, ih, keys_pruneOne]

theorem keys_layerStep (c : Cfg V) (id : Nat) (v : V) (lc : Nat) (ns : NodeMap V) (cur : Nat) :
    keys (layerStep c id v lc ns cur).1 = keys ns := by
  simp only [layerStep, keys_pruneFold, keys_linkFold, keys_setLayer]

theorem keys_layers (c : Cfg V) (id : Nat) (v : V) (n : Nat) (ns : NodeMap V) (cur : Nat) :
    keys (layers c id v n ns cur) = keys ns := by
  induction n generalizing ns cur with
  | zero => rfl
  | succ lc ih => simp only [layers]; rw [ih, keys_layerStep]

/-! ### what `select_neighbors_heuristic` returns -/

theorem selectStep_mem (c : Cfg V) (ns : NodeMap V) (d : Nat → Nat) (m : Nat) (sel : List Nat)
    (cand : Nat) (P : Nat → Prop) (hs : ∀ x ∈ sel, P x)
    (hc : (find ns cand).isSome = true → P cand) :
    ∀ x ∈ selectStep c ns d m sel cand, P x := by
  unfold selectStep
  split
  · exact hs
  · cases hf : find ns cand with
    | none => exact hs
    | some cn =>
      simp only
      split
      · exact hs
      · intro x hx
        rw [List.mem_append, List.mem_singleton] at hx
        cases hx with
        | inl hx => exact hs x hx
        | inr hx => subst hx; exact hc (by simp [hf])

/-- every selected id is a key of the map and one of the candidates -/
theorem selectHeur_mem (c : Cfg V) (ns : NodeMap V) (d : Nat → Nat) (cands : List Nat) (m : Nat) :
    ∀ x ∈ selectHeur c ns d cands m, x ∈ keys ns ∧ x ∈ cands := by
  unfold selectHeur
  suffices h : ∀ (cs : List Nat) (sel : List Nat), (∀ x ∈ sel, x ∈ keys ns ∧ x ∈ cands) →
      (∀ x ∈ cs, x ∈ cands) →
      ∀ x ∈ cs.foldl (selectStep c ns d m) sel, x ∈ keys ns ∧ x ∈ cands from
    h cands [] (by simp) (fun x hx => hx)
  intro cs
  induction cs with
  | nil => intro sel hs _; exact hs
  | cons y ys ih =>
    intro sel hs hsub
    rw [List.foldl_cons]
    apply ih
    · exact selectStep_mem c ns d m sel y _ hs
        (fun hy => ⟨(find_isSome_iff ns y).mp hy, hsub y (List.mem_cons_self ..)⟩)
    · intro x hx; exact hsub x (List.mem_cons_of_mem _ hx)

theorem selectStep_length (c : Cfg V) (ns : NodeMap V) (d : Nat → Nat) (m : Nat) (sel : List Nat)
    (cand : Nat) (hs : sel.length ≤ m) : (selectStep c ns d m sel cand).length ≤ m := by
  unfold selectStep
  split
  · exact hs
  · cases find ns cand with
    | none => exact hs
    | some cn =>
      simp only
      split
      · exact hs
      · rw [List.length_append, List.length_singleton]; omega

/-- at most `m` ids are selected -/
theorem selectHeur_length (c : Cfg V) (ns : NodeMap V) (d : Nat → Nat) (cands : List Nat) (m : Nat) :
    (selectHeur c ns d cands m).length ≤ m := by
  unfold selectHeur
  suffices h : ∀ (cs sel : List Nat), sel.length ≤ m →
      (cs.foldl (selectStep c ns d m) sel).length ≤ m from h cands [] (by simp)
  intro cs
  induction cs with
  | nil => intro sel hs; exact hs
  | cons y ys ih =>
    intro sel hs
    rw [List.foldl_cons]
    exact ih _ (selectStep_length c ns d m sel y hs)

/-- a generic step of the layer loop: `R` survives when it holds for the selected list of the new
node, survives a `push(id)` and survives pruning -/
theorem LOK_layerStep {R : Nat → Nat → List Nat → Prop} (c : Cfg V) (id : Nat) (v : V) (lc : Nat)
    (ns : NodeMap V) (cur : Nat) (h : LOK R ns)
    (hown : ∀ sel : List Nat, (∀ x ∈ sel, x ∈ keys ns) →
      sel.length ≤ (if lc = 0 then c.mMax else c.m) → R id lc sel)
    (hpush : ∀ nb old, R nb lc old → R nb lc (old ++ [id]))
    (hprune : ∀ nb old (key : Nat → Nat), R nb lc old →
      R nb lc ((sortBy key old).take (if lc = 0 then c.mMax else c.m))) :
    LOK R (layerStep c id v lc ns cur).1 := by
  simp only [layerStep]
  apply LOK_pruneFold c lc _ hprune
  apply LOK_linkFold id lc _ hpush
  apply LOK_setLayer h
  apply hown
  · intro x hx; exact (selectHeur_mem c ns _ _ _ x hx).1
  · exact selectHeur_length c ns _ _ _


/-! ### (d): list lengths.  `RD bd lc needs`: off layer `lc` every list obeys its bound; on layer
`lc` a list may be too long only if its owner is still marked for pruning -/

def RD (bd : Nat → Nat) (lc : Nat) (needs : List Nat) : Nat → Nat → List Nat → Prop :=
  fun k i l => (i ≠ lc → l.length ≤ bd i) ∧ (i = lc → bd lc < l.length → k ∈ needs)

/-- `LOK_setLayer` needing `R` only for the lists that are not replaced -/
theorem LOK_setLayer' {R : Nat → Nat → List Nat → Prop} {ns : NodeMap V} (k lc : Nat)
    (h : ∀ k' n, find ns k' = some n → ∀ i l, n.nbrs[i]? = some l → (k' ≠ k ∨ i ≠ lc) → R k' i l)
    (l : List Nat) (hl : R k lc l) : LOK R (setLayer ns k lc l) := by
  intro k' n' hf i l' hget
  rw [setLayer, find_modify] at hf
  by_cases hk : k = k'
  · subst hk
    simp only [if_true] at hf
    cases hfn : find ns k with
    | none => rw [hfn] at hf; simp at hf
    | some n =>
      rw [hfn] at hf
      simp only [Option.map_some, Option.some.injEq] at hf
      subst hf
      simp only [List.getElem?_set] at hget
      by_cases hi : lc = i
      · subst hi
        simp only [if_true] at hget
        split at hget
        · simp only [Option.some.injEq] at hget; subst hget; exact hl
        · simp at hget
      · simp only [hi, if_false] at hget
        exact h k n hfn i l' hget (Or.inr (Ne.symm hi))
  · simp only [hk, if_false] at hf
    exact h k' n' hf i l' hget (Or.inl (Ne.symm hk))

theorem RD_linkStep (bd : Nat → Nat) (id lc : Nat) (acc : NodeMap V × List Nat) (nb : Nat)
    (h : LOK (RD bd lc acc.2) acc.1) :
    LOK (RD bd lc (linkStep id lc (bd lc) acc nb).2) (linkStep id lc (bd lc) acc nb).1 := by
  unfold linkStep
  cases hf : find acc.1 nb with
  | none => exact h
  | some n =>
    simp only
    by_cases hlc : lc < n.nbrs.length
    · simp only [hlc, if_true]
      apply LOK_setLayer
      · intro k n' hfk i l hg
        obtain ⟨h1, h2⟩ := h k n' hfk i l hg
        refine ⟨h1, fun hi hov => ?_⟩
        have := h2 hi hov
        split
        · exact List.mem_append_left _ this
        · exact this
      · refine ⟨fun hne => absurd rfl hne, fun _ hov => ?_⟩
        rw [if_pos hov]; simp
    · simp only [hlc, if_false]; exact h

theorem RD_linkFold (bd : Nat → Nat) (id lc : Nat) (sel : List Nat) (acc : NodeMap V × List Nat)
    (h : LOK (RD bd lc acc.2) acc.1) :
    LOK (RD bd lc (sel.foldl (linkStep id lc (bd lc)) acc).2)
      (sel.foldl (linkStep id lc (bd lc)) acc).1 := by
  induction sel generalizing acc with
  | nil => exact h
  | cons x xs ih => exact ih _ (RD_linkStep bd id lc acc x h)

theorem RD_pruneOne (c : Cfg V) (bd : Nat → Nat) (lc : Nat) (ns : NodeMap V) (nb : Nat)
    (rest : List Nat) (h : LOK (RD bd lc (nb :: rest)) ns) :
    LOK (RD bd lc rest) (pruneOne c lc (bd lc) ns nb) := by
  have key : ∀ k n, find ns k = some n → ∀ i l, n.nbrs[i]? = some l → (k ≠ nb ∨ i ≠ lc) →
      RD bd lc rest k i l := by
    intro k n hf i l hg hne
    obtain ⟨h1, h2⟩ := h k n hf i l hg
    refine ⟨h1, fun hi hov => ?_⟩
    have hm := h2 hi hov
    rw [List.mem_cons] at hm
    cases hm with
    | inl hm =>
      cases hne with
      | inl h3 => exact absurd hm h3
      | inr h3 => exact absurd hi h3
    | inr hm => exact hm
  unfold pruneOne
  cases hfn : find ns nb with
  | none =>
    intro k n hf i l hg
    apply key k n hf i l hg
    left; intro hk; subst hk; rw [hfn] at hf; cases hf
  | some n0 =>
    simp only
    by_cases hlc : lc < n0.nbrs.length
    · simp only [hlc, if_true]
      by_cases hlen : (n0.nbrs.getD lc []).length ≤ bd lc
      · simp only [hlen, if_true]
        intro k n hf i l hg
        by_cases hk : k = nb
        · by_cases hi : i = lc
          · subst hk; subst hi
            rw [hfn] at hf
            simp only [Option.some.injEq] at hf
            subst hf
            simp only [List.getD, hg, Option.getD_some] at hlen
            exact ⟨fun hne => absurd rfl hne, fun _ hov => absurd hlen (by omega)⟩
          · exact key k n hf i l hg (Or.inr hi)
        · exact key k n hf i l hg (Or.inl hk)
      · simp only [hlen, if_false]
        apply LOK_setLayer' nb lc key
        refine ⟨fun hne => absurd rfl hne, fun _ hov => ?_⟩
        rw [List.length_take] at hov
        omega
    · simp only [hlc, if_false]
      intro k n hf i l hg
      by_cases hk : k = nb
      · by_cases hi : i = lc
        · subst hk; subst hi
          rw [hfn] at hf
          simp only [Option.some.injEq] at hf
          subst hf
          have hlt : i < n0.nbrs.length := by
            apply Classical.byContradiction
            intro hnot
            rw [List.getElem?_eq_none (Nat.le_of_not_lt hnot)] at hg
            cases hg
          exact absurd hlt hlc
        · exact key k n hf i l hg (Or.inr hi)
      · exact key k n hf i l hg (Or.inl hk)

theorem RD_pruneFold (c : Cfg V) (bd : Nat → Nat) (lc : Nat) (needs : List Nat) (ns : NodeMap V)
    (h : LOK (RD bd lc needs) ns) :
    LOK (RD bd lc []) (needs.foldl (pruneOne c lc (bd lc)) ns) := by
  induction needs generalizing ns with
  | nil => exact h
  | cons x xs ih => exact ih _ (RD_pruneOne c bd lc ns x xs h)

/-- the length bounds of all layers survive one step of the layer loop -/
theorem bound_layerStep (c : Cfg V) (id : Nat) (v : V) (lc : Nat) (ns : NodeMap V) (cur : Nat)
    (h : LOK (fun _ i l => l.length ≤ (if i = 0 then c.mMax else c.m)) ns) :
    LOK (fun _ i l => l.length ≤ (if i = 0 then c.mMax else c.m)) (layerStep c id v lc ns cur).1 := by
  simp only [layerStep]
  have h1 : LOK (fun _ i l => l.length ≤ (if i = 0 then c.mMax else c.m))
      (setLayer ns id lc (selectHeur c ns (dq c ns v)
        (searchLayer (adjAt ns lc) (dq c ns v) c.efc c.fuel cur) (if lc = 0 then c.mMax else c.m))) :=
    LOK_setLayer h id lc _ (selectHeur_length c ns _ _ _)
  have h2 : LOK (RD (fun i => if i = 0 then c.mMax else c.m) lc []) (setLayer ns id lc (selectHeur c ns (dq c ns v)
        (searchLayer (adjAt ns lc) (dq c ns v) c.efc c.fuel cur) (if lc = 0 then c.mMax else c.m))) := by
    intro k n hf i l hg
    have := h1 k n hf i l hg
    exact ⟨fun _ => this, fun hi hov => by subst hi; simp only at this hov; omega⟩
  have h3 := RD_linkFold (fun i => if i = 0 then c.mMax else c.m) id lc
    (selectHeur c ns (dq c ns v) (searchLayer (adjAt ns lc) (dq c ns v) c.efc c.fuel cur)
      (if lc = 0 then c.mMax else c.m)) (_, []) h2
  have h4 := RD_pruneFold c (fun i => if i = 0 then c.mMax else c.m) lc _ _ h3
  intro k n hf i l hg
  obtain ⟨g1, g2⟩ := h4 k n hf i l hg
  by_cases hi : i = lc
  · subst hi
    apply Classical.byContradiction
    intro hnot
    have := g2 rfl (by simp only; omega)
    simp at this
  · exact g1 hi

theorem bound_layers (c : Cfg V) (id : Nat) (v : V) (n : Nat) (ns : NodeMap V) (cur : Nat)
    (h : LOK (fun _ i l => l.length ≤ (if i = 0 then c.mMax else c.m)) ns) :
    LOK (fun _ i l => l.length ≤ (if i = 0 then c.mMax else c.m)) (layers c id v n ns cur) := by
  induction n generalizing ns cur with
  | zero => exact h
  | succ lc ih => simp only [layers]; exact ih _ _ (bound_layerStep c id v lc ns cur h)

end Grafeo.HnswBuild
