import GrafeoModel.Model.Lex2

/-!
Generic part of the C12 proofs for the four non-GQL lexers.

`Mono w c c'` — cursor `c'` is cursor `c` after consuming whole characters `xs`, the offset having
grown by exactly `sumW w xs` (`w = utf8Len`: byte offsets; `w = 1`: Gremlin's character count).
`StepOK w next` — what one call of a lexer's `next_token` must guarantee; from it the four
statements (boundary, progress, termination, ordered spans) follow for `tokenizeWith next`.
-/
namespace Grafeo.Lex2
open Grafeo.Lex

/-! ### widths -/

def sumW (w : Char → Nat) : List Char → Nat
  | [] => 0
  | c :: r => w c + sumW w r

theorem sumW_append (w : Char → Nat) (xs ys : List Char) :
    sumW w (xs ++ ys) = sumW w xs + sumW w ys := by
  induction xs with
  | nil => simp [sumW]
  | cons x xs ih => simp [sumW, ih]; omega

theorem sumW_utf8 (xs : List Char) : sumW utf8Len xs = utf8Bytes xs := by
  induction xs with
  | nil => rfl
  | cons x xs ih => simp [sumW, utf8Bytes, ih]

theorem utf8Len_pos (c : Char) : 1 ≤ utf8Len c := by
  unfold utf8Len; split <;> (try split) <;> (try split) <;> omega

theorem length_le_sumW (w : Char → Nat) (hw : ∀ c, 1 ≤ w c) (xs : List Char) :
    xs.length ≤ sumW w xs := by
  induction xs with
  | nil => simp [sumW]
  | cons x xs ih => have := hw x; simp [sumW]; omega

/-! ### the step relation -/

def Mono (w : Char → Nat) (c c' : Cur) : Prop :=
  ∃ xs : List Char, c.rest = xs ++ c'.rest ∧ c'.pos = c.pos + sumW w xs

theorem Mono.refl (w : Char → Nat) (c : Cur) : Mono w c c := ⟨[], by simp, by simp [sumW]⟩

theorem Mono.trans {w : Char → Nat} {c c' c'' : Cur} (h1 : Mono w c c') (h2 : Mono w c' c'') :
    Mono w c c'' := by
  obtain ⟨xs, hr, hp⟩ := h1
  obtain ⟨ys, hr', hp'⟩ := h2
  exact ⟨xs ++ ys, by rw [hr, hr', List.append_assoc], by rw [hp', hp, sumW_append]; omega⟩

theorem Mono.cons (w : Char → Nat) (ch : Char) (r : List Char) (n : Nat) :
    Mono w ⟨ch :: r, n⟩ ⟨r, n + w ch⟩ := ⟨[ch], by simp, by simp [sumW]⟩

theorem Mono.length_le {w : Char → Nat} {c c' : Cur} (h : Mono w c c') :
    c'.rest.length ≤ c.rest.length := by
  obtain ⟨xs, hr, _⟩ := h
  rw [hr]; simp

theorem Mono.pos_le {w : Char → Nat} {c c' : Cur} (h : Mono w c c') : c.pos ≤ c'.pos := by
  obtain ⟨xs, _, hp⟩ := h
  omega

/-- strictly fewer characters left ⇒ the offset strictly grew (every width is ≥ 1) -/
theorem Mono.pos_lt {w : Char → Nat} (hw : ∀ c, 1 ≤ w c) {c c' : Cur} (h : Mono w c c')
    (hl : c'.rest.length < c.rest.length) : c.pos < c'.pos := by
  obtain ⟨xs, hr, hp⟩ := h
  have h1 := length_le_sumW w hw xs
  rw [hr] at hl; simp at hl
  omega

/-- a step that starts by consuming `ch` leaves strictly fewer characters -/
theorem Mono.lt_of_cons {w : Char → Nat} {ch : Char} {r : List Char} {n : Nat} {c' : Cur}
    (h : Mono w ⟨r, n + w ch⟩ c') : c'.rest.length < (ch :: r).length := by
  have := h.length_le
  simp at this ⊢; omega

/-! ### `Lex.adv`, `Lex.skipWhile` (guarded `advance`, `while p(current_char()) { advance() }`) -/

theorem mono_adv {c0 c : Cur} (h : Mono utf8Len c0 c) : Mono utf8Len c0 (adv c) := by
  unfold adv
  split
  · exact h
  · rename_i ch r hr
    refine h.trans ⟨[ch], by simp [hr], by simp [sumW]⟩

theorem skipWhile_mono (p : Char → Bool) (r : List Char) (n : Nat) :
    Mono utf8Len ⟨r, n⟩ (skipWhile p r n) := by
  induction r generalizing n with
  | nil => simp only [skipWhile]; exact Mono.refl _ _
  | cons ch r ih =>
    simp only [skipWhile]
    split
    · exact (Mono.cons utf8Len ch r n).trans (ih _)
    · exact Mono.refl _ _

theorem mono_skipWhile {c0 : Cur} {p : Char → Bool} {r : List Char} {n : Nat}
    (h : Mono utf8Len c0 ⟨r, n⟩) : Mono utf8Len c0 (skipWhile p r n) :=
  h.trans (skipWhile_mono p r n)

/-- a `while p(cur)` loop whose guard accepts the first character consumes it -/
theorem skipWhile_lt (p : Char → Bool) (ch : Char) (r : List Char) (n : Nat) (h : p ch = true) :
    (skipWhile p (ch :: r) n).rest.length < (ch :: r).length := by
  simp only [skipWhile, h, if_true]
  exact (skipWhile_mono p r (n + utf8Len ch)).lt_of_cons

theorem rest_ne_of_cur {c : Cur} (h : cur c ≠ '\x00') : c.rest ≠ [] := by
  intro h0; apply h; simp [cur, h0]

theorem rest_ne_of_peek {c : Cur} (h : peek c ≠ '\x00') : (adv c).rest ≠ [] := by
  obtain ⟨rest, p⟩ := c
  match rest, h with
  | [], h => exact absurd rfl h
  | [_], h => exact absurd rfl h
  | _ :: b :: r, _ => simp [adv]

/-! ### `skipWhileW`, `readNum`, `advW` (GraphQL, Gremlin) -/

theorem ite_ind {α : Type} (P : α → Prop) (b : Bool) (x y : α)
    (hx : b = true → P x) (hy : b = false → P y) : P (if b = true then x else y) := by
  cases b
  · simpa using hy rfl
  · simpa using hx rfl

theorem skipWhileW_mono (w : Char → Nat) (p : Char → Bool) (r : List Char) (n : Nat) :
    Mono w ⟨r, n⟩ (skipWhileW w p r n) := by
  induction r generalizing n with
  | nil => exact Mono.refl _ _
  | cons ch r ih =>
    simp only [skipWhileW]
    exact ite_ind (Mono w ⟨ch :: r, n⟩) _ _ _
      (fun _ => (Mono.cons w ch r n).trans (ih _)) (fun _ => Mono.refl _ _)

theorem advW_mono (w : Char → Nat) (c : Cur) : Mono w c (advW w c) := by
  obtain ⟨rest, p⟩ := c
  cases rest with
  | nil => exact Mono.refl _ _
  | cons ch r => exact Mono.cons w ch r p

theorem readNum_mono (w : Char → Nat) (a b : Bool) (r : List Char) (n : Nat) :
    Mono w ⟨r, n⟩ (readNum w a b r n).2 := by
  fun_induction readNum w a b r n with
  | case1 a b n => exact Mono.refl _ _
  | case2 a b ch r n _ ih => exact (Mono.cons w ch r n).trans ih
  | case3 a b ch r n _ _ ih => exact (Mono.cons w ch r n).trans ih
  | case4 a b ch n _ _ _ => exact Mono.cons w ch [] n
  | case5 a b ch n _ _ _ s r' _ ih =>
    exact ((Mono.cons w ch (s :: r') n).trans (Mono.cons w s r' _)).trans ih
  | case6 a b ch n _ _ _ s r' _ ih => exact (Mono.cons w ch _ n).trans ih
  | case7 a b ch r n _ _ _ => exact Mono.refl _ _

theorem sumW_one (xs : List Char) : sumW (fun _ => 1) xs = xs.length := by
  induction xs with
  | nil => rfl
  | cons x xs ih => simp [sumW, ih]; omega

/-! ### `iter` -/

theorem iter_mono {w : Char → Nat} (step : Cur → Option Cur)
    (hs : ∀ c c', step c = some c' → Mono w c c') (fuel : Nat) (c : Cur) :
    Mono w c (iter step fuel c) := by
  induction fuel generalizing c with
  | zero => exact Mono.refl _ _
  | succ fuel ih =>
    simp only [iter]
    split
    · exact Mono.refl _ _
    · rename_i c' hc
      exact (hs c c' hc).trans (ih c')

/-- with fuel > number of remaining characters the loop leaves through its `break` -/
theorem iter_done (step : Cur → Option Cur)
    (hs : ∀ c c', step c = some c' → c'.rest.length < c.rest.length) (fuel : Nat) (c : Cur)
    (hf : c.rest.length < fuel) : step (iter step fuel c) = none := by
  induction fuel generalizing c with
  | zero => omega
  | succ fuel ih =>
    simp only [iter]
    split
    · assumption
    · rename_i c' hc
      have := hs c c' hc
      exact ih c' (by omega)

/-! ### one call of `next_token`, and what follows for the token list -/

/-- `next c` skips to a cursor `cs` (whitespace, comments), the token starts there and stops at the
returned cursor, which is `cs` after whole characters — at least one unless the token is `eof` -/
def StepOK (w : Char → Nat) (next : Cur → Tok × Cur) : Prop :=
  ∀ c, ∃ cs, Mono w c cs ∧ (next c).1.start = cs.pos ∧ (next c).1.stop = (next c).2.pos ∧
    Mono w cs (next c).2 ∧ ((next c).1.k ≠ .eof → (next c).2.rest.length < cs.rest.length)

/-- `p` is a legal offset of `input`: the width of a prefix -/
def IsBoundaryW (w : Char → Nat) (input : List Char) (p : Nat) : Prop :=
  ∃ pre suf : List Char, input = pre ++ suf ∧ p = sumW w pre

/-- the cursor is in step with the input -/
def Wf (w : Char → Nat) (input : List Char) (c : Cur) : Prop :=
  ∃ pre : List Char, input = pre ++ c.rest ∧ c.pos = sumW w pre

theorem wf_init (w : Char → Nat) (input : List Char) : Wf w input ⟨input, 0⟩ :=
  ⟨[], by simp, by simp [sumW]⟩

theorem Wf.step {w : Char → Nat} {input : List Char} {c c' : Cur} (h : Wf w input c)
    (ha : Mono w c c') : Wf w input c' := by
  obtain ⟨pre, hi, hp⟩ := h
  obtain ⟨xs, hr, hp'⟩ := ha
  exact ⟨pre ++ xs, by rw [hi, hr, List.append_assoc], by rw [hp', hp, sumW_append]⟩

theorem Wf.boundary {w : Char → Nat} {input : List Char} {c : Cur} (h : Wf w input c) :
    IsBoundaryW w input c.pos := by
  obtain ⟨pre, hi, hp⟩ := h
  exact ⟨pre, c.rest, hi, hp⟩

theorem Wf.total {w : Char → Nat} {input : List Char} {c : Cur} (h : Wf w input c) :
    c.pos + sumW w c.rest = sumW w input := by
  obtain ⟨pre, hi, hp⟩ := h
  rw [hi, hp, sumW_append]

theorem IsBoundaryW.le {w : Char → Nat} {input : List Char} {p : Nat}
    (h : IsBoundaryW w input p) : p ≤ sumW w input := by
  obtain ⟨pre, suf, hi, hp⟩ := h
  rw [hi, hp, sumW_append]; omega

theorem isBoundaryW_utf8 {input : List Char} {p : Nat} (h : IsBoundaryW utf8Len input p) :
    ∃ pre suf : List Char, input = pre ++ suf ∧ p = utf8Bytes pre := by
  obtain ⟨pre, suf, hi, hp⟩ := h
  exact ⟨pre, suf, hi, by rw [hp, sumW_utf8]⟩

/-- what is claimed of one token -/
def TokOK (w : Char → Nat) (input : List Char) (t : Tok) : Prop :=
  IsBoundaryW w input t.start ∧ IsBoundaryW w input t.stop ∧ t.start ≤ t.stop ∧
  t.stop ≤ sumW w input ∧ (t.k ≠ .eof → t.start < t.stop)

/-- spans in order and disjoint: each token starts at or after `lo` = the previous token's stop -/
def Chain : Nat → List Tok → Prop
  | _, [] => True
  | lo, t :: ts => lo ≤ t.start ∧ t.start ≤ t.stop ∧ Chain t.stop ts

theorem step_tok {w : Char → Nat} (hw : ∀ c, 1 ≤ w c) {next : Cur → Tok × Cur}
    (hn : StepOK w next) (input : List Char) (c : Cur) (h : Wf w input c) :
    Wf w input (next c).2 ∧ TokOK w input (next c).1 ∧ c.pos ≤ (next c).1.start := by
  obtain ⟨cs, h1, hs, ht, h2, h3⟩ := hn c
  have hws := h.step h1
  have hw' := hws.step h2
  refine ⟨hw', ⟨?_, ?_, ?_, ?_, ?_⟩, ?_⟩
  · rw [hs]; exact hws.boundary
  · rw [ht]; exact hw'.boundary
  · rw [hs, ht]; exact h2.pos_le
  · rw [ht]; exact hw'.boundary.le
  · intro hk; rw [hs, ht]; exact h2.pos_lt hw (h3 hk)
  · rw [hs]; exact h1.pos_le

theorem tokenizeAux_ok {w : Char → Nat} (hw : ∀ c, 1 ≤ w c) {next : Cur → Tok × Cur}
    (hn : StepOK w next) (input : List Char) (fuel : Nat) (c : Cur) (h : Wf w input c) :
    (∀ t ∈ tokenizeAux next fuel c, TokOK w input t) ∧ Chain c.pos (tokenizeAux next fuel c) := by
  induction fuel generalizing c with
  | zero => simp [tokenizeAux, Chain]
  | succ fuel ih =>
    obtain ⟨hw', htok, hlo⟩ := step_tok hw hn input c h
    simp only [tokenizeAux]
    split
    · refine ⟨?_, hlo, htok.2.2.1, trivial⟩
      intro t ht; simp only [List.mem_singleton] at ht; subst ht; exact htok
    · obtain ⟨ih1, ih2⟩ := ih _ hw'
      obtain ⟨cs, _, _, ht, _, _⟩ := hn c
      refine ⟨?_, hlo, htok.2.2.1, by rw [ht]; exact ih2⟩
      intro t ht
      simp only [List.mem_cons] at ht
      cases ht with
      | inl ht => subst ht; exact htok
      | inr ht => exact ih1 t ht

theorem tokenizeAux_terminates {w : Char → Nat} {next : Cur → Tok × Cur} (hn : StepOK w next)
    (fuel : Nat) (c : Cur) (h : c.rest.length < fuel) :
    ∃ ts t, tokenizeAux next fuel c = ts ++ [t] ∧ t.k = .eof ∧ (∀ u ∈ ts, u.k ≠ .eof) ∧
      ts.length ≤ c.rest.length := by
  induction fuel generalizing c with
  | zero => omega
  | succ fuel ih =>
    simp only [tokenizeAux]
    split
    · rename_i he
      exact ⟨[], (next c).1, by simp, he, by simp, by simp⟩
    · rename_i he
      obtain ⟨cs, h1, _, _, _, h3⟩ := hn c
      have hlt := h3 he
      have hle := h1.length_le
      obtain ⟨ts, t, e, ht, hall, hlen⟩ := ih (next c).2 (by omega)
      refine ⟨(next c).1 :: ts, t, by rw [e]; simp, ht, ?_, by simp; omega⟩
      intro u hu
      simp only [List.mem_cons] at hu
      cases hu with
      | inl hu => subst hu; exact he
      | inr hu => exact hall u hu

/-- **the four statements for a lexer whose `next_token` satisfies `StepOK`** -/
theorem tokenizeWith_ok {w : Char → Nat} (hw : ∀ c, 1 ≤ w c) {next : Cur → Tok × Cur}
    (hn : StepOK w next) (input : List Char) :
    (∀ t ∈ tokenizeWith next input, TokOK w input t) ∧
    Chain 0 (tokenizeWith next input) ∧
    (∃ ts t, tokenizeWith next input = ts ++ [t] ∧ t.k = .eof ∧ (∀ u ∈ ts, u.k ≠ .eof)) ∧
    (tokenizeWith next input).length ≤ input.length + 1 := by
  obtain ⟨h1, h2⟩ := tokenizeAux_ok hw hn input (input.length + 1) ⟨input, 0⟩ (wf_init w input)
  obtain ⟨ts, t, e, ht, hall, hlen⟩ :=
    tokenizeAux_terminates hn (input.length + 1) ⟨input, 0⟩ (by simp)
  refine ⟨h1, h2, ⟨ts, t, e, ht, hall⟩, ?_⟩
  unfold tokenizeWith
  rw [e]; simp at hlen ⊢; omega

end Grafeo.Lex2
