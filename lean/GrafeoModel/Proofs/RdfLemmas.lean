import GrafeoModel.Model.Rdf

/-! Index invariant of the RDF store model and its preservation. -/

namespace Grafeo.Rdf

def keys (idx : Index) : List Nat := idx.map (·.1)

theorem idxGet_of_not_mem (idx : Index) (k : Nat) (h : k ∉ keys idx) : idxGet idx k = [] := by
  induction idx with
  | nil => rfl
  | cons kv rest ih =>
    obtain ⟨k', v⟩ := kv
    simp only [keys, List.map_cons, List.mem_cons, not_or] at h
    simp only [idxGet]
    rw [if_neg (fun e => h.1 e.symm)]
    exact ih h.2

theorem idxGet_push (idx : Index) (k : Nat) (t : Triple) (k' : Nat) :
    idxGet (idxPush idx k t) k' = if k' = k then idxGet idx k ++ [t] else idxGet idx k' := by
  induction idx with
  | nil =>
    simp only [idxPush, idxGet]
    by_cases h : k' = k
    · subst h; simp
    · have : ¬ k = k' := fun e => h e.symm
      simp [h, this]
  | cons kv rest ih =>
    obtain ⟨k0, v⟩ := kv
    simp only [idxPush]
    by_cases h0 : k0 = k
    · subst h0
      simp only [if_true, idxGet]
      by_cases h : k' = k0
      · subst h; simp
      · have : ¬ k0 = k' := fun e => h e.symm
        simp [h, this]
    · simp only [h0, if_false, idxGet]
      by_cases h1 : k0 = k'
      · subst h1
        have : ¬ k0 = k := h0
        simp [this]
      · simp only [h1, if_false]; exact ih

theorem keys_push (idx : Index) (k : Nat) (t : Triple) :
    keys (idxPush idx k t) = if k ∈ keys idx then keys idx else keys idx ++ [k] := by
  induction idx with
  | nil => simp [idxPush, keys]
  | cons kv rest ih =>
    obtain ⟨k0, v⟩ := kv
    simp only [idxPush]
    by_cases h0 : k0 = k
    · subst h0; simp [keys]
    · simp only [h0, if_false]
      have ih' := ih
      simp only [keys] at ih' ⊢
      simp only [List.map_cons, List.mem_cons, ih']
      have : ¬ k = k0 := fun e => h0 e.symm
      simp only [this, false_or]
      split
      · rename_i h; simp [h]
      · rename_i h; simp [h]

theorem nonempty_push (idx : Index) (k : Nat) (t : Triple) (h : ∀ kv ∈ idx, kv.2 ≠ []) :
    ∀ kv ∈ idxPush idx k t, kv.2 ≠ [] := by
  induction idx with
  | nil => intro kv hkv; simp [idxPush] at hkv; subst hkv; simp
  | cons kv0 rest ih =>
    obtain ⟨k0, v⟩ := kv0
    intro kv hkv
    simp only [idxPush] at hkv
    split at hkv
    · rcases List.mem_cons.mp hkv with rfl | h'
      · simp
      · exact h kv (List.mem_cons_of_mem _ h')
    · rcases List.mem_cons.mp hkv with rfl | h'
      · exact h _ List.mem_cons_self
      · exact ih (fun x hx => h x (List.mem_cons_of_mem _ hx)) kv h'

theorem keys_remove_sublist (idx : Index) (k : Nat) (t : Triple) :
    (keys (idxRemove idx k t)).Sublist (keys idx) := by
  induction idx with
  | nil => simp [idxRemove, keys]
  | cons kv rest ih =>
    obtain ⟨k0, v⟩ := kv
    simp only [idxRemove]
    split
    · split
      · simp only [keys, List.map_cons]; exact List.sublist_cons_self _ _
      · simp only [keys, List.map_cons]; exact List.Sublist.refl _
    · simp only [keys, List.map_cons] at ih ⊢
      exact List.Sublist.cons_cons _ ih

theorem idxGet_remove (idx : Index) (k : Nat) (t : Triple) (k' : Nat) (hnd : (keys idx).Nodup) :
    idxGet (idxRemove idx k t) k' =
      if k' = k then (idxGet idx k).filter (fun x => x != t) else idxGet idx k' := by
  induction idx with
  | nil => simp [idxRemove, idxGet]
  | cons kv rest ih =>
    obtain ⟨k0, v⟩ := kv
    simp only [keys, List.map_cons, List.nodup_cons] at hnd
    simp only [idxRemove]
    by_cases h0 : k0 = k
    · subst h0
      simp only [if_true]
      by_cases hemp : (v.filter (fun x => x != t)).isEmpty = true
      · simp only [hemp, if_true, idxGet]
        by_cases h : k' = k0
        · subst h
          simp only [if_true]
          rw [idxGet_of_not_mem rest k' hnd.1]
          exact (List.isEmpty_iff.mp hemp).symm
        · have : ¬ k0 = k' := fun e => h e.symm
          simp [h, this]
      · simp only [hemp]
        by_cases h : k' = k0
        · subst h; simp [idxGet]
        · have : ¬ k0 = k' := fun e => h e.symm
          simp [h, this, idxGet]
    · simp only [h0, if_false, idxGet]
      by_cases h1 : k0 = k'
      · subst h1
        have : ¬ k0 = k := h0
        simp [this]
      · simp only [h1, if_false]; exact ih hnd.2

theorem nonempty_remove (idx : Index) (k : Nat) (t : Triple) (h : ∀ kv ∈ idx, kv.2 ≠ []) :
    ∀ kv ∈ idxRemove idx k t, kv.2 ≠ [] := by
  induction idx with
  | nil => intro kv hkv; simp [idxRemove] at hkv
  | cons kv0 rest ih =>
    obtain ⟨k0, v⟩ := kv0
    intro kv hkv
    simp only [idxRemove] at hkv
    split at hkv
    · split at hkv
      · exact h kv (List.mem_cons_of_mem _ hkv)
      · rename_i hne
        rcases List.mem_cons.mp hkv with rfl | h'
        · intro he; simp only at he; rw [he] at hne; simp at hne
        · exact h kv (List.mem_cons_of_mem _ h')
    · rcases List.mem_cons.mp hkv with rfl | h'
      · exact h _ List.mem_cons_self
      · exact ih (fun x hx => h x (List.mem_cons_of_mem _ hx)) kv h'

/-- an index agrees with the triple list for the key projection `key`. -/
structure IdxInv (key : Triple → Nat) (idx : Index) (ts : List Triple) : Prop where
  nodup : (keys idx).Nodup
  get : ∀ k, idxGet idx k = ts.filter (fun t => key t == k)
  nonempty : ∀ kv ∈ idx, kv.2 ≠ []

theorem idxInv_empty (key : Triple → Nat) : IdxInv key [] [] :=
  ⟨by simp [keys], fun k => by simp [idxGet], fun kv h => by simp at h⟩

theorem idxInv_push (key : Triple → Nat) (idx : Index) (ts : List Triple) (t : Triple)
    (h : IdxInv key idx ts) : IdxInv key (idxPush idx (key t) t) (ts ++ [t]) := by
  refine ⟨?_, ?_, nonempty_push idx _ t h.nonempty⟩
  · rw [keys_push]
    split
    · exact h.nodup
    · rename_i hn
      rw [List.nodup_append]
      refine ⟨h.nodup, by simp, ?_⟩
      intro a ha b hb
      simp at hb; subst hb
      intro e; subst e; exact hn ha
  · intro k
    rw [idxGet_push, List.filter_append]
    by_cases hk : k = key t
    · subst hk; simp [h.get]
    · have : ¬ key t = k := fun e => hk e.symm
      simp [hk, this, h.get]

theorem idxInv_remove (key : Triple → Nat) (idx : Index) (ts : List Triple) (t : Triple)
    (h : IdxInv key idx ts) :
    IdxInv key (idxRemove idx (key t) t) (ts.filter (fun x => x != t)) := by
  refine ⟨List.Nodup.sublist (keys_remove_sublist idx _ t) h.nodup, ?_, nonempty_remove idx _ t h.nonempty⟩
  intro k
  rw [idxGet_remove idx _ t k h.nodup, List.filter_filter]
  by_cases hk : k = key t
  · subst hk
    simp only [if_true, h.get, List.filter_filter]
    apply List.filter_congr
    intro x _
    exact Bool.and_comm _ _
  · simp only [hk, if_false, h.get]
    apply List.filter_congr
    intro x _
    by_cases hx : key x = k
    · have : x ≠ t := by intro e; subst e; exact hk hx.symm
      simp [hx, this]
    · simp [hx]

/-! ### the store invariant -/

structure Inv (st : Store) : Prop where
  nodup : st.triples.Nodup
  sI : IdxInv (·.s) st.sIdx st.triples
  pI : IdxInv (·.p) st.pIdx st.triples
  oI : st.indexObjects = true → IdxInv (·.o) st.oIdx st.triples

theorem inv_new (b : Bool) : Inv (Store.new b) :=
  ⟨List.nodup_nil, idxInv_empty _, idxInv_empty _, fun _ => idxInv_empty _⟩

theorem inv_insert (st : Store) (t : Triple) (h : Inv st) : Inv (st.insert t).1 := by
  unfold Store.insert
  split
  · exact h
  · rename_i hn
    refine ⟨?_, idxInv_push _ _ _ t h.sI, idxInv_push _ _ _ t h.pI, ?_⟩
    · show (st.triples ++ [t]).Nodup
      rw [List.nodup_append]
      refine ⟨h.nodup, by simp, ?_⟩
      intro a ha b hb
      simp at hb; subst hb
      intro e; subst e; exact hn ha
    · intro hio
      have hio' : st.indexObjects = true := hio
      show IdxInv _ (if st.indexObjects then idxPush st.oIdx t.o t else st.oIdx) _
      rw [if_pos hio']
      exact idxInv_push (·.o) _ _ t (h.oI hio')

theorem inv_remove (st : Store) (t : Triple) (h : Inv st) : Inv (st.remove t).1 := by
  unfold Store.remove
  split
  · exact h
  · refine ⟨List.Nodup.sublist List.filter_sublist h.nodup,
            idxInv_remove _ _ _ t h.sI, idxInv_remove _ _ _ t h.pI, ?_⟩
    intro hio
    have hio' : st.indexObjects = true := hio
    show IdxInv _ (if st.indexObjects then idxRemove st.oIdx t.o t else st.oIdx) _
    rw [if_pos hio']
    exact idxInv_remove (·.o) _ _ t (h.oI hio')

theorem inv_clear (st : Store) : Inv st.clear :=
  ⟨List.nodup_nil, idxInv_empty _, idxInv_empty _, fun _ => idxInv_empty _⟩

theorem inv_step (st : Store) (op : Op) (h : Inv st) : Inv (step st op) := by
  cases op with
  | insert t => exact inv_insert st t h
  | remove t => exact inv_remove st t h
  | clear => exact inv_clear st

theorem inv_run (b : Bool) (ops : List Op) : Inv (run b ops) := by
  unfold run
  have : ∀ st, Inv st → Inv (ops.foldl step st) := by
    induction ops with
    | nil => intro st h; exact h
    | cons op ops ih => intro st h; exact ih _ (inv_step st op h)
  exact this _ (inv_new b)

end Grafeo.Rdf
