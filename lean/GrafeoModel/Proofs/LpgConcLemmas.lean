import GrafeoModel.Props.C20Lpg
import GrafeoModel.Props.C14

/-!
# Store-level simulation for `create_node` under interleavings (C20)

`create_node` takes four critical sections (id counter, label index, `node_labels`, node table).
While a create is in flight the concurrent store `c` differs from the store `r` that the sequential
replay of the ghost log produces: `c` already carries the *pending* effects (the id is handed out,
the label index lists it, `node_labels` has its set) and `r` does not. `Sim c r pf` states exactly
that difference (`pf j` = the pending create of thread `j`); the lemmas below show that every
critical section of every operation preserves it.
-/

namespace Grafeo.LpgConc
open Grafeo.Lpg

/-! ### sequential specification of a logged operation -/

/-- nothing in the label tables or the node table refers to `id` -/
def FreshIn (s : Store) (id : Nat) : Prop :=
  aget s.nodeLabels id = none ∧ aget s.nodes id = none ∧ ∀ l, ¬ inIdx s.labelIdx l id

/-- The sequential meaning of a completed operation. `create_node` returned `id`: the node `id` is
made with its labels in one step (this is `create_node_with_id` of the sequential model — the id is
the one the call returned, not the value of the counter at the linearisation point; see
`w_counter_order_not_linearizable`). Every other operation: `applyAtomic`. -/
def applySeq (s : Store) : COp → Nat → Store × String
  | .create labels, id => (s.createNodeWithId id labels, toString id)
  | .delete x, _ => applyAtomic s (.delete x)
  | .addLabel x l, _ => applyAtomic s (.addLabel x l)
  | .remLabel x l, _ => applyAtomic s (.remLabel x l)
  | .setProp x k v, _ => applyAtomic s (.setProp x k v)
  | .remProp x k, _ => applyAtomic s (.remProp x k)

/-- the precondition of the sequential step: a create returns an id that is not in use -/
def SeqOk (s : Store) : COp → Nat → Prop
  | .create _, id => FreshIn s id
  | _, _ => True

theorem applySeq_of_not_create (s : Store) (op : COp) (id : Nat) (h : isCreate op = false) :
    applySeq s op id = applyAtomic s op := by
  cases op <;> first | rfl | simp [isCreate] at h

/-- a sequential execution of the logged operations, in log order, that returns the logged results -/
inductive SeqRun (s0 : Store) : List (Nat × COp × String) → Store → Prop
  | nil : SeqRun s0 [] s0
  | snoc {log : List (Nat × COp × String)} {s : Store} (i : Nat) (op : COp) (id : Nat) :
      SeqRun s0 log s → SeqOk s op id →
      SeqRun s0 (log ++ [(i, op, (applySeq s op id).2)]) (applySeq s op id).1

/-! ### pending creates -/

/-- a create in flight: the id it was given, its label list, the labels whose index insert is done,
whether `node_labels` has been written -/
structure Pend where
  id : Nat
  all : List Nat
  done : List Nat
  nl : Bool
deriving DecidableEq, Repr

def pend : Pc → Option Pend
  | .crLabel id todo all => some ⟨id, all, all.take (all.length - todo.length), false⟩
  | .crNodeLabels id all => some ⟨id, all, all, false⟩
  | .crNodes id all => some ⟨id, all, all, true⟩
  | .idle => none
  | .del _ => none
  | .addUpd _ _ => none
  | .remUpd _ _ => none
  | .setP _ _ _ => none
  | .remP _ _ => none

/-- the label loop of a create works through a suffix of its label list -/
def PcWF : Pc → Prop
  | .crLabel _ todo all => ∃ d, all = d ++ todo
  | _ => True

def upd {α : Type} (f : Nat → α) (i : Nat) (v : α) : Nat → α := fun j => if j = i then v else f j

theorem upd_same {α : Type} (f : Nat → α) (i : Nat) (v : α) : upd f i v i = v := by simp [upd]
theorem upd_other {α : Type} (f : Nat → α) (i j : Nat) (v : α) (h : j ≠ i) : upd f i v j = f j := by simp [upd, h]
theorem upd_eq_self {α : Type} (f : Nat → α) (i : Nat) (v : α) (h : f i = v) : upd f i v = f := by
  funext j; unfold upd; split
  · rename_i e; rw [e, h]
  · rfl

/-! ### list-set lemmas -/

def IdxNodup (idx : AList (List Nat)) : Prop := ∀ l, ((aget idx l).getD []).Nodup

theorem nodup_sinsert (s : List Nat) (x : Nat) (h : s.Nodup) : (sinsert s x).Nodup := by
  unfold sinsert
  split
  · exact h
  · rename_i hx
    rw [List.nodup_append]
    refine ⟨h, by simp, ?_⟩
    intro a ha b hb e
    simp only [List.mem_singleton] at hb
    subst hb; subst e; exact hx ha

theorem nodup_serase (s : List Nat) (x : Nat) (h : s.Nodup) : (serase s x).Nodup :=
  h.sublist List.filter_sublist

theorem idxNodup_insert (idx : AList (List Nat)) (l id : Nat) (h : IdxNodup idx) :
    IdxNodup (aset idx l (sinsert ((aget idx l).getD []) id)) := by
  intro l'
  rw [aget_aset]
  split
  · simp only [Option.getD_some]; exact nodup_sinsert _ _ (h l)
  · exact h l'

theorem idxNodup_insertAll (idx : AList (List Nat)) (labels : List Nat) (id : Nat) (h : IdxNodup idx) :
    IdxNodup (idxInsertAll idx labels id) := by
  induction labels generalizing idx with
  | nil => exact h
  | cons l0 ls ih =>
    unfold idxInsertAll at ih ⊢
    simp only [List.foldl_cons]
    exact ih _ (idxNodup_insert idx l0 id h)

theorem idxNodup_eraseAll (idx : AList (List Nat)) (labels : List Nat) (id : Nat) (h : IdxNodup idx) :
    IdxNodup (idxEraseAll idx labels id) := by
  induction labels generalizing idx with
  | nil => exact h
  | cons l0 ls ih =>
    unfold idxEraseAll at ih ⊢
    simp only [List.foldl_cons]
    apply ih
    cases hg : aget idx l0 with
    | none => exact h
    | some set =>
      intro l'
      simp only
      rw [aget_aset]
      split
      · simp only [Option.getD_some]
        have := h l0
        rw [hg] at this
        exact nodup_serase _ _ this
      · exact h l'

theorem inIdx_insert (idx : AList (List Nat)) (l id l' x : Nat) :
    inIdx (aset idx l (sinsert ((aget idx l).getD []) id)) l' x ↔ (x = id ∧ l' = l) ∨ inIdx idx l' x := by
  have := inIdx_insertAll idx [l] id l' x
  simpa [idxInsertAll] using this

theorem inIdx_eraseOne (idx : AList (List Nat)) (l id l' x : Nat) :
    inIdx (idxEraseAll idx [l] id) l' x ↔ inIdx idx l' x ∧ ¬ (x = id ∧ l' = l) := by
  have := inIdx_eraseAll idx [l] id l' x
  simpa using this

/-! ### the shapes of the one-section operations -/


def delPidx (nprops : AList (AList String)) (pidx : AList (List (String × List Nat))) (id : Nat) :=
  (((aget nprops id).getD []) : AList String).foldl (fun px kv => match aget px kv.1 with
        | some vals => aset px kv.1 (pidxRemove vals kv.2 id)
        | none => px) pidx

theorem deleteNodeAt_live (s : Store) (id : Nat) (ch : List Ver) (hg : aget s.nodes id = some ch)
    (hv : chainVisibleAt ch s.epoch = true) :
    s.deleteNodeAt id s.epoch =
      ({ s with nodes := aset s.nodes id (chainMarkDeleted s.epoch ch),
                nodeLabels := aerase s.nodeLabels id,
                labelIdx := idxEraseAll s.labelIdx ((aget s.nodeLabels id).getD []) id,
                nprops := aerase s.nprops id, pidx := delPidx s.nprops s.pidx id }, true) := by
  unfold Store.deleteNodeAt
  rw [hg]
  simp only [hv, Bool.not_true, Bool.false_eq_true, if_false]
  rfl

theorem deleteNodeAt_dead (s : Store) (id : Nat)
    (h : ∀ ch, aget s.nodes id = some ch → chainVisibleAt ch s.epoch = false) :
    s.deleteNodeAt id s.epoch = (s, false) := by
  unfold Store.deleteNodeAt
  cases hg : aget s.nodes id with
  | none => rfl
  | some ch => simp [h ch hg]

theorem addLabel_live (s : Store) (id l : Nat) (ch : List Ver) (hg : aget s.nodes id = some ch)
    (hv : chainVisibleAt ch s.epoch = true) (hl : l ∉ (aget s.nodeLabels id).getD []) :
    s.addLabel id l =
      ({ s with nodeLabels := aset s.nodeLabels id ((aget s.nodeLabels id).getD [] ++ [l]),
                labelIdx := aset s.labelIdx l (sinsert ((aget s.labelIdx l).getD []) id) }, true) := by
  unfold Store.addLabel
  rw [hg]
  simp only [hv, Bool.not_true, Bool.false_eq_true, if_false, Store.nodeLabelsOf, hl]

theorem addLabel_has (s : Store) (id l : Nat) (hl : l ∈ (aget s.nodeLabels id).getD []) :
    s.addLabel id l = (s, false) := by
  unfold Store.addLabel
  cases hg : aget s.nodes id with
  | none => rfl
  | some ch =>
    simp only [Store.nodeLabelsOf, hl, if_true]
    split <;> rfl

theorem addLabel_dead (s : Store) (id l : Nat)
    (h : ∀ ch, aget s.nodes id = some ch → chainVisibleAt ch s.epoch = false) :
    s.addLabel id l = (s, false) := by
  unfold Store.addLabel
  cases hg : aget s.nodes id with
  | none => rfl
  | some ch => simp [h ch hg]

theorem removeLabel_live (s : Store) (id l : Nat) (ch : List Ver) (ls : List Nat) (hg : aget s.nodes id = some ch)
    (hv : chainVisibleAt ch s.epoch = true) (hnl : aget s.nodeLabels id = some ls) (hl : l ∈ ls) :
    s.removeLabel id l =
      ({ s with nodeLabels := aset s.nodeLabels id (serase ls l),
                labelIdx := idxEraseAll s.labelIdx [l] id }, true) := by
  unfold Store.removeLabel
  rw [hg]
  simp only [hv, Bool.not_true, Bool.false_eq_true, if_false, hnl, hl, not_true_eq_false]
  rfl

theorem removeLabel_lacks (s : Store) (id l : Nat) (hl : l ∉ (aget s.nodeLabels id).getD []) :
    s.removeLabel id l = (s, false) := by
  unfold Store.removeLabel
  cases hg : aget s.nodes id with
  | none => rfl
  | some ch =>
    simp only
    split
    · rfl
    · cases hnl : aget s.nodeLabels id with
      | none => rfl
      | some ls =>
        rw [hnl] at hl
        simp only [Option.getD_some] at hl
        simp [hl]

theorem removeLabel_dead (s : Store) (id l : Nat)
    (h : ∀ ch, aget s.nodes id = some ch → chainVisibleAt ch s.epoch = false) :
    s.removeLabel id l = (s, false) := by
  unfold Store.removeLabel
  cases hg : aget s.nodes id with
  | none => rfl
  | some ch => simp [h ch hg]

/-! ### the simulation relation -/


/-- the fields no section of `create_node` writes before its last one -/
structure Rest (c r : Store) : Prop where
  epoch : c.epoch = r.epoch
  nodes : c.nodes = r.nodes
  nprops : c.nprops = r.nprops
  pidx : c.pidx = r.pidx
  edges : c.edges = r.edges
  eprops : c.eprops = r.eprops
  fwd : c.fwd = r.fwd
  bwd : c.bwd = r.bwd
  hasBwd : c.hasBwd = r.hasBwd
  nextEdge : c.nextEdge = r.nextEdge

/-- `c`: the store the threads work on; `r`: the store of the sequential replay of the log;
`pf j`: the create thread `j` is in the middle of. -/
structure Sim (c r : Store) (pf : Nat → Option Pend) : Prop where
  rest : Rest c r
  labelsEq : ∀ x, (∀ j p, pf j = some p → p.nl = true → p.id ≠ x) → aget c.nodeLabels x = aget r.nodeLabels x
  labelsPend : ∀ j p, pf j = some p → p.nl = true → aget c.nodeLabels p.id = some (p.all.foldl sinsert [])
  idx : ∀ l x, inIdx c.labelIdx l x ↔ inIdx r.labelIdx l x ∨ ∃ j p, pf j = some p ∧ p.id = x ∧ l ∈ p.done
  uniq : ∀ j k p q, pf j = some p → pf k = some q → p.id = q.id → j = k
  pendLt : ∀ j p, pf j = some p → p.id < c.nextNode
  pendFresh : ∀ j p, pf j = some p → FreshIn r p.id
  nextLe : r.nextNode ≤ c.nextNode
  covered : ∀ x, x < c.nextNode → x < r.nextNode ∨ ∃ j p, pf j = some p ∧ p.id = x
  seq : LabelInv r
  nodupC : IdxNodup c.labelIdx
  nodupR : IdxNodup r.labelIdx

theorem Sim.topFresh {c r : Store} {pf : Nat → Option Pend} (h : Sim c r pf) (x : Nat) (hx : c.nextNode ≤ x) :
    FreshIn r x := h.seq.fresh x (Nat.le_trans h.nextLe hx)

/-- a node that is in the node table is not under creation -/
theorem Sim.not_pending_of_node {c r : Store} {pf : Nat → Option Pend} (h : Sim c r pf) (x : Nat) (ch : List Ver)
    (hx : aget r.nodes x = some ch) : ∀ j p, pf j = some p → p.id ≠ x := by
  intro j p hp e
  have := (h.pendFresh j p hp).2.1
  rw [e, hx] at this
  cases this

/-! ### the sections of `create_node` -/

theorem sim_alloc {c r : Store} {pf : Nat → Option Pend} (h : Sim c r pf) (i : Nat) (all : List Nat)
    (hi : pf i = none) :
    Sim { c with nextNode := c.nextNode + 1 } r (upd pf i (some ⟨c.nextNode, all, [], false⟩)) := by
  have key : ∀ j p, upd pf i (some ⟨c.nextNode, all, [], false⟩) j = some p →
      (j = i ∧ p = ⟨c.nextNode, all, [], false⟩) ∨ (j ≠ i ∧ pf j = some p) := by
    intro j p hp
    by_cases hj : j = i
    · subst hj; rw [upd_same] at hp; cases hp; exact Or.inl ⟨rfl, rfl⟩
    · rw [upd_other _ _ _ _ hj] at hp; exact Or.inr ⟨hj, hp⟩
  refine ⟨⟨h.rest.epoch, h.rest.nodes, h.rest.nprops, h.rest.pidx, h.rest.edges, h.rest.eprops, h.rest.fwd,
    h.rest.bwd, h.rest.hasBwd, h.rest.nextEdge⟩, ?_, ?_, ?_, ?_, ?_, ?_, ?_, ?_, h.seq, h.nodupC, h.nodupR⟩
  · intro x hx
    apply h.labelsEq x
    intro j p hp hnl
    have hj : j ≠ i := by intro e; rw [e, hi] at hp; cases hp
    exact hx j p (by rw [upd_other _ _ _ _ hj]; exact hp) hnl
  · intro j p hp hnl
    rcases key j p hp with ⟨_, rfl⟩ | ⟨_, hp'⟩
    · cases hnl
    · exact h.labelsPend j p hp' hnl
  · intro l x
    show inIdx c.labelIdx l x ↔ _
    rw [h.idx l x]
    constructor
    · rintro (a | ⟨j, p, hp, a⟩)
      · exact Or.inl a
      · have hj : j ≠ i := by intro e; rw [e, hi] at hp; cases hp
        exact Or.inr ⟨j, p, by rw [upd_other _ _ _ _ hj]; exact hp, a⟩
    · rintro (a | ⟨j, p, hp, a⟩)
      · exact Or.inl a
      · rcases key j p hp with ⟨_, rfl⟩ | ⟨_, hp'⟩
        · simp at a
        · exact Or.inr ⟨j, p, hp', a⟩
  · intro j k p q hp hq e
    rcases key j p hp with ⟨hj, rfl⟩ | ⟨hj, hp'⟩ <;> rcases key k q hq with ⟨hk, rfl⟩ | ⟨hk, hq'⟩
    · rw [hj, hk]
    · have := h.pendLt k q hq'; simp only at e; omega
    · have := h.pendLt j p hp'; simp only at e; omega
    · exact h.uniq j k p q hp' hq' e
  · intro j p hp
    show p.id < c.nextNode + 1
    rcases key j p hp with ⟨_, rfl⟩ | ⟨_, hp'⟩
    · exact Nat.lt_succ_self _
    · exact Nat.lt_succ_of_lt (h.pendLt j p hp')
  · intro j p hp
    rcases key j p hp with ⟨_, rfl⟩ | ⟨_, hp'⟩
    · exact h.topFresh _ (Nat.le_refl _)
    · exact h.pendFresh j p hp'
  · exact Nat.le_succ_of_le h.nextLe
  · intro x hx
    have hx' : x < c.nextNode + 1 := hx
    by_cases hxe : x = c.nextNode
    · exact Or.inr ⟨i, _, upd_same _ _ _, hxe.symm⟩
    · rcases h.covered x (by omega) with a | ⟨j, p, hp, a⟩
      · exact Or.inl a
      · have hj : j ≠ i := by intro e; rw [e, hi] at hp; cases hp
        exact Or.inr ⟨j, p, by rw [upd_other _ _ _ _ hj]; exact hp, a⟩



theorem upd_some_cases (pf : Nat → Option Pend) (i : Nat) (v : Pend) (j : Nat) (p : Pend)
    (h : upd pf i (some v) j = some p) : (j = i ∧ p = v) ∨ (j ≠ i ∧ pf j = some p) := by
  by_cases hj : j = i
  · subst hj; rw [upd_same] at h; cases h; exact Or.inl ⟨rfl, rfl⟩
  · rw [upd_other _ _ _ _ hj] at h; exact Or.inr ⟨hj, h⟩

theorem upd_none_cases (pf : Nat → Option Pend) (i : Nat) (j : Nat) (p : Pend)
    (h : upd pf i none j = some p) : j ≠ i ∧ pf j = some p := by
  by_cases hj : j = i
  · subst hj; rw [upd_same] at h; cases h
  · rw [upd_other _ _ _ _ hj] at h; exact ⟨hj, h⟩

/-- one label-index insert of a create in flight -/
theorem sim_idx {c r : Store} {pf : Nat → Option Pend} (h : Sim c r pf) (i id l0 : Nat) (all done : List Nat)
    (hi : pf i = some ⟨id, all, done, false⟩) :
    Sim { c with labelIdx := aset c.labelIdx l0 (sinsert ((aget c.labelIdx l0).getD []) id) } r
      (upd pf i (some ⟨id, all, done ++ [l0], false⟩)) := by
  have back : ∀ j p, upd pf i (some ⟨id, all, done ++ [l0], false⟩) j = some p →
      ∃ q, pf j = some q ∧ q.id = p.id ∧ q.nl = p.nl ∧ q.all = p.all ∧ ∀ l, l ∈ q.done → l ∈ p.done := by
    intro j p hp
    rcases upd_some_cases _ _ _ _ _ hp with ⟨rfl, rfl⟩ | ⟨_, hp'⟩
    · exact ⟨_, hi, rfl, rfl, rfl, fun l hl => List.mem_append_left _ hl⟩
    · exact ⟨p, hp', rfl, rfl, rfl, fun _ hl => hl⟩
  have fwd : ∀ j q, pf j = some q →
      ∃ p, upd pf i (some ⟨id, all, done ++ [l0], false⟩) j = some p ∧ q.id = p.id ∧ q.nl = p.nl ∧
        ∀ l, l ∈ q.done → l ∈ p.done := by
    intro j q hq
    by_cases hj : j = i
    · subst hj; rw [hi] at hq; cases hq
      exact ⟨_, upd_same _ _ _, rfl, rfl, fun l hl => List.mem_append_left _ hl⟩
    · exact ⟨q, by rw [upd_other _ _ _ _ hj]; exact hq, rfl, rfl, fun _ hl => hl⟩
  refine ⟨⟨h.rest.epoch, h.rest.nodes, h.rest.nprops, h.rest.pidx, h.rest.edges, h.rest.eprops, h.rest.fwd,
    h.rest.bwd, h.rest.hasBwd, h.rest.nextEdge⟩, ?_, ?_, ?_, ?_, ?_, ?_, h.nextLe, ?_, h.seq, ?_, h.nodupR⟩
  · intro x hx
    apply h.labelsEq x
    intro j q hq hnl
    obtain ⟨p, hp, e1, e2, _⟩ := fwd j q hq
    rw [e1]; exact hx j p hp (by rw [← e2]; exact hnl)
  · intro j p hp hnl
    obtain ⟨q, hq, e1, e2, e3, _⟩ := back j p hp
    have := h.labelsPend j q hq (by rw [e2]; exact hnl)
    rw [e1, e3] at this; exact this
  · intro l x
    show inIdx (aset c.labelIdx l0 (sinsert ((aget c.labelIdx l0).getD []) id)) l x ↔ _
    rw [inIdx_insert, h.idx l x]
    constructor
    · rintro (⟨rfl, rfl⟩ | a | ⟨j, q, hq, e, hl⟩)
      · exact Or.inr ⟨i, _, upd_same _ _ _, rfl, by simp⟩
      · exact Or.inl a
      · obtain ⟨p, hp, e1, _, e3⟩ := fwd j q hq
        exact Or.inr ⟨j, p, hp, by rw [← e1]; exact e, e3 l hl⟩
    · rintro (a | ⟨j, p, hp, e, hl⟩)
      · exact Or.inr (Or.inl a)
      · rcases upd_some_cases _ _ _ _ _ hp with ⟨rfl, rfl⟩ | ⟨_, hp'⟩
        · simp only [List.mem_append, List.mem_singleton] at hl
          rcases hl with hl | hl
          · exact Or.inr (Or.inr ⟨j, _, hi, e, hl⟩)
          · exact Or.inl ⟨e.symm, hl⟩
        · exact Or.inr (Or.inr ⟨j, p, hp', e, hl⟩)
  · intro j k p q hp hq e
    obtain ⟨p', hp', e1, _⟩ := back j p hp
    obtain ⟨q', hq', e2, _⟩ := back k q hq
    exact h.uniq j k p' q' hp' hq' (by rw [e1, e2]; exact e)
  · intro j p hp
    obtain ⟨q, hq, e1, _⟩ := back j p hp
    rw [← e1]; exact h.pendLt j q hq
  · intro j p hp
    obtain ⟨q, hq, e1, _⟩ := back j p hp
    rw [← e1]; exact h.pendFresh j q hq
  · intro x hx
    rcases h.covered x hx with a | ⟨j, q, hq, e⟩
    · exact Or.inl a
    · obtain ⟨p, hp, e1, _⟩ := fwd j q hq
      exact Or.inr ⟨j, p, hp, by rw [← e1]; exact e⟩
  · exact idxNodup_insert c.labelIdx l0 id h.nodupC

/-- the `node_labels` section of a create in flight -/
theorem sim_nl {c r : Store} {pf : Nat → Option Pend} (h : Sim c r pf) (i id : Nat) (all done : List Nat)
    (hi : pf i = some ⟨id, all, done, false⟩) :
    Sim { c with nodeLabels := aset c.nodeLabels id (all.foldl sinsert []) } r
      (upd pf i (some ⟨id, all, done, true⟩)) := by
  have back : ∀ j p, upd pf i (some ⟨id, all, done, true⟩) j = some p →
      ∃ q, pf j = some q ∧ q.id = p.id ∧ q.all = p.all ∧ q.done = p.done := by
    intro j p hp
    rcases upd_some_cases _ _ _ _ _ hp with ⟨rfl, rfl⟩ | ⟨_, hp'⟩
    · exact ⟨_, hi, rfl, rfl, rfl⟩
    · exact ⟨p, hp', rfl, rfl, rfl⟩
  have fwd : ∀ j q, pf j = some q →
      ∃ p, upd pf i (some ⟨id, all, done, true⟩) j = some p ∧ q.id = p.id ∧ q.done = p.done ∧ (q.nl = true → p.nl = true) := by
    intro j q hq
    by_cases hj : j = i
    · subst hj; rw [hi] at hq; cases hq
      exact ⟨_, upd_same _ _ _, rfl, rfl, fun _ => rfl⟩
    · exact ⟨q, by rw [upd_other _ _ _ _ hj]; exact hq, rfl, rfl, fun e => e⟩
  refine ⟨⟨h.rest.epoch, h.rest.nodes, h.rest.nprops, h.rest.pidx, h.rest.edges, h.rest.eprops, h.rest.fwd,
    h.rest.bwd, h.rest.hasBwd, h.rest.nextEdge⟩, ?_, ?_, ?_, ?_, ?_, ?_, h.nextLe, ?_, h.seq, h.nodupC, h.nodupR⟩
  · intro x hx
    have hxi : x ≠ id := fun e => hx i _ (upd_same _ _ _) rfl e.symm
    show aget (aset c.nodeLabels id _) x = _
    rw [aget_aset]
    simp only [hxi, if_false]
    apply h.labelsEq x
    intro j q hq hnl
    obtain ⟨p, hp, e1, _, e3⟩ := fwd j q hq
    rw [e1]; exact hx j p hp (e3 hnl)
  · intro j p hp hnl
    show aget (aset c.nodeLabels id _) p.id = _
    rw [aget_aset]
    rcases upd_some_cases _ _ _ _ _ hp with ⟨rfl, rfl⟩ | ⟨hj, hp'⟩
    · simp
    · have hne : p.id ≠ id := by
        intro e
        exact hj (h.uniq j i p _ hp' hi e)
      simp only [hne, if_false]
      exact h.labelsPend j p hp' hnl
  · intro l x
    show inIdx c.labelIdx l x ↔ _
    rw [h.idx l x]
    constructor
    · rintro (a | ⟨j, q, hq, e, hl⟩)
      · exact Or.inl a
      · obtain ⟨p, hp, e1, e2, _⟩ := fwd j q hq
        exact Or.inr ⟨j, p, hp, by rw [← e1]; exact e, by rw [← e2]; exact hl⟩
    · rintro (a | ⟨j, p, hp, e, hl⟩)
      · exact Or.inl a
      · obtain ⟨q, hq, e1, _, e3⟩ := back j p hp
        exact Or.inr ⟨j, q, hq, by rw [e1]; exact e, by rw [e3]; exact hl⟩
  · intro j k p q hp hq e
    obtain ⟨p', hp', e1, _⟩ := back j p hp
    obtain ⟨q', hq', e2, _⟩ := back k q hq
    exact h.uniq j k p' q' hp' hq' (by rw [e1, e2]; exact e)
  · intro j p hp
    obtain ⟨q, hq, e1, _⟩ := back j p hp
    rw [← e1]; exact h.pendLt j q hq
  · intro j p hp
    obtain ⟨q, hq, e1, _⟩ := back j p hp
    rw [← e1]; exact h.pendFresh j q hq
  · intro x hx
    rcases h.covered x hx with a | ⟨j, q, hq, e⟩
    · exact Or.inl a
    · obtain ⟨p, hp, e1, _⟩ := fwd j q hq
      exact Or.inr ⟨j, p, hp, by rw [← e1]; exact e⟩

theorem fresh_createNodeWithId (s : Store) (id x : Nat) (labels : List Nat) (h : FreshIn s x) (hx : x ≠ id) :
    FreshIn (s.createNodeWithId id labels) x := by
  obtain ⟨a, b, c⟩ := h
  refine ⟨?_, ?_, ?_⟩
  · show aget (aset s.nodeLabels id _) x = none
    rw [aget_aset]; simp [hx, a]
  · show aget (aset s.nodes id _) x = none
    rw [aget_aset]; simp [hx, b]
  · intro l
    show ¬ inIdx (idxInsertAll s.labelIdx labels id) l x
    rw [inIdx_insertAll]
    rintro (⟨e, _⟩ | e)
    · exact hx e
    · exact c l e

theorem labelInv_createNodeWithId (s : Store) (id : Nat) (ls : List Nat) (h : LabelInv s) (hf : FreshIn s id) :
    LabelInv (s.createNodeWithId id ls) := by
  have hidx : (s.createNodeWithId id ls).labelIdx = idxInsertAll s.labelIdx ls id := rfl
  have hnl : (s.createNodeWithId id ls).nodeLabels = aset s.nodeLabels id (ls.foldl sinsert []) := rfl
  have hnodes : (s.createNodeWithId id ls).nodes = aset s.nodes id [⟨s.epoch, systemTx, none⟩] := rfl
  have hnext : (s.createNodeWithId id ls).nextNode = if id ≥ s.nextNode then id + 1 else s.nextNode := rfl
  have hep : (s.createNodeWithId id ls).epoch = s.epoch := rfl
  refine ⟨?_, ?_, ?_, by rw [hep]; exact h.epoch0⟩
  · intro l x
    unfold hasLabel Store.nodeLabelsOf
    rw [hidx, hnl, inIdx_insertAll, aget_aset]
    by_cases hid : x = id
    · subst hid
      simp only [if_true, Option.getD_some, mem_foldl_sinsert, List.not_mem_nil, or_false, true_and]
      constructor
      · rintro (a | a)
        · exact a
        · exact absurd a (hf.2.2 l)
      · exact Or.inl
    · simp only [hid, if_false, false_and, false_or]
      exact h.mirror l x
  · intro x hx
    rw [hnext] at hx
    have hx1 : s.nextNode ≤ x := by split at hx <;> omega
    have hne : x ≠ id := by split at hx <;> omega
    obtain ⟨a, b, c⟩ := h.fresh x hx1
    refine ⟨by rw [hnl, aget_aset]; simp [hne, a], by rw [hnodes, aget_aset]; simp [hne, b], ?_⟩
    intro l
    rw [hidx, inIdx_insertAll]
    rintro (⟨e, _⟩ | e)
    · exact hne e
    · exact c l e
  · intro x l hl
    unfold hasLabel Store.nodeLabelsOf at hl
    rw [hnl, aget_aset] at hl
    rw [hnodes, hep]
    by_cases hid : x = id
    · subst hid
      refine ⟨[⟨s.epoch, systemTx, none⟩], by rw [aget_aset]; simp, ?_⟩
      simp [chainVisibleAt, Ver.visibleAt]
    · simp only [hid, if_false] at hl
      obtain ⟨c, hc1, hc2⟩ := h.live x l hl
      exact ⟨c, by rw [aget_aset]; simp [hid, hc1], hc2⟩

/-- the node-table section of a create: the create takes effect in the sequential replay -/
theorem sim_complete {c r : Store} {pf : Nat → Option Pend} (h : Sim c r pf) (i id : Nat) (all : List Nat)
    (hi : pf i = some ⟨id, all, all, true⟩) :
    Sim { c with nodes := aset c.nodes id [⟨c.epoch, systemTx, none⟩] } (r.createNodeWithId id all)
      (upd pf i none) := by
  have hfr : FreshIn r id := h.pendFresh i _ hi
  have hlt : id < c.nextNode := h.pendLt i _ hi
  have hnext : (r.createNodeWithId id all).nextNode = if id ≥ r.nextNode then id + 1 else r.nextNode := rfl
  refine ⟨⟨h.rest.epoch, ?_, h.rest.nprops, h.rest.pidx, h.rest.edges, h.rest.eprops, h.rest.fwd,
    h.rest.bwd, h.rest.hasBwd, h.rest.nextEdge⟩, ?_, ?_, ?_, ?_, ?_, ?_, ?_, ?_, ?_, h.nodupC, ?_⟩
  · show aset c.nodes id _ = aset r.nodes id _
    rw [h.rest.nodes, h.rest.epoch]
  · intro x hx
    show aget c.nodeLabels x = aget (aset r.nodeLabels id (all.foldl sinsert [])) x
    rw [aget_aset]
    by_cases hxi : x = id
    · subst hxi
      simp only [if_true]
      exact h.labelsPend i _ hi rfl
    · simp only [hxi, if_false]
      apply h.labelsEq x
      intro j p hp hnl
      by_cases hj : j = i
      · subst hj; rw [hi] at hp; cases hp; exact fun e => hxi e.symm
      · exact hx j p (by rw [upd_other _ _ _ _ hj]; exact hp) hnl
  · intro j p hp hnl
    obtain ⟨_, hp'⟩ := upd_none_cases _ _ _ _ hp
    exact h.labelsPend j p hp' hnl
  · intro l x
    show inIdx c.labelIdx l x ↔ inIdx (idxInsertAll r.labelIdx all id) l x ∨ _
    rw [inIdx_insertAll, h.idx l x]
    constructor
    · rintro (a | ⟨j, p, hp, e, hl⟩)
      · exact Or.inl (Or.inr a)
      · by_cases hj : j = i
        · subst hj; rw [hi] at hp; cases hp
          exact Or.inl (Or.inl ⟨e.symm, hl⟩)
        · exact Or.inr ⟨j, p, by rw [upd_other _ _ _ _ hj]; exact hp, e, hl⟩
    · rintro ((⟨e, hl⟩ | a) | ⟨j, p, hp, e, hl⟩)
      · exact Or.inr ⟨i, _, hi, e.symm, hl⟩
      · exact Or.inl a
      · obtain ⟨_, hp'⟩ := upd_none_cases _ _ _ _ hp
        exact Or.inr ⟨j, p, hp', e, hl⟩
  · intro j k p q hp hq e
    exact h.uniq j k p q (upd_none_cases _ _ _ _ hp).2 (upd_none_cases _ _ _ _ hq).2 e
  · intro j p hp
    exact h.pendLt j p (upd_none_cases _ _ _ _ hp).2
  · intro j p hp
    obtain ⟨hj, hp'⟩ := upd_none_cases _ _ _ _ hp
    apply fresh_createNodeWithId _ _ _ _ (h.pendFresh j p hp')
    intro e
    exact hj (h.uniq j i p _ hp' hi e)
  · show (r.createNodeWithId id all).nextNode ≤ c.nextNode
    rw [hnext]
    have := h.nextLe
    split <;> omega
  · intro x hx
    have hx' : x < c.nextNode := hx
    rw [hnext]
    rcases h.covered x hx' with a | ⟨j, p, hp, e⟩
    · left; split <;> omega
    · by_cases hj : j = i
      · subst hj; rw [hi] at hp; cases hp
        simp only at e
        left; split <;> omega
      · exact Or.inr ⟨j, p, by rw [upd_other _ _ _ _ hj]; exact hp, e⟩
  · exact labelInv_createNodeWithId r id all h.seq hfr
  · exact idxNodup_insertAll r.labelIdx all id h.nodupR



/-- an operation that rewrites the label tables of one node that is in the node table -/
theorem sim_label_update {c r c' r' : Store} {pf : Nat → Option Pend} (h : Sim c r pf) (id : Nat) (ch : List Ver)
    (hnode : aget r.nodes id = some ch)
    (A D : Nat → Nat → Prop)
    (hA : ∀ l x, A l x → x = id) (hD : ∀ l x, D l x → x = id)
    (hrest : Rest c' r')
    (hcn : c'.nextNode = c.nextNode) (hrn : r'.nextNode = r.nextNode)
    (hcl : ∀ x, x ≠ id → aget c'.nodeLabels x = aget c.nodeLabels x)
    (hrl : ∀ x, x ≠ id → aget r'.nodeLabels x = aget r.nodeLabels x)
    (hid : aget c'.nodeLabels id = aget r'.nodeLabels id)
    (hci : ∀ l x, inIdx c'.labelIdx l x ↔ (inIdx c.labelIdx l x ∧ ¬ D l x) ∨ A l x)
    (hri : ∀ l x, inIdx r'.labelIdx l x ↔ (inIdx r.labelIdx l x ∧ ¬ D l x) ∨ A l x)
    (hnodes : ∀ x, aget r.nodes x = none → aget r'.nodes x = none)
    (hseq : LabelInv r') (hnc : IdxNodup c'.labelIdx) (hnr : IdxNodup r'.labelIdx) : Sim c' r' pf := by
  have hnp := h.not_pending_of_node id ch hnode
  refine ⟨hrest, ?_, ?_, ?_, h.uniq, ?_, ?_, ?_, ?_, hseq, hnc, hnr⟩
  · intro x hx
    by_cases hxi : x = id
    · subst hxi; exact hid
    · rw [hcl x hxi, hrl x hxi]; exact h.labelsEq x hx
  · intro j p hp hnl
    rw [hcl _ (hnp j p hp)]; exact h.labelsPend j p hp hnl
  · intro l x
    rw [hci, hri, h.idx l x]
    constructor
    · rintro (⟨a | a, b⟩ | a)
      · exact Or.inl (Or.inl ⟨a, b⟩)
      · exact Or.inr a
      · exact Or.inl (Or.inr a)
    · rintro ((⟨a, b⟩ | a) | ⟨j, p, hp, e, hl⟩)
      · exact Or.inl ⟨Or.inl a, b⟩
      · exact Or.inr a
      · refine Or.inl ⟨Or.inr ⟨j, p, hp, e, hl⟩, ?_⟩
        intro hd
        exact hnp j p hp (by rw [e]; exact hD l x hd)
  · intro j p hp; rw [hcn]; exact h.pendLt j p hp
  · intro j p hp
    obtain ⟨a, b, d⟩ := h.pendFresh j p hp
    refine ⟨by rw [hrl _ (hnp j p hp)]; exact a, hnodes _ b, ?_⟩
    intro l
    rw [hri]
    rintro (⟨e, _⟩ | e)
    · exact d l e
    · exact hnp j p hp (hA l _ e)
  · rw [hcn, hrn]; exact h.nextLe
  · intro x hx
    rw [hcn] at hx; rw [hrn]; exact h.covered x hx

/-- an operation that leaves the label tables, the node table and the id counter alone -/
theorem sim_props_update {c r c' r' : Store} {pf : Nat → Option Pend} (h : Sim c r pf) (hrest : Rest c' r')
    (hc1 : c'.nodeLabels = c.nodeLabels) (hc2 : c'.labelIdx = c.labelIdx) (hc3 : c'.nextNode = c.nextNode)
    (hr1 : r'.nodeLabels = r.nodeLabels) (hr2 : r'.labelIdx = r.labelIdx) (hr3 : r'.nextNode = r.nextNode)
    (hr4 : r'.nodes = r.nodes) (hr5 : r'.epoch = r.epoch) : Sim c' r' pf := by
  refine ⟨hrest, ?_, ?_, ?_, h.uniq, ?_, ?_, ?_, ?_, labelInv_of_same r r' h.seq hr2 hr1 hr4 hr3 hr5, ?_, ?_⟩
  · intro x hx; rw [hc1, hr1]; exact h.labelsEq x hx
  · intro j p hp hnl; rw [hc1]; exact h.labelsPend j p hp hnl
  · intro l x; rw [hc2, hr2]; exact h.idx l x
  · intro j p hp; rw [hc3]; exact h.pendLt j p hp
  · intro j p hp
    obtain ⟨a, b, d⟩ := h.pendFresh j p hp
    exact ⟨by rw [hr1]; exact a, by rw [hr4]; exact b, by rw [hr2]; exact d⟩
  · rw [hc3, hr3]; exact h.nextLe
  · intro x hx; rw [hc3] at hx; rw [hr3]; exact h.covered x hx
  · rw [hc2]; exact h.nodupC
  · rw [hr2]; exact h.nodupR

theorem aget_none_of_aset {ν : Type} (a : AList ν) (k x : Nat) (v w : ν) (hk : aget a k = some w)
    (hx : aget a x = none) : aget (aset a k v) x = none := by
  rw [aget_aset]
  by_cases e : x = k
  · subst e; rw [hk] at hx; cases hx
  · simp [e, hx]

theorem sim_delete {c r : Store} {pf : Nat → Option Pend} (h : Sim c r pf) (id : Nat) :
    (applyAtomic c (.delete id)).2 = (applyAtomic r (.delete id)).2 ∧
    Sim (applyAtomic c (.delete id)).1 (applyAtomic r (.delete id)).1 pf := by
  simp only [applyAtomic]
  by_cases hlive : ∃ ch, aget r.nodes id = some ch ∧ chainVisibleAt ch r.epoch = true
  · obtain ⟨ch, hg, hv⟩ := hlive
    have hgc : aget c.nodes id = some ch := by rw [h.rest.nodes]; exact hg
    have hvc : chainVisibleAt ch c.epoch = true := by rw [h.rest.epoch]; exact hv
    have hnp := h.not_pending_of_node id ch hg
    have hls : aget c.nodeLabels id = aget r.nodeLabels id :=
      h.labelsEq id (fun j p hp _ => hnp j p hp)
    rw [deleteNodeAt_live c id ch hgc hvc, deleteNodeAt_live r id ch hg hv]
    refine ⟨rfl, ?_⟩
    simp only
    apply sim_label_update h id ch hg (fun _ _ => False)
      (fun l x => x = id ∧ l ∈ (aget r.nodeLabels id).getD [])
    · intro l x e; exact e.elim
    · intro l x e; exact e.1
    · exact ⟨h.rest.epoch, by
        show aset c.nodes id _ = aset r.nodes id _
        rw [h.rest.nodes, h.rest.epoch], by
        show aerase c.nprops id = aerase r.nprops id
        rw [h.rest.nprops], by
        show delPidx c.nprops c.pidx id = delPidx r.nprops r.pidx id
        rw [h.rest.nprops, h.rest.pidx], h.rest.edges, h.rest.eprops, h.rest.fwd, h.rest.bwd, h.rest.hasBwd,
        h.rest.nextEdge⟩
    · rfl
    · rfl
    · intro x hx
      show aget (aerase c.nodeLabels id) x = _
      rw [aget_aerase]; simp [hx]
    · intro x hx
      show aget (aerase r.nodeLabels id) x = _
      rw [aget_aerase]; simp [hx]
    · show aget (aerase c.nodeLabels id) id = aget (aerase r.nodeLabels id) id
      rw [aget_aerase, aget_aerase]; simp
    · intro l x
      show inIdx (idxEraseAll c.labelIdx ((aget c.nodeLabels id).getD []) id) l x ↔ _
      rw [inIdx_eraseAll, hls]
      simp
    · intro l x
      show inIdx (idxEraseAll r.labelIdx ((aget r.nodeLabels id).getD []) id) l x ↔ _
      rw [inIdx_eraseAll]
      simp
    · intro x hx
      exact aget_none_of_aset r.nodes id x _ ch hg hx
    · have := labelInv_deleteNode r id h.seq
      rw [deleteNodeAt_live r id ch hg hv] at this
      exact this
    · exact idxNodup_eraseAll _ _ _ h.nodupC
    · exact idxNodup_eraseAll _ _ _ h.nodupR
  · have hd : ∀ ch, aget r.nodes id = some ch → chainVisibleAt ch r.epoch = false := by
      intro ch hg
      cases hv : chainVisibleAt ch r.epoch with
      | false => rfl
      | true => exact absurd ⟨ch, hg, hv⟩ hlive
    have hdc : ∀ ch, aget c.nodes id = some ch → chainVisibleAt ch c.epoch = false := by
      intro ch hg; rw [h.rest.epoch]; exact hd ch (by rw [← h.rest.nodes]; exact hg)
    rw [deleteNodeAt_dead c id hdc, deleteNodeAt_dead r id hd]
    exact ⟨rfl, h⟩

theorem sim_addLabel {c r : Store} {pf : Nat → Option Pend} (h : Sim c r pf) (id l : Nat) :
    (applyAtomic c (.addLabel id l)).2 = (applyAtomic r (.addLabel id l)).2 ∧
    Sim (applyAtomic c (.addLabel id l)).1 (applyAtomic r (.addLabel id l)).1 pf := by
  simp only [applyAtomic]
  by_cases hlive : ∃ ch, aget r.nodes id = some ch ∧ chainVisibleAt ch r.epoch = true
  · obtain ⟨ch, hg, hv⟩ := hlive
    have hgc : aget c.nodes id = some ch := by rw [h.rest.nodes]; exact hg
    have hvc : chainVisibleAt ch c.epoch = true := by rw [h.rest.epoch]; exact hv
    have hnp := h.not_pending_of_node id ch hg
    have hls : aget c.nodeLabels id = aget r.nodeLabels id :=
      h.labelsEq id (fun j p hp _ => hnp j p hp)
    by_cases hl : l ∈ (aget r.nodeLabels id).getD []
    · rw [addLabel_has c id l (by rw [hls]; exact hl), addLabel_has r id l hl]
      exact ⟨rfl, h⟩
    · rw [addLabel_live c id l ch hgc hvc (by rw [hls]; exact hl), addLabel_live r id l ch hg hv hl]
      refine ⟨rfl, ?_⟩
      simp only
      apply sim_label_update h id ch hg (fun l' x => x = id ∧ l' = l) (fun _ _ => False)
      · intro l' x e; exact e.1
      · intro l' x e; exact e.elim
      · exact ⟨h.rest.epoch, h.rest.nodes, h.rest.nprops, h.rest.pidx, h.rest.edges, h.rest.eprops, h.rest.fwd,
          h.rest.bwd, h.rest.hasBwd, h.rest.nextEdge⟩
      · rfl
      · rfl
      · intro x hx
        show aget (aset c.nodeLabels id _) x = _
        rw [aget_aset]; simp [hx]
      · intro x hx
        show aget (aset r.nodeLabels id _) x = _
        rw [aget_aset]; simp [hx]
      · show aget (aset c.nodeLabels id _) id = aget (aset r.nodeLabels id _) id
        rw [aget_aset, aget_aset, hls]
      · intro l' x
        show inIdx (aset c.labelIdx l (sinsert ((aget c.labelIdx l).getD []) id)) l' x ↔ _
        rw [inIdx_insert]
        simp [or_comm]
      · intro l' x
        show inIdx (aset r.labelIdx l (sinsert ((aget r.labelIdx l).getD []) id)) l' x ↔ _
        rw [inIdx_insert]
        simp [or_comm]
      · intro x hx; exact hx
      · have := labelInv_addLabel r id l h.seq
        rw [addLabel_live r id l ch hg hv hl] at this
        exact this
      · exact idxNodup_insert _ _ _ h.nodupC
      · exact idxNodup_insert _ _ _ h.nodupR
  · have hd : ∀ ch, aget r.nodes id = some ch → chainVisibleAt ch r.epoch = false := by
      intro ch hg
      cases hv : chainVisibleAt ch r.epoch with
      | false => rfl
      | true => exact absurd ⟨ch, hg, hv⟩ hlive
    have hdc : ∀ ch, aget c.nodes id = some ch → chainVisibleAt ch c.epoch = false := by
      intro ch hg; rw [h.rest.epoch]; exact hd ch (by rw [← h.rest.nodes]; exact hg)
    rw [addLabel_dead c id l hdc, addLabel_dead r id l hd]
    exact ⟨rfl, h⟩

theorem sim_remLabel {c r : Store} {pf : Nat → Option Pend} (h : Sim c r pf) (id l : Nat) :
    (applyAtomic c (.remLabel id l)).2 = (applyAtomic r (.remLabel id l)).2 ∧
    Sim (applyAtomic c (.remLabel id l)).1 (applyAtomic r (.remLabel id l)).1 pf := by
  simp only [applyAtomic]
  by_cases hlive : ∃ ch, aget r.nodes id = some ch ∧ chainVisibleAt ch r.epoch = true
  · obtain ⟨ch, hg, hv⟩ := hlive
    have hgc : aget c.nodes id = some ch := by rw [h.rest.nodes]; exact hg
    have hvc : chainVisibleAt ch c.epoch = true := by rw [h.rest.epoch]; exact hv
    have hnp := h.not_pending_of_node id ch hg
    have hls : aget c.nodeLabels id = aget r.nodeLabels id :=
      h.labelsEq id (fun j p hp _ => hnp j p hp)
    by_cases hl : l ∈ (aget r.nodeLabels id).getD []
    · obtain ⟨ls, hnl⟩ : ∃ ls, aget r.nodeLabels id = some ls := by
        cases hh : aget r.nodeLabels id with
        | none => rw [hh] at hl; simp at hl
        | some ls => exact ⟨ls, rfl⟩
      have hl' : l ∈ ls := by rw [hnl] at hl; exact hl
      rw [removeLabel_live c id l ch ls hgc hvc (by rw [hls]; exact hnl) hl',
        removeLabel_live r id l ch ls hg hv hnl hl']
      refine ⟨rfl, ?_⟩
      simp only
      apply sim_label_update h id ch hg (fun _ _ => False) (fun l' x => x = id ∧ l' = l)
      · intro l' x e; exact e.elim
      · intro l' x e; exact e.1
      · exact ⟨h.rest.epoch, h.rest.nodes, h.rest.nprops, h.rest.pidx, h.rest.edges, h.rest.eprops, h.rest.fwd,
          h.rest.bwd, h.rest.hasBwd, h.rest.nextEdge⟩
      · rfl
      · rfl
      · intro x hx
        show aget (aset c.nodeLabels id _) x = _
        rw [aget_aset]; simp [hx]
      · intro x hx
        show aget (aset r.nodeLabels id _) x = _
        rw [aget_aset]; simp [hx]
      · show aget (aset c.nodeLabels id _) id = aget (aset r.nodeLabels id _) id
        rw [aget_aset, aget_aset]; simp
      · intro l' x
        show inIdx (idxEraseAll c.labelIdx [l] id) l' x ↔ _
        rw [inIdx_eraseOne]
        simp
      · intro l' x
        show inIdx (idxEraseAll r.labelIdx [l] id) l' x ↔ _
        rw [inIdx_eraseOne]
        simp
      · intro x hx; exact hx
      · have := labelInv_removeLabel r id l h.seq
        rw [removeLabel_live r id l ch ls hg hv hnl hl'] at this
        exact this
      · exact idxNodup_eraseAll _ _ _ h.nodupC
      · exact idxNodup_eraseAll _ _ _ h.nodupR
    · rw [removeLabel_lacks c id l (by rw [hls]; exact hl), removeLabel_lacks r id l hl]
      exact ⟨rfl, h⟩
  · have hd : ∀ ch, aget r.nodes id = some ch → chainVisibleAt ch r.epoch = false := by
      intro ch hg
      cases hv : chainVisibleAt ch r.epoch with
      | false => rfl
      | true => exact absurd ⟨ch, hg, hv⟩ hlive
    have hdc : ∀ ch, aget c.nodes id = some ch → chainVisibleAt ch c.epoch = false := by
      intro ch hg; rw [h.rest.epoch]; exact hd ch (by rw [← h.rest.nodes]; exact hg)
    rw [removeLabel_dead c id l hdc, removeLabel_dead r id l hd]
    exact ⟨rfl, h⟩



theorem sim_setProp {c r : Store} {pf : Nat → Option Pend} (h : Sim c r pf) (id k : Nat) (v : String) :
    (applyAtomic c (.setProp id k v)).2 = (applyAtomic r (.setProp id k v)).2 ∧
    Sim (applyAtomic c (.setProp id k v)).1 (applyAtomic r (.setProp id k v)).1 pf := by
  refine ⟨rfl, ?_⟩
  simp only [applyAtomic]
  have hcond : (!((aget c.nodes id).map chainAlive).getD false) = (!((aget r.nodes id).map chainAlive).getD false) := by
    rw [h.rest.nodes]
  unfold Store.setNodeProp
  rw [hcond]
  split
  · exact h
  · apply sim_props_update h
    · exact ⟨h.rest.epoch, h.rest.nodes, by
        show aset c.nprops id (aset (c.nodePropsOf id) k v) = aset r.nprops id (aset (r.nodePropsOf id) k v)
        unfold Store.nodePropsOf; rw [h.rest.nprops], by
        simp only [Store.nodePropsOf, h.rest.nprops, h.rest.pidx], h.rest.edges, h.rest.eprops, h.rest.fwd,
        h.rest.bwd, h.rest.hasBwd, h.rest.nextEdge⟩
    all_goals rfl

theorem sim_remProp {c r : Store} {pf : Nat → Option Pend} (h : Sim c r pf) (id k : Nat) :
    (applyAtomic c (.remProp id k)).2 = (applyAtomic r (.remProp id k)).2 ∧
    Sim (applyAtomic c (.remProp id k)).1 (applyAtomic r (.remProp id k)).1 pf := by
  simp only [applyAtomic]
  refine ⟨?_, ?_⟩
  · simp only [Store.removeNodeProp, Store.nodePropsOf, h.rest.nprops]
  · apply sim_props_update h
    · exact ⟨h.rest.epoch, h.rest.nodes, by
        simp only [Store.removeNodeProp, Store.nodePropsOf, h.rest.nprops], by
        simp only [Store.removeNodeProp, Store.nodePropsOf, h.rest.nprops, h.rest.pidx], h.rest.edges, h.rest.eprops,
        h.rest.fwd, h.rest.bwd, h.rest.hasBwd, h.rest.nextEdge⟩
    all_goals rfl

/-- every one-section operation acts on the concurrent store as it does on the replayed one -/
theorem sim_atomic {c r : Store} {pf : Nat → Option Pend} (h : Sim c r pf) (op : COp) (hop : isCreate op = false) :
    (applyAtomic c op).2 = (applyAtomic r op).2 ∧ Sim (applyAtomic c op).1 (applyAtomic r op).1 pf := by
  cases op with
  | create ls => simp [isCreate] at hop
  | delete id => exact sim_delete h id
  | addLabel id l => exact sim_addLabel h id l
  | remLabel id l => exact sim_remLabel h id l
  | setProp id k v => exact sim_setProp h id k v
  | remProp id k => exact sim_remProp h id k

theorem nodeLive_eq {c r : Store} {pf : Nat → Option Pend} (h : Sim c r pf) (id : Nat) :
    nodeLive c id = nodeLive r id := by
  unfold nodeLive; rw [h.rest.nodes, h.rest.epoch]



theorem take_of_wf (all d todo : List Nat) (h : all = d ++ todo) :
    all.take (all.length - todo.length) = d := by
  subst h
  apply List.take_left'
  simp

/-- One critical section of thread `i`, seen through the simulation: the thread's pending create
advances, or exactly one operation takes effect — in the concurrent store and, with the same result,
in the sequential replay. -/
theorem stepThread_sim (s0 : Store) (i : Nat) (c : Store) (log : List (Nat × COp × String)) (t : Thread)
    (r : Store) (pf : Nat → Option Pend) (hs : Sim c r pf) (hpf : pf i = pend t.pc) (hwf : PcWF t.pc)
    (hrun : SeqRun s0 log r) :
    PcWF (stepThread i c log t).2.2.pc ∧
    (∃ r', SeqRun s0 (stepThread i c log t).2.1 r' ∧
      Sim (stepThread i c log t).1 r' (upd pf i (pend (stepThread i c log t).2.2.pc))) ∧
    (((stepThread i c log t).2.1 = log ∧ (stepThread i c log t).2.2.results = t.results) ∨
     ∃ op res, (stepThread i c log t).2.1 = log ++ [(i, op, res)] ∧
       (stepThread i c log t).2.2.results = t.results ++ [res]) := by
  obtain ⟨pc, todo, results⟩ := t
  simp only at hpf hwf
  have same : ∀ pc', pend pc = none → pend pc' = none → Sim c r (upd pf i (pend pc')) := by
    intro pc' h1 h2
    rw [h2, upd_eq_self pf i none (by rw [hpf, h1])]
    exact hs
  have atomic : ∀ op, isCreate op = false → pend pc = none →
      PcWF Pc.idle ∧
      (∃ r', SeqRun s0 (log ++ [(i, op, (applyAtomic c op).2)]) r' ∧
        Sim (applyAtomic c op).1 r' (upd pf i (pend Pc.idle))) ∧
      ((log ++ [(i, op, (applyAtomic c op).2)] = log ∧ results ++ [(applyAtomic c op).2] = results) ∨
       ∃ op' res, log ++ [(i, op, (applyAtomic c op).2)] = log ++ [(i, op', res)] ∧
         results ++ [(applyAtomic c op).2] = results ++ [res]) := by
    intro op hop hp
    obtain ⟨hres, hsim⟩ := sim_atomic hs op hop
    refine ⟨trivial, ⟨(applyAtomic r op).1, ?_, ?_⟩, Or.inr ⟨op, _, rfl, rfl⟩⟩
    · have := SeqRun.snoc i op 0 hrun (by cases op <;> trivial)
      rw [applySeq_of_not_create r op 0 hop] at this
      rw [hres]; exact this
    · show Sim _ _ (upd pf i none)
      rw [upd_eq_self pf i none (by rw [hpf, hp])]
      exact hsim
  cases pc with
  | idle =>
    cases todo with
    | nil => exact ⟨trivial, ⟨r, hrun, same _ rfl rfl⟩, Or.inl ⟨rfl, rfl⟩⟩
    | cons op rest =>
      cases op with
      | create labels =>
        have ha := sim_alloc hs i labels (by rw [hpf]; rfl)
        cases labels with
        | nil => exact ⟨trivial, ⟨r, hrun, ha⟩, Or.inl ⟨rfl, rfl⟩⟩
        | cons l ls =>
          refine ⟨⟨[], rfl⟩, ⟨r, hrun, ?_⟩, Or.inl ⟨rfl, rfl⟩⟩
          have : pend (Pc.crLabel c.nextNode (l :: ls) (l :: ls)) = some ⟨c.nextNode, l :: ls, [], false⟩ := by
            simp [pend]
          simp only [stepThread]
          rw [this]; exact ha
      | delete id => exact ⟨trivial, ⟨r, hrun, same _ rfl rfl⟩, Or.inl ⟨rfl, rfl⟩⟩
      | addLabel id l =>
        simp only [stepThread]
        cases hl : nodeLive c id with
        | true =>
          simp only [if_true]
          exact ⟨trivial, ⟨r, hrun, same _ rfl rfl⟩, Or.inl ⟨trivial, trivial⟩⟩
        | false =>
          simp only [Bool.false_eq_true, if_false]
          have hlr : nodeLive r id = false := by rw [← nodeLive_eq hs id]; exact hl
          refine ⟨trivial, ⟨r, ?_, same _ rfl rfl⟩, Or.inr ⟨_, _, rfl, rfl⟩⟩
          have := SeqRun.snoc i (.addLabel id l) 0 hrun trivial
          simp only [applySeq] at this
          rw [addLabel_not_live r id l hlr] at this
          exact this
      | remLabel id l =>
        simp only [stepThread]
        cases hl : nodeLive c id with
        | true =>
          simp only [if_true]
          exact ⟨trivial, ⟨r, hrun, same _ rfl rfl⟩, Or.inl ⟨trivial, trivial⟩⟩
        | false =>
          simp only [Bool.false_eq_true, if_false]
          have hlr : nodeLive r id = false := by rw [← nodeLive_eq hs id]; exact hl
          refine ⟨trivial, ⟨r, ?_, same _ rfl rfl⟩, Or.inr ⟨_, _, rfl, rfl⟩⟩
          have := SeqRun.snoc i (.remLabel id l) 0 hrun trivial
          simp only [applySeq] at this
          rw [remLabel_not_live r id l hlr] at this
          exact this
      | setProp id k v => exact ⟨trivial, ⟨r, hrun, same _ rfl rfl⟩, Or.inl ⟨rfl, rfl⟩⟩
      | remProp id k => exact ⟨trivial, ⟨r, hrun, same _ rfl rfl⟩, Or.inl ⟨rfl, rfl⟩⟩
  | crLabel id todo' all =>
    obtain ⟨d, hd⟩ := hwf
    cases todo' with
    | nil =>
      refine ⟨trivial, ⟨r, hrun, ?_⟩, Or.inl ⟨rfl, rfl⟩⟩
      simp only [stepThread]
      have : pend (Pc.crNodeLabels id all) = pend (Pc.crLabel id [] all) := by simp [pend]
      rw [this, upd_eq_self pf i _ hpf]
      exact hs
    | cons l more =>
      have hp0 : pf i = some ⟨id, all, d, false⟩ := by
        rw [hpf]; simp only [pend]; rw [take_of_wf all d (l :: more) hd]
      have hi := sim_idx hs i id l all d hp0
      have hd' : all = (d ++ [l]) ++ more := by rw [hd]; simp
      cases more with
      | nil =>
        refine ⟨trivial, ⟨r, hrun, ?_⟩, Or.inl ⟨rfl, rfl⟩⟩
        simp only [stepThread]
        have : pend (Pc.crNodeLabels id all) = some ⟨id, all, d ++ [l], false⟩ := by
          simp only [pend]; rw [hd]
        rw [this]; exact hi
      | cons m ms =>
        refine ⟨⟨d ++ [l], hd'⟩, ⟨r, hrun, ?_⟩, Or.inl ⟨rfl, rfl⟩⟩
        simp only [stepThread]
        have : pend (Pc.crLabel id (m :: ms) all) = some ⟨id, all, d ++ [l], false⟩ := by
          simp only [pend]; rw [take_of_wf all (d ++ [l]) (m :: ms) hd']
        rw [this]; exact hi
  | crNodeLabels id all =>
    exact ⟨trivial, ⟨r, hrun, sim_nl hs i id all all hpf⟩, Or.inl ⟨rfl, rfl⟩⟩
  | crNodes id all =>
    refine ⟨trivial, ⟨r.createNodeWithId id all, ?_, sim_complete hs i id all hpf⟩, Or.inr ⟨_, _, rfl, rfl⟩⟩
    exact SeqRun.snoc i (.create all) id hrun (hs.pendFresh i _ hpf)
  | del id => exact atomic (.delete id) rfl rfl
  | addUpd id l => exact atomic (.addLabel id l) rfl rfl
  | remUpd id l => exact atomic (.remLabel id l) rfl rfl
  | setP id k v => exact atomic (.setProp id k v) rfl rfl
  | remP id k => exact atomic (.remProp id k) rfl rfl

end Grafeo.LpgConc
