import GrafeoModel.Model.Wal
import GrafeoModel.Proofs.WalDefs
import GrafeoModel.Proofs.CodecLemmas

namespace Grafeo.Wal
open Grafeo.Codec

/-- a payload the writer can produce and the reader accepts. -/
structure Good (crc : List Nat → Nat) (dec : List Nat → Bool) (p : List Nat) : Prop where
  len : p.length < 4294967296
  crc : crc p < 4294967296
  dec : dec p = true

theorem frame_length (crc : List Nat → Nat) (p : List Nat) : (frame crc p).length = p.length + 8 := by
  simp [frame, leBytes_length]; omega

theorem u32_pow : (4294967296 : Nat) = 256 ^ 4 := by decide

/-- reading one whole frame. -/
theorem parse_frame_append (crc : List Nat → Nat) (dec : List Nat → Bool) (p rest : List Nat)
    (fuel : Nat) (hg : Good crc dec p) :
    parseFile crc dec (fuel + 1) (frame crc p ++ rest) = p :: parseFile crc dec fuel rest := by
  have l4 : (leBytes 4 p.length).length = 4 := leBytes_length _ _
  have c4 : (leBytes 4 (crc p)).length = 4 := leBytes_length _ _
  have e0 : frame crc p ++ rest = leBytes 4 p.length ++ (p ++ (leBytes 4 (crc p) ++ rest)) := by
    simp [frame, List.append_assoc]
  rw [e0]
  conv => lhs; unfold parseFile
  have h1 : ¬ (leBytes 4 p.length ++ (p ++ (leBytes 4 (crc p) ++ rest))).length < 4 := by
    simp [l4]
  rw [if_neg h1]
  simp only [take_append_len _ _ 4 l4, drop_append_len _ _ 4 l4]
  rw [ofLe_leBytes 4 _ (by rw [← u32_pow]; exact hg.len)]
  have h2 : ¬ (p ++ (leBytes 4 (crc p) ++ rest)).length < p.length := by simp
  rw [if_neg h2]
  simp only [take_append_len _ _ p.length rfl, drop_append_len _ _ p.length rfl]
  have h3 : ¬ (leBytes 4 (crc p) ++ rest).length < 4 := by simp [c4]
  rw [if_neg h3]
  simp only [take_append_len _ _ 4 c4, drop_append_len _ _ 4 c4]
  rw [ofLe_leBytes 4 _ (by rw [← u32_pow]; exact hg.crc)]
  simp [hg.dec]

/-- a strict prefix of one frame yields nothing. -/
theorem parse_short (crc : List Nat → Nat) (dec : List Nat → Bool) (p : List Nat) (fuel k : Nat)
    (hg : Good crc dec p) (hk : k < p.length + 8) :
    parseFile crc dec fuel ((frame crc p).take k) = [] := by
  cases fuel with
  | zero => rfl
  | succ fuel =>
    have l4 : (leBytes 4 p.length).length = 4 := leBytes_length _ _
    have c4 : (leBytes 4 (crc p)).length = 4 := leBytes_length _ _
    have flen := frame_length crc p
    unfold parseFile
    by_cases h1 : k < 4
    · have : ((frame crc p).take k).length < 4 := by
        rw [List.length_take]; omega
      rw [if_pos this]
    · have hk4 : 4 ≤ k := Nat.le_of_not_lt h1
      have hlen : ((frame crc p).take k).length = k := by
        rw [List.length_take, flen]; omega
      rw [if_neg (by rw [hlen]; omega)]
      -- the length prefix is intact
      have e0 : frame crc p = leBytes 4 p.length ++ (p ++ leBytes 4 (crc p)) := by
        simp [frame, List.append_assoc]
      have t4 : ((frame crc p).take k).take 4 = leBytes 4 p.length := by
        rw [List.take_take, Nat.min_eq_left hk4, e0]
        exact take_append_len _ _ 4 l4
      have d4 : ((frame crc p).take k).drop 4 = (p ++ leBytes 4 (crc p)).take (k - 4) := by
        rw [List.drop_take, e0, drop_append_len _ _ 4 l4]
      simp only [t4, d4]
      rw [ofLe_leBytes 4 _ (by rw [← u32_pow]; exact hg.len)]
      by_cases h2 : k - 4 < p.length
      · have : ((p ++ leBytes 4 (crc p)).take (k - 4)).length < p.length := by
          rw [List.length_take]; simp [c4]; omega
        rw [if_pos this]
      · have hk' : p.length ≤ k - 4 := Nat.le_of_not_lt h2
        have hl2 : ((p ++ leBytes 4 (crc p)).take (k - 4)).length = k - 4 := by
          rw [List.length_take]; simp [c4]; omega
        rw [if_neg (by rw [hl2]; omega)]
        have : (((p ++ leBytes 4 (crc p)).take (k - 4)).drop p.length).length < 4 := by
          rw [List.length_drop, hl2]; omega
        simp only [this, if_true]

theorem encodeAll_cons (crc : List Nat → Nat) (p : List Nat) (ps : List (List Nat)) :
    encodeAll crc (p :: ps) = frame crc p ++ encodeAll crc ps := by
  simp [encodeAll]

/-- truncating the log at any byte length yields exactly the frames that fit. -/
theorem parse_take (crc : List Nat → Nat) (dec : List Nat → Bool) (ps : List (List Nat))
    (hg : ∀ p ∈ ps, Good crc dec p) (k fuel : Nat) (hf : k ≤ fuel) :
    parseFile crc dec fuel ((encodeAll crc ps).take k) = ps.take (wholeFrames k ps) := by
  induction ps generalizing k fuel with
  | nil =>
    simp only [encodeAll, List.map_nil, List.flatten_nil, List.take_nil, wholeFrames]
    cases fuel <;> simp [parseFile]
  | cons p ps ih =>
    have hp := hg p (by simp)
    have flen := frame_length crc p
    rw [encodeAll_cons]
    simp only [wholeFrames]
    by_cases hfit : p.length + 8 ≤ k
    · rw [if_pos hfit]
      have : (frame crc p ++ encodeAll crc ps).take k =
          frame crc p ++ (encodeAll crc ps).take (k - (p.length + 8)) := by
        rw [List.take_append, flen]
        rw [List.take_of_length_le (by rw [flen]; exact hfit)]
      rw [this]
      cases fuel with
      | zero => omega
      | succ fuel =>
        rw [parse_frame_append crc dec p _ fuel hp]
        rw [ih (fun q hq => hg q (by simp [hq])) _ fuel (by omega)]
        rw [Nat.add_comm 1, List.take_succ_cons]
    · rw [if_neg hfit]
      have hk : k < p.length + 8 := Nat.lt_of_not_le hfit
      have : (frame crc p ++ encodeAll crc ps).take k = (frame crc p).take k := by
        rw [List.take_append_of_le_length (by rw [flen]; omega)]
      rw [this, parse_short crc dec p fuel k hp hk]
      rfl

theorem wholeFrames_all (crc : List Nat → Nat) (ps : List (List Nat)) :
    wholeFrames (encodeAll crc ps).length ps = ps.length := by
  induction ps with
  | nil => rfl
  | cons p ps ih =>
    rw [encodeAll_cons]
    simp only [wholeFrames, List.length_append, frame_length, List.length_cons]
    rw [if_pos (by omega)]
    have : p.length + 8 + (encodeAll crc ps).length - (p.length + 8) = (encodeAll crc ps).length := by omega
    rw [this, ih]; omega

/-! ### commit rule -/

theorem replayStep_committed_grows (kind : α → Kind) (st : List α × List α) (r : α) :
    st.2 <+: (replayStep kind st r).2 := by
  unfold replayStep
  cases kind r with
  | commit => simp only; rw [List.append_assoc]; exact List.prefix_append _ _
  | abort => exact List.prefix_refl _
  | checkpoint => exact List.prefix_append _ _
  | data => exact List.prefix_refl _

theorem foldl_committed_grows (kind : α → Kind) (rs : List α) (st : List α × List α) :
    st.2 <+: (rs.foldl (replayStep kind) st).2 := by
  induction rs generalizing st with
  | nil => exact List.prefix_refl _
  | cons r rs ih =>
    exact List.IsPrefix.trans (replayStep_committed_grows kind st r) (ih _)

end Grafeo.Wal
