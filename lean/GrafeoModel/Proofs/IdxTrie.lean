import GrafeoModel.Model.Idx

namespace Grafeo.Idx

/-! ## replaying a history -/

/-- replay a history on a node -/
def insAll (n : TNode) (h : List (List Nat × Nat)) : TNode :=
  h.foldl (fun n pe => n.insert pe.1 pe.2) n

theorem foldl_insert_eq (h : List (List Nat × Nat)) (t : Trie) :
    h.foldl (fun t pe => t.insert pe.1 pe.2) t = ⟨insAll t.root h, t.size + h.length⟩ := by
  induction h generalizing t with
  | nil => cases t; simp [insAll]
  | cons a r ih =>
    rw [List.foldl_cons, ih]
    simp only [Trie.insert, insAll, List.length_cons, List.foldl_cons, Trie.mk.injEq, true_and]
    omega

theorem build_root (h : List (List Nat × Nat)) : (Trie.build h).root = insAll (.mk [] .nil) h := by
  simp [Trie.build, foldl_insert_eq, Trie.empty]

/-- 1. `len` counts the inserts -/
theorem trie_len (h : List (List Nat × Nat)) : (Trie.build h).len = h.length := by
  simp [Trie.build, foldl_insert_eq, Trie.empty, Trie.len]

/-! ## walk after insert -/

/-- insert below an optional child (`entry(k).or_insert_with(new).insert(..)`) -/
def insOpt (o : Option TNode) (q : List Nat) (e : Nat) : TNode :=
  match o with
  | none => TNode.single q e
  | some c => c.insert q e

theorem TKids.get_insert : (ks : TKids) → (k : Nat) → (q : List Nat) → (e k' : Nat) →
    (ks.insert k q e).get k' = if k' = k then some (insOpt (ks.get k) q e) else ks.get k'
  | .nil, k, q, e, k' => by
    by_cases hk : k' = k
    · subst hk; simp [TKids.insert, TKids.get, insOpt]
    · have : ¬ k = k' := fun h => hk h.symm
      simp [TKids.insert, TKids.get, hk, this]
  | .cons k0 n r, k, q, e, k' => by
    have ih := TKids.get_insert r k q e k'
    simp only [TKids.insert]
    by_cases h0 : k0 = k
    · subst h0
      by_cases hk : k' = k0
      · subst hk; simp [TKids.get, insOpt]
      · have : ¬ k0 = k' := fun h => hk h.symm
        simp [TKids.get, hk, this]
    · simp only [h0, if_false, TKids.get]
      by_cases hk : k0 = k'
      · subst hk
        have : ¬ k0 = k := h0
        simp [this]
      · simp [hk, ih]

theorem walk_nil (n : TNode) : n.walk [] = some n := by
  unfold TNode.walk; rfl

theorem walk_cons (n : TNode) (k : Nat) (p : List Nat) :
    n.walk (k :: p) = (n.kids.get k).bind (fun c => c.walk p) := by
  rw [TNode.walk]; cases n.kids.get k <;> rfl

theorem walk_single (q : List Nat) (e : Nat) (p : List Nat) :
    (TNode.single q e).walk p =
      if isPrefix p q then some (TNode.single (q.drop p.length) e) else none := by
  induction q generalizing p with
  | nil =>
    cases p with
    | nil => simp [walk_nil, isPrefix]
    | cons k p => simp [walk_cons, isPrefix, TNode.single, TNode.kids, TKids.get]
  | cons k q ih =>
    cases p with
    | nil => simp [walk_nil, isPrefix]
    | cons k' p =>
      simp only [walk_cons, isPrefix, TNode.single, TNode.kids, TKids.get, List.length_cons,
        List.drop_succ_cons]
      by_cases hk : k = k'
      · subst hk; simp [ih]
      · have : ¬ k' = k := fun h => hk h.symm
        simp [hk, this]

theorem walk_insert (n : TNode) (q : List Nat) (e : Nat) (p : List Nat) :
    (n.insert q e).walk p =
      if isPrefix p q then some (insOpt (n.walk p) (q.drop p.length) e) else n.walk p := by
  induction q generalizing n p with
  | nil =>
    cases p with
    | nil => simp [walk_nil, isPrefix, insOpt]
    | cons k p =>
      cases n with
      | mk es ks => simp [walk_cons, isPrefix, TNode.insert, TNode.kids]
  | cons k q ih =>
    cases p with
    | nil => simp [walk_nil, isPrefix, insOpt]
    | cons k' p =>
      cases n with
      | mk es ks =>
        simp only [walk_cons, isPrefix, TNode.insert, TNode.kids, TKids.get_insert,
          List.length_cons, List.drop_succ_cons]
        by_cases hk : k' = k
        · subst hk
          cases hg : ks.get k' with
          | none => simp [insOpt, walk_single]
          | some c => simp [insOpt, ih]
        · simp [hk]

/-! ## prefix arithmetic -/

theorem isPrefix_drop_nil (p q : List Nat) (h : isPrefix p q = true) :
    q.drop p.length = [] ↔ p = q := by
  induction p generalizing q with
  | nil => cases q <;> simp
  | cons a p ih =>
    cases q with
    | nil => simp [isPrefix] at h
    | cons b q =>
      simp only [isPrefix, Bool.and_eq_true, beq_iff_eq] at h
      simp [ih q h.2, h.1]

theorem not_isPrefix_ne (p q : List Nat) (h : isPrefix p q = false) : p ≠ q := by
  induction p generalizing q with
  | nil => simp [isPrefix] at h
  | cons a p ih =>
    cases q with
    | nil => simp
    | cons b q =>
      simp only [isPrefix, Bool.and_eq_false_iff, beq_eq_false_iff_ne] at h
      intro heq
      simp only [List.cons.injEq] at heq
      rcases h with h | h
      · exact h heq.1
      · exact ih q h heq.2

theorem nextKey_of_isPrefix (p q : List Nat) (h : isPrefix p q = true) :
    nextKey p q = (q.drop p.length).head? := by
  induction p generalizing q with
  | nil => cases q <;> simp [nextKey]
  | cons a p ih =>
    cases q with
    | nil => simp [isPrefix] at h
    | cons b q =>
      simp only [isPrefix, Bool.and_eq_true, beq_iff_eq] at h
      simp [nextKey, h.1, ih q h.2]

theorem nextKey_of_not_isPrefix (p q : List Nat) (h : isPrefix p q = false) :
    nextKey p q = none := by
  induction p generalizing q with
  | nil => simp [isPrefix] at h
  | cons a p ih =>
    cases q with
    | nil => simp [nextKey]
    | cons b q =>
      simp only [isPrefix, Bool.and_eq_false_iff, beq_eq_false_iff_ne] at h
      simp only [nextKey]
      split
      · rename_i hab
        rcases h with h | h
        · exact absurd hab h
        · exact ih q h
      · rfl

/-! ## 2. `get` -/

def oedges (o : Option TNode) : List Nat :=
  match o with
  | none => []
  | some m => m.edges

/-- the edge ids stored at path `p` -/
def edgesAt (n : TNode) (p : List Nat) : List Nat := oedges (n.walk p)

theorem edges_insOpt (o : Option TNode) (r : List Nat) (e : Nat) :
    (insOpt o r e).edges = oedges o ++ (if r = [] then [e] else []) := by
  cases o with
  | none => cases r <;> simp [insOpt, oedges, TNode.single, TNode.edges]
  | some c => cases c; cases r <;> simp [insOpt, oedges, TNode.insert, TNode.edges]

theorem edgesAt_insert (n : TNode) (q : List Nat) (e : Nat) (p : List Nat) :
    edgesAt (n.insert q e) p = edgesAt n p ++ (if p = q then [e] else []) := by
  unfold edgesAt
  rw [walk_insert]
  cases hp : isPrefix p q with
  | true => simp [oedges, edges_insOpt, isPrefix_drop_nil p q hp]
  | false => simp [not_isPrefix_ne p q hp]

theorem edgesAt_insAll (h : List (List Nat × Nat)) (n : TNode) (p : List Nat) :
    edgesAt (insAll n h) p = edgesAt n p ++ (h.filter (fun pe => decide (pe.1 = p))).map (·.2) := by
  induction h generalizing n with
  | nil => simp [insAll]
  | cons a r ih =>
    have := ih (n.insert a.1 a.2)
    simp only [insAll, List.foldl_cons] at this ⊢
    rw [this, edgesAt_insert, List.filter_cons]
    by_cases hp : a.1 = p
    · simp [hp]
    · have : ¬ p = a.1 := fun h => hp h.symm
      simp [hp, this]

theorem Trie.get_eq (t : Trie) (p : List Nat) :
    t.get p = if (edgesAt t.root p).isEmpty then none else some (edgesAt t.root p) := by
  unfold Trie.get edgesAt
  cases t.root.walk p <;> simp [oedges]

/-- 2. `get p` returns exactly the edge ids inserted under path `p`, in insertion order -/
theorem trie_get (h : List (List Nat × Nat)) (p : List Nat) :
    (Trie.build h).get p = sTrieGet h p := by
  rw [Trie.get_eq, build_root, edgesAt_insAll]
  have : edgesAt (.mk [] .nil) p = [] := by
    cases p <;> simp [edgesAt, walk_nil, walk_cons, oedges, TNode.edges, TNode.kids, TKids.get]
  rw [this]
  simp [sTrieGet]

/-! ## `isort` -/

theorem mem_insSorted (x k : Nat) (l : List Nat) : k ∈ insSorted x l ↔ k = x ∨ k ∈ l := by
  induction l with
  | nil => simp [insSorted]
  | cons y r ih =>
    simp only [insSorted]
    split
    · simp
    · simp only [List.mem_cons, ih]
      constructor
      · rintro (h | h | h) <;> simp [h]
      · rintro (h | h | h) <;> simp [h]

theorem mem_isort (k : Nat) (l : List Nat) : k ∈ isort l ↔ k ∈ l := by
  induction l with
  | nil => simp [isort]
  | cons x r ih => simp [isort, mem_insSorted, ih]

theorem insSorted_perm (x : Nat) (l : List Nat) : (insSorted x l).Perm (x :: l) := by
  induction l with
  | nil => simp [insSorted]
  | cons y r ih =>
    simp only [insSorted]
    split
    · exact List.Perm.refl _
    · exact ((List.Perm.cons y ih).trans (List.Perm.swap x y r))

theorem isort_perm (l : List Nat) : (isort l).Perm l := by
  induction l with
  | nil => simp [isort]
  | cons x r ih => exact (insSorted_perm x (isort r)).trans (List.Perm.cons x ih)

theorem insSorted_sorted (x : Nat) (l : List Nat) (h : l.Pairwise (· ≤ ·)) :
    (insSorted x l).Pairwise (· ≤ ·) := by
  induction l with
  | nil => simp [insSorted]
  | cons y r ih =>
    simp only [List.pairwise_cons] at h
    simp only [insSorted]
    split
    · rename_i hxy
      simp only [List.pairwise_cons, List.mem_cons]
      refine ⟨?_, h.1, h.2⟩
      rintro z (rfl | hz)
      · exact hxy
      · exact Nat.le_trans hxy (h.1 z hz)
    · rename_i hxy
      simp only [List.pairwise_cons, mem_insSorted]
      refine ⟨?_, ih h.2⟩
      rintro z (rfl | hz)
      · omega
      · exact h.1 z hz

theorem isort_sorted (l : List Nat) : (isort l).Pairwise (· ≤ ·) := by
  induction l with
  | nil => simp [isort]
  | cons x r ih => exact insSorted_sorted x _ ih

theorem insSorted_strict (x : Nat) (l : List Nat) (h : l.Pairwise (· < ·)) (hx : x ∉ l) :
    (insSorted x l).Pairwise (· < ·) := by
  induction l with
  | nil => simp [insSorted]
  | cons y r ih =>
    simp only [List.pairwise_cons] at h
    simp only [List.mem_cons, not_or] at hx
    simp only [insSorted]
    split
    · rename_i hxy
      have hlt : x < y := by omega
      simp only [List.pairwise_cons, List.mem_cons]
      refine ⟨?_, h.1, h.2⟩
      rintro z (rfl | hz)
      · exact hlt
      · exact Nat.lt_trans hlt (h.1 z hz)
    · rename_i hxy
      simp only [List.pairwise_cons, mem_insSorted]
      refine ⟨?_, ih h.2 hx.2⟩
      rintro z (rfl | hz)
      · omega
      · exact h.1 z hz

theorem isort_strict (l : List Nat) (h : l.Nodup) : (isort l).Pairwise (· < ·) := by
  induction l with
  | nil => simp [isort]
  | cons x r ih =>
    rw [List.nodup_cons] at h
    exact insSorted_strict x _ (ih h.2) (by rw [mem_isort]; exact h.1)

/-- two strictly ascending lists with the same members are equal -/
theorem sorted_ext (l1 l2 : List Nat) (h1 : l1.Pairwise (· < ·)) (h2 : l2.Pairwise (· < ·))
    (hm : ∀ k, k ∈ l1 ↔ k ∈ l2) : l1 = l2 := by
  induction l1 generalizing l2 with
  | nil =>
    cases l2 with
    | nil => rfl
    | cons b l2 => exact absurd ((hm b).2 (by simp)) (by simp)
  | cons a l1 ih =>
    cases l2 with
    | nil => exact absurd ((hm a).1 (by simp)) (by simp)
    | cons b l2 =>
      simp only [List.pairwise_cons] at h1 h2
      have hab : a = b := by
        have ha := (hm a).1 (by simp)
        have hb := (hm b).2 (by simp)
        simp only [List.mem_cons] at ha hb
        rcases ha with ha | ha
        · exact ha
        · rcases hb with hb | hb
          · exact hb.symm
          · have := h1.1 b hb
            have := h2.1 a ha
            omega
      subst hab
      congr 1
      apply ih l2 h1.2 h2.2
      intro k
      constructor
      · intro hk
        have := (hm k).1 (by simp [hk])
        simp only [List.mem_cons] at this
        rcases this with rfl | h
        · exact absurd (h1.1 k hk) (by omega)
        · exact h
      · intro hk
        have := (hm k).2 (by simp [hk])
        simp only [List.mem_cons] at this
        rcases this with rfl | h
        · exact absurd (h2.1 k hk) (by omega)
        · exact h

/-! ## 3. children keys -/

def okeys (o : Option TNode) : List Nat :=
  match o with
  | none => []
  | some m => m.kids.keys

/-- the (unsorted) children keys of the node at path `p` -/
def childKeysAt (n : TNode) (p : List Nat) : List Nat := okeys (n.walk p)

theorem TKids.keys_insert : (ks : TKids) → (k : Nat) → (r : List Nat) → (e : Nat) →
    (ks.insert k r e).keys = if k ∈ ks.keys then ks.keys else ks.keys ++ [k]
  | .nil, k, r, e => by simp [TKids.insert, TKids.keys]
  | .cons k0 n ks, k, r, e => by
    have ih := TKids.keys_insert ks k r e
    simp only [TKids.insert]
    by_cases h0 : k0 = k
    · subst h0; simp [TKids.keys]
    · have : ¬ k = k0 := fun h => h0 h.symm
      simp only [h0, if_false, TKids.keys, ih, List.mem_cons, this, false_or]
      split <;> simp

theorem mem_keys_insert (ks : TKids) (k : Nat) (r : List Nat) (e x : Nat) :
    x ∈ (ks.insert k r e).keys ↔ x ∈ ks.keys ∨ x = k := by
  rw [TKids.keys_insert]
  split
  · rename_i hk
    constructor
    · exact Or.inl
    · rintro (h | rfl)
      · exact h
      · exact hk
  · simp

theorem nodup_keys_insert (ks : TKids) (k : Nat) (r : List Nat) (e : Nat) (h : ks.keys.Nodup) :
    (ks.insert k r e).keys.Nodup := by
  rw [TKids.keys_insert]
  split
  · exact h
  · rename_i hk
    rw [List.nodup_append]
    refine ⟨h, by simp, ?_⟩
    intro a ha b hb
    simp only [List.mem_singleton] at hb
    subst hb
    intro hab
    subst hab
    exact hk ha

theorem mem_keys_insOpt (o : Option TNode) (r : List Nat) (e x : Nat) :
    x ∈ (insOpt o r e).kids.keys ↔ x ∈ okeys o ∨ r.head? = some x := by
  cases o with
  | none =>
    cases r with
    | nil => simp [insOpt, okeys, TNode.single, TNode.kids, TKids.keys]
    | cons k r =>
      simp only [insOpt, okeys, TNode.single, TNode.kids, TKids.keys, List.mem_singleton,
        List.head?_cons, Option.some.injEq, List.not_mem_nil, false_or]
      exact eq_comm
  | some c =>
    cases c with
    | mk es ks =>
      cases r with
      | nil => simp [insOpt, okeys, TNode.insert, TNode.kids]
      | cons k r =>
        simp only [insOpt, okeys, TNode.insert, TNode.kids, mem_keys_insert, List.head?_cons,
          Option.some.injEq]
        constructor
        · rintro (h | h)
          · exact Or.inl h
          · exact Or.inr h.symm
        · rintro (h | h)
          · exact Or.inl h
          · exact Or.inr h.symm

theorem nodup_keys_insOpt (o : Option TNode) (r : List Nat) (e : Nat) (h : (okeys o).Nodup) :
    (insOpt o r e).kids.keys.Nodup := by
  cases o with
  | none => cases r <;> simp [insOpt, TNode.single, TNode.kids, TKids.keys]
  | some c =>
    cases c with
    | mk es ks =>
      cases r with
      | nil => simpa [insOpt, okeys, TNode.insert, TNode.kids] using h
      | cons k r =>
        simp only [insOpt, TNode.insert, TNode.kids]
        exact nodup_keys_insert ks k r e (by simpa [okeys, TNode.kids] using h)

/-- `KidsNodup`: at every reachable node the children keys are duplicate-free -/
def KidsNodup (n : TNode) : Prop := ∀ p, (childKeysAt n p).Nodup

theorem KidsNodup_insert (n : TNode) (q : List Nat) (e : Nat) (h : KidsNodup n) :
    KidsNodup (n.insert q e) := by
  intro p
  unfold childKeysAt
  rw [walk_insert]
  split
  · exact nodup_keys_insOpt _ _ _ (h p)
  · exact h p

theorem KidsNodup_insAll (h : List (List Nat × Nat)) (n : TNode) (hn : KidsNodup n) :
    KidsNodup (insAll n h) := by
  induction h generalizing n with
  | nil => exact hn
  | cons a r ih => exact ih _ (KidsNodup_insert n a.1 a.2 hn)

theorem walk_empty (p : List Nat) :
    (TNode.mk [] .nil).walk p = if p = [] then some (.mk [] .nil) else none := by
  cases p <;> simp [walk_nil, walk_cons, TNode.kids, TKids.get]

theorem KidsNodup_empty : KidsNodup (.mk [] .nil) := by
  intro p
  unfold childKeysAt
  rw [walk_empty]
  split <;> simp [okeys, TNode.kids, TKids.keys]

theorem KidsNodup_build (h : List (List Nat × Nat)) : KidsNodup (Trie.build h).root := by
  rw [build_root]; exact KidsNodup_insAll h _ KidsNodup_empty

/-- 3a. an iterator opened at a path starts at position 0 on strictly ascending keys -/
theorem trie_iter_sorted (h : List (List Nat × Nat)) (p : List Nat) (it : TIter)
    (hit : (Trie.build h).iterAt p = some it) : it.keys.Pairwise (· < ·) ∧ it.pos = 0 := by
  unfold Trie.iterAt at hit
  have hn := KidsNodup_build h p
  unfold childKeysAt at hn
  cases hw : (Trie.build h).root.walk p with
  | none => simp [hw] at hit
  | some m =>
    simp only [hw, Option.map_some, Option.some.injEq] at hit
    subst hit
    simp only [hw, okeys] at hn
    exact ⟨isort_strict _ hn, rfl⟩

--BEGIN3B
theorem walk_isSome_insert (n : TNode) (q : List Nat) (e : Nat) (p : List Nat) :
    ((n.insert q e).walk p).isSome = ((n.walk p).isSome || isPrefix p q) := by
  rw [walk_insert]; cases isPrefix p q <;> simp

theorem walk_isSome_insAll (h : List (List Nat × Nat)) (n : TNode) (p : List Nat) :
    ((insAll n h).walk p).isSome = ((n.walk p).isSome || h.any (fun pe => isPrefix p pe.1)) := by
  induction h generalizing n with
  | nil => simp [insAll]
  | cons a r ih =>
    have := ih (n.insert a.1 a.2)
    simp only [insAll, List.foldl_cons] at this ⊢
    rw [this, walk_isSome_insert]; simp [Bool.or_assoc]

theorem mem_childKeys_insert (n : TNode) (q : List Nat) (e : Nat) (p : List Nat) (x : Nat) :
    x ∈ childKeysAt (n.insert q e) p ↔ x ∈ childKeysAt n p ∨ nextKey p q = some x := by
  unfold childKeysAt; rw [walk_insert]
  cases hp : isPrefix p q with
  | true => simp only [if_true, okeys, mem_keys_insOpt, nextKey_of_isPrefix p q hp]
  | false => simp [nextKey_of_not_isPrefix p q hp]

theorem mem_childKeys_insAll (h : List (List Nat × Nat)) (n : TNode) (p : List Nat) (x : Nat) :
    x ∈ childKeysAt (insAll n h) p ↔
      x ∈ childKeysAt n p ∨ x ∈ h.filterMap (fun pe => nextKey p pe.1) := by
  induction h generalizing n with
  | nil => simp [insAll]
  | cons a r ih =>
    have := ih (n.insert a.1 a.2)
    simp only [insAll, List.foldl_cons] at this ⊢
    rw [this, mem_childKeys_insert, List.filterMap_cons]
    cases hk : nextKey p a.1 <;> simp <;> grind

theorem mem_dedupNat (x : Nat) (l : List Nat) : x ∈ dedupNat l ↔ x ∈ l := by
  induction l with
  | nil => simp [dedupNat]
  | cons a r ih =>
    simp only [dedupNat]
    split <;> simp [ih] <;> grind

theorem nodup_dedupNat (l : List Nat) : (dedupNat l).Nodup := by
  induction l with
  | nil => simp [dedupNat]
  | cons a r ih =>
    simp only [dedupNat]
    split
    · exact ih
    · rename_i ha
      rw [List.nodup_cons, mem_dedupNat]; exact ⟨ha, ih⟩

/-- 3b. the iterator's keys are exactly the sorted distinct next-keys of the inserted paths that
properly extend `p`; `iterAt` is `none` exactly when `p ≠ []` and no inserted path passes `p` -/
theorem trie_iter_keys (h : List (List Nat × Nat)) (p : List Nat) :
    ((Trie.build h).iterAt p).map (·.keys) = sTrieKeys h p := by
  have hs := walk_isSome_insAll h (.mk [] .nil) p
  have hm := fun x => mem_childKeys_insAll h (.mk [] .nil) p x
  have hn := KidsNodup_build h p
  rw [build_root] at hn
  unfold Trie.iterAt sTrieKeys
  rw [build_root]
  rw [walk_empty] at hs
  have hc0 : childKeysAt (.mk [] .nil) p = [] := by
    unfold childKeysAt; rw [walk_empty]; split <;> simp [okeys, TNode.kids, TKids.keys]
  simp only [hc0, List.not_mem_nil, false_or] at hm
  unfold childKeysAt at hm hn
  cases hw : (insAll (.mk [] .nil) h).walk p with
  | none =>
    rw [hw] at hs
    have : (p.isEmpty || h.any (fun pe => isPrefix p pe.1)) = false := by
      cases p <;> simp_all <;> assumption
    simp [this]
  | some m =>
    rw [hw] at hs hn
    simp only [hw] at hm
    have : (p.isEmpty || h.any (fun pe => isPrefix p pe.1)) = true := by
      cases p <;> simp_all
    simp only [this, if_true, Option.map_some, TIter.new, TNode.childrenSorted]
    congr 1
    apply sorted_ext _ _ (isort_strict _ hn) (isort_strict _ (nodup_dedupNat _))
    intro k; rw [mem_isort, mem_isort, mem_dedupNat]; exact hm k
--END3B

/-! ## 4. iterator laws -/

theorem seekOff_drop (t : Nat) (l : List Nat) :
    l.drop (seekOff t l) = l.dropWhile (· < t) := by
  induction l with
  | nil => simp [seekOff]
  | cons k r ih =>
    simp only [seekOff, List.dropWhile_cons]
    by_cases hk : k < t <;> simp [hk, ih]

theorem rem_nil_iff (it : TIter) : it.rem = [] ↔ ¬ it.pos < it.keys.length := by
  simp [TIter.rem, List.drop_eq_nil_iff]

theorem key_eq_head (it : TIter) : it.key = it.rem.head? := by
  simp [TIter.key, TIter.rem]

theorem isValid_eq (it : TIter) : it.isValid = decide (it.rem ≠ []) := by
  simp [TIter.isValid, rem_nil_iff]

theorem pairwise_dropWhile_head (t : Nat) (l : List Nat) (hs : l.Pairwise (· < ·)) :
    (∀ k, (l.dropWhile (· < t)).head? = some k →
      t ≤ k ∧ k ∈ l ∧ ∀ k' ∈ l, t ≤ k' → k ≤ k') ∧
    ((l.dropWhile (· < t)).head? = none → ∀ k' ∈ l, k' < t) := by
  induction l with
  | nil => simp
  | cons a r ih =>
    simp only [List.pairwise_cons] at hs
    have ih := ih hs.2
    simp only [List.dropWhile_cons]
    by_cases ha : a < t
    · simp only [ha, decide_true, if_true]
      refine ⟨?_, ?_⟩
      · intro k hk
        obtain ⟨h1, h2, h3⟩ := ih.1 k hk
        refine ⟨h1, List.mem_cons_of_mem _ h2, ?_⟩
        intro k' hk' htk
        simp only [List.mem_cons] at hk'
        rcases hk' with rfl | hk'
        · omega
        · exact h3 k' hk' htk
      · intro hn k' hk'
        simp only [List.mem_cons] at hk'
        rcases hk' with rfl | hk'
        · exact ha
        · exact ih.2 hn k' hk'
    · simp only [ha, decide_false, Bool.false_eq_true, if_false, List.head?_cons,
        Option.some.injEq]
      refine ⟨?_, by simp⟩
      intro k hk
      subst hk
      refine ⟨by omega, by simp, ?_⟩
      intro k' hk' _
      simp only [List.mem_cons] at hk'
      rcases hk' with rfl | hk'
      · exact Nat.le_refl _
      · exact Nat.le_of_lt (hs.1 k' hk')

/-- 4a. `seek t` keeps the key array, never moves backwards, and lands on the least remaining
key `≥ t` (or is exhausted when there is none); the returned flag is `is_valid` -/
theorem iter_seek_least (it : TIter) (t : Nat) (hs : it.keys.Pairwise (· < ·)) :
    (it.seek t).1.keys = it.keys ∧ (it.seek t).1.node = it.node ∧
    it.pos ≤ (it.seek t).1.pos ∧
    (it.seek t).1.rem = it.rem.dropWhile (· < t) ∧
    (it.seek t).2 = (it.seek t).1.isValid ∧
    (∀ k, (it.seek t).1.key = some k →
      t ≤ k ∧ k ∈ it.rem ∧ ∀ k' ∈ it.rem, t ≤ k' → k ≤ k') ∧
    ((it.seek t).1.key = none → ∀ k' ∈ it.rem, k' < t) := by
  have hrem : (it.seek t).1.rem = it.rem.dropWhile (· < t) := by
    simp only [TIter.seek, TIter.rem]
    rw [← seekOff_drop, List.drop_drop]
  have hsr : it.rem.Pairwise (· < ·) := by
    unfold TIter.rem
    exact List.Pairwise.sublist (List.drop_sublist _ _) hs
  refine ⟨rfl, rfl, by simp [TIter.seek], hrem, rfl, ?_, ?_⟩
  · rw [key_eq_head, hrem]; exact (pairwise_dropWhile_head t _ hsr).1
  · rw [key_eq_head, hrem]; exact (pairwise_dropWhile_head t _ hsr).2

/-- 4b. `next` drops exactly the current key; the flag tells whether a key remains -/
theorem iter_next (it : TIter) :
    (it.next).1.rem = it.rem.tail ∧ (it.next).2 = decide ((it.next).1.rem ≠ []) ∧
    (it.next).1.keys = it.keys ∧ (it.next).1.node = it.node := by
  unfold TIter.next
  by_cases h : it.pos < it.keys.length
  · simp only [h, if_true, rem_nil_iff]
    simp [TIter.rem, List.tail_drop]
  · have hr := (rem_nil_iff it).2 h
    simp [h, hr]

theorem itEnum_eq_rem (f : Nat) (it : TIter) (hf : it.keys.length - it.pos < f) :
    itEnum f it = it.rem := by
  induction f generalizing it with
  | zero => omega
  | succ f ih =>
    unfold itEnum
    by_cases h : it.pos < it.keys.length
    · have hk : it.key = some it.keys[it.pos] := by simp [TIter.key, h]
      have hrem : it.rem = it.keys[it.pos] :: it.keys.drop (it.pos + 1) := by
        unfold TIter.rem; exact List.drop_eq_getElem_cons h
      simp only [hk, TIter.next, h, if_true]
      by_cases h2 : it.pos + 1 < it.keys.length
      · simp only [h2, decide_true, if_true]
        rw [ih _ (by simp only []; omega), hrem]
        simp [TIter.rem]
      · simp only [h2, decide_false]
        rw [hrem, List.drop_eq_nil_of_le (by omega)]
        simp
    · have hk : it.key = none := by simp [TIter.key]; omega
      simp [hk, (rem_nil_iff it).2 h]

/-- 4c. the `key`/`next` loop enumerates exactly the remaining keys, in order -/
theorem iter_enum (it : TIter) : itEnum (it.keys.length + 1) it = it.rem :=
  itEnum_eq_rem _ it (by omega)

theorem iter_enum_all (it : TIter) (h0 : it.pos = 0) : itEnum (it.keys.length + 1) it = it.keys := by
  rw [iter_enum]; simp [TIter.rem, h0]

/-! ## 5. non-vacuity -/

example : (Trie.build [([1, 2], 0), ([1, 3], 1), ([2, 3], 2), ([1, 2], 3)]).get [1, 2]
    = some [0, 3] := by decide
example : ((Trie.build [([1, 2], 0), ([1, 3], 1), ([2, 3], 2), ([1, 2], 3)]).iterAt [1]).map (·.keys)
    = some [2, 3] := by decide
example : ((Trie.build [([1, 2], 0), ([1, 3], 1), ([2, 3], 2), ([1, 2], 3)]).iterAt [3]).map (·.keys)
    = none := by decide
example : (Trie.build [([1, 2], 0), ([1, 3], 1), ([2, 3], 2), ([1, 2], 3)]).len = 4 := by decide

end Grafeo.Idx
