import GrafeoModel.Model.Idx
/-! Lemmas for Props/C14Idx: HashIndex and BTreeIndex refine the plain finite map. -/
namespace Grafeo.Idx

/-- no two entries share a key -/
def KN {K V : Type} (m : List (K × V)) : Prop := m.Pairwise (fun a b => a.1 ≠ b.1)
/-- strictly ascending keys -/
def SortedK {V : Type} (m : List (Int × V)) : Prop := m.Pairwise (fun a b => a.1 < b.1)

section Generic
variable {K V : Type} [DecidableEq K]

theorem KN.nodup {m : List (K × V)} (h : KN m) : m.Nodup := by
  unfold KN at h
  exact h.imp (fun hab he => hab (by rw [he]))

theorem sGet_none_of_not_mem {m : List (K × V)} {k : K} (h : ∀ e ∈ m, e.1 ≠ k) : sGet m k = none := by
  induction m with
  | nil => rfl
  | cons x r ih =>
    obtain ⟨k', v'⟩ := x
    have h1 : k' ≠ k := h (k', v') (by simp)
    simp only [sGet, h1, if_false]
    exact ih (fun e he => h e (by simp [he]))

theorem sGet_eq_some_iff {m : List (K × V)} (h : KN m) (k : K) (v : V) :
    sGet m k = some v ↔ (k, v) ∈ m := by
  induction m with
  | nil => simp [sGet]
  | cons x r ih =>
    obtain ⟨k', v'⟩ := x
    unfold KN at h
    rw [List.pairwise_cons] at h
    by_cases hk : k' = k
    · subst hk
      simp only [sGet, if_true, List.mem_cons, Prod.mk.injEq, true_and, Option.some.injEq]
      constructor
      · intro e; exact Or.inl e.symm
      · rintro (e | e)
        · exact e.symm
        · exact absurd rfl (h.1 (k', v) e)
    · simp only [sGet, hk, if_false, List.mem_cons, Prod.mk.injEq]
      rw [ih h.2]
      constructor
      · intro e; exact Or.inr e
      · rintro (⟨e, _⟩ | e)
        · exact absurd e.symm hk
        · exact e

theorem hGet_eq_sGet (m : List (K × V)) (k : K) : hGet m k = sGet m k := by
  induction m with
  | nil => rfl
  | cons x r ih => obtain ⟨k', v'⟩ := x; simp only [hGet, sGet, ih]

theorem mem_sErase {a : List (K × V)} {k : K} {e : K × V} : e ∈ sErase a k ↔ e ∈ a ∧ e.1 ≠ k := by
  simp [sErase, List.mem_filter]

theorem KN_sErase {a : List (K × V)} (h : KN a) (k : K) : KN (sErase a k) := by
  unfold KN sErase; exact List.Pairwise.filter _ h

theorem KN_sInsert {a : List (K × V)} (h : KN a) (k : K) (v : V) : KN (sInsert a k v) := by
  unfold KN sInsert
  rw [List.pairwise_cons]
  refine ⟨?_, KN_sErase h k⟩
  intro e he
  rw [mem_sErase] at he
  exact fun hh => he.2 hh.symm

theorem mem_sInsert {a : List (K × V)} {k : K} {v : V} {e : K × V} :
    e ∈ sInsert a k v ↔ e = (k, v) ∨ (e ∈ a ∧ e.1 ≠ k) := by
  simp [sInsert, mem_sErase]

/-! ### hash -/

theorem mem_hSet {m : List (K × V)} (h : KN m) (k : K) (v : V) (e : K × V) :
    e ∈ hSet m k v ↔ e = (k, v) ∨ (e ∈ m ∧ e.1 ≠ k) := by
  induction m with
  | nil => simp [hSet]
  | cons x r ih =>
    obtain ⟨k', v'⟩ := x
    unfold KN at h
    rw [List.pairwise_cons] at h
    by_cases hk : k' = k
    · subst hk
      simp only [hSet, if_true, List.mem_cons]
      constructor
      · rintro (e1 | e1)
        · exact Or.inl e1
        · exact Or.inr ⟨Or.inr e1, fun hh => h.1 _ e1 hh.symm⟩
      · rintro (e1 | ⟨e1 | e1, e2⟩)
        · exact Or.inl e1
        · subst e1; exact absurd rfl e2
        · exact Or.inr e1
    · simp only [hSet, hk, if_false, List.mem_cons]
      rw [ih h.2]
      constructor
      · rintro (e1 | e1 | e1)
        · subst e1; exact Or.inr ⟨Or.inl rfl, hk⟩
        · exact Or.inl e1
        · exact Or.inr ⟨Or.inr e1.1, e1.2⟩
      · rintro (e1 | ⟨e1 | e1, e2⟩)
        · exact Or.inr (Or.inl e1)
        · exact Or.inl e1
        · exact Or.inr (Or.inr ⟨e1, e2⟩)

theorem KN_hSet {m : List (K × V)} (h : KN m) (k : K) (v : V) : KN (hSet m k v) := by
  induction m with
  | nil => simp [hSet, KN]
  | cons x r ih =>
    obtain ⟨k', v'⟩ := x
    have h' := h
    unfold KN at h'
    rw [List.pairwise_cons] at h'
    by_cases hk : k' = k
    · subst hk
      simp only [hSet, if_true]
      unfold KN; rw [List.pairwise_cons]; exact ⟨h'.1, h'.2⟩
    · simp only [hSet, hk, if_false]
      unfold KN; rw [List.pairwise_cons]
      refine ⟨?_, ih h'.2⟩
      intro e he
      rw [mem_hSet h'.2] at he
      rcases he with e1 | e1
      · subst e1; exact hk
      · exact h'.1 e e1.1

theorem mem_hErase {m : List (K × V)} (h : KN m) (k : K) (e : K × V) :
    e ∈ hErase m k ↔ e ∈ m ∧ e.1 ≠ k := by
  induction m with
  | nil => simp [hErase]
  | cons x r ih =>
    obtain ⟨k', v'⟩ := x
    unfold KN at h
    rw [List.pairwise_cons] at h
    by_cases hk : k' = k
    · subst hk
      simp only [hErase, if_true, List.mem_cons]
      constructor
      · intro e1; exact ⟨Or.inr e1, fun hh => h.1 _ e1 hh.symm⟩
      · rintro ⟨e1 | e1, e2⟩
        · subst e1; exact absurd rfl e2
        · exact e1
    · simp only [hErase, hk, if_false, List.mem_cons]
      rw [ih h.2]
      constructor
      · rintro (e1 | e1)
        · subst e1; exact ⟨Or.inl rfl, hk⟩
        · exact ⟨Or.inr e1.1, e1.2⟩
      · rintro ⟨e1 | e1, e2⟩
        · exact Or.inl e1
        · exact Or.inr ⟨e1, e2⟩

theorem KN_hErase {m : List (K × V)} (h : KN m) (k : K) : KN (hErase m k) := by
  induction m with
  | nil => simp [hErase, KN]
  | cons x r ih =>
    obtain ⟨k', v'⟩ := x
    have h' := h
    unfold KN at h'
    rw [List.pairwise_cons] at h'
    by_cases hk : k' = k
    · subst hk; simp only [hErase, if_true]; exact h'.2
    · simp only [hErase, hk, if_false]
      unfold KN; rw [List.pairwise_cons]
      refine ⟨?_, ih h'.2⟩
      intro e he
      rw [mem_hErase h'.2] at he
      exact h'.1 e he.1

/-- refinement relation: same entries, both duplicate-free -/
def Ref (m a : List (K × V)) : Prop := KN m ∧ KN a ∧ ∀ e, e ∈ m ↔ e ∈ a

theorem Ref.get {m a : List (K × V)} (h : Ref m a) (k : K) : sGet m k = sGet a k := by
  obtain ⟨h1, h2, h3⟩ := h
  apply Option.ext
  intro v
  rw [sGet_eq_some_iff h1, sGet_eq_some_iff h2, h3]

theorem Ref.perm {m a : List (K × V)} (h : Ref m a) : m.Perm a :=
  (List.perm_ext_iff_of_nodup h.1.nodup h.2.1.nodup).2 h.2.2

theorem Ref.len {m a : List (K × V)} (h : Ref m a) : m.length = a.length := h.perm.length_eq

theorem Ref.hStep {m a : List (K × V)} (h : Ref m a) (o : Op K V) : Ref (hStep m o) (sStep a o) := by
  obtain ⟨h1, h2, h3⟩ := h
  cases o with
  | ins k v =>
    refine ⟨KN_hSet h1 k v, KN_sInsert h2 k v, fun e => ?_⟩
    simp only [Idx.hStep, hInsert, sStep]
    rw [mem_hSet h1, mem_sInsert, h3]
  | rem k =>
    refine ⟨KN_hErase h1 k, KN_sErase h2 k, fun e => ?_⟩
    simp only [Idx.hStep, hRemove, sStep]
    rw [mem_hErase h1, mem_sErase, h3]
  | clear => exact ⟨by simp [Idx.hStep, KN], by simp [sStep, KN], fun e => by simp [Idx.hStep, sStep]⟩

theorem Ref.hFold {m a : List (K × V)} (h : Ref m a) (ops : List (Op K V)) :
    Ref (ops.foldl Idx.hStep m) (ops.foldl sStep a) := by
  induction ops generalizing m a with
  | nil => exact h
  | cons o r ih => exact ih (h.hStep o)

theorem Ref.nil : Ref ([] : List (K × V)) [] := ⟨by simp [KN], by simp [KN], fun _ => Iff.rfl⟩

end Generic

/-! ### btree, `i64` keys -/
section BTree
variable {V : Type}

theorem SortedK.kn {m : List (Int × V)} (h : SortedK m) : KN m := by
  unfold SortedK at h; unfold KN
  exact h.imp (fun hab => Int.ne_of_lt hab)

theorem icmp_gt {a b : Int} : icmp a b = .gt ↔ b < a := by
  unfold icmp; by_cases h1 : a < b <;> by_cases h2 : a = b <;> simp [h1, h2] <;> omega
theorem icmp_eq {a b : Int} : icmp a b = .eq ↔ a = b := by
  unfold icmp; by_cases h1 : a < b <;> by_cases h2 : a = b <;> simp [h1, h2] <;> omega
theorem icmp_lt {a b : Int} : icmp a b = .lt ↔ a < b := by
  unfold icmp; by_cases h1 : a < b <;> by_cases h2 : a = b <;> simp [h1, h2] <;> omega

theorem bFind_eq_sGet {m : List (Int × V)} (h : SortedK m) (k : Int) : bFind icmp m k = sGet m k := by
  induction m with
  | nil => rfl
  | cons x r ih =>
    obtain ⟨k', v'⟩ := x
    unfold SortedK at h
    rw [List.pairwise_cons] at h
    simp only [bFind, sGet]
    split
    · rename_i hc; rw [icmp_gt] at hc
      have : k' ≠ k := by omega
      simp only [this, if_false]; exact ih h.2
    · rename_i hc; rw [icmp_eq] at hc; simp [hc]
    · rename_i hc; rw [icmp_lt] at hc
      have : k' ≠ k := by omega
      simp only [this, if_false]
      symm; apply sGet_none_of_not_mem
      intro e he; have := h.1 e he; simp only at this; omega

theorem mem_bSet {m : List (Int × V)} (h : SortedK m) (k : Int) (v : V) (e : Int × V) :
    e ∈ bSet icmp m k v ↔ e = (k, v) ∨ (e ∈ m ∧ e.1 ≠ k) := by
  induction m with
  | nil => simp [bSet]
  | cons x r ih =>
    obtain ⟨k', v'⟩ := x
    unfold SortedK at h
    rw [List.pairwise_cons] at h
    simp only [bSet]
    split
    · rename_i hc; rw [icmp_gt] at hc
      simp only [List.mem_cons]; rw [ih h.2]
      constructor
      · rintro (e1 | e1 | e1)
        · subst e1; exact Or.inr ⟨Or.inl rfl, by simp only; omega⟩
        · exact Or.inl e1
        · exact Or.inr ⟨Or.inr e1.1, e1.2⟩
      · rintro (e1 | ⟨e1 | e1, e2⟩)
        · exact Or.inr (Or.inl e1)
        · exact Or.inl e1
        · exact Or.inr (Or.inr ⟨e1, e2⟩)
    · rename_i hc; rw [icmp_eq] at hc; subst hc
      simp only [List.mem_cons]
      constructor
      · rintro (e1 | e1)
        · exact Or.inl e1
        · refine Or.inr ⟨Or.inr e1, ?_⟩
          have := h.1 e e1; simp only at this; omega
      · rintro (e1 | ⟨e1 | e1, e2⟩)
        · exact Or.inl e1
        · subst e1; exact absurd rfl e2
        · exact Or.inr e1
    · rename_i hc; rw [icmp_lt] at hc
      simp only [List.mem_cons]
      constructor
      · rintro (e1 | e1 | e1)
        · exact Or.inl e1
        · subst e1; exact Or.inr ⟨Or.inl rfl, by simp only; omega⟩
        · refine Or.inr ⟨Or.inr e1, ?_⟩
          have := h.1 e e1; simp only at this; omega
      · rintro (e1 | ⟨e1 | e1, _⟩)
        · exact Or.inl e1
        · exact Or.inr (Or.inl e1)
        · exact Or.inr (Or.inr e1)

theorem SortedK_bSet {m : List (Int × V)} (h : SortedK m) (k : Int) (v : V) : SortedK (bSet icmp m k v) := by
  induction m with
  | nil => simp [bSet, SortedK]
  | cons x r ih =>
    obtain ⟨k', v'⟩ := x
    have h' := h
    unfold SortedK at h'
    rw [List.pairwise_cons] at h'
    simp only [bSet]
    split
    · rename_i hc; rw [icmp_gt] at hc
      unfold SortedK; rw [List.pairwise_cons]
      refine ⟨?_, ih h'.2⟩
      intro e he
      rw [mem_bSet h'.2] at he
      rcases he with e1 | e1
      · subst e1; exact hc
      · exact h'.1 e e1.1
    · rename_i hc
      unfold SortedK; rw [List.pairwise_cons]; exact ⟨h'.1, h'.2⟩
    · rename_i hc; rw [icmp_lt] at hc
      unfold SortedK; rw [List.pairwise_cons]
      refine ⟨?_, h⟩
      intro e he
      rcases List.mem_cons.1 he with e1 | e1
      · subst e1; exact hc
      · have := h'.1 e e1; simp only at this ⊢; omega

theorem mem_bErase {m : List (Int × V)} (h : SortedK m) (k : Int) (e : Int × V) :
    e ∈ bErase icmp m k ↔ e ∈ m ∧ e.1 ≠ k := by
  induction m with
  | nil => simp [bErase]
  | cons x r ih =>
    obtain ⟨k', v'⟩ := x
    unfold SortedK at h
    rw [List.pairwise_cons] at h
    simp only [bErase]
    split
    · rename_i hc; rw [icmp_gt] at hc
      simp only [List.mem_cons]; rw [ih h.2]
      constructor
      · rintro (e1 | e1)
        · subst e1; exact ⟨Or.inl rfl, by simp only; omega⟩
        · exact ⟨Or.inr e1.1, e1.2⟩
      · rintro ⟨e1 | e1, e2⟩
        · exact Or.inl e1
        · exact Or.inr ⟨e1, e2⟩
    · rename_i hc; rw [icmp_eq] at hc; subst hc
      simp only [List.mem_cons]
      constructor
      · intro e1
        refine ⟨Or.inr e1, ?_⟩
        have := h.1 e e1; simp only at this; omega
      · rintro ⟨e1 | e1, e2⟩
        · subst e1; exact absurd rfl e2
        · exact e1
    · rename_i hc; rw [icmp_lt] at hc
      constructor
      · intro e1
        refine ⟨e1, ?_⟩
        rcases List.mem_cons.1 e1 with e2 | e2
        · subst e2; simp only; omega
        · have := h.1 e e2; simp only at this; omega
      · exact fun e1 => e1.1

theorem SortedK_bErase {m : List (Int × V)} (h : SortedK m) (k : Int) : SortedK (bErase icmp m k) := by
  induction m with
  | nil => simp [bErase, SortedK]
  | cons x r ih =>
    obtain ⟨k', v'⟩ := x
    have h' := h
    unfold SortedK at h'
    rw [List.pairwise_cons] at h'
    simp only [bErase]
    split
    · unfold SortedK; rw [List.pairwise_cons]
      refine ⟨?_, ih h'.2⟩
      intro e he
      rw [mem_bErase h'.2] at he
      exact h'.1 e he.1
    · exact h'.2
    · exact h

/-! ranges -/

theorem rangeLo_eq_filter {m : List (Int × V)} (h : SortedK m) (lo : Bound Int) :
    rangeLo icmp lo m = m.filter (fun e => inLo lo e.1) := by
  induction m with
  | nil => cases lo <;> simp [rangeLo]
  | cons x r ih =>
    obtain ⟨k', v'⟩ := x
    unfold SortedK at h
    rw [List.pairwise_cons] at h
    have hall : ∀ (P : Int → Bool), P k' = true → (∀ j, k' < j → P j = true) →
        (k', v') :: r = ((k', v') :: r).filter (fun e => P e.1) := by
      intro P h0 h1
      symm; rw [List.filter_eq_self]
      intro e he
      rcases List.mem_cons.1 he with e1 | e1
      · subst e1; exact h0
      · exact h1 _ (h.1 e e1)
    cases lo with
    | unb => simp only [rangeLo, inLo]; symm; rw [List.filter_eq_self]; intros; rfl
    | inc k =>
      simp only [rangeLo]
      split
      · rename_i hc; rw [icmp_gt] at hc
        rw [ih h.2, List.filter_cons]
        have : inLo (.inc k) k' = false := by simp [inLo]; omega
        simp [this]
      · rename_i hc; rw [icmp_eq] at hc
        exact hall _ (by simp [inLo]; omega) (by intro j hj; simp [inLo]; omega)
      · rename_i hc; rw [icmp_lt] at hc
        exact hall _ (by simp [inLo]; omega) (by intro j hj; simp [inLo]; omega)
    | exc k =>
      simp only [rangeLo]
      split
      · rename_i hc; rw [icmp_gt] at hc
        rw [ih h.2, List.filter_cons]
        have : inLo (.exc k) k' = false := by simp [inLo]; omega
        simp [this]
      · rename_i hc; rw [icmp_eq] at hc
        rw [List.filter_cons]
        have : inLo (.exc k) k' = false := by simp [inLo]; omega
        simp only [this]
        symm; simp only [Bool.false_eq_true, if_false]; rw [List.filter_eq_self]
        intro e he; have := h.1 e he; simp only at this; simp [inLo]; omega
      · rename_i hc; rw [icmp_lt] at hc
        exact hall _ (by simp [inLo]; omega) (by intro j hj; simp [inLo]; omega)

theorem rangeHi_eq_filter {m : List (Int × V)} (h : SortedK m) (hi : Bound Int) :
    rangeHi icmp hi m = m.filter (fun e => inHi hi e.1) := by
  induction m with
  | nil => cases hi <;> simp [rangeHi]
  | cons x r ih =>
    obtain ⟨k', v'⟩ := x
    unfold SortedK at h
    rw [List.pairwise_cons] at h
    have hnone : ∀ (P : Int → Bool), (∀ j, k' < j → P j = false) →
        r.filter (fun e => P e.1) = [] := by
      intro P h1
      rw [List.filter_eq_nil_iff]
      intro e he
      simp [h1 _ (h.1 e he)]
    cases hi with
    | unb => simp only [rangeHi, inHi]; symm; rw [List.filter_eq_self]; intros; rfl
    | inc k =>
      simp only [rangeHi]
      split
      · rename_i hc; rw [icmp_gt] at hc
        rw [ih h.2, List.filter_cons]
        have : inHi (.inc k) k' = true := by simp [inHi]; omega
        simp [this]
      · rename_i hc; rw [icmp_eq] at hc
        rw [List.filter_cons]
        have : inHi (.inc k) k' = true := by simp [inHi]; omega
        simp only [this, if_true]
        rw [hnone (inHi (.inc k)) (by intro j hj; simp [inHi]; omega)]
      · rename_i hc; rw [icmp_lt] at hc
        rw [List.filter_cons]
        have : inHi (.inc k) k' = false := by simp [inHi]; omega
        simp only [this]
        rw [hnone (inHi (.inc k)) (by intro j hj; simp [inHi]; omega)]; simp
    | exc k =>
      simp only [rangeHi]
      split
      · rename_i hc; rw [icmp_gt] at hc
        rw [ih h.2, List.filter_cons]
        have : inHi (.exc k) k' = true := by simp [inHi]; omega
        simp [this]
      · rename_i hc; rw [icmp_eq] at hc
        rw [List.filter_cons]
        have : inHi (.exc k) k' = false := by simp [inHi]; omega
        simp only [this]
        rw [hnone (inHi (.exc k)) (by intro j hj; simp [inHi]; omega)]; simp
      · rename_i hc; rw [icmp_lt] at hc
        rw [List.filter_cons]
        have : inHi (.exc k) k' = false := by simp [inHi]; omega
        simp only [this]
        rw [hnone (inHi (.exc k)) (by intro j hj; simp [inHi]; omega)]; simp

theorem SortedK.filter {m : List (Int × V)} (h : SortedK m) (p : Int × V → Bool) : SortedK (m.filter p) := by
  unfold SortedK at *; exact List.Pairwise.filter _ h

theorem range_eq_filter {m : List (Int × V)} (h : SortedK m) (lo hi : Bound Int) :
    rangeHi icmp hi (rangeLo icmp lo m) = m.filter (fun e => inLo lo e.1 && inHi hi e.1) := by
  rw [rangeLo_eq_filter h, rangeHi_eq_filter (h.filter _), List.filter_filter]
  congr 1; funext e; exact Bool.and_comm _ _

/-! the specification's sort -/

theorem insByKey_perm (e : Int × V) (l : List (Int × V)) : (insByKey e l).Perm (e :: l) := by
  induction l with
  | nil => exact List.Perm.refl _
  | cons y r ih =>
    simp only [insByKey]
    split
    · exact List.Perm.refl _
    · exact (List.Perm.cons y ih).trans (List.Perm.swap e y r)

theorem sortByKey_perm (l : List (Int × V)) : (sortByKey l).Perm l := by
  induction l with
  | nil => exact List.Perm.refl _
  | cons e r ih => exact (insByKey_perm e _).trans (List.Perm.cons e ih)

def LeK (a b : Int × V) : Prop := a.1 ≤ b.1

theorem insByKey_sorted (e : Int × V) {l : List (Int × V)} (h : l.Pairwise LeK) :
    (insByKey e l).Pairwise LeK := by
  induction l with
  | nil => simp [insByKey]
  | cons y r ih =>
    rw [List.pairwise_cons] at h
    simp only [insByKey]
    split
    · rename_i hc
      rw [List.pairwise_cons]
      refine ⟨?_, List.pairwise_cons.2 h⟩
      intro z hz
      rcases List.mem_cons.1 hz with e1 | e1
      · subst e1; exact hc
      · have := h.1 z e1; unfold LeK at *; omega
    · rename_i hc
      rw [List.pairwise_cons]
      refine ⟨?_, ih h.2⟩
      intro z hz
      rcases List.mem_cons.1 ((insByKey_perm e r).mem_iff.1 hz) with e1 | e1
      · subst e1; unfold LeK; omega
      · exact h.1 z e1

theorem sortByKey_sorted (l : List (Int × V)) : (sortByKey l).Pairwise LeK := by
  induction l with
  | nil => simp [sortByKey]
  | cons e r ih => exact insByKey_sorted e ih

theorem KN.eq_of_key {m : List (Int × V)} (h : KN m) {a b : Int × V} (ha : a ∈ m) (hb : b ∈ m)
    (hk : a.1 = b.1) : a = b := by
  induction m with
  | nil => cases ha
  | cons x r ih =>
    unfold KN at h
    rw [List.pairwise_cons] at h
    rcases List.mem_cons.1 ha with e1 | e1 <;> rcases List.mem_cons.1 hb with e2 | e2
    · rw [e1, e2]
    · subst e1; exact absurd hk (h.1 b e2)
    · subst e2; exact absurd hk.symm (h.1 a e1)
    · exact ih h.2 e1 e2

/-- a strictly key-sorted list is the sort of any permutation of itself -/
theorem SortedK.eq_sort {m a : List (Int × V)} (h : SortedK m) (hp : m.Perm a) : m = sortByKey a := by
  apply List.Perm.eq_of_pairwise (le := LeK)
  · intro x y hx hy h1 h2
    have hy' : y ∈ m := hp.mem_iff.2 ((sortByKey_perm a).mem_iff.1 hy)
    exact h.kn.eq_of_key hx hy' (by unfold LeK at *; omega)
  · unfold SortedK at h; exact h.imp (fun hab => by unfold LeK; omega)
  · exact sortByKey_sorted a
  · exact hp.trans (sortByKey_perm a).symm

/-- BTree refinement invariant -/
structure BRef (t : BT Int V) (a : List (Int × V)) : Prop where
  sorted : SortedK t.ents
  ref : Ref t.ents a
  root : t.root = false → t.ents = []

theorem BRef.empty : BRef (BT.empty : BT Int V) [] :=
  ⟨by simp [BT.empty, SortedK], Ref.nil, fun _ => rfl⟩

theorem BRef.step {t : BT Int V} {a : List (Int × V)} (h : BRef t a) (o : Op Int V) :
    BRef (bStep icmp t o) (sStep a o) := by
  obtain ⟨h0, ⟨h1, h2, h3⟩, h4⟩ := h
  cases o with
  | ins k v =>
    refine ⟨SortedK_bSet h0 k v, ⟨(SortedK_bSet h0 k v).kn, KN_sInsert h2 k v, fun e => ?_⟩, fun hh => by simp [bStep, bInsert] at hh⟩
    simp only [bStep, bInsert, sStep]
    rw [mem_bSet h0, mem_sInsert, h3]
  | rem k =>
    refine ⟨SortedK_bErase h0 k, ⟨(SortedK_bErase h0 k).kn, KN_sErase h2 k, fun e => ?_⟩, fun hh => ?_⟩
    · simp only [bStep, bRemove, sStep]
      rw [mem_bErase h0, mem_sErase, h3]
    · simp only [bStep, bRemove] at hh ⊢
      rw [h4 hh]; rfl
  | clear => exact BRef.empty

theorem BRef.fold {t : BT Int V} {a : List (Int × V)} (h : BRef t a) (ops : List (Op Int V)) :
    BRef (ops.foldl (bStep icmp) t) (ops.foldl sStep a) := by
  induction ops generalizing t a with
  | nil => exact h
  | cons o r ih => exact ih (h.step o)

theorem BRef.run (ops : List (Op Int V)) : BRef (bRun icmp ops) (sRun ops) := BRef.empty.fold ops

theorem BRef.ents_eq {t : BT Int V} {a : List (Int × V)} (h : BRef t a) : t.ents = sortByKey a :=
  h.sorted.eq_sort h.ref.perm

end BTree
end Grafeo.Idx

/-! ### `OrderedFloat` keys: the float index is the `i64`-style index on `fkeyI` -/
namespace Grafeo.Idx
section FloatSim
variable {V : Type}

def fmapK (m : List (Nat × V)) : List (Int × V) := m.map (fun e => (fkeyI e.1, e.2))

def Bound.mapKey {K K' : Type} (f : K → K') : Bound K → Bound K'
  | .unb => .unb
  | .inc k => .inc (f k)
  | .exc k => .exc (f k)
def Op.mapKey {K K' V : Type} (f : K → K') : Op K V → Op K' V
  | .ins k v => .ins (f k) v
  | .rem k => .rem (f k)
  | .clear => .clear

theorem key_lt (b : Nat) : F64.key b < (2 ^ 63 : Int) := by
  unfold F64.key F64.mag
  have : b % 2 ^ 63 < 2 ^ 63 := Nat.mod_lt _ (by decide)
  split <;> omega

/-- the repaired `OrderedFloat::cmp` is the integer order of `fkeyI`, for ALL bit patterns -/
theorem fcmp_eq_icmp (a b : Nat) : fcmp a b = icmp (fkeyI a) (fkeyI b) := by
  have ha := key_lt a
  have hb := key_lt b
  unfold fcmp F64.partialCmp fkeyI icmp
  cases hna : F64.isNaN a <;> cases hnb : F64.isNaN b
  · simp only [Bool.or_self, Bool.false_eq_true, if_false]
    by_cases h1 : F64.key a < F64.key b
    · simp [h1, Int.compare_eq_lt.2 h1]
    · by_cases h2 : F64.key a = F64.key b
      · simp [h2]
      · have : F64.key b < F64.key a := by omega
        simp [h1, h2, Int.compare_eq_gt.2 this]
  · simp only [Bool.or_true, if_true, Bool.false_eq_true, if_false]
    rw [if_pos ha]
  · simp only [Bool.or_false, if_true, Bool.false_eq_true, if_false]
    have h1 : ¬ ((2 : Int) ^ 63 < F64.key b) := by omega
    have h2 : ¬ ((2 : Int) ^ 63 = F64.key b) := by omega
    rw [if_neg h1, if_neg h2]
  · simp

theorem bFind_sim (m : List (Nat × V)) (k : Nat) :
    bFind fcmp m k = bFind icmp (fmapK m) (fkeyI k) := by
  induction m with
  | nil => rfl
  | cons x r ih =>
    obtain ⟨k', v'⟩ := x
    simp only [bFind, fmapK, List.map_cons, fcmp_eq_icmp]
    split <;> simp_all [fmapK]

theorem bSet_sim (m : List (Nat × V)) (k : Nat) (v : V) :
    fmapK (bSet fcmp m k v) = bSet icmp (fmapK m) (fkeyI k) v := by
  induction m with
  | nil => simp [bSet, fmapK]
  | cons x r ih =>
    obtain ⟨k', v'⟩ := x
    simp only [bSet, fmapK, List.map_cons, fcmp_eq_icmp]
    split <;> simp_all [fmapK]

theorem bErase_sim (m : List (Nat × V)) (k : Nat) :
    fmapK (bErase fcmp m k) = bErase icmp (fmapK m) (fkeyI k) := by
  induction m with
  | nil => simp [bErase, fmapK]
  | cons x r ih =>
    obtain ⟨k', v'⟩ := x
    simp only [bErase, fmapK, List.map_cons, fcmp_eq_icmp]
    split <;> simp_all [fmapK]

theorem rangeLo_sim (m : List (Nat × V)) (lo : Bound Nat) :
    fmapK (rangeLo fcmp lo m) = rangeLo icmp (lo.mapKey fkeyI) (fmapK m) := by
  induction m with
  | nil => cases lo <;> simp [rangeLo, fmapK, Bound.mapKey]
  | cons x r ih =>
    obtain ⟨k', v'⟩ := x
    cases lo with
    | unb => simp [rangeLo, Bound.mapKey]
    | inc k =>
      simp only [rangeLo, fmapK, List.map_cons, Bound.mapKey, fcmp_eq_icmp]
      split <;> simp_all [fmapK, Bound.mapKey]
    | exc k =>
      simp only [rangeLo, fmapK, List.map_cons, Bound.mapKey, fcmp_eq_icmp]
      split <;> simp_all [fmapK, Bound.mapKey]

theorem rangeHi_sim (m : List (Nat × V)) (hi : Bound Nat) :
    fmapK (rangeHi fcmp hi m) = rangeHi icmp (hi.mapKey fkeyI) (fmapK m) := by
  induction m with
  | nil => cases hi <;> simp [rangeHi, fmapK, Bound.mapKey]
  | cons x r ih =>
    obtain ⟨k', v'⟩ := x
    cases hi with
    | unb => simp [rangeHi, Bound.mapKey]
    | inc k =>
      simp only [rangeHi, fmapK, List.map_cons, Bound.mapKey, fcmp_eq_icmp]
      split <;> simp_all [fmapK, Bound.mapKey]
    | exc k =>
      simp only [rangeHi, fmapK, List.map_cons, Bound.mapKey, fcmp_eq_icmp]
      split <;> simp_all [fmapK, Bound.mapKey]

theorem rangeEmpty_sim (lo hi : Bound Nat) :
    rangeEmpty fcmp lo hi = rangeEmpty icmp (lo.mapKey fkeyI) (hi.mapKey fkeyI) := by
  cases lo <;> cases hi <;> simp [rangeEmpty, Bound.mapKey, fcmp_eq_icmp]

/-- simulation invariant -/
structure FSim (t : BT Nat V) (t' : BT Int V) : Prop where
  ents : fmapK t.ents = t'.ents
  root : t.root = t'.root

theorem FSim.step {t : BT Nat V} {t' : BT Int V} (h : FSim t t') (o : Op Nat V) :
    FSim (bStep fcmp t o) (bStep icmp t' (o.mapKey fkeyI)) := by
  obtain ⟨h2, h3⟩ := h
  cases o with
  | ins k v => exact ⟨by simp only [bStep, bInsert, Op.mapKey]; rw [bSet_sim, h2], rfl⟩
  | rem k => exact ⟨by simp only [bStep, bRemove, Op.mapKey]; rw [bErase_sim, h2], h3⟩
  | clear => exact ⟨rfl, rfl⟩

theorem FSim.fold {t : BT Nat V} {t' : BT Int V} (h : FSim t t') (ops : List (Op Nat V)) :
    FSim (ops.foldl (bStep fcmp) t) ((ops.map (Op.mapKey fkeyI)).foldl (bStep icmp) t') := by
  induction ops generalizing t t' with
  | nil => exact h
  | cons o r ih =>
    simp only [List.map_cons, List.foldl_cons]
    exact ih (h.step o)

theorem FSim.run (ops : List (Op Nat V)) :
    FSim (bRun fcmp ops) (bRun icmp (ops.map (Op.mapKey fkeyI))) :=
  FSim.fold ⟨rfl, rfl⟩ ops

end FloatSim
end Grafeo.Idx
