import GrafeoModel.Model.Epoch

/-! Helper lemmas for `Props/C15Epoch.lean` (model: `Model/Epoch.lean`). -/
namespace Grafeo.Epoch

/-! ### little-endian bytes and varints -/

theorem leBytes_length (k v : Nat) : (leBytes k v).length = k := by
  induction k generalizing v with
  | zero => rfl
  | succ k ih => simp [leBytes, ih]

theorem fromLE_leBytes (k v : Nat) : fromLE (leBytes k v) = v % 256 ^ k := by
  induction k generalizing v with
  | zero => simp [leBytes, fromLE, Nat.mod_one]
  | succ k ih =>
    simp only [leBytes, fromLE, ih]
    rw [Nat.pow_succ, Nat.mul_comm (256 ^ k) 256, Nat.mod_mul]

theorem takeLE_leBytes (k v : Nat) (rest : List Nat) :
    takeLE k (leBytes k v ++ rest) = some (v % 256 ^ k, rest) := by
  have hl := leBytes_length k v
  unfold takeLE
  have h1 : ¬ (leBytes k v ++ rest).length < k := by simp [hl]
  rw [if_neg h1, List.take_left' hl, List.drop_left' hl, fromLE_leBytes]

def okW (w : Nat) : Prop := w = 16 ∨ w = 32 ∨ w = 64

theorem decVar_encVar (w v : Nat) (rest : List Nat) (hw : okW w) (hv : v < 2 ^ w) :
    decVar w (encVar v ++ rest) = some (v, rest) := by
  unfold encVar
  by_cases h1 : v < 251
  · simp [h1, decVar]
  · rw [if_neg h1]
    by_cases h2 : v < 65536
    · rw [if_pos h2]
      simp only [List.cons_append, decVar]
      have : v % 256 ^ 2 = v := Nat.mod_eq_of_lt (by omega)
      rw [if_pos trivial, takeLE_leBytes, this]
      simp
    · rw [if_neg h2]
      have hw32 : ¬ w < 32 := by
        rcases hw with h | h | h <;> subst h <;> omega
      by_cases h3 : v < 4294967296
      · rw [if_pos h3]
        simp only [List.cons_append, decVar]
        have : v % 256 ^ 4 = v := Nat.mod_eq_of_lt (by omega)
        rw [if_pos trivial, if_neg hw32, takeLE_leBytes, this]
        simp
      · rw [if_neg h3]
        have hw64 : w = 64 := by
          rcases hw with h | h | h <;> subst h <;> omega
        subst hw64
        simp only [List.cons_append, decVar]
        have : v % 256 ^ 8 = v := Nat.mod_eq_of_lt (by omega)
        rw [if_pos trivial, if_neg (by omega), takeLE_leBytes, this]
        simp

theorem encVar_length_le (v : Nat) : (encVar v).length ≤ 9 := by
  unfold encVar
  split
  · simp
  · split
    · simp [leBytes_length]
    · split <;> simp [leBytes_length]

theorem encVar_length_pos (v : Nat) : 0 < (encVar v).length := by
  unfold encVar
  split
  · simp
  · split
    · simp
    · split <;> simp

theorem encRec_length_le (vs : List Nat) : (encRec vs).length ≤ 9 * vs.length := by
  induction vs with
  | nil => simp [encRec]
  | cons v vs ih =>
    have := encVar_length_le v
    simp only [encRec, List.length_append, List.length_cons]
    omega

theorem wfRec_length : ∀ (ws vs : List Nat), wfRec ws vs → vs.length = ws.length
  | [], [], _ => rfl
  | _ :: ws, _ :: vs, h => by
    simp only [List.length_cons]
    rw [wfRec_length ws vs h.2]
  | [], _ :: _, h => h.elim
  | _ :: _, [], h => h.elim

/-- the record codec is lossless: decoding the serialisation (followed by anything) returns the
fields. -/
theorem decRec_encRec : ∀ (ws vs rest : List Nat), (∀ w ∈ ws, okW w) → wfRec ws vs →
    decRec ws (encRec vs ++ rest) = some vs
  | [], [], _, _, _ => by simp [decRec]
  | w :: ws, v :: vs, rest, hw, h => by
    have hd := decVar_encVar w v (encRec vs ++ rest) (hw w (by simp)) h.1
    have ih := decRec_encRec ws vs rest (fun w' hw' => hw w' (by simp [hw'])) h.2
    simp only [encRec, decRec, List.append_assoc, hd, ih]
  | [], _ :: _, _, _, h => h.elim
  | _ :: _, [], _, _, h => h.elim

theorem nodeWs_ok : ∀ w ∈ nodeWs, okW w := by
  intro w hw; simp [nodeWs] at hw; unfold okW; omega
theorem edgeWs_ok : ∀ w ∈ edgeWs, okW w := by
  intro w hw; simp [edgeWs] at hw; unfold okW; omega

/-! ### sorting -/

def SortedK (s : List KRec) : Prop := s.Pairwise (fun a b => a.1 ≤ b.1)

theorem mem_insRec (x y : KRec) (s : List KRec) : y ∈ insRec x s ↔ y = x ∨ y ∈ s := by
  induction s with
  | nil => simp [insRec]
  | cons z zs ih =>
    unfold insRec
    split
    · simp
    · simp [ih]; constructor
      · rintro (h | h | h) <;> simp [h]
      · rintro (h | h | h) <;> simp [h]

theorem length_insRec (x : KRec) (s : List KRec) : (insRec x s).length = s.length + 1 := by
  induction s with
  | nil => rfl
  | cons z zs ih => unfold insRec; split <;> simp [ih]

theorem sorted_insRec (x : KRec) (s : List KRec) (h : SortedK s) : SortedK (insRec x s) := by
  induction s with
  | nil => simp [insRec, SortedK]
  | cons z zs ih =>
    unfold SortedK at h ih ⊢
    rw [List.pairwise_cons] at h
    unfold insRec
    split
    · rename_i hlt
      rw [List.pairwise_cons]
      refine ⟨?_, List.pairwise_cons.mpr h⟩
      intro a ha
      rcases List.mem_cons.mp ha with rfl | ha
      · omega
      · have := h.1 a ha; omega
    · rename_i hge
      rw [List.pairwise_cons]
      refine ⟨?_, ih h.2⟩
      intro a ha
      rcases (mem_insRec x a zs).mp ha with rfl | ha
      · omega
      · exact h.1 a ha

theorem foldl_insRec_props (xs acc : List KRec) (h : SortedK acc) :
    SortedK (xs.foldl (fun acc x => insRec x acc) acc) ∧
    (xs.foldl (fun acc x => insRec x acc) acc).length = acc.length + xs.length ∧
    ∀ y, y ∈ xs.foldl (fun acc x => insRec x acc) acc ↔ y ∈ acc ∨ y ∈ xs := by
  induction xs generalizing acc with
  | nil => simp [h]
  | cons x xs ih =>
    have := ih (insRec x acc) (sorted_insRec x acc h)
    simp only [List.foldl_cons]
    refine ⟨this.1, ?_, ?_⟩
    · rw [this.2.1, length_insRec]; simp; omega
    · intro y
      rw [this.2.2 y, mem_insRec]
      simp only [List.mem_cons]
      constructor
      · rintro ((h | h) | h) <;> simp [h]
      · rintro (h | h | h) <;> simp [h]

theorem sorted_sortRecs (xs : List KRec) : SortedK (sortRecs xs) :=
  (foldl_insRec_props xs [] List.Pairwise.nil).1

theorem length_sortRecs (xs : List KRec) : (sortRecs xs).length = xs.length := by
  have := (foldl_insRec_props xs [] List.Pairwise.nil).2.1
  simpa [sortRecs] using this

theorem mem_sortRecs (xs : List KRec) (y : KRec) : y ∈ sortRecs xs ↔ y ∈ xs := by
  have := (foldl_insRec_props xs [] List.Pairwise.nil).2.2 y
  simpa [sortRecs] using this

/-! ### `lookupLast` -/

theorem lookupLast_none_of (s : List KRec) (id : Nat) (h : ∀ y ∈ s, y.1 ≠ id) : lookupLast s id = none := by
  induction s with
  | nil => rfl
  | cons z zs ih =>
    have h1 := ih (fun y hy => h y (by simp [hy]))
    have h2 := h z (by simp)
    simp [lookupLast, h1, h2]

theorem lookupLast_some_key (s : List KRec) (id : Nat) (r : List Nat) (h : lookupLast s id = some r) :
    (id, r) ∈ s := by
  induction s with
  | nil => simp [lookupLast] at h
  | cons z zs ih =>
    simp only [lookupLast] at h
    cases hz : lookupLast zs id with
    | some r' =>
      rw [hz] at h
      simp only [Option.some.injEq] at h
      subst h
      exact List.mem_cons_of_mem _ (ih hz)
    | none =>
      rw [hz] at h
      by_cases hk : z.1 = id
      · simp [hk] at h
        subst h; subst hk
        simp
      · simp [hk] at h

theorem lookupLast_cons (z : KRec) (zs : List KRec) (id : Nat) :
    lookupLast (z :: zs) id =
      match lookupLast zs id with
      | some r => some r
      | none => if z.1 = id then some z.2 else none := rfl

theorem lookupLast_insRec (x : KRec) (s : List KRec) (id : Nat) (h : SortedK s) :
    lookupLast (insRec x s) id = if x.1 = id then some x.2 else lookupLast s id := by
  induction s with
  | nil => simp [insRec, lookupLast]
  | cons z zs ih =>
    unfold SortedK at h ih
    rw [List.pairwise_cons] at h
    unfold insRec
    split
    · rename_i hlt
      rw [lookupLast_cons x]
      by_cases hk : x.1 = id
      · have hn : lookupLast (z :: zs) id = none := by
          apply lookupLast_none_of
          intro y hy
          rcases List.mem_cons.mp hy with rfl | hy
          · omega
          · have := h.1 y hy; omega
        rw [hn]
      · cases lookupLast (z :: zs) id <;> simp [hk]
    · rw [lookupLast_cons z, ih h.2, lookupLast_cons z]
      by_cases hk : x.1 = id <;> simp [hk]

theorem lookupLast_foldl (xs acc : List KRec) (id : Nat) (h : SortedK acc) :
    lookupLast (xs.foldl (fun acc x => insRec x acc) acc) id =
      match lookupLast xs id with
      | some r => some r
      | none => lookupLast acc id := by
  induction xs generalizing acc with
  | nil => simp [lookupLast]
  | cons x xs ih =>
    simp only [List.foldl_cons]
    rw [ih (insRec x acc) (sorted_insRec x acc h), lookupLast_insRec x acc id h]
    simp only [lookupLast]
    cases lookupLast xs id with
    | some r => rfl
    | none =>
      by_cases hk : x.1 = id <;> simp [hk]

/-- the sort is stable: the record found last under an id is the same before and after. -/
theorem lookupLast_sortRecs (xs : List KRec) (id : Nat) : lookupLast (sortRecs xs) id = lookupLast xs id := by
  unfold sortRecs
  rw [lookupLast_foldl xs [] id List.Pairwise.nil]
  cases lookupLast xs id <;> simp [lookupLast]

/-! ### byte layout of one half of a block -/

theorem buildIdx_length (off : Nat) (s : List KRec) : (buildIdx off s).length = s.length := by
  induction s generalizing off with
  | nil => rfl
  | cons y rest ih => simp [buildIdx, ih]

theorem buildIdx_keys (off : Nat) (s : List KRec) : (buildIdx off s).map (·.id) = s.map (·.1) := by
  induction s generalizing off with
  | nil => rfl
  | cons y rest ih => simp [buildIdx, ih]

theorem buildData_length_le (ws : List Nat) (s : List KRec) (hwf : ∀ x ∈ s, wfRec ws x.2) :
    (buildData s).length ≤ 9 * ws.length * s.length := by
  induction s with
  | nil => simp [buildData]
  | cons y rest ih =>
    have h1 := ih (fun x hx => hwf x (by simp [hx]))
    have h2 := encRec_length_le y.2
    have h3 := wfRec_length ws y.2 (hwf y (by simp))
    rw [h3] at h2
    simp only [buildData, List.length_append, List.length_cons, Nat.mul_add, Nat.mul_one]
    omega

/-- where the index says a record is, its serialisation is: offsets are the running byte count
(contiguous, no truncation below 4 GiB), lengths are the serialised lengths, all within bounds. -/
theorem buildIdx_get (ws : List Nat) (hlen : 9 * ws.length < 65536) :
    ∀ (s : List KRec) (pre : List Nat) (i : Nat) (e : Entry) (x : KRec),
      (∀ y ∈ s, wfRec ws y.2) → pre.length + (buildData s).length < 4294967296 →
      (buildIdx pre.length s)[i]? = some e → s[i]? = some x →
      e.id = x.1 ∧ e.offset = pre.length + (buildData (s.take i)).length ∧
      e.length = (encRec x.2).length ∧
      e.offset + e.length ≤ (pre ++ buildData s).length ∧
      ((pre ++ buildData s).drop e.offset).take e.length = encRec x.2 := by
  intro s
  induction s with
  | nil => intro pre i e x _ _ _ hx; simp at hx
  | cons y rest ih =>
    intro pre i e x hwf hsz he hx
    have hL : (encRec y.2).length ≤ 9 * ws.length := by
      have h2 := encRec_length_le y.2
      rw [wfRec_length ws y.2 (hwf y (by simp))] at h2
      exact h2
    simp only [buildData, List.length_append] at hsz
    cases i with
    | zero =>
      simp only [buildIdx, List.getElem?_cons_zero, Option.some.injEq] at he hx
      subst he; subst hx
      have h1 : pre.length % 4294967296 = pre.length := Nat.mod_eq_of_lt (by omega)
      have h2 : (encRec y.2).length % 65536 = (encRec y.2).length := Nat.mod_eq_of_lt (by omega)
      simp only [h1, h2, List.take_zero, buildData, List.length_nil, Nat.add_zero, List.length_append,
        true_and]
      refine ⟨by omega, ?_⟩
      rw [List.drop_left, List.take_left]
    | succ i =>
      simp only [buildIdx, List.getElem?_cons_succ] at he hx
      have hpl : (pre ++ encRec y.2).length = pre.length + (encRec y.2).length := by simp
      rw [← hpl] at he
      have := ih (pre ++ encRec y.2) i e x (fun z hz => hwf z (by simp [hz])) (by rw [hpl]; omega) he hx
      simp only [List.take_succ_cons, buildData, List.length_append] at this ⊢
      simp only [List.append_assoc] at this
      refine ⟨this.1, by omega, this.2.2.1, ?_, this.2.2.2.2⟩
      have := this.2.2.2.1
      omega

/-! ### the standard library's binary search on a sorted slice -/

def SortedD (ks : List Nat) : Prop := ∀ i j, i ≤ j → j < ks.length → ks.getD i 0 ≤ ks.getD j 0

theorem bsLoop_spec (ks : List Nat) (t : Nat) (hs : SortedD ks) :
    ∀ fuel base size, size ≤ fuel → 1 ≤ size → base + size ≤ ks.length →
      (base = 0 ∨ ks.getD base 0 ≤ t) →
      (∀ j, base + size ≤ j → j < ks.length → t < ks.getD j 0) →
      bsLoop ks t fuel base size < ks.length ∧
      (bsLoop ks t fuel base size = 0 ∨ ks.getD (bsLoop ks t fuel base size) 0 ≤ t) ∧
      (∀ j, bsLoop ks t fuel base size < j → j < ks.length → t < ks.getD j 0) := by
  intro fuel
  induction fuel with
  | zero => intro base size h1 h2; omega
  | succ fuel ih =>
    intro base size hf h1 hb hlow hhigh
    unfold bsLoop
    by_cases hsz : size > 1
    · rw [if_pos hsz]
      by_cases hg : ks.getD (base + size / 2) 0 > t
      · simp only [hg, if_true]
        apply ih base (size - size / 2) (by omega) (by omega) (by omega) hlow
        intro j hj hjl
        have := hs (base + size / 2) j (by omega) hjl
        omega
      · simp only [hg, if_false]
        apply ih (base + size / 2) (size - size / 2) (by omega) (by omega) (by omega) (Or.inr (by omega))
        intro j hj hjl
        exact hhigh j (by omega) hjl
    · rw [if_neg hsz]
      refine ⟨by omega, hlow, ?_⟩
      intro j hj hjl
      exact hhigh j (by omega) hjl

theorem bsearch_some (ks : List Nat) (t i : Nat) (hs : SortedD ks) (h : bsearch ks t = some i) :
    i < ks.length ∧ ks.getD i 0 = t ∧ ∀ j, i < j → j < ks.length → t < ks.getD j 0 := by
  unfold bsearch at h
  by_cases h0 : ks.length = 0
  · simp [h0] at h
  · rw [if_neg h0] at h
    have sp := bsLoop_spec ks t hs ks.length 0 ks.length (Nat.le_refl _) (by omega) (by omega) (Or.inl rfl)
      (by intro j h1 h2; omega)
    simp only at h
    by_cases he : ks.getD (bsLoop ks t ks.length 0 ks.length) 0 = t
    · rw [if_pos he] at h
      simp only [Option.some.injEq] at h
      subst h
      exact ⟨sp.1, he, sp.2.2⟩
    · rw [if_neg he] at h; simp at h

theorem bsearch_none (ks : List Nat) (t : Nat) (hs : SortedD ks) (h : bsearch ks t = none) :
    ∀ j, j < ks.length → ks.getD j 0 ≠ t := by
  unfold bsearch at h
  by_cases h0 : ks.length = 0
  · intro j hj; omega
  · rw [if_neg h0] at h
    have sp := bsLoop_spec ks t hs ks.length 0 ks.length (Nat.le_refl _) (by omega) (by omega) (Or.inl rfl)
      (by intro j h1 h2; omega)
    simp only at h
    by_cases he : ks.getD (bsLoop ks t ks.length 0 ks.length) 0 = t
    · rw [if_pos he] at h; simp at h
    · intro j hj
      by_cases hjb : bsLoop ks t ks.length 0 ks.length < j
      · have := sp.2.2 j hjb hj; omega
      · have hle := hs j (bsLoop ks t ks.length 0 ks.length) (by omega) sp.1
        rcases sp.2.1 with hz | hz
        · have : j = bsLoop ks t ks.length 0 ks.length := by omega
          rw [this]; exact he
        · omega

theorem getD_keys (s : List KRec) (j : Nat) (y : KRec) (h : s[j]? = some y) : (s.map (·.1)).getD j 0 = y.1 := by
  simp [List.getD_eq_getElem?_getD, List.getElem?_map, h]

theorem sortedD_of_sortedK (s : List KRec) (h : SortedK s) : SortedD (s.map (·.1)) := by
  intro i j hij hj
  simp only [List.length_map] at hj
  have hi : i < s.length := by omega
  rw [getD_keys s i s[i] (List.getElem?_eq_getElem hi), getD_keys s j s[j] (List.getElem?_eq_getElem hj)]
  by_cases he : i = j
  · subst he; exact Nat.le_refl _
  · exact (List.pairwise_iff_getElem.mp h) i j hi hj (by omega)

theorem lookupLast_of_last (s : List KRec) : ∀ (i : Nat) (x : KRec), s[i]? = some x →
    (∀ j y, i < j → s[j]? = some y → y.1 ≠ x.1) → lookupLast s x.1 = some x.2 := by
  induction s with
  | nil => intro i x h; simp at h
  | cons z zs ih =>
    intro i x hx hlater
    rw [lookupLast_cons]
    cases i with
    | zero =>
      simp only [List.getElem?_cons_zero, Option.some.injEq] at hx
      subst hx
      have : lookupLast zs z.1 = none := by
        apply lookupLast_none_of
        intro y hy
        obtain ⟨j, hj⟩ := List.getElem?_of_mem hy
        exact hlater (j + 1) y (by omega) (by simpa using hj)
      rw [this]; simp
    | succ i =>
      simp only [List.getElem?_cons_succ] at hx
      have := ih i x hx (fun j y hij hy => hlater (j + 1) y (by omega) (by simpa using hy))
      rw [this]

/-! ### one half of a block: lookups against the plain list -/

/-- the records are well-typed and few enough for the `u32` offsets (9 bytes per field at most). -/
def OkRecs (ws : List Nat) (xs : List KRec) : Prop :=
  (∀ x ∈ xs, wfRec ws x.2) ∧ 9 * ws.length * xs.length < 4294967296

theorem okRecs_sorted (ws : List Nat) (xs : List KRec) (h : OkRecs ws xs) :
    (∀ x ∈ sortRecs xs, wfRec ws x.2) ∧ (buildData (sortRecs xs)).length < 4294967296 := by
  have hw : ∀ x ∈ sortRecs xs, wfRec ws x.2 := fun x hx => h.1 x ((mem_sortRecs xs x).mp hx)
  refine ⟨hw, ?_⟩
  have := buildData_length_le ws (sortRecs xs) hw
  rw [length_sortRecs] at this
  have := h.2
  omega

theorem getAt_entry (ws : List Nat) (hws : ∀ w ∈ ws, okW w) (hlen : 9 * ws.length < 65536)
    (s : List KRec) (hwf : ∀ y ∈ s, wfRec ws y.2) (hsz : (buildData s).length < 4294967296)
    (i : Nat) (e : Entry) (x : KRec) (he : (buildSide s).index[i]? = some e) (hx : s[i]? = some x) :
    e.id = x.1 ∧ getAt ws (buildSide s) e.offset e.length = some x.2 := by
  have := buildIdx_get ws hlen s [] i e x hwf (by simpa using hsz) (by simpa [buildSide] using he) hx
  simp only [List.nil_append, List.length_nil, Nat.zero_add] at this
  refine ⟨this.1, ?_⟩
  unfold getAt
  rw [show (buildSide s).data = buildData s from rfl, if_neg (by omega), this.2.2.2.2]
  have := decRec_encRec ws x.2 [] hws (hwf x (List.mem_of_getElem? hx))
  simpa using this

/-- the zone map never excludes a key that is there (fewer than 2^32 records). -/
theorem mightContain_of_mem (s : List KRec) (x : KRec) (hx : x ∈ s) (hl : s.length < 4294967296) :
    mightContain (buildSide s) x.1 = true := by
  have hmin : ∀ (s : List KRec), x ∈ s → minKey s ≤ x.1 ∧ x.1 ≤ maxKey s := by
    intro s
    induction s with
    | nil => intro h; simp at h
    | cons z zs ih =>
      intro h
      simp only [minKey, maxKey]
      rcases List.mem_cons.mp h with rfl | h
      · omega
      · have := ih h; omega
  have h1 := hmin s hx
  have hpos : 0 < s.length := List.length_pos_of_mem hx
  have hc : s.length % 4294967296 = s.length := Nat.mod_eq_of_lt hl
  simp [mightContain, buildSide, hc, h1.1, h1.2, hpos]

/-- `get_*_by_id` on a freshly built half = lookup in the plain list (last record under the id). -/
theorem getById_buildSide (ws : List Nat) (hws : ∀ w ∈ ws, okW w) (hlen : 9 * ws.length < 65536)
    (hpos : 0 < ws.length) (xs : List KRec) (hok : OkRecs ws xs) (id : Nat) :
    getById ws (buildSide (sortRecs xs)) id = lookupLast xs id := by
  have hs := okRecs_sorted ws xs hok
  have hsl : (sortRecs xs).length < 4294967296 := by
    rw [length_sortRecs]
    have h1 := hok.2
    have h2 : xs.length ≤ 9 * ws.length * xs.length := Nat.le_mul_of_pos_left _ (by omega)
    omega
  have hsorted := sorted_sortRecs xs
  have hD := sortedD_of_sortedK _ hsorted
  rw [← lookupLast_sortRecs xs id]
  generalize sortRecs xs = s at hs hsorted hD hsl ⊢
  unfold getById
  have hkeys : (buildSide s).index.map (·.id) = s.map (·.1) := by simp [buildSide, buildIdx_keys]
  rw [hkeys]
  cases hb : bsearch (s.map (·.1)) id with
  | none =>
    have hn := bsearch_none _ _ hD hb
    have : lookupLast s id = none := by
      apply lookupLast_none_of
      intro y hy
      obtain ⟨j, hj⟩ := List.getElem?_of_mem hy
      have hjl : j < s.length := (List.getElem?_eq_some_iff.mp hj).1
      have := hn j (by simpa using hjl)
      rw [getD_keys s j y hj] at this
      exact this
    rw [this]; split <;> rfl
  | some i =>
    have hsome := bsearch_some _ _ _ hD hb
    have hil : i < s.length := by simpa using hsome.1
    have hx : s[i]? = some s[i] := List.getElem?_eq_getElem hil
    have hkey : s[i].1 = id := by
      have := hsome.2.1
      rwa [getD_keys s i s[i] hx] at this
    have hidx : i < (buildSide s).index.length := by simp [buildSide, buildIdx_length, hil]
    have he : (buildSide s).index[i]? = some (buildSide s).index[i] := List.getElem?_eq_getElem hidx
    have hg := getAt_entry ws hws hlen s hs.1 hs.2 i _ _ he hx
    have hmc : mightContain (buildSide s) id = true := by
      rw [← hkey]; exact mightContain_of_mem s s[i] (List.getElem_mem hil) hsl
    have hlast : lookupLast s id = some s[i].2 := by
      rw [← hkey]
      apply lookupLast_of_last s i s[i] hx
      intro j y hij hy
      have hjl : j < s.length := (List.getElem?_eq_some_iff.mp hy).1
      have := hsome.2.2 j hij (by simpa using hjl)
      rw [getD_keys s j y hy] at this
      omega
    simp [hmc, he, hg.2, hlast]

end Grafeo.Epoch
