import GrafeoModel.Model.Wal
/-! Definitions used both by proofs and by the driver (no tactic imports). -/
namespace Grafeo.Wal

def wholeFrames : Nat → List (List Nat) → Nat
  | _, [] => 0
  | k, p :: ps => if p.length + 8 ≤ k then 1 + wholeFrames (k - (p.length + 8)) ps else 0

end Grafeo.Wal
