import GrafeoModel.Model.SessSpec
import GrafeoModel.Proofs.LpgLemmas
import GrafeoModel.Proofs.TxMgrLemmas

/-!
Helper lemmas for `Props/C01SI.lean` (creation-only histories refine the snapshot-isolation oracle):

1. association lists with distinct keys;
2. the store seen as two *entity tables* (`nodeEnts`, `edgeEnts`: id, the single version, payload), and
   what `createNode`, `createEdge`, `finalize`, `discard`, `syncEpoch` do to them and to the side
   tables (`StoreOK`);
3. the table relation `TabRel` between an entity table, the manager / session map and the oracle's
   three kinds of tables (committed, snapshot of an open transaction, its own creations), with one
   preservation lemma per kind of step — used twice, for nodes and for edges.
-/

set_option linter.unusedSimpArgs false
set_option linter.unusedVariables false

namespace Grafeo.SessSpec
open Grafeo.Lpg Grafeo.Sess Grafeo.TxMgr

/-! ### 1. association lists -/

def keys {ν : Type} (l : AList ν) : List Nat := l.map (·.1)
def NodupKeys {ν : Type} (l : AList ν) : Prop := (keys l).Nodup

theorem keys_append {ν : Type} (a b : AList ν) : keys (a ++ b) = keys a ++ keys b := by
  simp [keys]

theorem mem_keys {ν : Type} {l : AList ν} {k : Nat} : k ∈ keys l ↔ ∃ v, (k, v) ∈ l := by
  unfold keys
  simp only [List.mem_map]
  constructor
  · rintro ⟨⟨k', v⟩, h, rfl⟩; exact ⟨v, h⟩
  · rintro ⟨v, h⟩; exact ⟨(k, v), h, rfl⟩

theorem mem_keys_of_mem {ν : Type} {l : AList ν} {k : Nat} {v : ν} (h : (k, v) ∈ l) : k ∈ keys l :=
  mem_keys.mpr ⟨v, h⟩

theorem aget_none_iff {ν : Type} (l : AList ν) (k : Nat) : aget l k = none ↔ k ∉ keys l := by
  induction l with
  | nil => simp [aget, keys]
  | cons kv rest ih =>
    obtain ⟨k0, v0⟩ := kv
    simp only [aget, keys, List.map_cons, List.mem_cons]
    by_cases h : k0 = k
    · subst h; simp
    · have h' : ¬ k = k0 := fun e => h e.symm
      simp only [h, if_false, h', false_or]
      exact ih

theorem mem_of_aget {ν : Type} {l : AList ν} {k : Nat} {v : ν} (h : aget l k = some v) : (k, v) ∈ l := by
  induction l with
  | nil => simp [aget] at h
  | cons kv rest ih =>
    obtain ⟨k0, v0⟩ := kv
    simp only [aget] at h
    by_cases h0 : k0 = k
    · subst h0; simp only [if_true, Option.some.injEq] at h; subst h; simp
    · simp only [h0, if_false] at h
      exact List.mem_cons_of_mem _ (ih h)

theorem aget_of_mem {ν : Type} {l : AList ν} {k : Nat} {v : ν} (hn : NodupKeys l) (h : (k, v) ∈ l) :
    aget l k = some v := by
  induction l with
  | nil => simp at h
  | cons kv rest ih =>
    obtain ⟨k0, v0⟩ := kv
    unfold NodupKeys keys at hn
    simp only [List.map_cons, List.nodup_cons] at hn
    simp only [aget]
    rcases List.mem_cons.mp h with h1 | h1
    · injection h1 with a b; subst a; subst b; simp
    · have : k0 ≠ k := by
        intro e; subst e
        exact hn.1 (mem_keys_of_mem h1)
      simp only [this, if_false]
      exact ih hn.2 h1

theorem aget_some_iff {ν : Type} {l : AList ν} (hn : NodupKeys l) (k : Nat) (v : ν) :
    aget l k = some v ↔ (k, v) ∈ l := ⟨mem_of_aget, aget_of_mem hn⟩

theorem aset_fresh {ν : Type} (l : AList ν) (k : Nat) (v : ν) (h : k ∉ keys l) : aset l k v = l ++ [(k, v)] := by
  induction l with
  | nil => rfl
  | cons kv rest ih =>
    obtain ⟨k0, v0⟩ := kv
    simp only [keys, List.map_cons, List.mem_cons, not_or] at h
    have h0 : ¬ k0 = k := fun e => h.1 e.symm
    simp only [aset, h0, if_false, List.cons_append]
    rw [ih h.2]

theorem nodupKeys_append_single {ν : Type} {l : AList ν} {k : Nat} {v : ν} (hn : NodupKeys l) (h : k ∉ keys l) :
    NodupKeys (l ++ [(k, v)]) := by
  unfold NodupKeys at *
  rw [keys_append, List.nodup_append]
  refine ⟨hn, by simp [keys], ?_⟩
  intro a ha b hb
  simp only [keys, List.map_cons, List.map_nil, List.mem_singleton] at hb
  subst hb
  intro e; subst e; exact h ha

theorem nodupKeys_append {ν : Type} {a b : AList ν} (ha : NodupKeys a) (hb : NodupKeys b)
    (hd : ∀ k, k ∈ keys a → k ∉ keys b) : NodupKeys (a ++ b) := by
  unfold NodupKeys at *
  rw [keys_append, List.nodup_append]
  exact ⟨ha, hb, fun x hx y hy e => hd x hx (e ▸ hy)⟩

/-- inserting a list of bindings with fresh, distinct keys one after the other appends them -/
theorem asetAll_fresh {ν : Type} (add l : AList ν) (hn : NodupKeys add) (hd : ∀ k, k ∈ keys add → k ∉ keys l) :
    add.foldl (fun a kv => aset a kv.1 kv.2) l = l ++ add := by
  induction add generalizing l with
  | nil => simp
  | cons kv rest ih =>
    obtain ⟨k0, v0⟩ := kv
    unfold NodupKeys keys at hn
    simp only [List.map_cons, List.nodup_cons] at hn
    simp only [List.foldl_cons]
    rw [aset_fresh l k0 v0 (hd k0 (by simp [keys]))]
    rw [ih (l ++ [(k0, v0)]) hn.2]
    · simp
    · intro k hk
      rw [keys_append]
      simp only [keys, List.map_cons, List.map_nil, List.mem_append, List.mem_singleton, not_or]
      refine ⟨hd k (by simp only [keys, List.map_cons, List.mem_cons]; exact Or.inr hk), ?_⟩
      intro e; subst e; exact hn.1 hk

theorem nodup_map_fst_of_nodupKeys {ν : Type} {l : AList ν} (hn : NodupKeys l) : l.Nodup := by
  unfold NodupKeys keys at hn
  induction l with
  | nil => exact List.nodup_nil
  | cons kv rest ih =>
    simp only [List.map_cons, List.nodup_cons] at hn ⊢
    exact ⟨fun h => hn.1 (List.mem_map_of_mem h), ih hn.2⟩

/-- with distinct keys a binding determines its value -/
theorem nodupKeys_unique {ν : Type} {l : AList ν} (hn : NodupKeys l) {k : Nat} {v v' : ν}
    (h : (k, v) ∈ l) (h' : (k, v') ∈ l) : v = v' := by
  have a := aget_of_mem hn h
  have b := aget_of_mem hn h'
  rw [a] at b; injection b

theorem nodupKeys_filter {ν : Type} {l : AList ν} (p : Nat × ν → Bool) (hn : NodupKeys l) : NodupKeys (l.filter p) := by
  unfold NodupKeys keys at *
  exact List.Nodup.sublist (List.Sublist.map _ List.filter_sublist) hn

theorem nodupKeys_mapVal {ν μ : Type} {l : AList ν} (f : Nat × ν → μ) (hn : NodupKeys l) :
    NodupKeys (l.map (fun kv => (kv.1, f kv))) := by
  unfold NodupKeys keys at *
  simpa [List.map_map, Function.comp_def] using hn


/-! ### 2. the store as entity tables -/

/-- the version of a one-version chain -/
def hd (c : List Ver) : Ver := c.headD ⟨0, 0, none⟩

@[simp] theorem hd_single (v : Ver) : hd [v] = v := rfl

/-- node table: id ↦ (its version, (labels, properties)) -/
def nodeEnts (s : Store) : AList (Ver × (List Nat × AList String)) :=
  s.nodes.map (fun kv => (kv.1, hd kv.2, (s.nodeLabelsOf kv.1, s.nodePropsOf kv.1)))

/-- edge table: id ↦ (its version, (src, dst, type)) -/
def edgeEnts (s : Store) : AList (Ver × EdgeRec) :=
  s.edges.map (fun kv => (kv.1, hd kv.2.1, kv.2.2))

/-- shape of the store in a creation-only history -/
structure StoreOK (s : Store) : Prop where
  nodesNodup : NodupKeys s.nodes
  nodesLt : ∀ kv ∈ s.nodes, kv.1 < s.nextNode
  nodesSing : ∀ kv ∈ s.nodes, kv.2 = [hd kv.2]
  edgesNodup : NodupKeys s.edges
  edgesLt : ∀ kv ∈ s.edges, kv.1 < s.nextEdge
  edgesSing : ∀ kv ∈ s.edges, kv.2.1 = [hd kv.2.1]
  nprops : s.nprops = []
  eprops : s.eprops = []
  labelsLt : ∀ id, s.nextNode ≤ id → s.nodeLabelsOf id = []
  mirror : Mirror s
  idxNodup : ∀ l, (s.nodesByLabel l).Nodup
  fwdIff : ∀ n d e, (d, e) ∈ s.outEdges n ↔ ∃ c ty, (e, (c, (⟨n, d, ty⟩ : EdgeRec))) ∈ s.edges
  fwdNodup : ∀ n, ((s.outEdges n).map (·.2)).Nodup

theorem keys_nodeEnts (s : Store) : keys (nodeEnts s) = keys s.nodes := by
  simp [keys, nodeEnts, List.map_map, Function.comp_def]

theorem keys_edgeEnts (s : Store) : keys (edgeEnts s) = keys s.edges := by
  simp [keys, edgeEnts, List.map_map, Function.comp_def]

theorem StoreOK.nodeEntsNodup {s : Store} (h : StoreOK s) : NodupKeys (nodeEnts s) := by
  unfold NodupKeys; rw [keys_nodeEnts]; exact h.nodesNodup

theorem StoreOK.edgeEntsNodup {s : Store} (h : StoreOK s) : NodupKeys (edgeEnts s) := by
  unfold NodupKeys; rw [keys_edgeEnts]; exact h.edgesNodup

theorem storeOK_init : StoreOK {} := by
  refine ⟨by simp [NodupKeys, keys], by simp, by simp, by simp [NodupKeys, keys], by simp, by simp, rfl, rfl,
    by intro id _; rfl, ?_, by intro l; simp [Store.nodesByLabel, aget], ?_, by intro n; simp [Store.outEdges, aget]⟩
  · intro l id; simp [inIdx, hasLabel, Store.nodeLabelsOf, aget]
  · intro n d e; simp [Store.outEdges, aget]

/-! #### point lookups in terms of the tables -/

theorem chainVisibleTo_single (v : Ver) (ep tx : Nat) : chainVisibleTo [v] ep tx = v.visibleTo ep tx := by
  simp [chainVisibleTo]

theorem getNodeTo_iff {s : Store} (h : StoreOK s) (id ep tx : Nat) (X : List Nat × AList String) :
    s.getNodeTo id ep tx = some X ↔ ∃ v, (id, v, X) ∈ nodeEnts s ∧ v.visibleTo ep tx = true := by
  unfold Store.getNodeTo
  constructor
  · intro hg
    cases hc : aget s.nodes id with
    | none => rw [hc] at hg; simp at hg
    | some c =>
      rw [hc] at hg
      have hm := mem_of_aget hc
      obtain ⟨v, rfl⟩ : ∃ v, c = [v] := ⟨_, h.nodesSing _ hm⟩
      simp only [chainVisibleTo_single] at hg
      by_cases hv : v.visibleTo ep tx = true
      · simp only [hv, if_true, Option.some.injEq] at hg
        refine ⟨v, ?_, hv⟩
        unfold nodeEnts
        rw [← hg]
        exact List.mem_map.mpr ⟨(id, [v]), hm, rfl⟩
      · simp [hv] at hg
  · rintro ⟨v, hm, hv⟩
    unfold nodeEnts at hm
    obtain ⟨kv, hkv, he⟩ := List.mem_map.mp hm
    obtain ⟨k0, c⟩ := kv
    simp only [Prod.mk.injEq] at he
    obtain ⟨rfl, rfl, rfl⟩ := he
    rw [aget_of_mem h.nodesNodup hkv]
    obtain ⟨v, rfl⟩ : ∃ v, c = [v] := ⟨_, h.nodesSing _ hkv⟩
    simp only [hd_single] at hv
    simp only [chainVisibleTo_single, hv, if_true, hd_single]

theorem getEdgeTo_iff {s : Store} (h : StoreOK s) (id ep tx : Nat) (X : EdgeRec × AList String) :
    s.getEdgeTo id ep tx = some X ↔ X.2 = [] ∧ ∃ v, (id, v, X.1) ∈ edgeEnts s ∧ v.visibleTo ep tx = true := by
  unfold Store.getEdgeTo
  have hep : (aget s.eprops id).getD [] = ([] : AList String) := by rw [h.eprops]; rfl
  rw [hep]
  constructor
  · intro hg
    cases hc : aget s.edges id with
    | none => rw [hc] at hg; simp at hg
    | some cr =>
      obtain ⟨c, r⟩ := cr
      rw [hc] at hg
      have hm := mem_of_aget hc
      obtain ⟨v, rfl⟩ : ∃ v, c = [v] := ⟨_, h.edgesSing _ hm⟩
      simp only [chainVisibleTo_single] at hg
      by_cases hv : v.visibleTo ep tx = true
      · simp only [hv, if_true, Option.some.injEq] at hg
        subst hg
        refine ⟨rfl, v, ?_, hv⟩
        unfold edgeEnts
        exact List.mem_map.mpr ⟨(id, ([v], r)), hm, rfl⟩
      · simp [hv] at hg
  · rintro ⟨hx, v, hm, hv⟩
    obtain ⟨r, ps⟩ := X
    simp only at hx hm
    subst hx
    unfold edgeEnts at hm
    obtain ⟨kv, hkv, he⟩ := List.mem_map.mp hm
    obtain ⟨k0, c, r0⟩ := kv
    simp only [Prod.mk.injEq] at he
    obtain ⟨rfl, rfl, rfl⟩ := he
    rw [aget_of_mem h.edgesNodup hkv]
    obtain ⟨v, rfl⟩ : ∃ v, c = [v] := ⟨_, h.edgesSing _ hkv⟩
    simp only [hd_single] at hv
    simp only [chainVisibleTo_single, hv, if_true, hd_single]


/-! #### `createNode` -/

theorem sinsert_nodup (l : List Nat) (x : Nat) (h : l.Nodup) : (sinsert l x).Nodup := by
  unfold sinsert
  split
  · exact h
  · rename_i hx
    rw [List.nodup_append]
    exact ⟨h, by simp, fun a ha b hb e => by simp at hb; subst hb; subst e; exact hx ha⟩

theorem idxInsertAll_nodup (idx : AList (List Nat)) (labels : List Nat) (id : Nat)
    (h : ∀ l, ((aget idx l).getD []).Nodup) : ∀ l, ((aget (idxInsertAll idx labels id) l).getD []).Nodup := by
  induction labels generalizing idx with
  | nil => exact h
  | cons l0 ls ih =>
    unfold idxInsertAll at ih ⊢
    simp only [List.foldl_cons]
    apply ih
    intro l
    rw [aget_aset]
    by_cases e : l = l0
    · simp only [e, if_true, Option.getD_some]; exact sinsert_nodup _ _ (h l0)
    · simp only [e, if_false]; exact h l

theorem createNode_snd (s : Store) (ls : List Nat) (ep tx : Nat) : (s.createNode ls ep tx).2 = s.nextNode := rfl

theorem createNode_nodes (s : Store) (ls : List Nat) (ep tx : Nat) (h : StoreOK s) :
    (s.createNode ls ep tx).1.nodes = s.nodes ++ [(s.nextNode, [⟨ep, tx, none⟩])] := by
  show aset s.nodes s.nextNode _ = _
  apply aset_fresh
  intro hk
  obtain ⟨v, hv⟩ := mem_keys.mp hk
  exact Nat.lt_irrefl _ (h.nodesLt _ hv)

theorem createNode_labelsOf (s : Store) (ls : List Nat) (ep tx id : Nat) :
    (s.createNode ls ep tx).1.nodeLabelsOf id = if id = s.nextNode then ls.foldl sinsert [] else s.nodeLabelsOf id := by
  show (aget (aset s.nodeLabels s.nextNode _) id).getD [] = _
  rw [aget_aset]
  by_cases e : id = s.nextNode
  · simp [e]
  · simp [e, Store.nodeLabelsOf]

theorem nodeEnts_createNode (s : Store) (ls : List Nat) (ep tx : Nat) (h : StoreOK s) :
    nodeEnts (s.createNode ls ep tx).1 = nodeEnts s ++ [(s.nextNode, ⟨ep, tx, none⟩, (ls.foldl sinsert [], []))] := by
  unfold nodeEnts
  rw [createNode_nodes s ls ep tx h, List.map_append]
  congr 1
  · apply List.map_congr_left
    intro kv hkv
    have hlt := h.nodesLt kv hkv
    have : kv.1 ≠ s.nextNode := by omega
    rw [createNode_labelsOf]
    simp only [this, if_false]
    rfl
  · simp only [List.map_cons, List.map_nil, createNode_labelsOf, if_true, hd_single]
    have : (s.createNode ls ep tx).1.nodePropsOf s.nextNode = [] := by
      show (aget s.nprops s.nextNode).getD [] = []
      rw [h.nprops]; rfl
    rw [this]

theorem edgeEnts_createNode (s : Store) (ls : List Nat) (ep tx : Nat) :
    edgeEnts (s.createNode ls ep tx).1 = edgeEnts s := rfl

theorem storeOK_createNode (s : Store) (ls : List Nat) (ep tx : Nat) (h : StoreOK s) :
    StoreOK (s.createNode ls ep tx).1 := by
  have hn := createNode_nodes s ls ep tx h
  have hfresh : s.nextNode ∉ keys s.nodes := by
    intro hk
    obtain ⟨v, hv⟩ := mem_keys.mp hk
    exact Nat.lt_irrefl _ (h.nodesLt _ hv)
  refine ⟨?_, ?_, ?_, h.edgesNodup, h.edgesLt, h.edgesSing, h.nprops, h.eprops, ?_, ?_, ?_, h.fwdIff, h.fwdNodup⟩
  · rw [hn]; exact nodupKeys_append_single h.nodesNodup hfresh
  · rw [hn]
    intro kv hkv
    show kv.1 < s.nextNode + 1
    rcases List.mem_append.mp hkv with a | a
    · exact Nat.lt_succ_of_lt (h.nodesLt kv a)
    · simp only [List.mem_singleton] at a; subst a; exact Nat.lt_succ_self _
  · rw [hn]
    intro kv hkv
    rcases List.mem_append.mp hkv with a | a
    · exact h.nodesSing kv a
    · simp only [List.mem_singleton] at a; subst a; rfl
  · intro id hid
    rw [createNode_labelsOf]
    have h1 : s.nextNode + 1 ≤ id := hid
    have : id ≠ s.nextNode := by omega
    simp only [this, if_false]
    exact h.labelsLt id (by omega)
  · intro l id
    show inIdx (idxInsertAll s.labelIdx ls s.nextNode) l id ↔ l ∈ (s.createNode ls ep tx).1.nodeLabelsOf id
    rw [inIdx_insertAll, createNode_labelsOf]
    by_cases e : id = s.nextNode
    · subst e
      simp only [true_and, if_true, mem_foldl_sinsert, List.not_mem_nil, or_false]
      have : ¬ inIdx s.labelIdx l s.nextNode := by
        intro hi
        have := (h.mirror l s.nextNode).mp hi
        unfold hasLabel at this
        rw [h.labelsLt _ (Nat.le_refl _)] at this
        simp at this
      simp [this]
    · simp only [e, false_and, false_or, if_false]
      exact h.mirror l id
  · intro l
    exact idxInsertAll_nodup s.labelIdx ls s.nextNode h.idxNodup l

/-! #### `createEdge` -/

theorem createEdge_snd (s : Store) (a b t ep tx : Nat) : (s.createEdge a b t ep tx).2 = s.nextEdge := rfl

theorem createEdge_edges (s : Store) (a b t ep tx : Nat) (h : StoreOK s) :
    (s.createEdge a b t ep tx).1.edges = s.edges ++ [(s.nextEdge, ([⟨ep, tx, none⟩], ⟨a, b, t⟩))] := by
  show aset s.edges s.nextEdge _ = _
  apply aset_fresh
  intro hk
  obtain ⟨v, hv⟩ := mem_keys.mp hk
  exact Nat.lt_irrefl _ (h.edgesLt _ hv)

theorem edgeEnts_createEdge (s : Store) (a b t ep tx : Nat) (h : StoreOK s) :
    edgeEnts (s.createEdge a b t ep tx).1 = edgeEnts s ++ [(s.nextEdge, ⟨ep, tx, none⟩, ⟨a, b, t⟩)] := by
  unfold edgeEnts
  rw [createEdge_edges s a b t ep tx h, List.map_append]
  rfl

theorem nodeEnts_createEdge (s : Store) (a b t ep tx : Nat) :
    nodeEnts (s.createEdge a b t ep tx).1 = nodeEnts s := rfl

theorem createEdge_outEdges (s : Store) (a b t ep tx n : Nat) :
    (s.createEdge a b t ep tx).1.outEdges n = if n = a then s.outEdges a ++ [(b, s.nextEdge)] else s.outEdges n := by
  show (aget (adjAdd s.fwd a b s.nextEdge) n).getD [] = _
  unfold adjAdd
  rw [aget_aset]
  by_cases e : n = a
  · simp [e, Store.outEdges]
  · simp [e, Store.outEdges]

theorem storeOK_createEdge (s : Store) (a b t ep tx : Nat) (h : StoreOK s) :
    StoreOK (s.createEdge a b t ep tx).1 := by
  have hn := createEdge_edges s a b t ep tx h
  have hfresh : s.nextEdge ∉ keys s.edges := by
    intro hk
    obtain ⟨v, hv⟩ := mem_keys.mp hk
    exact Nat.lt_irrefl _ (h.edgesLt _ hv)
  refine ⟨h.nodesNodup, h.nodesLt, h.nodesSing, ?_, ?_, ?_, h.nprops, h.eprops, h.labelsLt, h.mirror, h.idxNodup, ?_, ?_⟩
  · rw [hn]; exact nodupKeys_append_single h.edgesNodup hfresh
  · rw [hn]
    intro kv hkv
    show kv.1 < s.nextEdge + 1
    rcases List.mem_append.mp hkv with x | x
    · exact Nat.lt_succ_of_lt (h.edgesLt kv x)
    · simp only [List.mem_singleton] at x; subst x; exact Nat.lt_succ_self _
  · rw [hn]
    intro kv hkv
    rcases List.mem_append.mp hkv with x | x
    · exact h.edgesSing kv x
    · simp only [List.mem_singleton] at x; subst x; rfl
  · intro n d e
    rw [createEdge_outEdges, hn]
    by_cases en : n = a
    · subst en
      simp only [if_true, List.mem_append, List.mem_singleton, Prod.mk.injEq]
      rw [h.fwdIff]
      constructor
      · rintro (⟨c, ty, hm⟩ | ⟨rfl, rfl⟩)
        · exact ⟨c, ty, Or.inl hm⟩
        · exact ⟨_, t, Or.inr ⟨rfl, rfl, rfl⟩⟩
      · rintro ⟨c, ty, hm | ⟨he, hc, hr⟩⟩
        · exact Or.inl ⟨c, ty, hm⟩
        · injection hr with _ hd' _
          exact Or.inr ⟨hd', he⟩
    · simp only [en, if_false, List.mem_append, List.mem_singleton, Prod.mk.injEq]
      rw [h.fwdIff]
      constructor
      · rintro ⟨c, ty, hm⟩; exact ⟨c, ty, Or.inl hm⟩
      · rintro ⟨c, ty, hm | ⟨he, hc, hr⟩⟩
        · exact ⟨c, ty, hm⟩
        · injection hr with hs' _ _
          exact absurd hs' en
  · intro n
    rw [createEdge_outEdges]
    by_cases en : n = a
    · subst en
      simp only [if_true, List.map_append, List.map_cons, List.map_nil]
      rw [List.nodup_append]
      refine ⟨h.fwdNodup n, by simp, ?_⟩
      intro x hx y hy
      simp only [List.mem_singleton] at hy
      subst hy
      obtain ⟨p, hp, rfl⟩ := List.mem_map.mp hx
      obtain ⟨c, ty, hm⟩ := (h.fwdIff n p.1 p.2).mp hp
      have := h.edgesLt _ hm
      simp only at this
      omega
    · simp only [en, if_false]; exact h.fwdNodup n


/-! #### `syncEpoch`, `finalize` -/

theorem storeOK_syncEpoch (s : Store) (e : Nat) (h : StoreOK s) : StoreOK (s.syncEpoch e) :=
  ⟨h.nodesNodup, h.nodesLt, h.nodesSing, h.edgesNodup, h.edgesLt, h.edgesSing, h.nprops, h.eprops, h.labelsLt,
   h.mirror, h.idxNodup, h.fwdIff, h.fwdNodup⟩

theorem nodeEnts_syncEpoch (s : Store) (e : Nat) : nodeEnts (s.syncEpoch e) = nodeEnts s := rfl
theorem edgeEnts_syncEpoch (s : Store) (e : Nat) : edgeEnts (s.syncEpoch e) = edgeEnts s := rfl

/-- `finalize` on one version -/
def restampV (tx e : Nat) (v : Ver) : Ver :=
  if v.owner == tx && v.created == pendingEpoch then { v with created := e } else v

theorem restamp_single (tx e : Nat) (v : Ver) : restamp tx e [v] = [restampV tx e v] := rfl

theorem hd_restamp (tx e : Nat) (c : List Ver) (hc : c = [hd c]) : hd (restamp tx e c) = restampV tx e (hd c) := by
  rw [hc, restamp_single]; rfl

theorem nodeEnts_finalize (s : Store) (tx e : Nat) (h : StoreOK s) :
    nodeEnts (s.finalize tx e) = (nodeEnts s).map (fun x => (x.1, restampV tx e x.2.1, x.2.2)) := by
  unfold nodeEnts
  show List.map _ (s.nodes.map _) = _
  rw [List.map_map, List.map_map]
  apply List.map_congr_left
  intro kv hkv
  simp only [Function.comp_def]
  rw [hd_restamp tx e kv.2 (h.nodesSing kv hkv)]
  rfl

theorem edgeEnts_finalize (s : Store) (tx e : Nat) (h : StoreOK s) :
    edgeEnts (s.finalize tx e) = (edgeEnts s).map (fun x => (x.1, restampV tx e x.2.1, x.2.2)) := by
  unfold edgeEnts
  show List.map _ (s.edges.map _) = _
  rw [List.map_map, List.map_map]
  apply List.map_congr_left
  intro kv hkv
  simp only [Function.comp_def]
  rw [hd_restamp tx e kv.2.1 (h.edgesSing kv hkv)]

theorem storeOK_finalize (s : Store) (tx e : Nat) (h : StoreOK s) : StoreOK (s.finalize tx e) := by
  have hkn : keys (s.finalize tx e).nodes = keys s.nodes := by
    show keys (s.nodes.map _) = _
    simp [keys, List.map_map, Function.comp_def]
  have hke : keys (s.finalize tx e).edges = keys s.edges := by
    show keys (s.edges.map _) = _
    simp [keys, List.map_map, Function.comp_def]
  refine ⟨by unfold NodupKeys; rw [hkn]; exact h.nodesNodup, ?_, ?_, by unfold NodupKeys; rw [hke]; exact h.edgesNodup,
    ?_, ?_, h.nprops, h.eprops, h.labelsLt, h.mirror, h.idxNodup, ?_, h.fwdNodup⟩
  · intro kv hkv
    obtain ⟨kv0, h0, rfl⟩ := List.mem_map.mp (show kv ∈ s.nodes.map _ from hkv)
    exact h.nodesLt kv0 h0
  · intro kv hkv
    obtain ⟨kv0, h0, rfl⟩ := List.mem_map.mp (show kv ∈ s.nodes.map _ from hkv)
    simp only
    rw [h.nodesSing kv0 h0, restamp_single]; rfl
  · intro kv hkv
    obtain ⟨kv0, h0, rfl⟩ := List.mem_map.mp (show kv ∈ s.edges.map _ from hkv)
    exact h.edgesLt kv0 h0
  · intro kv hkv
    obtain ⟨kv0, h0, rfl⟩ := List.mem_map.mp (show kv ∈ s.edges.map _ from hkv)
    simp only
    rw [h.edgesSing kv0 h0, restamp_single]; rfl
  · intro n d ed
    show (d, ed) ∈ s.outEdges n ↔ ∃ c ty, (ed, (c, (⟨n, d, ty⟩ : EdgeRec))) ∈ s.edges.map _
    rw [h.fwdIff]
    constructor
    · rintro ⟨c, ty, hm⟩
      exact ⟨restamp tx e c, ty, List.mem_map.mpr ⟨_, hm, rfl⟩⟩
    · rintro ⟨c, ty, hm⟩
      obtain ⟨kv0, h0, he⟩ := List.mem_map.mp hm
      obtain ⟨k0, c0, r0⟩ := kv0
      simp only [Prod.mk.injEq] at he
      obtain ⟨rfl, -, rfl⟩ := he
      exact ⟨c0, ty, h0⟩


/-! #### `discard` -/

def discardStep (st : Store) (kv : Nat × List Ver × EdgeRec) : Store :=
  { st with fwd := adjDel st.fwd kv.2.2.src kv.1,
            bwd := if st.hasBwd then adjDel st.bwd kv.2.2.dst kv.1 else st.bwd,
            eprops := aerase st.eprops kv.1 }

def goneEdges (s : Store) (tx : Nat) : AList (List Ver × EdgeRec) :=
  s.edges.filter (fun kv => kv.2.1.any (fun v => v.owner == tx) && kv.2.1.all (fun v => v.owner == tx))

theorem discard_eq (s : Store) (tx : Nat) :
    s.discard tx =
      { (goneEdges s tx).foldl discardStep s with
        nodes := (s.nodes.map (fun kv => (kv.1, kv.2.filter (fun v => v.owner != tx)))).filter (fun kv => !kv.2.isEmpty),
        edges := (s.edges.map (fun kv => (kv.1, (kv.2.1.filter (fun v => v.owner != tx), kv.2.2)))).filter (fun kv => !kv.2.1.isEmpty) } := rfl

theorem discardFold_fields (g : AList (List Ver × EdgeRec)) (s : Store) :
    (g.foldl discardStep s).nextNode = s.nextNode ∧ (g.foldl discardStep s).nextEdge = s.nextEdge ∧
    (g.foldl discardStep s).nodeLabels = s.nodeLabels ∧ (g.foldl discardStep s).labelIdx = s.labelIdx ∧
    (g.foldl discardStep s).nprops = s.nprops ∧ (s.eprops = [] → (g.foldl discardStep s).eprops = []) ∧
    (g.foldl discardStep s).fwd = g.foldl (fun a kv => adjDel a kv.2.2.src kv.1) s.fwd := by
  induction g generalizing s with
  | nil => simp
  | cons kv rest ih =>
    simp only [List.foldl_cons]
    obtain ⟨a, b, c, d, e, f, g'⟩ := ih (discardStep s kv)
    refine ⟨a, b, c, d, e, ?_, g'⟩
    intro h0
    apply f
    show aerase s.eprops kv.1 = []
    rw [h0]; rfl

theorem adjDel_get (a : AList (List (Nat × Nat))) (k e n : Nat) :
    (aget (adjDel a k e) n).getD [] =
      if n = k then ((aget a n).getD []).filter (fun p => p.2 != e) else (aget a n).getD [] := by
  unfold adjDel
  cases h : aget a k with
  | none =>
    simp only
    by_cases e' : n = k
    · subst e'; simp [h]
    · simp [e']
  | some l =>
    simp only
    rw [aget_aset]
    by_cases e' : n = k
    · subst e'; simp [h]
    · simp [e']

theorem adjDelAll_mem (g : AList (List Ver × EdgeRec)) (a : AList (List (Nat × Nat))) (n : Nat) (p : Nat × Nat) :
    p ∈ (aget (g.foldl (fun a kv => adjDel a kv.2.2.src kv.1) a) n).getD [] ↔
      p ∈ (aget a n).getD [] ∧ ∀ kv ∈ g, ¬ (kv.2.2.src = n ∧ kv.1 = p.2) := by
  induction g generalizing a with
  | nil => simp
  | cons kv rest ih =>
    simp only [List.foldl_cons]
    rw [ih, adjDel_get]
    by_cases e' : n = kv.2.2.src
    · simp only [e', if_true, List.mem_filter, bne_iff_ne, ne_eq, List.mem_cons, forall_eq_or_imp, true_and]
      constructor
      · rintro ⟨⟨h1, h2⟩, h3⟩; exact ⟨h1, fun e => h2 e.symm, h3⟩
      · rintro ⟨h1, h2, h3⟩; exact ⟨⟨h1, fun e => h2 e.symm⟩, h3⟩
    · have e'' : ¬ kv.2.2.src = n := fun x => e' x.symm
      simp only [e', if_false, List.mem_cons, forall_eq_or_imp, e'', false_and, not_false_eq_true, true_and]

theorem adjDelAll_sublist (g : AList (List Ver × EdgeRec)) (a : AList (List (Nat × Nat))) (n : Nat) :
    ((aget (g.foldl (fun a kv => adjDel a kv.2.2.src kv.1) a) n).getD []).Sublist ((aget a n).getD []) := by
  induction g generalizing a with
  | nil => exact List.Sublist.refl _
  | cons kv rest ih =>
    simp only [List.foldl_cons]
    refine List.Sublist.trans (ih _) ?_
    rw [adjDel_get]
    split
    · exact List.filter_sublist
    · exact List.Sublist.refl _

theorem discard_nodes_eq (l : AList (List Ver)) (tx : Nat) (hs : ∀ kv ∈ l, kv.2 = [hd kv.2]) :
    (l.map (fun kv => (kv.1, kv.2.filter (fun v => v.owner != tx)))).filter (fun kv => !kv.2.isEmpty) =
      l.filter (fun kv => (hd kv.2).owner != tx) := by
  induction l with
  | nil => rfl
  | cons kv rest ih =>
    have h0 := hs kv (by simp)
    have ih' := ih (fun x hx => hs x (List.mem_cons_of_mem _ hx))
    obtain ⟨k, c⟩ := kv
    simp only at h0
    obtain ⟨v, rfl⟩ : ∃ v, c = [v] := ⟨_, h0⟩
    simp only [List.map_cons, List.filter_cons, hd_single]
    by_cases e : v.owner = tx
    · simp only [e, bne_self_eq_false, Bool.false_eq_true, if_false, List.isEmpty_nil, Bool.not_true]
      exact ih'
    · have : (v.owner != tx) = true := by simp [e]
      simp only [this, if_true, List.isEmpty_cons, Bool.not_false, List.filter_nil]
      rw [ih']

theorem discard_edges_eq (l : AList (List Ver × EdgeRec)) (tx : Nat) (hs : ∀ kv ∈ l, kv.2.1 = [hd kv.2.1]) :
    (l.map (fun kv => (kv.1, (kv.2.1.filter (fun v => v.owner != tx), kv.2.2)))).filter (fun kv => !kv.2.1.isEmpty) =
      l.filter (fun kv => (hd kv.2.1).owner != tx) := by
  induction l with
  | nil => rfl
  | cons kv rest ih =>
    have h0 := hs kv (by simp)
    have ih' := ih (fun x hx => hs x (List.mem_cons_of_mem _ hx))
    obtain ⟨k, c, r⟩ := kv
    simp only at h0
    obtain ⟨v, rfl⟩ : ∃ v, c = [v] := ⟨_, h0⟩
    simp only [List.map_cons, List.filter_cons, hd_single]
    by_cases e : v.owner = tx
    · simp only [e, bne_self_eq_false, Bool.false_eq_true, if_false, List.isEmpty_nil, Bool.not_true]
      exact ih'
    · have : (v.owner != tx) = true := by simp [e]
      simp only [this, if_true, List.isEmpty_cons, Bool.not_false, List.filter_nil]
      rw [ih']

theorem discard_nodes (s : Store) (tx : Nat) (h : StoreOK s) :
    (s.discard tx).nodes = s.nodes.filter (fun kv => (hd kv.2).owner != tx) := by
  rw [discard_eq]; exact discard_nodes_eq s.nodes tx h.nodesSing

theorem discard_edges (s : Store) (tx : Nat) (h : StoreOK s) :
    (s.discard tx).edges = s.edges.filter (fun kv => (hd kv.2.1).owner != tx) := by
  rw [discard_eq]; exact discard_edges_eq s.edges tx h.edgesSing

theorem discard_labelsOf (s : Store) (tx id : Nat) : (s.discard tx).nodeLabelsOf id = s.nodeLabelsOf id := by
  rw [discard_eq]
  show (aget ((goneEdges s tx).foldl discardStep s).nodeLabels id).getD [] = _
  rw [(discardFold_fields _ s).2.2.1]; rfl

theorem discard_propsOf (s : Store) (tx id : Nat) : (s.discard tx).nodePropsOf id = s.nodePropsOf id := by
  rw [discard_eq]
  show (aget ((goneEdges s tx).foldl discardStep s).nprops id).getD [] = _
  rw [(discardFold_fields _ s).2.2.2.2.1]; rfl

theorem nodeEnts_discard (s : Store) (tx : Nat) (h : StoreOK s) :
    nodeEnts (s.discard tx) = (nodeEnts s).filter (fun x => x.2.1.owner != tx) := by
  unfold nodeEnts
  rw [discard_nodes s tx h, List.filter_map]
  apply List.map_congr_left
  intro kv _
  rw [discard_labelsOf, discard_propsOf]

theorem edgeEnts_discard (s : Store) (tx : Nat) (h : StoreOK s) :
    edgeEnts (s.discard tx) = (edgeEnts s).filter (fun x => x.2.1.owner != tx) := by
  unfold edgeEnts
  rw [discard_edges s tx h, List.filter_map]
  rfl

theorem mem_goneEdges {s : Store} (h : StoreOK s) (tx : Nat) (kv : Nat × List Ver × EdgeRec) :
    kv ∈ goneEdges s tx ↔ kv ∈ s.edges ∧ (hd kv.2.1).owner = tx := by
  unfold goneEdges
  rw [List.mem_filter]
  constructor
  · rintro ⟨hm, hp⟩
    refine ⟨hm, ?_⟩
    have hs := h.edgesSing kv hm
    rw [hs] at hp
    simpa using hp
  · rintro ⟨hm, ho⟩
    refine ⟨hm, ?_⟩
    have hs := h.edgesSing kv hm
    rw [hs]
    simp [ho]

theorem discard_outEdges_mem (s : Store) (tx n : Nat) (p : Nat × Nat) :
    p ∈ (s.discard tx).outEdges n ↔ p ∈ s.outEdges n ∧ ∀ kv ∈ goneEdges s tx, ¬ (kv.2.2.src = n ∧ kv.1 = p.2) := by
  rw [discard_eq]
  show p ∈ (aget ((goneEdges s tx).foldl discardStep s).fwd n).getD [] ↔ _
  rw [(discardFold_fields _ s).2.2.2.2.2.2]
  exact adjDelAll_mem _ _ _ _

theorem storeOK_discard (s : Store) (tx : Nat) (h : StoreOK s) : StoreOK (s.discard tx) := by
  have hn := discard_nodes s tx h
  have he := discard_edges s tx h
  have hf := discardFold_fields (goneEdges s tx) s
  refine ⟨?_, ?_, ?_, ?_, ?_, ?_, ?_, ?_, ?_, ?_, ?_, ?_, ?_⟩
  · rw [hn]; exact nodupKeys_filter _ h.nodesNodup
  · rw [hn]
    intro kv hkv
    have := h.nodesLt kv (List.mem_filter.mp hkv).1
    rw [discard_eq]; show kv.1 < ((goneEdges s tx).foldl discardStep s).nextNode
    rw [hf.1]; exact this
  · rw [hn]; intro kv hkv; exact h.nodesSing kv (List.mem_filter.mp hkv).1
  · rw [he]; exact nodupKeys_filter _ h.edgesNodup
  · rw [he]
    intro kv hkv
    have := h.edgesLt kv (List.mem_filter.mp hkv).1
    rw [discard_eq]; show kv.1 < ((goneEdges s tx).foldl discardStep s).nextEdge
    rw [hf.2.1]; exact this
  · rw [he]; intro kv hkv; exact h.edgesSing kv (List.mem_filter.mp hkv).1
  · rw [discard_eq]; show ((goneEdges s tx).foldl discardStep s).nprops = []
    rw [hf.2.2.2.2.1]; exact h.nprops
  · rw [discard_eq]; show ((goneEdges s tx).foldl discardStep s).eprops = []
    exact hf.2.2.2.2.2.1 h.eprops
  · intro id hid
    rw [discard_labelsOf]
    apply h.labelsLt
    have : (s.discard tx).nextNode = s.nextNode := by
      rw [discard_eq]; exact hf.1
    rw [this] at hid; exact hid
  · intro l id
    have h1 : inIdx (s.discard tx).labelIdx l id ↔ inIdx s.labelIdx l id := by
      rw [discard_eq]; show inIdx ((goneEdges s tx).foldl discardStep s).labelIdx l id ↔ _
      rw [hf.2.2.2.1]
    have h2 : hasLabel (s.discard tx) id l ↔ hasLabel s id l := by
      unfold hasLabel; rw [discard_labelsOf]
    rw [h1, h2]; exact h.mirror l id
  · intro l
    have : (s.discard tx).nodesByLabel l = s.nodesByLabel l := by
      rw [discard_eq]; show (aget ((goneEdges s tx).foldl discardStep s).labelIdx l).getD [] = _
      rw [hf.2.2.2.1]; rfl
    rw [this]; exact h.idxNodup l
  · intro n d e
    rw [discard_outEdges_mem, h.fwdIff, he]
    constructor
    · rintro ⟨⟨c, ty, hm⟩, hng⟩
      refine ⟨c, ty, List.mem_filter.mpr ⟨hm, ?_⟩⟩
      simp only [bne_iff_ne, ne_eq]
      intro ho
      exact hng (e, (c, ⟨n, d, ty⟩)) ((mem_goneEdges h tx _).mpr ⟨hm, ho⟩) ⟨rfl, rfl⟩
    · rintro ⟨c, ty, hm⟩
      obtain ⟨hm1, hp⟩ := List.mem_filter.mp hm
      simp only [bne_iff_ne, ne_eq] at hp
      refine ⟨⟨c, ty, hm1⟩, ?_⟩
      rintro kv hkv ⟨_, hk⟩
      obtain ⟨hkm, hko⟩ := (mem_goneEdges h tx kv).mp hkv
      obtain ⟨k0, c0, r0⟩ := kv
      simp only at hk hko
      subst hk
      have := nodupKeys_unique h.edgesNodup hkm hm1
      injection this with hc _
      subst hc
      exact hp hko
  · intro n
    have hsub : ((s.discard tx).outEdges n).Sublist (s.outEdges n) := by
      rw [discard_eq]; show ((aget ((goneEdges s tx).foldl discardStep s).fwd n).getD []).Sublist _
      rw [hf.2.2.2.2.2.2]
      exact adjDelAll_sublist _ _ _
    exact List.Nodup.sublist (List.Sublist.map _ hsub) (h.fwdNodup n)


/-! ### 3. the table relation -/

theorem txIdOf_ne_system (slot : Nat) : txIdOf slot ≠ systemTx := by
  unfold txIdOf systemTx TxMgr.firstTxId Generated.firstTxId; omega

theorem txIdOf_inj {a b : Nat} (h : txIdOf a = txIdOf b) : a = b := by
  unfold txIdOf at h; omega

/-- a version that belongs to the committed state: stamped at or below the manager's epoch, and not
owned by a transaction that is open in some session -/
def Committed (m : Mgr) (cur : Nat → Option Nat) (v : Ver) : Prop :=
  v.created ≤ m.epoch ∧ ∀ k slot, cur k = some slot → v.owner ≠ txIdOf slot

/-- a version created by the transaction that is open in some session -/
def PendingOf (cur : Nat → Option Nat) (v : Ver) : Prop :=
  v.created = pendingEpoch ∧ ∃ k slot, cur k = some slot ∧ v.owner = txIdOf slot

/-- what the session layer guarantees about the manager: a session's transaction is active, has
recorded nothing, began at or below the current epoch; two sessions never share a transaction -/
structure MgrOK (m : Mgr) (cur : Nat → Option Nat) : Prop where
  active : ∀ k slot, cur k = some slot →
    ∃ t, m.get slot = some t ∧ t.state = .active ∧ t.wset = [] ∧ t.rset = [] ∧ t.start ≤ m.epoch
  inj : ∀ k k' slot, cur k = some slot → cur k' = some slot → k = k'

theorem MgrOK.lt {m : Mgr} {cur : Nat → Option Nat} (h : MgrOK m cur) {k slot : Nat} (hk : cur k = some slot) :
    slot < m.slots.length := by
  obtain ⟨t, ht, _⟩ := h.active k slot hk
  exact get_lt ht

/-- the relation between one entity table of the store (`ents`), and the oracle's tables of the same
kind: `com` (committed graph), and for every session with an open transaction `ot k = (snapshot,
own creations)`. -/
structure TabRel {π : Type} (m : Mgr) (cur : Nat → Option Nat) (ents : AList (Ver × π)) (com : AList π)
    (ot : Nat → Option (AList π × AList π)) : Prop where
  nodupE : NodupKeys ents
  status : ∀ id v p, (id, v, p) ∈ ents → v.deleted = none ∧
    (v.owner = systemTx ∨ ∃ j, v.owner = txIdOf j ∧ j < m.slots.length) ∧
    (Committed m cur v ∨ PendingOf cur v)
  nodupC : NodupKeys com
  comIff : ∀ id p, (id, p) ∈ com ↔ ∃ v, (id, v, p) ∈ ents ∧ Committed m cur v
  open_ : ∀ k slot t sn wr, cur k = some slot → m.get slot = some t → ot k = some (sn, wr) →
    NodupKeys sn ∧ NodupKeys wr ∧
    (∀ id p, (id, p) ∈ sn ↔ ∃ v, (id, v, p) ∈ ents ∧ Committed m cur v ∧ v.created ≤ t.start) ∧
    (∀ id p, (id, p) ∈ wr ↔ ∃ v, (id, v, p) ∈ ents ∧ v.owner = txIdOf slot)

theorem not_committed_of_pending {m : Mgr} {cur : Nat → Option Nat} {v : Ver} (h : PendingOf cur v) :
    ¬ Committed m cur v := by
  rintro ⟨_, h2⟩
  obtain ⟨_, k, slot, hk, ho⟩ := h
  exact h2 k slot hk ho

theorem tabRel_empty {π : Type} (m : Mgr) : TabRel (π := π) m (fun _ => none) [] [] (fun _ => none) := by
  refine ⟨by simp [NodupKeys, keys], by simp, by simp [NodupKeys, keys], by simp, ?_⟩
  intro k slot t sn wr h; simp at h

/-- the manager's epoch moves forward (auto-commit write) -/
theorem tabRel_bump {π : Type} {m : Mgr} {cur : Nat → Option Nat} {ents : AList (Ver × π)} {com : AList π}
    {ot : Nat → Option (AList π × AList π)} (h : TabRel m cur ents com ot) (e' : Nat) (he : m.epoch ≤ e') :
    TabRel { m with epoch := e' } cur ents com ot := by
  have hc : ∀ id v p, (id, v, p) ∈ ents → (Committed { m with epoch := e' } cur v ↔ Committed m cur v) := by
    intro id v p hm
    constructor
    · intro hc'
      rcases (h.status id v p hm).2.2 with a | a
      · exact a
      · exact absurd hc' (not_committed_of_pending a)
    · rintro ⟨a, b⟩; exact ⟨Nat.le_trans a he, b⟩
  refine ⟨h.nodupE, ?_, h.nodupC, ?_, ?_⟩
  · intro id v p hm
    obtain ⟨a, b, c⟩ := h.status id v p hm
    refine ⟨a, b, ?_⟩
    rcases c with c | c
    · exact Or.inl ((hc id v p hm).mpr c)
    · exact Or.inr c
  · intro id p
    rw [h.comIff]
    constructor
    · rintro ⟨v, hm, hcv⟩; exact ⟨v, hm, (hc id v p hm).mpr hcv⟩
    · rintro ⟨v, hm, hcv⟩; exact ⟨v, hm, (hc id v p hm).mp hcv⟩
  · intro k slot t sn wr hk hg hot
    obtain ⟨a, b, c, d⟩ := h.open_ k slot t sn wr hk hg hot
    refine ⟨a, b, ?_, d⟩
    intro id p
    rw [c]
    constructor
    · rintro ⟨v, hm, hcv, hs⟩; exact ⟨v, hm, (hc id v p hm).mpr hcv, hs⟩
    · rintro ⟨v, hm, hcv, hs⟩; exact ⟨v, hm, (hc id v p hm).mp hcv, hs⟩

theorem mem_append_single {α : Type} {l : List α} {x y : α} : y ∈ l ++ [x] ↔ y ∈ l ∨ y = x := by simp

/-- an entity stamped with the current epoch by SYSTEM appears (auto-commit creation); every open
transaction began strictly below that epoch -/
theorem tabRel_addCommitted {π : Type} {m : Mgr} {cur : Nat → Option Nat} {ents : AList (Ver × π)} {com : AList π}
    {ot : Nat → Option (AList π × AList π)} (h : TabRel m cur ents com ot) (id : Nat) (p : π)
    (hfresh : id ∉ keys ents)
    (hstart : ∀ k slot t, cur k = some slot → m.get slot = some t → t.start < m.epoch) :
    TabRel m cur (ents ++ [(id, ⟨m.epoch, systemTx, none⟩, p)]) (com ++ [(id, p)]) ot := by
  have hnew : Committed m cur ⟨m.epoch, systemTx, none⟩ :=
    ⟨Nat.le_refl _, fun k slot _ e => txIdOf_ne_system slot e.symm⟩
  have hfc : id ∉ keys com := by
    intro hk
    obtain ⟨p', hp'⟩ := mem_keys.mp hk
    obtain ⟨v, hm, _⟩ := (h.comIff id p').mp hp'
    exact hfresh (mem_keys_of_mem hm)
  refine ⟨nodupKeys_append_single h.nodupE hfresh, ?_, nodupKeys_append_single h.nodupC hfc, ?_, ?_⟩
  · intro id' v p' hm
    rcases mem_append_single.mp hm with a | a
    · exact h.status id' v p' a
    · injection a with _ a; injection a with a _; subst a
      exact ⟨rfl, Or.inl rfl, Or.inl hnew⟩
  · intro id' p'
    simp only [mem_append_single]
    rw [h.comIff]
    constructor
    · rintro (⟨v, hm, hc⟩ | a)
      · exact ⟨v, Or.inl hm, hc⟩
      · injection a with a b; subst a; subst b
        exact ⟨_, Or.inr rfl, hnew⟩
    · rintro ⟨v, hm | a, hc⟩
      · exact Or.inl ⟨v, hm, hc⟩
      · injection a with a b; injection b with b c; subst a; subst c
        exact Or.inr rfl
  · intro k slot t sn wr hk hg hot
    obtain ⟨a, b, c, d⟩ := h.open_ k slot t sn wr hk hg hot
    refine ⟨a, b, ?_, ?_⟩
    · intro id' p'
      rw [c]
      constructor
      · rintro ⟨v, hm, hc⟩; exact ⟨v, mem_append_single.mpr (Or.inl hm), hc⟩
      · rintro ⟨v, hm, hc, hs⟩
        rcases mem_append_single.mp hm with x | x
        · exact ⟨v, x, hc, hs⟩
        · injection x with _ x; injection x with x _; subst x
          have := hstart k slot t hk hg
          simp only at hs
          omega
    · intro id' p'
      rw [d]
      constructor
      · rintro ⟨v, hm, hc⟩; exact ⟨v, mem_append_single.mpr (Or.inl hm), hc⟩
      · rintro ⟨v, hm, ho⟩
        rcases mem_append_single.mp hm with x | x
        · exact ⟨v, x, ho⟩
        · injection x with _ x; injection x with x _; subst x
          exact absurd ho.symm (txIdOf_ne_system slot)

/-- an entity created inside the open transaction of session `k` appears -/
theorem tabRel_addPending {π : Type} {m : Mgr} {cur : Nat → Option Nat} {ents : AList (Ver × π)} {com : AList π}
    {ot ot' : Nat → Option (AList π × AList π)} (h : TabRel m cur ents com ot) (hm : MgrOK m cur)
    (id : Nat) (p : π) (hfresh : id ∉ keys ents) (k slot : Nat) (sn wr : AList π)
    (hk : cur k = some slot) (hot : ot k = some (sn, wr))
    (hot' : ∀ k', ot' k' = if k' = k then some (sn, wr ++ [(id, p)]) else ot k') :
    TabRel m cur (ents ++ [(id, ⟨pendingEpoch, txIdOf slot, none⟩, p)]) com ot' := by
  have hnew : PendingOf cur ⟨pendingEpoch, txIdOf slot, none⟩ := ⟨rfl, k, slot, hk, rfl⟩
  refine ⟨nodupKeys_append_single h.nodupE hfresh, ?_, h.nodupC, ?_, ?_⟩
  · intro id' v p' hmem
    rcases mem_append_single.mp hmem with a | a
    · exact h.status id' v p' a
    · injection a with _ a; injection a with a _; subst a
      exact ⟨rfl, Or.inr ⟨slot, rfl, hm.lt hk⟩, Or.inr hnew⟩
  · intro id' p'
    rw [h.comIff]
    constructor
    · rintro ⟨v, hmem, hc⟩; exact ⟨v, mem_append_single.mpr (Or.inl hmem), hc⟩
    · rintro ⟨v, hmem, hc⟩
      rcases mem_append_single.mp hmem with x | x
      · exact ⟨v, x, hc⟩
      · injection x with _ x; injection x with x _; subst x
        exact absurd hc (not_committed_of_pending hnew)
  · intro k' slot' t sn' wr' hk' hg hot1
    rw [hot'] at hot1
    by_cases e : k' = k
    · subst e
      rw [hk] at hk'; injection hk' with hk'; subst hk'
      simp only [if_true, Option.some.injEq, Prod.mk.injEq] at hot1
      obtain ⟨rfl, rfl⟩ := hot1
      obtain ⟨a, b, c, d⟩ := h.open_ k' slot t sn wr hk hg hot
      have hfw : id ∉ keys wr := by
        intro hx
        obtain ⟨p', hp'⟩ := mem_keys.mp hx
        obtain ⟨v, hv, _⟩ := (d id p').mp hp'
        exact hfresh (mem_keys_of_mem hv)
      refine ⟨a, nodupKeys_append_single b hfw, ?_, ?_⟩
      · intro id' p'
        rw [c]
        constructor
        · rintro ⟨v, hmem, hc⟩; exact ⟨v, mem_append_single.mpr (Or.inl hmem), hc⟩
        · rintro ⟨v, hmem, hc, hs⟩
          rcases mem_append_single.mp hmem with x | x
          · exact ⟨v, x, hc, hs⟩
          · injection x with _ x; injection x with x _; subst x
            exact absurd hc (not_committed_of_pending hnew)
      · intro id' p'
        simp only [mem_append_single]
        rw [d]
        constructor
        · rintro (⟨v, hmem, ho⟩ | x)
          · exact ⟨v, Or.inl hmem, ho⟩
          · injection x with x y; subst x; subst y
            exact ⟨_, Or.inr rfl, rfl⟩
        · rintro ⟨v, hmem | x, ho⟩
          · exact Or.inl ⟨v, hmem, ho⟩
          · injection x with x y; injection y with y z; subst x; subst z
            exact Or.inr rfl
    · simp only [e, if_false] at hot1
      obtain ⟨a, b, c, d⟩ := h.open_ k' slot' t sn' wr' hk' hg hot1
      refine ⟨a, b, ?_, ?_⟩
      · intro id' p'
        rw [c]
        constructor
        · rintro ⟨v, hmem, hc⟩; exact ⟨v, mem_append_single.mpr (Or.inl hmem), hc⟩
        · rintro ⟨v, hmem, hc, hs⟩
          rcases mem_append_single.mp hmem with x | x
          · exact ⟨v, x, hc, hs⟩
          · injection x with _ x; injection x with x _; subst x
            exact absurd hc (not_committed_of_pending hnew)
      · intro id' p'
        rw [d]
        constructor
        · rintro ⟨v, hmem, hc⟩; exact ⟨v, mem_append_single.mpr (Or.inl hmem), hc⟩
        · rintro ⟨v, hmem, ho⟩
          rcases mem_append_single.mp hmem with x | x
          · exact ⟨v, x, ho⟩
          · injection x with _ x; injection x with x _; subst x
            simp only at ho
            have := txIdOf_inj ho
            subst this
            exact absurd (hm.inj k' k slot hk' hk) e


/-- `begin` in a session that has no open transaction -/
theorem tabRel_begin {π : Type} {m : Mgr} {cur cur' : Nat → Option Nat} {ents : AList (Ver × π)} {com : AList π}
    {ot ot' : Nat → Option (AList π × AList π)} (h : TabRel m cur ents com ot) (hm : MgrOK m cur)
    (k : Nat) (iso : Iso) (hk : cur k = none)
    (hcur' : ∀ k', cur' k' = if k' = k then some m.slots.length else cur k')
    (hot' : ∀ k', ot' k' = if k' = k then some (com, []) else ot k') :
    TabRel (m.begin iso).1 cur' ents com ot' := by
  have hlen : (m.begin iso).1.slots.length = m.slots.length + 1 := by simp [Mgr.begin]
  have hget : ∀ j, (m.begin iso).1.get j =
      if j = m.slots.length then some ⟨.active, iso, m.epoch, [], [], none⟩ else m.get j := by
    intro j; exact get_append m.epoch m.slots _ j
  -- no existing version is owned by the new transaction
  have hown : ∀ id v p, (id, v, p) ∈ ents → v.owner ≠ txIdOf m.slots.length := by
    intro id v p hmem ho
    rcases (h.status id v p hmem).2.1 with a | ⟨j, a, b⟩
    · rw [a] at ho; exact txIdOf_ne_system _ ho.symm
    · rw [a] at ho; have := txIdOf_inj ho; omega
  have hc : ∀ id v p, (id, v, p) ∈ ents → (Committed (m.begin iso).1 cur' v ↔ Committed m cur v) := by
    intro id v p hmem
    constructor
    · rintro ⟨a, b⟩
      refine ⟨a, ?_⟩
      intro k' slot hk'
      have e : k' ≠ k := by intro e; subst e; rw [hk] at hk'; cases hk'
      exact b k' slot (by rw [hcur']; simp [e, hk'])
    · rintro ⟨a, b⟩
      refine ⟨a, ?_⟩
      intro k' slot hk'
      rw [hcur'] at hk'
      by_cases e : k' = k
      · simp only [e, if_true, Option.some.injEq] at hk'
        subst hk'
        exact hown id v p hmem
      · simp only [e, if_false] at hk'
        exact b k' slot hk'
  refine ⟨h.nodupE, ?_, h.nodupC, ?_, ?_⟩
  · intro id v p hmem
    obtain ⟨a, b, c⟩ := h.status id v p hmem
    refine ⟨a, ?_, ?_⟩
    · rcases b with b | ⟨j, b1, b2⟩
      · exact Or.inl b
      · exact Or.inr ⟨j, b1, by rw [hlen]; omega⟩
    · rcases c with c | ⟨c1, k2, s2, hk2, ho2⟩
      · exact Or.inl ((hc id v p hmem).mpr c)
      · refine Or.inr ⟨c1, k2, s2, ?_, ho2⟩
        have e : k2 ≠ k := by intro e; subst e; rw [hk] at hk2; cases hk2
        rw [hcur']; simp [e, hk2]
  · intro id p
    rw [h.comIff]
    constructor
    · rintro ⟨v, hmem, hcv⟩; exact ⟨v, hmem, (hc id v p hmem).mpr hcv⟩
    · rintro ⟨v, hmem, hcv⟩; exact ⟨v, hmem, (hc id v p hmem).mp hcv⟩
  · intro k' slot t sn wr hk' hg hot1
    rw [hcur'] at hk'
    rw [hot'] at hot1
    rw [hget] at hg
    by_cases e : k' = k
    · simp only [e, if_true, Option.some.injEq] at hk' hot1
      subst hk'
      simp only [if_true, Option.some.injEq] at hg
      subst hg
      simp only [Prod.mk.injEq] at hot1
      obtain ⟨rfl, rfl⟩ := hot1
      refine ⟨h.nodupC, by simp [NodupKeys, keys], ?_, ?_⟩
      · intro id p
        rw [h.comIff]
        constructor
        · rintro ⟨v, hmem, hcv⟩; exact ⟨v, hmem, (hc id v p hmem).mpr hcv, hcv.1⟩
        · rintro ⟨v, hmem, hcv, _⟩; exact ⟨v, hmem, (hc id v p hmem).mp hcv⟩
      · intro id p
        constructor
        · intro x; cases x
        · rintro ⟨v, hmem, ho⟩; exact absurd ho (hown id v p hmem)
    · simp only [e, if_false] at hk' hot1
      have hne : slot ≠ m.slots.length := by have := hm.lt hk'; omega
      simp only [hne, if_false] at hg
      obtain ⟨a, b, c, d⟩ := h.open_ k' slot t sn wr hk' hg hot1
      refine ⟨a, b, ?_, d⟩
      intro id p
      rw [c]
      constructor
      · rintro ⟨v, hmem, hcv, hs⟩; exact ⟨v, hmem, (hc id v p hmem).mpr hcv, hs⟩
      · rintro ⟨v, hmem, hcv, hs⟩; exact ⟨v, hmem, (hc id v p hmem).mp hcv, hs⟩


theorem mem_mapV {π : Type} (l : AList (Ver × π)) (g : Ver → Ver) (id : Nat) (v' : Ver) (p : π) :
    (id, v', p) ∈ l.map (fun x => (x.1, g x.2.1, x.2.2)) ↔ ∃ v, (id, v, p) ∈ l ∧ v' = g v := by
  rw [List.mem_map]
  constructor
  · rintro ⟨⟨i, v, q⟩, hmem, he⟩
    simp only [Prod.mk.injEq] at he
    obtain ⟨rfl, rfl, rfl⟩ := he
    exact ⟨v, hmem, rfl⟩
  · rintro ⟨v, hmem, rfl⟩
    exact ⟨(id, v, p), hmem, rfl⟩

/-- closing the transaction of session `k` (commit or rollback): for versions of other owners,
"committed" means the same before and after -/
theorem committed_close {π : Type} {m m' : Mgr} {cur cur' : Nat → Option Nat} {ents : AList (Ver × π)} {com : AList π}
    {ot : Nat → Option (AList π × AList π)} (h : TabRel m cur ents com ot) (hm : MgrOK m cur)
    {k slot : Nat} (hk : cur k = some slot) (hcur' : ∀ k', cur' k' = if k' = k then none else cur k')
    (he : m.epoch ≤ m'.epoch) {id : Nat} {v : Ver} {p : π} (hmem : (id, v, p) ∈ ents) (hno : v.owner ≠ txIdOf slot) :
    Committed m' cur' v ↔ Committed m cur v := by
  constructor
  · intro hc'
    rcases (h.status id v p hmem).2.2 with x | ⟨_, k2, s2, hk2, ho2⟩
    · exact x
    · have e : k2 ≠ k := by
        intro e; subst e; rw [hk] at hk2; injection hk2 with hk2; subst hk2; exact hno ho2
      exact absurd ho2 (hc'.2 k2 s2 (by rw [hcur']; simp [e, hk2]))
  · rintro ⟨a, b⟩
    refine ⟨Nat.le_trans a he, ?_⟩
    intro k' slot' hk'
    rw [hcur'] at hk'
    by_cases e : k' = k
    · simp [e] at hk'
    · simp only [e, if_false] at hk'
      exact b k' slot' hk'

theorem restampV_owner (tx e : Nat) (v : Ver) : (restampV tx e v).owner = v.owner := by
  unfold restampV; split <;> rfl

theorem restampV_deleted (tx e : Nat) (v : Ver) : (restampV tx e v).deleted = v.deleted := by
  unfold restampV; split <;> rfl

theorem restampV_other (tx e : Nat) (v : Ver) (h : v.owner ≠ tx) : restampV tx e v = v := by
  unfold restampV; simp [h]

theorem restampV_own (tx e : Nat) (v : Ver) (h : v.owner = tx) (hp : v.created = pendingEpoch) :
    (restampV tx e v).created = e := by
  unfold restampV; simp [h, hp]

/-- `commit` of the (active) transaction of session `k`: its pending versions are stamped with the new
epoch, the oracle appends its creations to the committed table -/
theorem tabRel_commit {π : Type} {m : Mgr} {cur cur' : Nat → Option Nat} {ents : AList (Ver × π)} {com : AList π}
    {ot ot' : Nat → Option (AList π × AList π)} (h : TabRel m cur ents com ot) (hm : MgrOK m cur)
    (k slot : Nat) (t t' : Tx) (sn wr : AList π)
    (hk : cur k = some slot) (hg : m.get slot = some t) (hot : ot k = some (sn, wr))
    (hcur' : ∀ k', cur' k' = if k' = k then none else cur k')
    (hot' : ∀ k', ot' k' = if k' = k then none else ot k') :
    TabRel ⟨m.epoch + 1, m.slots.set slot (some t')⟩ cur'
      (ents.map (fun x => (x.1, restampV (txIdOf slot) (m.epoch + 1) x.2.1, x.2.2))) (com ++ wr) ot' := by
  obtain ⟨hsnN, hwrN, hsn, hwr⟩ := h.open_ k slot t sn wr hk hg hot
  -- own versions are pending
  have hpend : ∀ id v p, (id, v, p) ∈ ents → v.owner = txIdOf slot → v.created = pendingEpoch := by
    intro id v p hmem ho
    rcases (h.status id v p hmem).2.2 with x | x
    · exact absurd ho (x.2 k slot hk)
    · exact x.1
  have hF3 : ∀ id v p, (id, v, p) ∈ ents →
      (Committed ⟨m.epoch + 1, m.slots.set slot (some t')⟩ cur' (restampV (txIdOf slot) (m.epoch + 1) v) ↔
        (Committed m cur v ∨ v.owner = txIdOf slot)) := by
    intro id v p hmem
    by_cases ho : v.owner = txIdOf slot
    · simp only [ho, or_true, iff_true]
      refine ⟨?_, ?_⟩
      · rw [restampV_own _ _ v ho (hpend id v p hmem ho)]; exact Nat.le_refl _
      · intro k' slot' hk'
        rw [restampV_owner, ho]
        rw [hcur'] at hk'
        by_cases e : k' = k
        · simp [e] at hk'
        · simp only [e, if_false] at hk'
          intro e2
          have := txIdOf_inj e2
          subst this
          exact e (hm.inj k' k slot hk' hk)
    · rw [restampV_other _ _ v ho]
      simp only [ho, or_false]
      exact committed_close h hm hk hcur' (Nat.le_succ _) hmem ho
  have hdisj : ∀ id, id ∈ keys com → id ∉ keys wr := by
    intro id h1 h2
    obtain ⟨p1, hp1⟩ := mem_keys.mp h1
    obtain ⟨p2, hp2⟩ := mem_keys.mp h2
    obtain ⟨v1, hm1, hc1⟩ := (h.comIff id p1).mp hp1
    obtain ⟨v2, hm2, ho2⟩ := (hwr id p2).mp hp2
    have := nodupKeys_unique h.nodupE hm1 hm2
    injection this with hv _
    subst hv
    exact hc1.2 k slot hk ho2
  refine ⟨?_, ?_, nodupKeys_append h.nodupC hwrN hdisj, ?_, ?_⟩
  · have := nodupKeys_mapVal (fun x : Nat × Ver × π => (restampV (txIdOf slot) (m.epoch + 1) x.2.1, x.2.2)) h.nodupE
    exact this
  · intro id v' p hmem'
    obtain ⟨v, hmem, rfl⟩ := (mem_mapV _ _ _ _ _).mp hmem'
    obtain ⟨a, b, c⟩ := h.status id v p hmem
    refine ⟨by rw [restampV_deleted]; exact a, ?_, ?_⟩
    · rw [restampV_owner]
      rcases b with b | ⟨j, b1, b2⟩
      · exact Or.inl b
      · exact Or.inr ⟨j, b1, by simp only [List.length_set]; exact b2⟩
    · by_cases ho : v.owner = txIdOf slot
      · exact Or.inl ((hF3 id v p hmem).mpr (Or.inr ho))
      · rcases c with c | ⟨c1, k2, s2, hk2, ho2⟩
        · exact Or.inl ((hF3 id v p hmem).mpr (Or.inl c))
        · rw [restampV_other _ _ v ho]
          refine Or.inr ⟨c1, k2, s2, ?_, ho2⟩
          have e : k2 ≠ k := by
            intro e; subst e; rw [hk] at hk2; injection hk2 with hk2; subst hk2; exact ho ho2
          rw [hcur']; simp [e, hk2]
  · intro id p
    rw [List.mem_append, h.comIff, hwr]
    constructor
    · rintro (⟨v, hmem, hc⟩ | ⟨v, hmem, ho⟩)
      · exact ⟨_, (mem_mapV _ _ _ _ _).mpr ⟨v, hmem, rfl⟩, (hF3 id v p hmem).mpr (Or.inl hc)⟩
      · exact ⟨_, (mem_mapV _ _ _ _ _).mpr ⟨v, hmem, rfl⟩, (hF3 id v p hmem).mpr (Or.inr ho)⟩
    · rintro ⟨v', hmem', hc'⟩
      obtain ⟨v, hmem, rfl⟩ := (mem_mapV _ _ _ _ _).mp hmem'
      rcases (hF3 id v p hmem).mp hc' with x | x
      · exact Or.inl ⟨v, hmem, x⟩
      · exact Or.inr ⟨v, hmem, x⟩
  · intro k' slot' t'' sn' wr' hk' hg' hot1
    rw [hcur'] at hk'
    rw [hot'] at hot1
    by_cases e : k' = k
    · simp [e] at hk'
    · simp only [e, if_false] at hk' hot1
      have hne : slot ≠ slot' := by
        intro e2; subst e2; exact e (hm.inj k' k slot hk' hk)
      rw [get_set] at hg'
      simp only [hne, false_and, if_false] at hg'
      have hg'' : m.get slot' = some t'' := hg'
      obtain ⟨a, b, c, d⟩ := h.open_ k' slot' t'' sn' wr' hk' hg'' hot1
      obtain ⟨t3, ht3, _, _, _, hst⟩ := hm.active k' slot' hk'
      rw [hg''] at ht3; injection ht3 with ht3; subst ht3
      refine ⟨a, b, ?_, ?_⟩
      · intro id p
        rw [c]
        constructor
        · rintro ⟨v, hmem, hc, hs⟩
          have ho : v.owner ≠ txIdOf slot := hc.2 k slot hk
          refine ⟨_, (mem_mapV _ _ _ _ _).mpr ⟨v, hmem, rfl⟩, (hF3 id v p hmem).mpr (Or.inl hc), ?_⟩
          rw [restampV_other _ _ v ho]; exact hs
        · rintro ⟨v', hmem', hc', hs'⟩
          obtain ⟨v, hmem, rfl⟩ := (mem_mapV _ _ _ _ _).mp hmem'
          rcases (hF3 id v p hmem).mp hc' with x | x
          · have ho : v.owner ≠ txIdOf slot := x.2 k slot hk
            rw [restampV_other _ _ v ho] at hs'
            exact ⟨v, hmem, x, hs'⟩
          · rw [restampV_own _ _ v x (hpend id v p hmem x)] at hs'
            omega
      · intro id p
        rw [d]
        constructor
        · rintro ⟨v, hmem, ho⟩
          exact ⟨_, (mem_mapV _ _ _ _ _).mpr ⟨v, hmem, rfl⟩, by rw [restampV_owner]; exact ho⟩
        · rintro ⟨v', hmem', ho'⟩
          obtain ⟨v, hmem, rfl⟩ := (mem_mapV _ _ _ _ _).mp hmem'
          rw [restampV_owner] at ho'
          exact ⟨v, hmem, ho'⟩

/-- `rollback` of the transaction of session `k`: its versions disappear, the oracle forgets it -/
theorem tabRel_rollback {π : Type} {m : Mgr} {cur cur' : Nat → Option Nat} {ents : AList (Ver × π)} {com : AList π}
    {ot ot' : Nat → Option (AList π × AList π)} (h : TabRel m cur ents com ot) (hm : MgrOK m cur)
    (k slot : Nat) (t' : Tx)
    (hk : cur k = some slot)
    (hcur' : ∀ k', cur' k' = if k' = k then none else cur k')
    (hot' : ∀ k', ot' k' = if k' = k then none else ot k') :
    TabRel ⟨m.epoch, m.slots.set slot (some t')⟩ cur'
      (ents.filter (fun x => x.2.1.owner != txIdOf slot)) com ot' := by
  have hcc : ∀ id v p, (id, v, p) ∈ ents → v.owner ≠ txIdOf slot →
      (Committed ⟨m.epoch, m.slots.set slot (some t')⟩ cur' v ↔ Committed m cur v) :=
    fun id v p hmem hno => committed_close h hm hk hcur' (Nat.le_refl _) hmem hno
  have hmemF : ∀ id v p, (id, v, p) ∈ ents.filter (fun x => x.2.1.owner != txIdOf slot) ↔
      (id, v, p) ∈ ents ∧ v.owner ≠ txIdOf slot := by
    intro id v p; rw [List.mem_filter]; simp
  refine ⟨nodupKeys_filter _ h.nodupE, ?_, h.nodupC, ?_, ?_⟩
  · intro id v p hmem'
    obtain ⟨hmem, hno⟩ := (hmemF id v p).mp hmem'
    obtain ⟨a, b, c⟩ := h.status id v p hmem
    refine ⟨a, ?_, ?_⟩
    · rcases b with b | ⟨j, b1, b2⟩
      · exact Or.inl b
      · exact Or.inr ⟨j, b1, by simp only [List.length_set]; exact b2⟩
    · rcases c with c | ⟨c1, k2, s2, hk2, ho2⟩
      · exact Or.inl ((hcc id v p hmem hno).mpr c)
      · refine Or.inr ⟨c1, k2, s2, ?_, ho2⟩
        have e : k2 ≠ k := by
          intro e; subst e; rw [hk] at hk2; injection hk2 with hk2; subst hk2; exact hno ho2
        rw [hcur']; simp [e, hk2]
  · intro id p
    rw [h.comIff]
    constructor
    · rintro ⟨v, hmem, hc⟩
      have hno : v.owner ≠ txIdOf slot := hc.2 k slot hk
      exact ⟨v, (hmemF id v p).mpr ⟨hmem, hno⟩, (hcc id v p hmem hno).mpr hc⟩
    · rintro ⟨v, hmem', hc'⟩
      obtain ⟨hmem, hno⟩ := (hmemF id v p).mp hmem'
      exact ⟨v, hmem, (hcc id v p hmem hno).mp hc'⟩
  · intro k' slot' t'' sn' wr' hk' hg' hot1
    rw [hcur'] at hk'
    rw [hot'] at hot1
    by_cases e : k' = k
    · simp [e] at hk'
    · simp only [e, if_false] at hk' hot1
      have hne : slot ≠ slot' := by
        intro e2; subst e2; exact e (hm.inj k' k slot hk' hk)
      rw [get_set] at hg'
      simp only [hne, false_and, if_false] at hg'
      have hg'' : m.get slot' = some t'' := hg'
      obtain ⟨a, b, c, d⟩ := h.open_ k' slot' t'' sn' wr' hk' hg'' hot1
      refine ⟨a, b, ?_, ?_⟩
      · intro id p
        rw [c]
        constructor
        · rintro ⟨v, hmem, hc, hs⟩
          have hno : v.owner ≠ txIdOf slot := hc.2 k slot hk
          exact ⟨v, (hmemF id v p).mpr ⟨hmem, hno⟩, (hcc id v p hmem hno).mpr hc, hs⟩
        · rintro ⟨v, hmem', hc', hs⟩
          obtain ⟨hmem, hno⟩ := (hmemF id v p).mp hmem'
          exact ⟨v, hmem, (hcc id v p hmem hno).mp hc', hs⟩
      · intro id p
        rw [d]
        constructor
        · rintro ⟨v, hmem, ho⟩
          have hno : v.owner ≠ txIdOf slot := by
            rw [ho]; intro e2; exact hne (txIdOf_inj e2).symm
          exact ⟨v, (hmemF id v p).mpr ⟨hmem, hno⟩, ho⟩
        · rintro ⟨v, hmem', ho⟩
          exact ⟨v, ((hmemF id v p).mp hmem').1, ho⟩


theorem TabRel.congr_ot {π : Type} {m : Mgr} {cur : Nat → Option Nat} {ents : AList (Ver × π)} {com : AList π}
    {ot ot' : Nat → Option (AList π × AList π)} (h : TabRel m cur ents com ot) (he : ∀ k, ot' k = ot k) :
    TabRel m cur ents com ot' := by
  have : ot' = ot := funext he
  rw [this]; exact h

theorem TabRel.congr_cur {π : Type} {m : Mgr} {cur cur' : Nat → Option Nat} {ents : AList (Ver × π)} {com : AList π}
    {ot : Nat → Option (AList π × AList π)} (h : TabRel m cur ents com ot) (he : ∀ k, cur' k = cur k) :
    TabRel m cur' ents com ot := by
  have : cur' = cur := funext he
  rw [this]; exact h

/-- committed entities and an open transaction's own creations have different ids -/
theorem TabRel.com_wr_disjoint {π : Type} {m : Mgr} {cur : Nat → Option Nat} {ents : AList (Ver × π)} {com : AList π}
    {ot : Nat → Option (AList π × AList π)} (h : TabRel m cur ents com ot) {k slot : Nat} {t : Tx} {sn wr : AList π}
    (hk : cur k = some slot) (hg : m.get slot = some t) (hot : ot k = some (sn, wr)) :
    ∀ id, id ∈ keys wr → id ∉ keys com := by
  obtain ⟨_, _, _, hwr⟩ := h.open_ k slot t sn wr hk hg hot
  intro id h2 h1
  obtain ⟨p1, hp1⟩ := mem_keys.mp h1
  obtain ⟨p2, hp2⟩ := mem_keys.mp h2
  obtain ⟨v1, hm1, hc1⟩ := (h.comIff id p1).mp hp1
  obtain ⟨v2, hm2, ho2⟩ := (hwr id p2).mp hp2
  have := nodupKeys_unique h.nodupE hm1 hm2
  injection this with hv _
  subst hv
  exact hc1.2 k slot hk ho2

theorem TabRel.sn_wr_disjoint {π : Type} {m : Mgr} {cur : Nat → Option Nat} {ents : AList (Ver × π)} {com : AList π}
    {ot : Nat → Option (AList π × AList π)} (h : TabRel m cur ents com ot) {k slot : Nat} {t : Tx} {sn wr : AList π}
    (hk : cur k = some slot) (hg : m.get slot = some t) (hot : ot k = some (sn, wr)) :
    ∀ id, id ∈ keys wr → id ∉ keys sn := by
  obtain ⟨_, _, hsn, hwr⟩ := h.open_ k slot t sn wr hk hg hot
  intro id h2 h1
  obtain ⟨p1, hp1⟩ := mem_keys.mp h1
  obtain ⟨p2, hp2⟩ := mem_keys.mp h2
  obtain ⟨v1, hm1, hc1, _⟩ := (hsn id p1).mp hp1
  obtain ⟨v2, hm2, ho2⟩ := (hwr id p2).mp hp2
  have := nodupKeys_unique h.nodupE hm1 hm2
  injection this with hv _
  subst hv
  exact hc1.2 k slot hk ho2

theorem TabRel.fresh_com {π : Type} {m : Mgr} {cur : Nat → Option Nat} {ents : AList (Ver × π)} {com : AList π}
    {ot : Nat → Option (AList π × AList π)} (h : TabRel m cur ents com ot) {id : Nat} (hf : id ∉ keys ents) :
    id ∉ keys com := by
  intro hk
  obtain ⟨p', hp'⟩ := mem_keys.mp hk
  obtain ⟨v, hm, _⟩ := (h.comIff id p').mp hp'
  exact hf (mem_keys_of_mem hm)

/-- **what a session reads** (inside a transaction): the versions visible at the transaction's start
epoch to its id are exactly the snapshot plus its own creations -/
theorem TabRel.read_tx {π : Type} {m : Mgr} {cur : Nat → Option Nat} {ents : AList (Ver × π)} {com : AList π}
    {ot : Nat → Option (AList π × AList π)} (h : TabRel m cur ents com ot) (hm : MgrOK m cur)
    (hE : m.epoch < pendingEpoch) {k slot : Nat} {t : Tx} {sn wr : AList π}
    (hk : cur k = some slot) (hg : m.get slot = some t) (hot : ot k = some (sn, wr)) (id : Nat) (p : π) :
    (∃ v, (id, v, p) ∈ ents ∧ v.visibleTo t.start (txIdOf slot) = true) ↔ (id, p) ∈ sn ++ wr := by
  obtain ⟨_, _, hsn, hwr⟩ := h.open_ k slot t sn wr hk hg hot
  obtain ⟨t2, ht2, _, _, _, hst⟩ := hm.active k slot hk
  rw [hg] at ht2; injection ht2 with ht2; subst ht2
  rw [List.mem_append, hsn, hwr]
  constructor
  · rintro ⟨v, hmem, hv⟩
    obtain ⟨hdel, _, hst2⟩ := h.status id v p hmem
    unfold Ver.visibleTo Ver.visibleAt at hv
    by_cases ho : v.owner = txIdOf slot
    · exact Or.inr ⟨v, hmem, ho⟩
    · simp only [ho, if_false, hdel, Bool.and_true, decide_eq_true_eq] at hv
      rcases hst2 with x | x
      · exact Or.inl ⟨v, hmem, x, hv⟩
      · have := x.1; omega
  · rintro (⟨v, hmem, hc, hs⟩ | ⟨v, hmem, ho⟩)
    · refine ⟨v, hmem, ?_⟩
      obtain ⟨hdel, _, _⟩ := h.status id v p hmem
      unfold Ver.visibleTo Ver.visibleAt
      have ho : v.owner ≠ txIdOf slot := hc.2 k slot hk
      simp [ho, hdel, hs]
    · refine ⟨v, hmem, ?_⟩
      obtain ⟨hdel, _, _⟩ := h.status id v p hmem
      unfold Ver.visibleTo
      simp [ho, hdel]

/-- … and outside a transaction (current epoch, SYSTEM): exactly the committed table -/
theorem TabRel.read_auto {π : Type} {m : Mgr} {cur : Nat → Option Nat} {ents : AList (Ver × π)} {com : AList π}
    {ot : Nat → Option (AList π × AList π)} (h : TabRel m cur ents com ot)
    (hE : m.epoch < pendingEpoch) (id : Nat) (p : π) :
    (∃ v, (id, v, p) ∈ ents ∧ v.visibleTo m.epoch systemTx = true) ↔ (id, p) ∈ com := by
  rw [h.comIff]
  constructor
  · rintro ⟨v, hmem, hv⟩
    obtain ⟨hdel, _, hst2⟩ := h.status id v p hmem
    rcases hst2 with x | x
    · exact ⟨v, hmem, x⟩
    · exfalso
      obtain ⟨hc, k2, s2, _, ho2⟩ := x
      unfold Ver.visibleTo Ver.visibleAt at hv
      have ho : v.owner ≠ systemTx := by rw [ho2]; exact txIdOf_ne_system s2
      simp only [ho, if_false, hdel, Bool.and_true, decide_eq_true_eq] at hv
      omega
  · rintro ⟨v, hmem, hc⟩
    refine ⟨v, hmem, ?_⟩
    obtain ⟨hdel, _, _⟩ := h.status id v p hmem
    unfold Ver.visibleTo Ver.visibleAt
    by_cases ho : v.owner = systemTx
    · simp [ho, hdel]
    · simp [ho, hdel, hc.1]

/-! ### 4. the manager accepts every commit of the session layer -/

theorem anyOther_false (m : Mgr) (i : Nat) (p : Tx → Bool) (h : ∀ u, p u = false) : anyOther m i p = false := by
  unfold anyOther
  rw [List.any_eq_false]
  intro j _
  cases hg : m.get j with
  | none => simp
  | some u => simp [h u]

/-- **`Mgr.commit` of an active transaction with empty read and write sets succeeds** and moves the
epoch forward by one: neither conflict loop can find an intersection with an empty set, and the
serializable check is skipped for an empty read set. -/
theorem commit_ok_of_empty (m : Mgr) (i : Nat) (t : Tx) (hg : m.get i = some t) (ha : t.state = .active)
    (hw : t.wset = []) (hr : t.rset = []) :
    m.commit i = (⟨m.epoch + 1, m.slots.set i (some { t with state := .committed, cepoch := some (m.epoch + 1) })⟩,
                  .ok (m.epoch + 1)) := by
  have h1 : wwLoop1 m i t = false := by
    unfold wwLoop1; apply anyOther_false; intro u; simp [hw, intersects]
  have h2 : wwLoop2 m i t = false := by
    unfold wwLoop2; apply anyOther_false; intro u; simp [hw, intersects]
  unfold Mgr.commit
  rw [hg]
  simp [ha, h1, h2, hr]

theorem abort_ok (m : Mgr) (i : Nat) (t : Tx) (hg : m.get i = some t) (ha : t.state = .active) :
    m.abort i = ({ m with slots := m.slots.set i (some { t with state := .aborted }) }, true) := by
  unfold Mgr.abort
  rw [hg]
  simp [ha]

end Grafeo.SessSpec
