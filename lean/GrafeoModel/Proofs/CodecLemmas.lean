import GrafeoModel.Model.Codec
import Std.Tactic.BVDecide

/-! Helper lemmas for the codec models. Property theorems live in `Props/C15.lean`. -/

namespace Grafeo.Codec

/-! ### zig-zag -/

theorem zzDec_zzEnc (v : BitVec 64) : zzDec (zzEnc v) = v := by
  unfold zzDec zzEnc Generated.zigzagShift; bv_decide

theorem zzEnc_zzDec (v : BitVec 64) : zzEnc (zzDec v) = v := by
  unfold zzDec zzEnc Generated.zigzagShift; bv_decide

/-! ### little-endian bytes -/

theorem leBytes_length (k n : Nat) : (leBytes k n).length = k := by
  induction k generalizing n with
  | zero => rfl
  | succ k ih => simp [leBytes, ih]

theorem ofLe_leBytes (k n : Nat) (h : n < 256 ^ k) : ofLe (leBytes k n) = n := by
  induction k generalizing n with
  | zero => simp [leBytes, ofLe] at *; omega
  | succ k ih =>
    simp only [leBytes, ofLe]
    have : n / 256 < 256 ^ k := by
      rw [Nat.pow_succ] at h
      exact Nat.div_lt_of_lt_mul (by rw [Nat.mul_comm]; exact h)
    rw [ih _ this]; omega

theorem W_eq : W = 256 ^ 8 := by decide
theorem W_eq2 : W = 2 ^ 64 := by decide
theorem u32_eq : 4294967296 = 256 ^ 4 := by decide

theorem take_append_len {α} (a b : List α) (n : Nat) (h : a.length = n) : (a ++ b).take n = a := by
  subst h; simp

theorem drop_append_len {α} (a b : List α) (n : Nat) (h : a.length = n) : (a ++ b).drop n = b := by
  subst h; simp

theorem readWords_flatten (ws : List Nat) (rest : List Nat) (h : ∀ w ∈ ws, w < W) :
    readWords ws.length ((ws.map (leBytes 8)).flatten ++ rest) = some ws := by
  induction ws with
  | nil => simp [readWords]
  | cons w ws ih =>
    have hw : w < W := h w (by simp)
    have ih' := ih (fun x hx => h x (by simp [hx]))
    simp only [List.map_cons, List.flatten_cons, List.length_cons, readWords, List.append_assoc]
    have hl : (leBytes 8 w).length = 8 := leBytes_length 8 w
    rw [drop_append_len _ _ 8 hl, take_append_len _ _ 8 hl, ih']
    have hlen : ¬ ((leBytes 8 w ++ ((ws.map (leBytes 8)).flatten ++ rest)).length < 8) := by
      rw [List.length_append, hl]; omega
    simp only [if_neg hlen, ofLe_leBytes 8 w (by rw [← W_eq]; exact hw)]

/-! ### unsigned delta -/

theorem satDeltas_length (vs : List Nat) : (satDeltas vs).length = vs.length - 1 := by
  induction vs with
  | nil => rfl
  | cons a t ih =>
    cases t with
    | nil => rfl
    | cons b r => simp [satDeltas] at *; omega

/-- non-decreasing -/
def Sorted : List Nat → Prop
  | a :: b :: rest => a ≤ b ∧ Sorted (b :: rest)
  | _ => True

theorem wrapSums_satDeltas (a : Nat) (t : List Nat) (hs : Sorted (a :: t))
    (hb : ∀ v ∈ a :: t, v < W) : wrapSums a (satDeltas (a :: t)) = t := by
  induction t generalizing a with
  | nil => rfl
  | cons b r ih =>
    have hab : a ≤ b := hs.1
    have hbW : b < W := hb b (by simp)
    simp only [satDeltas, wrapSums]
    have e : (a + (b - a)) % W = b := by
      rw [Nat.add_sub_cancel' hab]; exact Nat.mod_eq_of_lt hbW
    rw [e, ih b hs.2 (fun v hv => hb v (List.mem_cons_of_mem _ hv))]

/-! ### signed delta -/

theorem sWrapSums_zzDeltas (a : BitVec 64) (t : List (BitVec 64)) :
    sWrapSums a (zzDeltas (a :: t)) = t := by
  induction t generalizing a with
  | nil => rfl
  | cons b r ih =>
    simp only [zzDeltas, sWrapSums, zzDec_zzEnc]
    have e : a + (b - a) = b := by bv_omega
    rw [e, ih b]

/-! ### bit packing: the digit argument -/

/-- value of the base-`2^b` digit string `vs` (digits reduced mod `2^b`). -/
def digits (b : Nat) : List Nat → Nat
  | [] => 0
  | v :: vs => v % 2 ^ b + 2 ^ b * digits b vs

theorem digits_lt (b : Nat) (vs : List Nat) : digits b vs < 2 ^ (b * vs.length) := by
  induction vs with
  | nil => simp [digits]
  | cons v vs ih =>
    simp only [digits, List.length_cons, Nat.mul_succ, Nat.pow_add]
    have h1 : v % 2 ^ b < 2 ^ b := Nat.mod_lt _ (Nat.two_pow_pos b)
    have h2 : 2 ^ b * digits b vs + 2 ^ b ≤ 2 ^ b * 2 ^ (b * vs.length) := by
      rw [← Nat.mul_succ]; exact Nat.mul_le_mul_left _ ih
    rw [Nat.mul_comm (2 ^ (b * vs.length))]; omega

theorem digits_slot (b : Nat) (vs : List Nat) (i : Nat) (h : i < vs.length) :
    digits b vs / 2 ^ (i * b) % 2 ^ b = vs[i] % 2 ^ b := by
  induction vs generalizing i with
  | nil => simp at h
  | cons v vs ih =>
    cases i with
    | zero =>
      simp only [digits, Nat.zero_mul, Nat.pow_zero, Nat.div_one, List.getElem_cons_zero]
      rw [Nat.add_mul_mod_self_left]; exact Nat.mod_mod _ _
    | succ i =>
      have hi : i < vs.length := by simpa using h
      simp only [digits, List.getElem_cons_succ]
      rw [Nat.succ_mul, Nat.pow_add, Nat.mul_comm (2 ^ (i * b)), ← Nat.div_div_eq_div_mul]
      have : (v % 2 ^ b + 2 ^ b * digits b vs) / 2 ^ b = digits b vs := by
        rw [Nat.add_mul_div_left _ _ (Nat.two_pow_pos b)]
        rw [Nat.div_eq_of_lt (Nat.mod_lt _ (Nat.two_pow_pos b))]; omega
      rw [this]; exact ih i hi

theorem mask_eq (b : Nat) (h : b ≤ 64) : mask b = 2 ^ b - 1 := by
  unfold mask
  split
  · have : b = 64 := by omega
    subst this; decide
  · rfl

theorem and_mask (v b : Nat) (h : b ≤ 64) : v &&& mask b = v % 2 ^ b := by
  rw [mask_eq b h]; exact Nat.and_two_pow_sub_one_eq_mod v b

/-- the packed word is the digit string shifted to its offset; nothing is truncated as
long as all slots fit into 64 bits. -/
theorem packWord_eq (b j : Nat) (vs : List Nat) (hb : b ≤ 64) (hfit : (j + vs.length) * b ≤ 64) :
    packWord b j vs = digits b vs <<< (j * b) := by
  induction vs generalizing j with
  | nil => simp [packWord, digits]
  | cons v vs ih =>
    have hfit' : (j + 1 + vs.length) * b ≤ 64 := by
      simp only [List.length_cons] at hfit
      have : j + 1 + vs.length = j + (vs.length + 1) := by omega
      rw [this]; exact hfit
    simp only [packWord, ih (j + 1) hfit', and_mask v b hb, digits]
    -- no truncation of the shifted digit
    have hv : v % 2 ^ b < 2 ^ b := Nat.mod_lt _ (Nat.two_pow_pos b)
    have hlt : (v % 2 ^ b) <<< (j * b) < W := by
      rw [Nat.shiftLeft_eq, W_eq2]
      have : (v % 2 ^ b) * 2 ^ (j * b) < 2 ^ b * 2 ^ (j * b) :=
        Nat.mul_lt_mul_of_lt_of_le hv (Nat.le_refl _) (Nat.two_pow_pos _)
      rw [← Nat.pow_add] at this
      have h64 : b + j * b ≤ 64 := by
        simp only [List.length_cons] at hfit
        have : (j + (vs.length + 1)) * b = j * b + vs.length * b + b := by
          rw [Nat.add_mul, Nat.add_mul]; omega
        omega
      exact Nat.lt_of_lt_of_le this (Nat.pow_le_pow_right (by decide) h64)
    rw [Nat.mod_eq_of_lt hlt]
    -- (d <<< ((j+1) b)) = (d <<< b) <<< (j b)
    have e1 : digits b vs <<< ((j + 1) * b) = (digits b vs <<< b) <<< (j * b) := by
      rw [Nat.add_mul, Nat.one_mul, Nat.add_comm, Nat.shiftLeft_add]
    rw [e1, ← Nat.shiftLeft_or_distrib, Nat.or_comm]
    congr 1
    rw [← Nat.shiftLeft_add_eq_or_of_lt hv, Nat.shiftLeft_eq]
    rw [Nat.mul_comm]; omega

theorem packWord_slot (b : Nat) (vs : List Nat) (i : Nat) (hb : b ≤ 64)
    (hfit : vs.length * b ≤ 64) (h : i < vs.length) :
    (packWord b 0 vs >>> (i * b)) &&& mask b = vs[i] % 2 ^ b := by
  rw [packWord_eq b 0 vs hb (by simpa using hfit), and_mask _ _ hb]
  simp only [Nat.zero_mul, Nat.shiftLeft_zero, Nat.shiftRight_eq_div_pow]
  exact digits_slot b vs i h

/-! ### chunks -/

theorem chunksOf_get (n : Nat) (hn : 0 < n) (f : Nat) (l : List Nat) (hf : l.length ≤ f)
    (i : Nat) (hi : i < l.length) :
    ∃ c, (chunksOf n f l)[i / n]? = some c ∧ c.length ≤ n ∧ c[i % n]? = l[i]? := by
  induction f generalizing l i with
  | zero => omega
  | succ f ih =>
    cases l with
    | nil => simp at hi
    | cons x xs =>
      simp only [chunksOf]
      by_cases hlt : i < n
      · refine ⟨(x :: xs).take n, ?_, ?_, ?_⟩
        · simp [Nat.div_eq_of_lt hlt]
        · simp [List.length_take]; omega
        · rw [Nat.mod_eq_of_lt hlt, List.getElem?_take]; simp [hlt]
      · have hge : n ≤ i := Nat.le_of_not_lt hlt
        have hlen : ((x :: xs).drop n).length ≤ f := by
          simp only [List.length_drop, List.length_cons] at *; omega
        have hi' : i - n < ((x :: xs).drop n).length := by
          simp only [List.length_drop] at *; omega
        obtain ⟨c, hc1, hc2, hc3⟩ := ih ((x :: xs).drop n) hlen (i - n) hi'
        refine ⟨c, ?_, hc2, ?_⟩
        · have : i / n = (i - n) / n + 1 := by
            have := Nat.sub_add_cancel hge
            conv => lhs; rw [← this]
            exact Nat.add_div_right _ hn
          rw [this, List.getElem?_cons_succ]; exact hc1
        · have : i % n = (i - n) % n := by
            have := Nat.sub_add_cancel hge
            conv => lhs; rw [← this]
            exact Nat.add_mod_right _ _
          rw [this, hc3, List.getElem?_drop]
          congr 1; omega

/-! ### bit length -/

theorem lt_two_pow_bitLenF (f n : Nat) (h : n ≤ f) : n < 2 ^ bitLenF f n := by
  induction f generalizing n with
  | zero => have : n = 0 := by omega
            subst this; simp [bitLenF]
  | succ f ih =>
    simp only [bitLenF]
    split
    · subst_vars; simp
    · have := ih (n / 2) (by omega)
      rw [Nat.pow_succ]; omega

theorem lt_two_pow_bitLen (n : Nat) : n < 2 ^ bitLen n := lt_two_pow_bitLenF n n (Nat.le_refl _)

theorem bitLenF_le (f n k : Nat) (h : n < 2 ^ k) : bitLenF f n ≤ k := by
  induction f generalizing n k with
  | zero => simp [bitLenF]
  | succ f ih =>
    simp only [bitLenF]
    split
    · omega
    · rename_i hn
      cases k with
      | zero => simp at h; omega
      | succ k =>
        have := ih (n / 2) k (by rw [Nat.pow_succ] at h; omega)
        omega

theorem bitLen_le (n : Nat) (k : Nat) (h : n < 2 ^ k) : bitLen n ≤ k := bitLenF_le n n k h

theorem bitLen_pos (n : Nat) (h : n ≠ 0) : 1 ≤ bitLen n := by
  unfold bitLen
  cases n with
  | zero => exact absurd rfl h
  | succ m => simp [bitLenF]

theorem le_listMax (vs : List Nat) (v : Nat) (h : v ∈ vs) : v ≤ listMax vs := by
  induction vs with
  | nil => simp at h
  | cons x xs ih =>
    simp only [listMax]
    rcases List.mem_cons.mp h with rfl | h'
    · exact Nat.le_max_left _ _
    · exact Nat.le_trans (ih h') (Nat.le_max_right _ _)

theorem listMax_lt (vs : List Nat) (B : Nat) (hB : 0 < B) (h : ∀ v ∈ vs, v < B) : listMax vs < B := by
  induction vs with
  | nil => simpa [listMax]
  | cons x xs ih =>
    simp only [listMax]
    have h1 := h x (by simp)
    have h2 := ih (fun v hv => h v (by simp [hv]))
    exact Nat.max_lt.mpr ⟨h1, h2⟩

theorem bitsNeeded_bounds (m : Nat) (hm : m < W) : 1 ≤ bitsNeeded m ∧ bitsNeeded m ≤ 64 ∧ m < 2 ^ bitsNeeded m := by
  unfold bitsNeeded
  split
  · subst_vars; simp
  · rename_i h
    exact ⟨bitLen_pos m h, bitLen_le m 64 (by rw [← W_eq2]; exact hm), lt_two_pow_bitLen m⟩

theorem pack_count (vs : List Nat) : (pack vs).count = vs.length := by
  unfold pack
  by_cases h : vs = []
  · subst h; rfl
  · rw [if_neg h]; unfold packWithBits; rw [if_neg h]; split <;> rfl

/-! ### unpack loop -/

theorem unpackLoop_eq (p : Packed) (g : Nat → Nat) (n i : Nat)
    (h : ∀ k, k < n → p.slot (i + k) = some (g (i + k))) :
    unpackLoop p n i = some ((List.range' i n).map g) := by
  induction n generalizing i with
  | zero => simp [unpackLoop]
  | succ n ih =>
    have h0 := h 0 (by omega)
    simp only [Nat.add_zero] at h0
    have := ih (i + 1) (fun k hk => by
      have := h (k + 1) (by omega)
      rw [show i + 1 + k = i + (k + 1) by omega]; exact this)
    simp [unpackLoop, h0, this, List.range'_succ]

/-! ### run-length -/

theorem rleLoop_decode (cv cl : Nat) (vs : List Nat) :
    ((rleLoop cv cl vs).map (fun (v, n) => List.replicate n v)).flatten
      = List.replicate cl cv ++ vs := by
  induction vs generalizing cv cl with
  | nil => simp [rleLoop]
  | cons v vs ih =>
    simp only [rleLoop]
    split
    · subst_vars
      rw [ih]
      simp [List.replicate_succ', List.append_assoc]
    · simp [ih]

theorem rleLoop_total (cv cl : Nat) (vs : List Nat) :
    ((rleLoop cv cl vs).map (·.2)).foldl (· + ·) 0 = cl + vs.length := by
  have aux : ∀ (l : List Nat) (a : Nat), l.foldl (· + ·) a = a + l.foldl (· + ·) 0 := by
    intro l
    induction l with
    | nil => simp
    | cons x xs ih => intro a; simp only [List.foldl_cons]; rw [ih (a + x), ih (0 + x)]; omega
  induction vs generalizing cv cl with
  | nil => simp [rleLoop]
  | cons v vs ih =>
    simp only [rleLoop]
    split
    · rw [ih]; simp; omega
    · simp only [List.map_cons, List.foldl_cons]
      rw [aux, ih]; simp; omega

/-- `get` walks the runs; it returns what full decoding has at that index. -/
theorem rleGetLoop_eq (runs : List (Nat × Nat)) (off i : Nat) (h : off ≤ i) :
    rleGetLoop i off runs = ((runs.map (fun (v, n) => List.replicate n v)).flatten)[i - off]? := by
  induction runs generalizing off with
  | nil => simp [rleGetLoop]
  | cons r rs ih =>
    obtain ⟨v, n⟩ := r
    simp only [rleGetLoop, List.map_cons, List.flatten_cons]
    split
    · rename_i hlt
      rw [List.getElem?_append_left (by simp; omega)]
      simp [List.getElem?_replicate]; omega
    · rename_i hge
      rw [ih (off + n) (by omega), List.getElem?_append_right (by simp; omega)]
      simp only [List.length_replicate]
      congr 1; omega

end Grafeo.Codec
