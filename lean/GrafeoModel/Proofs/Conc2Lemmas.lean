import GrafeoModel.Model.TxConc

/-! Invariant of the interleaving model of `TransactionManager` (`Model/TxConc.lean`). -/
namespace Grafeo.TxConc
open Grafeo.TxMgr

/-- every state some interleaving of the threads' critical sections can reach -/
inductive Reach (progs : List (List COp)) : State → Prop
  | init : Reach progs (init progs)
  | step (st : State) (i : Nat) : Reach progs st → Reach progs (step st i)

theorem reach_runSched {progs : List (List COp)} (sched : List Nat) :
    ∀ st, Reach progs st → Reach progs (runSched st sched) := by
  induction sched with
  | nil => intro st h; exact h
  | cons i rest ih => intro st h; exact ih _ (Reach.step st i h)

theorem reach_finishThread {progs : List (List COp)} (fuel : Nat) :
    ∀ st i, Reach progs st → Reach progs (finishThread fuel st i) := by
  induction fuel with
  | zero => intro st i h; exact h
  | succ n ih =>
    intro st i h
    unfold finishThread
    split
    · exact h
    · split
      · exact h
      · exact ih _ _ (Reach.step st i h)

theorem reach_foldl_finish {progs : List (List COp)} (fuel : Nat) (l : List Nat) :
    ∀ st, Reach progs st → Reach progs (l.foldl (finishThread fuel) st) := by
  induction l with
  | nil => intro st h; exact h
  | cons i rest ih => intro st h; exact ih _ (reach_finishThread fuel st i h)

theorem reach_finishAll {progs : List (List COp)} (fuel : Nat) (st : State) (h : Reach progs st) :
    Reach progs (finishAll fuel st) := reach_foldl_finish fuel _ st h

def pcId (t : Thread) : Option Nat :=
  match t.pc with
  | .reg id _ _ => some id
  | .idle => none

def myOuts (i : Nat) (log : List Ev) : List Out := (log.filter (fun ev => ev.thread == i)).map (·.cout)

structure Inv (st : State) : Prop where
  seq : srun (st.log.map (·.op)) = (st.m, st.log.map (·.sout))
  len : st.keys.length = st.m.slots.length
  rel : ∀ ev ∈ st.log, outRel st.keys ev.cout ev.sout
  begun : st.log.filterMap evBeginId = st.keys
  keysLt : ∀ k ∈ st.keys, k < st.next
  keysNodup : st.keys.Nodup
  pendLt : ∀ (i : Nat) (t : Thread) (a : Nat), st.threads[i]? = some t → pcId t = some a → a < st.next ∧ a ∉ st.keys
  pendInj : ∀ (i j : Nat) (ti tj : Thread) (a : Nat), st.threads[i]? = some ti → st.threads[j]? = some tj →
    pcId ti = some a → pcId tj = some a → i = j
  epLe : ∀ ev ∈ st.log, ∀ e, evEpoch ev = some e → e ≤ st.m.epoch
  epInc : (st.log.filterMap evEpoch).Pairwise (· < ·)
  res : ∀ (i : Nat) (t : Thread), st.threads[i]? = some t → t.results = myOuts i st.log

/-! ### facts about one sequential step -/

theorem srun_append (ops : List SOp) (op : SOp) :
    srun (ops ++ [op]) = ((sstep (srun ops).1 op).1, (srun ops).2 ++ [(sstep (srun ops).1 op).2]) := by
  simp [srun, List.foldl_append]

def isBegin : SOp → Bool
  | .tx (.begin _) => true
  | _ => false

theorem sstep_begin (m : Mgr) (iso : Iso) :
    (sstep m (.tx (.begin iso))).2 = .id m.slots.length ∧
    (sstep m (.tx (.begin iso))).1.slots.length = m.slots.length + 1 ∧
    (sstep m (.tx (.begin iso))).1.epoch = m.epoch := by
  simp [sstep, TxMgr.step, Mgr.begin]

theorem recordWrite_len (m : Mgr) (i e : Nat) : (m.recordWrite i e).1.slots.length = m.slots.length := by
  unfold Mgr.recordWrite; split <;> (try split) <;> simp
theorem recordRead_len (m : Mgr) (i e : Nat) : (m.recordRead i e).1.slots.length = m.slots.length := by
  unfold Mgr.recordRead; split <;> (try split) <;> simp
theorem abort_len (m : Mgr) (i : Nat) : (m.abort i).1.slots.length = m.slots.length := by
  unfold Mgr.abort; split <;> (try split) <;> simp
theorem commit_len (m : Mgr) (i : Nat) : (m.commit i).1.slots.length = m.slots.length := by
  unfold Mgr.commit; split <;> (try (repeat' split)) <;> simp
theorem gc_len (m : Mgr) : (m.gc).1.slots.length = m.slots.length := by
  simp [Mgr.gc]

theorem sstep_len (m : Mgr) (sop : SOp) (h : isBegin sop = false) :
    (sstep m sop).1.slots.length = m.slots.length := by
  cases sop with
  | advance => simp [sstep, advance]
  | tx op =>
    cases op with
    | «begin» iso => simp [isBegin] at h
    | write i e => simpa [sstep, TxMgr.step] using recordWrite_len m i e
    | read i e => simpa [sstep, TxMgr.step] using recordRead_len m i e
    | commit i => simpa [sstep, TxMgr.step] using commit_len m i
    | abort i => simpa [sstep, TxMgr.step] using abort_len m i
    | gc => simpa [sstep, TxMgr.step] using gc_len m

theorem sstep_not_id (m : Mgr) (sop : SOp) (h : isBegin sop = false) (x : Nat) :
    (sstep m sop).2 ≠ .id x := by
  cases sop with
  | advance => simp [sstep, advance]
  | tx op => cases op <;> simp_all [sstep, TxMgr.step, isBegin]

theorem beginOut_not_begin (sop : SOp) (o : Out) (h : isBegin sop = false) : beginOut sop o = none := by
  cases sop with
  | advance => simp [beginOut]
  | tx op => cases op <;> simp_all [beginOut, isBegin]

theorem commit_epoch (m : Mgr) (i : Nat) :
    (∃ e, (m.commit i).2 = .ok e ∧ e = m.epoch + 1 ∧ (m.commit i).1.epoch = m.epoch + 1) ∨
    ((∀ e, (m.commit i).2 ≠ .ok e) ∧ (m.commit i).1.epoch = m.epoch) := by
  unfold Mgr.commit
  split
  · right; simp
  · split
    · right; simp
    · split
      · right; simp
      · split
        · right; simp
        · left; simp

theorem recordWrite_epoch (m : Mgr) (i e : Nat) : (m.recordWrite i e).1.epoch = m.epoch := by
  unfold Mgr.recordWrite; split <;> (try split) <;> simp
theorem recordRead_epoch (m : Mgr) (i e : Nat) : (m.recordRead i e).1.epoch = m.epoch := by
  unfold Mgr.recordRead; split <;> (try split) <;> simp
theorem abort_epoch (m : Mgr) (i : Nat) : (m.abort i).1.epoch = m.epoch := by
  unfold Mgr.abort; split <;> (try split) <;> simp

/-- a step either hands out the epoch `m.epoch + 1` and moves the counter there, or hands out
none and leaves the counter alone -/
theorem sstep_epoch (m : Mgr) (sop : SOp) :
    (epochOut sop (sstep m sop).2 = some (m.epoch + 1) ∧ (sstep m sop).1.epoch = m.epoch + 1) ∨
    (epochOut sop (sstep m sop).2 = none ∧ (sstep m sop).1.epoch = m.epoch) := by
  cases sop with
  | advance => left; simp [sstep, advance, epochOut]
  | tx op =>
    cases op with
    | «begin» iso => right; simp [sstep, TxMgr.step, Mgr.begin, epochOut]
    | write i e => right; simp [sstep, TxMgr.step, epochOut, recordWrite_epoch]
    | read i e => right; simp [sstep, TxMgr.step, epochOut, recordRead_epoch]
    | abort i => right; simp [sstep, TxMgr.step, epochOut, abort_epoch]
    | gc => right; simp [sstep, TxMgr.step, epochOut, Mgr.gc]
    | commit i =>
      rcases commit_epoch m i with ⟨e, h1, h2, h3⟩ | ⟨h1, h2⟩
      · left; simp [sstep, TxMgr.step, epochOut, h1, h2, h3]
      · right
        refine ⟨?_, by simpa [sstep, TxMgr.step] using h2⟩
        simp only [sstep, TxMgr.step]
        cases hc : (m.commit i).2 with
        | ok e => exact absurd hc (h1 e)
        | invalid => simp [epochOut]
        | writeConflict => simp [epochOut]
        | serFail => simp [epochOut]

theorem myOuts_append_self (i : Nat) (log : List Ev) (ev : Ev) (h : ev.thread = i) :
    myOuts i (log ++ [ev]) = myOuts i log ++ [ev.cout] := by
  simp [myOuts, List.filter_append, h]

theorem myOuts_append_other (i : Nat) (log : List Ev) (ev : Ev) (h : ev.thread ≠ i) :
    myOuts i (log ++ [ev]) = myOuts i log := by
  simp [myOuts, List.filter_append, h]

theorem outRel_mono (keys : List Nat) (x : Nat) (c s : Out) (h : outRel keys c s) :
    outRel (keys ++ [x]) c s := by
  unfold outRel at *
  split
  · next a p =>
    simp only at h
    have : p < keys.length := by
      rcases Nat.lt_or_ge p keys.length with h' | h'
      · exact h'
      · rw [List.getElem?_eq_none h'] at h; cases h
    rw [List.getElem?_append_left this]; exact h
  · next hne =>
    split at h
    · next a p => exact (hne a p rfl rfl).elim
    · exact h

theorem get_set_cases {α : Type} (l : List α) (i j : Nat) (a b : α) (hi : i < l.length)
    (h : (l.set i a)[j]? = some b) : (i = j ∧ b = a) ∨ (i ≠ j ∧ l[j]? = some b) := by
  rw [List.getElem?_set] at h
  by_cases hij : i = j
  · left; simp [hij] at h; subst hij; simp [hi] at h; exact ⟨rfl, h.symm⟩
  · right; simp [hij] at h; exact ⟨hij, h⟩

/-! ### the three kinds of step -/

/-- allocation section of `begin` -/
theorem inv_alloc (st : State) (i : Nat) (t t' : Thread) (h : Inv st) (ht : st.threads[i]? = some t)
    (hpc' : pcId t' = some st.next) (hres : t'.results = t.results) :
    Inv { st with next := st.next + 1, threads := st.threads.set i t' } := by
  have hi : i < st.threads.length := by
    rcases Nat.lt_or_ge i st.threads.length with h' | h'
    · exact h'
    · rw [List.getElem?_eq_none h'] at ht; cases ht
  refine { seq := h.seq, len := h.len, rel := h.rel, begun := h.begun, keysNodup := h.keysNodup,
           epLe := h.epLe, epInc := h.epInc, keysLt := ?_, pendLt := ?_, pendInj := ?_, res := ?_ }
  · intro k hk; have := h.keysLt k hk; simp only; omega
  · intro j u a hj hu
    rcases get_set_cases _ _ _ _ _ hi hj with ⟨hij, hu'⟩ | ⟨hij, hj'⟩
    · subst hu'
      rw [hpc'] at hu; cases hu
      refine ⟨by simp, ?_⟩
      intro hmem; have := h.keysLt _ hmem; omega
    · have := h.pendLt j u a hj' hu
      exact ⟨by simp only; omega, this.2⟩
  · intro j k tj tk a hj hk hja hka
    rcases get_set_cases _ _ _ _ _ hi hj with ⟨hij, hu'⟩ | ⟨hij, hj'⟩
    · rcases get_set_cases _ _ _ _ _ hi hk with ⟨hik, hv'⟩ | ⟨hik, hk'⟩
      · omega
      · subst hu'
        rw [hpc'] at hja; cases hja
        have := (h.pendLt k tk _ hk' hka).1
        omega
    · rcases get_set_cases _ _ _ _ _ hi hk with ⟨hik, hv'⟩ | ⟨hik, hk'⟩
      · subst hv'
        rw [hpc'] at hka; cases hka
        have := (h.pendLt j tj _ hj' hja).1
        omega
      · exact h.pendInj j k tj tk a hj' hk' hja hka
  · intro j u hj
    rcases get_set_cases _ _ _ _ _ hi hj with ⟨hij, hu'⟩ | ⟨hij, hj'⟩
    · subst hu'; subst hij
      rw [hres]; exact h.res i t ht
    · exact h.res j u hj'

def addKey (keys : List Nat) : Option Nat → List Nat
  | some id => keys ++ [id]
  | none => keys

/-- a critical section at which a call takes effect: `keys'` is `keys` (single-section call) or
`keys ++ [id]` (register section of `begin`, `id` the pending id of the thread) -/
theorem inv_event (st : State) (i : Nat) (t t' : Thread) (sop : SOp) (cout : Out) (newKey : Option Nat)
    (vars' : List (Nat × Nat))
    (h : Inv st) (ht : st.threads[i]? = some t)
    (hpc' : pcId t' = none) (hres : t'.results = t.results ++ [cout])
    (hkind : (∃ id, newKey = some id ∧ pcId t = some id ∧ (∃ iso, sop = .tx (.begin iso)) ∧ cout = .id id) ∨
             (newKey = none ∧ isBegin sop = false ∧ cout = (sstep st.m sop).2)) :
    Inv { st with m := (sstep st.m sop).1,
                  keys := addKey st.keys newKey,
                  vars := vars',
                  log := st.log ++ [⟨i, sop, (sstep st.m sop).2, cout⟩],
                  threads := st.threads.set i t' } := by
  have hi : i < st.threads.length := by
    rcases Nat.lt_or_ge i st.threads.length with h' | h'
    · exact h'
    · rw [List.getElem?_eq_none h'] at ht; cases ht
  have hep := sstep_epoch st.m sop
  have hmono : st.m.epoch ≤ (sstep st.m sop).1.epoch := by rcases hep with h1 | h1 <;> omega
  -- facts that depend on the kind of section
  have hkeys : ∀ k, k ∈ (addKey st.keys newKey) →
      k ∈ st.keys ∨ pcId t = some k := by
    intro k hk
    rcases hkind with ⟨id, h1, h2, -, -⟩ | ⟨h1, -, -⟩
    · subst h1; simp only [addKey, List.mem_append, List.mem_singleton] at hk
      rcases hk with hk | hk
      · exact Or.inl hk
      · subst hk; exact Or.inr h2
    · subst h1; exact Or.inl hk
  refine { seq := ?_, len := ?_, rel := ?_, begun := ?_, keysLt := ?_, keysNodup := ?_, pendLt := ?_,
           pendInj := ?_, epLe := ?_, epInc := ?_, res := ?_ }
  · simp only [List.map_append, List.map_cons, List.map_nil]
    rw [srun_append, h.seq]
  · rcases hkind with ⟨id, h1, -, ⟨iso, h3⟩, -⟩ | ⟨h1, h2, -⟩
    · subst h1; subst h3
      simp only [addKey, List.length_append, List.length_singleton, (sstep_begin st.m iso).2.1, h.len]
    · subst h1; simp only [addKey, sstep_len st.m sop h2, h.len]
  · intro ev hev
    simp only [List.mem_append, List.mem_singleton] at hev
    rcases hev with hev | hev
    · have := h.rel ev hev
      rcases hkind with ⟨id, h1, -, -, -⟩ | ⟨h1, -, -⟩
      · subst h1; exact outRel_mono _ _ _ _ this
      · subst h1; exact this
    · subst hev
      rcases hkind with ⟨id, h1, -, ⟨iso, h3⟩, h4⟩ | ⟨h1, h2, h3⟩
      · subst h1; subst h3; subst h4
        show outRel (st.keys ++ [id]) (.id id) (sstep st.m (.tx (.begin iso))).2
        rw [(sstep_begin st.m iso).1]
        show (st.keys ++ [id])[st.m.slots.length]? = some id
        rw [← h.len]; simp
      · subst h1; subst h3
        simp only [outRel]
        split
        · next x p heq _ => exact absurd heq (sstep_not_id st.m sop h2 x)
        · rfl
  · simp only [List.filterMap_append, List.filterMap_cons, List.filterMap_nil, h.begun]
    rcases hkind with ⟨id, h1, -, ⟨iso, h3⟩, h4⟩ | ⟨h1, h2, -⟩
    · subst h1; subst h3; subst h4; simp [evBeginId, beginOut, addKey]
    · subst h1; simp [evBeginId, beginOut_not_begin sop cout h2, addKey]
  · intro k hk
    rcases hkeys k hk with h1 | h1
    · exact h.keysLt k h1
    · exact (h.pendLt i t k ht h1).1
  · rcases hkind with ⟨id, h1, h2, -, -⟩ | ⟨h1, -, -⟩
    · subst h1
      show (st.keys ++ [id]).Nodup
      rw [List.nodup_append]
      refine ⟨h.keysNodup, by simp, ?_⟩
      intro a ha b hb
      simp only [List.mem_singleton] at hb; subst hb
      intro hab; subst hab
      exact (h.pendLt i t a ht h2).2 ha
    · subst h1; exact h.keysNodup
  · intro j u a hj hu
    rcases get_set_cases _ _ _ _ _ hi hj with ⟨hij, hu'⟩ | ⟨hij, hj⟩
    · subst hu'
      rw [hpc'] at hu; cases hu
    · have hp := h.pendLt j u a hj hu
      refine ⟨hp.1, ?_⟩
      intro hmem
      rcases hkeys a hmem with h1 | h1
      · exact hp.2 h1
      · exact hij (h.pendInj i j t u a ht hj h1 hu)
  · intro j k tj tk a hj hk hja hka
    rcases get_set_cases _ _ _ _ _ hi hj with ⟨hij, hu'⟩ | ⟨hij, hj'⟩
    · subst hu'
      rw [hpc'] at hja; cases hja
    · rcases get_set_cases _ _ _ _ _ hi hk with ⟨hik, hv'⟩ | ⟨hik, hk'⟩
      · subst hv'
        rw [hpc'] at hka; cases hka
      · exact h.pendInj j k tj tk a hj' hk' hja hka
  · intro ev hev e he
    simp only [List.mem_append, List.mem_singleton] at hev
    rcases hev with hev | hev
    · have := h.epLe ev hev e he
      simp only; omega
    · subst hev
      simp only [evEpoch] at he
      rcases hep with ⟨h1, h2⟩ | ⟨h1, h2⟩
      · rw [h1] at he; cases he; simp only; omega
      · rw [h1] at he; cases he
  · simp only [List.filterMap_append, List.filterMap_cons, List.filterMap_nil, evEpoch]
    rcases hep with ⟨h1, h2⟩ | ⟨h1, h2⟩
    · rw [h1]
      simp only [List.pairwise_append]
      refine ⟨h.epInc, by simp, ?_⟩
      intro a ha b hb
      simp only [List.mem_singleton] at hb; subst hb
      simp only [List.mem_filterMap] at ha
      obtain ⟨ev, hev, hee⟩ := ha
      have := h.epLe ev hev a hee
      omega
    · rw [h1]; simpa using h.epInc
  · intro j u hj
    rcases get_set_cases _ _ _ _ _ hi hj with ⟨hij, hu'⟩ | ⟨hij, hj'⟩
    · subst hij
      show _ = myOuts _ (st.log ++ [_])
      rw [hu', hres, myOuts_append_self i _ _ rfl, h.res i t ht]
    · show _ = myOuts _ (st.log ++ [_])
      rw [myOuts_append_other _ _ _ (by simpa using hij)]
      exact h.res j u hj'

end Grafeo.TxConc
