import GrafeoModel.Model.Persist
import GrafeoModel.Proofs.LpgLemmas
import GrafeoModel.Props.C05

/-!
# Lemmas for C05 / C07 (persistence and copies)

* association-list facts (`aget`/`aset`/`aerase` under unique keys, under `map`);
* `norm`: forgetting epoch stamps. For a *settled* store (every stamp ≤ the store's epoch)
  each store operation commutes with `norm` — this is what makes the constant-epoch model
  `Persist.Db.api` an exact abstraction of the code in which every database-level create takes
  a fresh epoch;
* the invariants of stores reachable through the logged API (`Good`);
* what `copyStore` builds.
-/

set_option linter.unusedSimpArgs false

namespace Grafeo.Lpg

/-! ### association lists -/

def akeys {ν : Type} (l : AList ν) : List Nat := l.map (·.1)

@[simp] theorem akeys_nil {ν : Type} : akeys ([] : AList ν) = [] := rfl
@[simp] theorem akeys_cons {ν : Type} (kv : Nat × ν) (l : AList ν) : akeys (kv :: l) = kv.1 :: akeys l := rfl
@[simp] theorem akeys_append {ν : Type} (l m : AList ν) : akeys (l ++ m) = akeys l ++ akeys m := by
  simp [akeys]

theorem aget_none_of_not_mem {ν : Type} (l : AList ν) (k : Nat) (h : k ∉ akeys l) : aget l k = none := by
  induction l with
  | nil => rfl
  | cons kv rest ih =>
    obtain ⟨k0, v0⟩ := kv
    simp only [akeys_cons, List.mem_cons, not_or] at h
    have h0 : ¬ k0 = k := fun e => h.1 e.symm
    simp only [aget, h0, if_false]
    exact ih h.2

theorem mem_akeys_of_aget {ν : Type} (l : AList ν) (k : Nat) (v : ν) (h : aget l k = some v) : k ∈ akeys l := by
  apply Classical.byContradiction
  intro hn
  rw [aget_none_of_not_mem l k hn] at h
  cases h

theorem aget_mem {ν : Type} (l : AList ν) (k : Nat) (v : ν) (h : aget l k = some v) : (k, v) ∈ l := by
  induction l with
  | nil => cases h
  | cons kv rest ih =>
    obtain ⟨k0, v0⟩ := kv
    by_cases h0 : k0 = k
    · subst h0
      simp only [aget, if_true] at h
      cases h
      exact List.mem_cons_self
    · simp only [aget, h0, if_false] at h
      exact List.mem_cons_of_mem _ (ih h)

theorem aget_of_mem_nodup {ν : Type} (l : AList ν) (k : Nat) (v : ν) (hn : (akeys l).Nodup)
    (h : (k, v) ∈ l) : aget l k = some v := by
  induction l with
  | nil => cases h
  | cons kv rest ih =>
    obtain ⟨k0, v0⟩ := kv
    simp only [akeys_cons, List.nodup_cons] at hn
    rcases List.mem_cons.mp h with e | e
    · cases e; simp [aget]
    · have : k0 ≠ k := by
        intro e'; subst e'
        exact hn.1 (List.mem_map.mpr ⟨(k0, v), e, rfl⟩)
      simp only [aget, this, if_false]
      exact ih hn.2 e

theorem aget_isSome_of_mem_keys {ν : Type} (l : AList ν) (k : Nat) (h : k ∈ akeys l) : ∃ v, aget l k = some v := by
  induction l with
  | nil => cases h
  | cons kv rest ih =>
    obtain ⟨k0, v0⟩ := kv
    by_cases h0 : k0 = k
    · exact ⟨v0, by simp [aget, h0]⟩
    · simp only [akeys_cons, List.mem_cons] at h
      rcases h with e | e
      · exact absurd e.symm h0
      · obtain ⟨v, hv⟩ := ih e
        exact ⟨v, by simp [aget, h0, hv]⟩

theorem aset_fresh {ν : Type} (l : AList ν) (k : Nat) (v : ν) (h : k ∉ akeys l) :
    aset l k v = l ++ [(k, v)] := by
  induction l with
  | nil => rfl
  | cons kv rest ih =>
    obtain ⟨k0, v0⟩ := kv
    simp only [akeys_cons, List.mem_cons, not_or] at h
    have h0 : ¬ k0 = k := fun e => h.1 e.symm
    simp only [aset, h0, if_false, List.cons_append]
    rw [ih h.2]

/-- under unique keys, `aset` on a present key rewrites that entry in place -/
theorem aset_eq_map {ν : Type} (l : AList ν) (k : Nat) (v : ν) (hn : (akeys l).Nodup) (h : k ∈ akeys l) :
    aset l k v = l.map (fun kv => if kv.1 = k then (k, v) else kv) := by
  induction l with
  | nil => cases h
  | cons kv rest ih =>
    obtain ⟨k0, v0⟩ := kv
    simp only [akeys_cons, List.nodup_cons] at hn
    by_cases h0 : k0 = k
    · subst h0
      simp only [aset, if_true, List.map_cons]
      congr 1
      -- the rest has no entry with this key
      symm
      rw [List.map_congr_left (g := id)]
      · simp
      · intro kv hkv
        have : kv.1 ≠ k0 := by
          intro e
          exact hn.1 (e ▸ List.mem_map.mpr ⟨kv, hkv, rfl⟩)
        simp [this]
    · simp only [akeys_cons, List.mem_cons] at h
      rcases h with e | e
      · exact absurd e.symm h0
      · simp only [aset, h0, if_false, List.map_cons]
        rw [ih hn.2 e]

theorem akeys_aset {ν : Type} (l : AList ν) (k : Nat) (v : ν) :
    akeys (aset l k v) = if k ∈ akeys l then akeys l else akeys l ++ [k] := by
  induction l with
  | nil => simp [aset, akeys]
  | cons kv rest ih =>
    obtain ⟨k0, v0⟩ := kv
    by_cases h0 : k0 = k
    · subst h0; simp [aset, akeys]
    · have h1 : ¬ k = k0 := fun e => h0 e.symm
      simp only [aset, h0, if_false, akeys_cons, ih, List.mem_cons, h1, false_or]
      split <;> simp

theorem akeys_aerase {ν : Type} (l : AList ν) (k : Nat) : akeys (aerase l k) = (akeys l).filter (· != k) := by
  unfold aerase akeys
  rw [List.filter_map]
  rfl

/-- mapping the values commutes with lookup and update -/
def amap {ν μ : Type} (g : ν → μ) (l : AList ν) : AList μ := l.map (fun kv => (kv.1, g kv.2))

theorem aget_amap {ν μ : Type} (g : ν → μ) (l : AList ν) (k : Nat) :
    aget (amap g l) k = (aget l k).map g := by
  induction l with
  | nil => rfl
  | cons kv rest ih =>
    obtain ⟨k0, v0⟩ := kv
    by_cases h0 : k0 = k
    · simp [amap, aget, h0]
    · simp only [amap, List.map_cons, aget, h0, if_false]
      exact ih

theorem amap_aset {ν μ : Type} (g : ν → μ) (l : AList ν) (k : Nat) (v : ν) :
    amap g (aset l k v) = aset (amap g l) k (g v) := by
  induction l with
  | nil => rfl
  | cons kv rest ih =>
    obtain ⟨k0, v0⟩ := kv
    by_cases h0 : k0 = k
    · simp [amap, aset, h0]
    · simp only [amap, List.map_cons, aset, h0, if_false] at ih ⊢
      rw [ih]

theorem akeys_amap {ν μ : Type} (g : ν → μ) (l : AList ν) : akeys (amap g l) = akeys l := by
  simp [akeys, amap, List.map_map, Function.comp_def]

/-- folding `aset` of an association list with unique keys into the empty list rebuilds it -/
theorem foldl_aset_rebuild {ν : Type} (p acc : AList ν) (hn : (akeys (acc ++ p)).Nodup) :
    p.foldl (fun a kv => aset a kv.1 kv.2) acc = acc ++ p := by
  induction p generalizing acc with
  | nil => simp
  | cons kv rest ih =>
    simp only [List.foldl_cons]
    have hk : kv.1 ∉ akeys acc := by
      simp only [akeys_append, akeys_cons] at hn
      have := (List.nodup_append.mp hn).2.2
      intro hm
      exact this _ hm _ List.mem_cons_self rfl
    rw [aset_fresh _ _ _ hk, ih]
    · simp
    · simpa using hn

end Grafeo.Lpg

namespace Grafeo.Lpg

theorem mem_aset {ν : Type} (l : AList ν) (k : Nat) (v : ν) (x : Nat × ν) (h : x ∈ aset l k v) :
    x = (k, v) ∨ x ∈ l := by
  induction l with
  | nil => simp only [aset, List.mem_singleton] at h; exact Or.inl h
  | cons kv rest ih =>
    obtain ⟨k0, v0⟩ := kv
    by_cases h0 : k0 = k
    · simp only [aset, h0, if_true, List.mem_cons] at h
      rcases h with e | e
      · exact Or.inl e
      · exact Or.inr (List.mem_cons_of_mem _ e)
    · simp only [aset, h0, if_false, List.mem_cons] at h
      rcases h with e | e
      · exact Or.inr (e ▸ List.mem_cons_self)
      · rcases ih e with e' | e'
        · exact Or.inl e'
        · exact Or.inr (List.mem_cons_of_mem _ e')

/-! ### forgetting epoch stamps -/

def normVer (v : Ver) : Ver := { v with created := 0, deleted := v.deleted.map (fun _ => 0) }

def normChain (c : List Ver) : List Ver := c.map normVer

/-- the same store with every stamp (and the store's counter) set to 0 -/
def Store.norm (s : Store) : Store :=
  { s with epoch := 0, nodes := amap normChain s.nodes,
           edges := amap (fun cr => (normChain cr.1, cr.2)) s.edges }

/-- a version whose stamps are not in the future of `e` -/
def VerSettled (e : Nat) (v : Ver) : Prop := v.created ≤ e ∧ ∀ d, v.deleted = some d → d ≤ e

def ChainSettled (e : Nat) (c : List Ver) : Prop := ∀ v ∈ c, VerSettled e v

/-- every version in the store was created, and if deleted then deleted, at or before the
store's epoch: nothing is pending, nothing is stamped in the store's future -/
def Settled (s : Store) : Prop :=
  (∀ kv ∈ s.nodes, ChainSettled s.epoch kv.2) ∧ (∀ kv ∈ s.edges, ChainSettled s.epoch kv.2.1)

theorem VerSettled.mono {e e' : Nat} {v : Ver} (h : VerSettled e v) (he : e ≤ e') : VerSettled e' v :=
  ⟨Nat.le_trans h.1 he, fun d hd => Nat.le_trans (h.2 d hd) he⟩

theorem visibleAt_of_settled {e e' : Nat} {v : Ver} (h : VerSettled e v) (he : e ≤ e') :
    v.visibleAt e' = v.deleted.isNone := by
  unfold Ver.visibleAt
  have h1 : v.created ≤ e' := Nat.le_trans h.1 he
  cases hd : v.deleted with
  | none => simp [h1]
  | some d =>
    have := h.2 d hd
    have : ¬ d > e' := by omega
    simp [this]

theorem visibleAt_normVer (v : Ver) : (normVer v).visibleAt 0 = v.deleted.isNone := by
  unfold Ver.visibleAt normVer
  cases v.deleted <;> simp

/-- for a settled chain, being visible now (or at any later epoch) is "some version carries no
deletion stamp" -/
theorem chainVisibleAt_of_settled {e e' : Nat} {c : List Ver} (h : ChainSettled e c) (he : e ≤ e') :
    chainVisibleAt c e' = c.any (·.deleted.isNone) := by
  unfold chainVisibleAt
  induction c with
  | nil => rfl
  | cons v vs ih =>
    simp only [List.any_cons]
    rw [visibleAt_of_settled (h v List.mem_cons_self) he, ih (fun x hx => h x (List.mem_cons_of_mem _ hx))]

theorem chainVisibleAt_norm (c : List Ver) : chainVisibleAt (normChain c) 0 = c.any (·.deleted.isNone) := by
  unfold chainVisibleAt normChain
  induction c with
  | nil => rfl
  | cons v vs ih => simp only [List.map_cons, List.any_cons, visibleAt_normVer, ih]

theorem chainVisibleAt_norm_settled {e : Nat} {c : List Ver} (h : ChainSettled e c) :
    chainVisibleAt (normChain c) 0 = chainVisibleAt c e := by
  rw [chainVisibleAt_norm, chainVisibleAt_of_settled h (Nat.le_refl _)]

theorem normChain_markDeleted (e : Nat) (c : List Ver) :
    normChain (chainMarkDeleted e c) = chainMarkDeleted 0 (normChain c) := by
  unfold normChain
  induction c with
  | nil => rfl
  | cons v vs ih =>
    simp only [chainMarkDeleted, List.map_cons]
    cases hd : v.deleted with
    | none => simp [normVer, hd]
    | some d => simp [normVer, hd, ih]

theorem chainSettled_markDeleted {e : Nat} {c : List Ver} (h : ChainSettled e c) :
    ChainSettled e (chainMarkDeleted e c) := by
  induction c with
  | nil => exact h
  | cons v vs ih =>
    simp only [chainMarkDeleted]
    split
    · intro x hx
      rcases List.mem_cons.mp hx with rfl | hx
      · exact ⟨(h v List.mem_cons_self).1, fun d hd => by simp at hd; omega⟩
      · exact h x (List.mem_cons_of_mem _ hx)
    · intro x hx
      rcases List.mem_cons.mp hx with rfl | hx
      · exact h _ List.mem_cons_self
      · exact ih (fun y hy => h y (List.mem_cons_of_mem _ hy)) x hx

theorem Settled.node {s : Store} (h : Settled s) {id : Nat} {c : List Ver} (hg : aget s.nodes id = some c) :
    ChainSettled s.epoch c := h.1 (id, c) (aget_mem _ _ _ hg)

theorem Settled.edge {s : Store} (h : Settled s) {id : Nat} {c : List Ver} {r : EdgeRec}
    (hg : aget s.edges id = some (c, r)) : ChainSettled s.epoch c := h.2 (id, (c, r)) (aget_mem _ _ _ hg)

@[simp] theorem norm_epoch (s : Store) : s.norm.epoch = 0 := rfl
@[simp] theorem norm_nodeLabelsOf (s : Store) (id : Nat) : s.norm.nodeLabelsOf id = s.nodeLabelsOf id := rfl
@[simp] theorem norm_nodePropsOf (s : Store) (id : Nat) : s.norm.nodePropsOf id = s.nodePropsOf id := rfl

theorem norm_empty : ({} : Store).norm = {} := rfl

/-! ### every store operation commutes with `norm` on settled stores -/

theorem norm_createNodeWithId (s : Store) (id : Nat) (ls : List Nat) :
    (s.createNodeWithId id ls).norm = s.norm.createNodeWithId id ls := by
  simp [Store.norm, Store.createNodeWithId, amap_aset, normChain, normVer]

theorem norm_createEdgeWithId (s : Store) (id a b t : Nat) :
    (s.createEdgeWithId id a b t).norm = s.norm.createEdgeWithId id a b t := by
  simp only [Store.norm, Store.createEdgeWithId, amap_aset, normChain, normVer, List.map_cons, List.map_nil,
    Option.map_none]
  rfl

/-! #### `set_node_property` / `set_edge_property` write only to an entity that is alive -/

theorem visibleAt_normVer' (v : Ver) (e : Nat) : (normVer v).visibleAt e = v.deleted.isNone := by
  unfold Ver.visibleAt normVer
  cases v.deleted <;> simp

theorem chainVisibleAt_norm' (c : List Ver) (e : Nat) :
    chainVisibleAt (normChain c) e = c.any (·.deleted.isNone) := by
  unfold chainVisibleAt normChain
  induction c with
  | nil => rfl
  | cons v vs ih => simp only [List.map_cons, List.any_cons, visibleAt_normVer', ih]

/-- aliveness (visible at `PENDING`) does not depend on the stamps of a settled chain, as long
as the store's epoch has not passed `PENDING` itself (a 64-bit counter cannot) -/
theorem chainAlive_norm {e : Nat} {c : List Ver} (h : ChainSettled e c) (he : e ≤ pendingEpoch) :
    chainAlive (normChain c) = chainAlive c := by
  unfold chainAlive
  rw [chainVisibleAt_norm', chainVisibleAt_of_settled h he]

def nodeAlive (s : Store) (id : Nat) : Bool := ((aget s.nodes id).map chainAlive).getD false
def edgeAlive (s : Store) (id : Nat) : Bool := ((aget s.edges id).map (fun e => chainAlive e.1)).getD false

theorem nodeAlive_norm {s : Store} (hs : Settled s) (he : s.epoch ≤ pendingEpoch) (id : Nat) :
    nodeAlive s.norm id = nodeAlive s id := by
  unfold nodeAlive
  have hg : aget s.norm.nodes id = (aget s.nodes id).map normChain := aget_amap _ _ _
  rw [hg]
  cases h : aget s.nodes id with
  | none => rfl
  | some c => simp only [Option.map_some, Option.getD_some]; exact chainAlive_norm (hs.node h) he

theorem edgeAlive_norm {s : Store} (hs : Settled s) (he : s.epoch ≤ pendingEpoch) (id : Nat) :
    edgeAlive s.norm id = edgeAlive s id := by
  unfold edgeAlive
  have hg : aget s.norm.edges id = (aget s.edges id).map (fun cr => (normChain cr.1, cr.2)) :=
    aget_amap (fun (cr : List Ver × EdgeRec) => (normChain cr.1, cr.2)) s.edges id
  rw [hg]
  cases h : aget s.edges id with
  | none => rfl
  | some cr =>
    obtain ⟨c, r⟩ := cr
    simp only [Option.map_some, Option.getD_some]; exact chainAlive_norm (hs.edge h) he

/-- what `set_node_property` writes once the aliveness test has passed -/
def Store.setNodePropRaw (s : Store) (id key : Nat) (v : String) : Store :=
  let old := aget (s.nodePropsOf id) key
  let pidx := match aget s.pidx key with
    | none => s.pidx
    | some vals =>
      let vals1 := match old with | some o => pidxRemove vals o id | none => vals
      aset s.pidx key (pidxAdd vals1 v id)
  { s with nprops := aset s.nprops id (aset (s.nodePropsOf id) key v), pidx := pidx }

def Store.setEdgePropRaw (s : Store) (id key : Nat) (v : String) : Store :=
  { s with eprops := aset s.eprops id (aset ((aget s.eprops id).getD []) key v) }

theorem setNodeProp_eq (s : Store) (id k : Nat) (v : String) :
    s.setNodeProp id k v = if nodeAlive s id then s.setNodePropRaw id k v else s := by
  unfold Store.setNodeProp nodeAlive
  cases ((aget s.nodes id).map chainAlive).getD false <;> rfl

theorem setEdgeProp_eq (s : Store) (id k : Nat) (v : String) :
    s.setEdgeProp id k v = if edgeAlive s id then s.setEdgePropRaw id k v else s := by
  unfold Store.setEdgeProp edgeAlive
  cases ((aget s.edges id).map (fun e => chainAlive e.1)).getD false <;> rfl

theorem norm_setNodeProp (s : Store) (hs : Settled s) (he : s.epoch ≤ pendingEpoch) (id k : Nat) (v : String) :
    (s.setNodeProp id k v).norm = s.norm.setNodeProp id k v := by
  rw [setNodeProp_eq, setNodeProp_eq, nodeAlive_norm hs he]
  cases nodeAlive s id <;> rfl

theorem norm_setEdgeProp (s : Store) (hs : Settled s) (he : s.epoch ≤ pendingEpoch) (id k : Nat) (v : String) :
    (s.setEdgeProp id k v).norm = s.norm.setEdgeProp id k v := by
  rw [setEdgeProp_eq, setEdgeProp_eq, edgeAlive_norm hs he]
  cases edgeAlive s id <;> rfl

theorem setNodeProp_same (s : Store) (id k : Nat) (v : String) :
    (s.setNodeProp id k v).epoch = s.epoch ∧ (s.setNodeProp id k v).nodes = s.nodes ∧
    (s.setNodeProp id k v).edges = s.edges := by
  rw [setNodeProp_eq]; split <;> exact ⟨rfl, rfl, rfl⟩

theorem setEdgeProp_same (s : Store) (id k : Nat) (v : String) :
    (s.setEdgeProp id k v).epoch = s.epoch ∧ (s.setEdgeProp id k v).nodes = s.nodes ∧
    (s.setEdgeProp id k v).edges = s.edges := by
  rw [setEdgeProp_eq]; split <;> exact ⟨rfl, rfl, rfl⟩

theorem deleteNodeAt_epoch (s : Store) (id e : Nat) : (s.deleteNodeAt id e).1.epoch = s.epoch := by
  unfold Store.deleteNodeAt
  split
  · rfl
  · split <;> rfl

theorem deleteEdgeAt_epoch (s : Store) (id e : Nat) : (s.deleteEdgeAt id e).1.epoch = s.epoch := by
  unfold Store.deleteEdgeAt
  split
  · rfl
  · split <;> rfl

theorem norm_deleteNodeAt (s : Store) (hs : Settled s) (id : Nat) :
    (s.deleteNodeAt id s.epoch).1.norm = (s.norm.deleteNodeAt id 0).1 ∧
    (s.deleteNodeAt id s.epoch).2 = (s.norm.deleteNodeAt id 0).2 := by
  unfold Store.deleteNodeAt
  have hg : aget s.norm.nodes id = (aget s.nodes id).map normChain := aget_amap _ _ _
  cases h : aget s.nodes id with
  | none => simp [hg, h]
  | some c =>
    have hv := chainVisibleAt_norm_settled (hs.node h)
    simp only [hg, h, Option.map_some, hv]
    cases chainVisibleAt c s.epoch with
    | false => simp
    | true =>
      simp only [Bool.not_true, Bool.false_eq_true, if_false, and_true]
      simp [Store.norm, amap_aset, normChain_markDeleted, Store.nodeLabelsOf, Store.nodePropsOf]

theorem norm_deleteEdgeAt (s : Store) (hs : Settled s) (id : Nat) :
    (s.deleteEdgeAt id s.epoch).1.norm = (s.norm.deleteEdgeAt id 0).1 ∧
    (s.deleteEdgeAt id s.epoch).2 = (s.norm.deleteEdgeAt id 0).2 := by
  unfold Store.deleteEdgeAt
  have hg : aget s.norm.edges id = (aget s.edges id).map (fun cr => (normChain cr.1, cr.2)) :=
    aget_amap (fun (cr : List Ver × EdgeRec) => (normChain cr.1, cr.2)) s.edges id
  cases h : aget s.edges id with
  | none => simp [hg, h]
  | some cr =>
    obtain ⟨c, r⟩ := cr
    have hv := chainVisibleAt_norm_settled (hs.edge h)
    simp only [hg, h, Option.map_some, hv]
    cases chainVisibleAt c s.epoch with
    | false => simp
    | true =>
      simp only [Bool.not_true, Bool.false_eq_true, if_false, and_true]
      simp only [Store.norm, amap_aset, normChain_markDeleted]
      rfl

theorem norm_addLabel (s : Store) (hs : Settled s) (id l : Nat) :
    (s.addLabel id l).1.norm = (s.norm.addLabel id l).1 ∧ (s.addLabel id l).2 = (s.norm.addLabel id l).2 := by
  unfold Store.addLabel
  have hg : aget s.norm.nodes id = (aget s.nodes id).map normChain := aget_amap _ _ _
  cases h : aget s.nodes id with
  | none => simp [hg, h]
  | some c =>
    have hv := chainVisibleAt_norm_settled (hs.node h)
    simp only [hg, h, Option.map_some, norm_epoch, hv, norm_nodeLabelsOf]
    cases chainVisibleAt c s.epoch with
    | false => simp
    | true =>
      simp only [Bool.not_true, Bool.false_eq_true, if_false]
      by_cases hl : l ∈ s.nodeLabelsOf id
      · simp [hl]
      · simp only [hl, if_false, and_true]; rfl

theorem norm_removeLabel (s : Store) (hs : Settled s) (id l : Nat) :
    (s.removeLabel id l).1.norm = (s.norm.removeLabel id l).1 ∧
    (s.removeLabel id l).2 = (s.norm.removeLabel id l).2 := by
  unfold Store.removeLabel
  have hg : aget s.norm.nodes id = (aget s.nodes id).map normChain := aget_amap _ _ _
  have hl : s.norm.nodeLabels = s.nodeLabels := rfl
  cases h : aget s.nodes id with
  | none => simp [hg, h]
  | some c =>
    have hv := chainVisibleAt_norm_settled (hs.node h)
    simp only [hg, h, Option.map_some, norm_epoch, hv, hl]
    cases chainVisibleAt c s.epoch with
    | false => simp
    | true =>
      simp only [Bool.not_true, Bool.false_eq_true, if_false]
      cases hn : aget s.nodeLabels id with
      | none => simp
      | some ls =>
        simp only
        by_cases hm : l ∈ ls
        · simp only [hm, not_true_eq_false, if_false, and_true]; rfl
        · simp [hm]

end Grafeo.Lpg

namespace Grafeo.Lpg

/-! ### settledness is preserved by every operation made at the store's own epoch -/

theorem settled_of_same {s s' : Store} (he : s'.epoch = s.epoch) (hn : s'.nodes = s.nodes)
    (hd : s'.edges = s.edges) (h : Settled s) : Settled s' := by
  unfold Settled; rw [he, hn, hd]; exact h

theorem settled_empty : Settled {} := by
  constructor <;> intro kv h <;> cases h

theorem settled_createNodeWithId {s : Store} (h : Settled s) (id : Nat) (ls : List Nat) :
    Settled (s.createNodeWithId id ls) := by
  refine ⟨fun kv hkv => ?_, h.2⟩
  rcases mem_aset _ _ _ _ hkv with e | e
  · subst e
    intro v hv
    simp only [List.mem_singleton] at hv
    subst hv
    exact ⟨Nat.le_refl _, fun d hd => by cases hd⟩
  · exact h.1 kv e

theorem settled_createEdgeWithId {s : Store} (h : Settled s) (id a b t : Nat) :
    Settled (s.createEdgeWithId id a b t) := by
  refine ⟨h.1, fun kv hkv => ?_⟩
  rcases mem_aset _ _ _ _ hkv with e | e
  · subst e
    intro v hv
    simp only [List.mem_singleton] at hv
    subst hv
    exact ⟨Nat.le_refl _, fun d hd => by cases hd⟩
  · exact h.2 kv e

theorem settled_deleteNodeAt {s : Store} (h : Settled s) (id : Nat) : Settled (s.deleteNodeAt id s.epoch).1 := by
  unfold Store.deleteNodeAt
  cases hg : aget s.nodes id with
  | none => exact h
  | some c =>
    simp only
    split
    · exact h
    · refine ⟨fun kv hkv => ?_, h.2⟩
      rcases mem_aset _ _ _ _ hkv with e | e
      · subst e; exact chainSettled_markDeleted (h.node hg)
      · exact h.1 kv e

theorem settled_deleteEdgeAt {s : Store} (h : Settled s) (id : Nat) : Settled (s.deleteEdgeAt id s.epoch).1 := by
  unfold Store.deleteEdgeAt
  cases hg : aget s.edges id with
  | none => exact h
  | some cr =>
    obtain ⟨c, r⟩ := cr
    simp only
    split
    · exact h
    · refine ⟨h.1, fun kv hkv => ?_⟩
      rcases mem_aset _ _ _ _ hkv with e | e
      · subst e; exact chainSettled_markDeleted (h.edge hg)
      · exact h.2 kv e

theorem addLabel_same (s : Store) (id l : Nat) :
    (s.addLabel id l).1.epoch = s.epoch ∧ (s.addLabel id l).1.nodes = s.nodes ∧ (s.addLabel id l).1.edges = s.edges := by
  unfold Store.addLabel
  split
  · exact ⟨rfl, rfl, rfl⟩
  · split
    · exact ⟨rfl, rfl, rfl⟩
    · split <;> exact ⟨rfl, rfl, rfl⟩

theorem removeLabel_same (s : Store) (id l : Nat) :
    (s.removeLabel id l).1.epoch = s.epoch ∧ (s.removeLabel id l).1.nodes = s.nodes ∧
    (s.removeLabel id l).1.edges = s.edges := by
  unfold Store.removeLabel
  split
  · exact ⟨rfl, rfl, rfl⟩
  · split
    · exact ⟨rfl, rfl, rfl⟩
    · split
      · exact ⟨rfl, rfl, rfl⟩
      · split <;> exact ⟨rfl, rfl, rfl⟩

/-- `begin_auto_commit_write`: the manager's epoch moves on by one and the store follows -/
def Store.bump (s : Store) : Store := s.syncEpoch (s.epoch + 1)

theorem bump_epoch (s : Store) : s.bump.epoch = s.epoch + 1 := by
  simp [Store.bump, Store.syncEpoch]

theorem norm_bump (s : Store) : s.bump.norm = s.norm := rfl

theorem settled_bump {s : Store} (h : Settled s) : Settled s.bump := by
  have he := bump_epoch s
  refine ⟨fun kv hkv v hv => ?_, fun kv hkv v hv => ?_⟩
  · rw [he]; exact (h.1 kv hkv v hv).mono (by omega)
  · rw [he]; exact (h.2 kv hkv v hv).mono (by omega)

end Grafeo.Lpg

namespace Grafeo.Persist
open Grafeo.Lpg Grafeo.Wal

/-! ### record level: `applyRec` -/

theorem settled_applyRec {s : Store} (h : Settled s) (r : WRec) : Settled (applyRec s r) := by
  cases r with
  | createNode id ls => exact settled_createNodeWithId h id ls
  | deleteNode id => exact settled_deleteNodeAt h id
  | createEdge id a b t => exact settled_createEdgeWithId h id a b t
  | deleteEdge id => exact settled_deleteEdgeAt h id
  | setNodeProp id k v => have := setNodeProp_same s id k v; exact settled_of_same this.1 this.2.1 this.2.2 h
  | setEdgeProp id k v => have := setEdgeProp_same s id k v; exact settled_of_same this.1 this.2.1 this.2.2 h
  | addLabel id l => have := addLabel_same s id l; exact settled_of_same this.1 this.2.1 this.2.2 h
  | removeLabel id l => have := removeLabel_same s id l; exact settled_of_same this.1 this.2.1 this.2.2 h
  | removeNodeProp id k => exact settled_of_same rfl rfl rfl h
  | txCommit => exact h
  | txAbort => exact h
  | checkpoint => exact h

theorem applyRec_epoch (s : Store) (r : WRec) : (applyRec s r).epoch = s.epoch := by
  cases r with
  | createNode id ls => rfl
  | deleteNode id => exact deleteNodeAt_epoch s id _
  | createEdge id a b t => rfl
  | deleteEdge id => exact deleteEdgeAt_epoch s id _
  | setNodeProp id k v => exact (setNodeProp_same s id k v).1
  | setEdgeProp id k v => exact (setEdgeProp_same s id k v).1
  | addLabel id l => exact (addLabel_same s id l).1
  | removeLabel id l => exact (removeLabel_same s id l).1
  | removeNodeProp id k => rfl
  | txCommit => rfl
  | txAbort => rfl
  | checkpoint => rfl

/-- replaying a record commutes with forgetting the stamps (the store's epoch has not passed
`PENDING`: needed for the aliveness test of the property setters) -/
theorem norm_applyRec {s : Store} (h : Settled s) (he : s.epoch ≤ pendingEpoch) (r : WRec) :
    (applyRec s r).norm = applyRec s.norm r := by
  cases r with
  | createNode id ls => exact norm_createNodeWithId s id ls
  | deleteNode id => exact (norm_deleteNodeAt s h id).1
  | createEdge id a b t => exact norm_createEdgeWithId s id a b t
  | deleteEdge id => exact (norm_deleteEdgeAt s h id).1
  | setNodeProp id k v => exact norm_setNodeProp s h he id k v
  | setEdgeProp id k v => exact norm_setEdgeProp s h he id k v
  | addLabel id l => exact (norm_addLabel s h id l).1
  | removeLabel id l => exact (norm_removeLabel s h id l).1
  | removeNodeProp id k => rfl
  | txCommit => rfl
  | txAbort => rfl
  | checkpoint => rfl

theorem settled_foldl_applyRec {s : Store} (h : Settled s) (rs : List WRec) : Settled (rs.foldl applyRec s) := by
  induction rs generalizing s with
  | nil => exact h
  | cons r rs ih => exact ih (settled_applyRec h r)

theorem norm_foldl_applyRec {s : Store} (h : Settled s) (he : s.epoch ≤ pendingEpoch) (rs : List WRec) :
    (rs.foldl applyRec s).norm = rs.foldl applyRec s.norm := by
  induction rs generalizing s with
  | nil => rfl
  | cons r rs ih =>
    simp only [List.foldl_cons]
    rw [ih (settled_applyRec h r) (by rw [applyRec_epoch]; exact he), norm_applyRec h he r]

theorem foldl_applyRec_epoch (s : Store) (rs : List WRec) : (rs.foldl applyRec s).epoch = s.epoch := by
  induction rs generalizing s with
  | nil => rfl
  | cons r rs ih => simp only [List.foldl_cons]; rw [ih, applyRec_epoch]

end Grafeo.Persist

namespace Grafeo.Lpg

/-! ### what the observers see after an update -/

theorem getD_aget_aset {ν : Type} (l : AList (List ν)) (k x : Nat) (v : List ν) :
    (aget (aset l k v) x).getD [] = if x = k then v else (aget l x).getD [] := by
  rw [aget_aset]; split <;> rfl

theorem getD_aget_aerase {ν : Type} (l : AList (List ν)) (k x : Nat) :
    (aget (aerase l k) x).getD [] = if x = k then [] else (aget l x).getD [] := by
  rw [aget_aerase]; split <;> rfl

theorem getD_adjAdd (a : AList (List (Nat × Nat))) (k other e x : Nat) :
    (aget (adjAdd a k other e) x).getD [] = if x = k then (aget a k).getD [] ++ [(other, e)] else (aget a x).getD [] := by
  unfold adjAdd; rw [getD_aget_aset]

theorem getD_adjDel (a : AList (List (Nat × Nat))) (k e x : Nat) :
    (aget (adjDel a k e) x).getD [] =
      if x = k then ((aget a k).getD []).filter (fun p => p.2 != e) else (aget a x).getD [] := by
  unfold adjDel
  cases h : aget a k with
  | none =>
    by_cases hx : x = k
    · subst hx; simp [h]
    · simp [hx]
  | some l => simp only [getD_aget_aset, Option.getD_some]

theorem nodup_sinsert (s : List Nat) (x : Nat) (h : s.Nodup) : (sinsert s x).Nodup := by
  unfold sinsert
  split
  · exact h
  · rename_i hx
    refine List.nodup_append.mpr ⟨h, by simp, ?_⟩
    intro a ha b hb
    simp only [List.mem_singleton] at hb
    subst hb
    intro e; subst e; exact hx ha

theorem nodup_foldl_sinsert (ls acc : List Nat) (h : acc.Nodup) : (ls.foldl sinsert acc).Nodup := by
  induction ls generalizing acc with
  | nil => exact h
  | cons l ls ih => exact ih _ (nodup_sinsert acc l h)

/-- re-inserting a duplicate-free list one by one into the empty set gives it back -/
theorem foldl_sinsert_rebuild (ls acc : List Nat) (h : (acc ++ ls).Nodup) : ls.foldl sinsert acc = acc ++ ls := by
  induction ls generalizing acc with
  | nil => simp
  | cons l ls ih =>
    simp only [List.foldl_cons]
    have hl : l ∉ acc := by
      intro hm
      exact (List.nodup_append.mp h).2.2 _ hm _ List.mem_cons_self rfl
    have : sinsert acc l = acc ++ [l] := by simp [sinsert, hl]
    rw [this, ih]
    · simp
    · simpa using h

theorem nodup_of_pairwise_lt {l : List Nat} (h : l.Pairwise (· < ·)) : l.Nodup :=
  List.Pairwise.imp (fun hab => Nat.ne_of_lt hab) h

/-! ### the edges an enumeration sees, and the adjacency they induce -/

def edgeView (s : Store) : List (Nat × EdgeRec) :=
  (s.edges.filter (fun kv => chainVisibleAt kv.2.1 s.epoch)).map (fun kv => (kv.1, kv.2.2))

def outChar (es : List (Nat × EdgeRec)) (n : Nat) : List (Nat × Nat) :=
  es.filterMap (fun p => if p.2.src = n then some (p.2.dst, p.1) else none)

def inChar (es : List (Nat × EdgeRec)) (n : Nat) : List (Nat × Nat) :=
  es.filterMap (fun p => if p.2.dst = n then some (p.2.src, p.1) else none)

theorem edgeIds_eq_view (s : Store) : s.edgeIds = (edgeView s).map (·.1) := by
  simp [Store.edgeIds, edgeView, List.map_map, Function.comp_def]

theorem outChar_append (es fs : List (Nat × EdgeRec)) (n : Nat) : outChar (es ++ fs) n = outChar es n ++ outChar fs n := by
  simp [outChar, List.filterMap_append]

theorem inChar_append (es fs : List (Nat × EdgeRec)) (n : Nat) : inChar (es ++ fs) n = inChar es n ++ inChar fs n := by
  simp [inChar, List.filterMap_append]

theorem outChar_filter (es : List (Nat × EdgeRec)) (n id : Nat) :
    outChar (es.filter (fun p => p.1 != id)) n = (outChar es n).filter (fun q => q.2 != id) := by
  induction es with
  | nil => rfl
  | cons p ps ih =>
    unfold outChar at ih ⊢
    by_cases hp : p.1 = id
    · by_cases hs : p.2.src = n <;> simp [List.filter_cons, List.filterMap_cons, hp, hs, ih]
    · by_cases hs : p.2.src = n <;> simp [List.filter_cons, List.filterMap_cons, hp, hs, ih]

theorem inChar_filter (es : List (Nat × EdgeRec)) (n id : Nat) :
    inChar (es.filter (fun p => p.1 != id)) n = (inChar es n).filter (fun q => q.2 != id) := by
  induction es with
  | nil => rfl
  | cons p ps ih =>
    unfold inChar at ih ⊢
    by_cases hp : p.1 = id
    · by_cases hs : p.2.dst = n <;> simp [List.filter_cons, List.filterMap_cons, hp, hs, ih]
    · by_cases hs : p.2.dst = n <;> simp [List.filter_cons, List.filterMap_cons, hp, hs, ih]

theorem mem_outChar {es : List (Nat × EdgeRec)} {n : Nat} {q : Nat × Nat} (h : q ∈ outChar es n) :
    ∃ p ∈ es, p.2.src = n ∧ q = (p.2.dst, p.1) := by
  unfold outChar at h
  obtain ⟨p, hp, hq⟩ := List.mem_filterMap.mp h
  by_cases hs : p.2.src = n
  · simp only [hs, if_true, Option.some.injEq] at hq
    exact ⟨p, hp, hs, hq.symm⟩
  · simp [hs] at hq

theorem mem_inChar {es : List (Nat × EdgeRec)} {n : Nat} {q : Nat × Nat} (h : q ∈ inChar es n) :
    ∃ p ∈ es, p.2.dst = n ∧ q = (p.2.src, p.1) := by
  unfold inChar at h
  obtain ⟨p, hp, hq⟩ := List.mem_filterMap.mp h
  by_cases hs : p.2.dst = n
  · simp only [hs, if_true, Option.some.injEq] at hq
    exact ⟨p, hp, hs, hq.symm⟩
  · simp [hs] at hq

/-- rewriting one entry of the edge table into an invisible one removes it from the view -/
theorem view_update (l : AList (List Ver × EdgeRec)) (e id : Nat)
    (g : Nat × (List Ver × EdgeRec) → Nat × (List Ver × EdgeRec))
    (h1 : ∀ kv ∈ l, kv.1 ≠ id → g kv = kv)
    (h2 : ∀ kv ∈ l, kv.1 = id → chainVisibleAt (g kv).2.1 e = false ∧ (g kv).1 = id) :
    ((l.map g).filter (fun kv => chainVisibleAt kv.2.1 e)).map (fun kv => (kv.1, kv.2.2)) =
      ((l.filter (fun kv => chainVisibleAt kv.2.1 e)).map (fun kv => (kv.1, kv.2.2))).filter (fun p => p.1 != id) := by
  induction l with
  | nil => rfl
  | cons kv rest ih =>
    have ih' := ih (fun x hx => h1 x (List.mem_cons_of_mem _ hx)) (fun x hx => h2 x (List.mem_cons_of_mem _ hx))
    by_cases hk : kv.1 = id
    · have h := h2 kv List.mem_cons_self hk
      by_cases hv : chainVisibleAt kv.2.1 e = true
      · simp only [List.map_cons, List.filter_cons, h.1, Bool.false_eq_true, if_false, hv, if_true, hk,
          bne_self_eq_false]
        exact ih'
      · simp only [List.map_cons, List.filter_cons, h.1, Bool.false_eq_true, if_false, hv]
        exact ih'
    · have h := h1 kv List.mem_cons_self hk
      have hb : (kv.1 != id) = true := by simp [hk]
      by_cases hv : chainVisibleAt kv.2.1 e = true
      · simp only [List.map_cons, List.filter_cons, h, hv, if_true, hb]
        rw [ih']
      · simp only [List.map_cons, List.filter_cons, h, hv, Bool.false_eq_true, if_false]
        exact ih'

end Grafeo.Lpg

namespace Grafeo.Lpg

/-! ### invariants of stores built through the logged API -/

/-- node ids are handed out in increasing order and never reused -/
def NodeKeysOk (s : Store) : Prop :=
  (akeys s.nodes).Pairwise (· < ·) ∧ ∀ k ∈ akeys s.nodes, k < s.nextNode

def LabelsOk (s : Store) : Prop := ∀ id, (s.nodeLabelsOf id).Nodup

def PropsOk (s : Store) : Prop :=
  (∀ id, (akeys (s.nodePropsOf id)).Nodup) ∧ ∀ id, (akeys ((aget s.eprops id).getD [])).Nodup

/-- edge ids increase; the adjacency lists hold exactly the edges an enumeration sees, filed
under their source (forward) and target (backward), in edge-id order -/
def EdgesOk (s : Store) : Prop :=
  (akeys s.edges).Pairwise (· < ·) ∧ (∀ k ∈ akeys s.edges, k < s.nextEdge) ∧ s.hasBwd = true ∧
  (∀ n, s.outEdges n = outChar (edgeView s) n) ∧ (∀ n, s.inEdges n = inChar (edgeView s) n)

/-- every edge has exactly one version (ids are never reused) -/
def EdgeSingle (s : Store) : Prop := ∀ kv ∈ s.edges, ∃ v, kv.2.1 = [v]

structure Good (s : Store) : Prop where
  nk : NodeKeysOk s
  lb : LabelsOk s
  pr : PropsOk s
  ed : EdgesOk s
  sg : EdgeSingle s

theorem edgeSingle_of_same {s s' : Store} (h : EdgeSingle s) (h1 : s'.edges = s.edges) : EdgeSingle s' := by
  unfold EdgeSingle at *; rw [h1]; exact h

theorem good_empty : Good {} := by
  refine ⟨⟨List.Pairwise.nil, fun k h => (List.not_mem_nil h).elim⟩, fun id => List.nodup_nil,
    ⟨fun id => List.nodup_nil, fun id => List.nodup_nil⟩,
    ⟨List.Pairwise.nil, fun k h => (List.not_mem_nil h).elim, rfl, fun n => rfl, fun n => rfl⟩,
    fun kv h => (List.not_mem_nil h).elim⟩

theorem edgesOk_of_same {s s' : Store} (h : EdgesOk s) (h1 : s'.edges = s.edges) (h2 : s'.nextEdge = s.nextEdge)
    (h3 : s'.epoch = s.epoch) (h4 : s'.fwd = s.fwd) (h5 : s'.bwd = s.bwd) (h6 : s'.hasBwd = s.hasBwd) : EdgesOk s' := by
  unfold EdgesOk edgeView Store.outEdges Store.inEdges at *
  rw [h1, h2, h3, h4, h5, h6]; exact h

theorem nodeKeysOk_of_same {s s' : Store} (h : NodeKeysOk s) (h1 : s'.nodes = s.nodes) (h2 : s'.nextNode = s.nextNode) :
    NodeKeysOk s' := by
  unfold NodeKeysOk at *; rw [h1, h2]; exact h

theorem labelsOk_of_same {s s' : Store} (h : LabelsOk s) (h1 : s'.nodeLabels = s.nodeLabels) : LabelsOk s' := by
  unfold LabelsOk Store.nodeLabelsOf at *; rw [h1]; exact h

theorem propsOk_of_same {s s' : Store} (h : PropsOk s) (h1 : s'.nprops = s.nprops) (h2 : s'.eprops = s.eprops) : PropsOk s' := by
  unfold PropsOk Store.nodePropsOf at *; rw [h1, h2]; exact h

theorem NodeKeysOk.fresh {s : Store} (h : NodeKeysOk s) {id : Nat} (hid : s.nextNode ≤ id) : id ∉ akeys s.nodes :=
  fun hm => by have := h.2 id hm; omega

theorem EdgesOk.fresh {s : Store} (h : EdgesOk s) {id : Nat} (hid : s.nextEdge ≤ id) : id ∉ akeys s.edges :=
  fun hm => by have := h.2.1 id hm; omega

theorem pairwise_lt_snoc {l : List Nat} {x : Nat} (h : l.Pairwise (· < ·)) (hx : ∀ k ∈ l, k < x) :
    (l ++ [x]).Pairwise (· < ·) := by
  refine List.pairwise_append.mpr ⟨h, List.pairwise_singleton _ _, ?_⟩
  intro a ha b hb
  simp only [List.mem_singleton] at hb
  subst hb; exact hx a ha

/-! #### nodes -/

theorem good_createNodeWithId {s : Store} (h : Good s) (id : Nat) (ls : List Nat) (hid : s.nextNode ≤ id) :
    Good (s.createNodeWithId id ls) := by
  have hf := h.nk.fresh hid
  refine ⟨?_, ?_, propsOk_of_same h.pr rfl rfl, edgesOk_of_same h.ed rfl rfl rfl rfl rfl rfl,
    edgeSingle_of_same h.sg rfl⟩
  · unfold NodeKeysOk Store.createNodeWithId
    simp only [akeys_aset, hf, if_false]
    refine ⟨pairwise_lt_snoc h.nk.1 (fun k hk => by have := h.nk.2 k hk; omega), ?_⟩
    intro k hk
    have hge : id ≥ s.nextNode := hid
    simp only [hge, if_true]
    rcases List.mem_append.mp hk with hk | hk
    · have := h.nk.2 k hk; omega
    · simp only [List.mem_singleton] at hk; omega
  · intro x
    unfold Store.nodeLabelsOf Store.createNodeWithId
    simp only [getD_aget_aset]
    split
    · exact nodup_foldl_sinsert _ _ List.nodup_nil
    · exact h.lb x

theorem deleteNodeAt_fields (s : Store) (id e : Nat) :
    let s' := (s.deleteNodeAt id e).1
    s'.epoch = s.epoch ∧ s'.edges = s.edges ∧ s'.nextEdge = s.nextEdge ∧ s'.fwd = s.fwd ∧ s'.bwd = s.bwd ∧
    s'.hasBwd = s.hasBwd ∧ s'.eprops = s.eprops ∧ s'.nextNode = s.nextNode ∧ akeys s'.nodes = akeys s.nodes ∧
    (∀ x, s'.nodeLabelsOf x = s.nodeLabelsOf x ∨ s'.nodeLabelsOf x = []) ∧
    (∀ x, s'.nodePropsOf x = s.nodePropsOf x ∨ s'.nodePropsOf x = []) := by
  unfold Store.deleteNodeAt
  cases hg : aget s.nodes id with
  | none => exact ⟨rfl, rfl, rfl, rfl, rfl, rfl, rfl, rfl, rfl, fun x => Or.inl rfl, fun x => Or.inl rfl⟩
  | some c =>
    simp only
    split
    · exact ⟨rfl, rfl, rfl, rfl, rfl, rfl, rfl, rfl, rfl, fun x => Or.inl rfl, fun x => Or.inl rfl⟩
    · refine ⟨rfl, rfl, rfl, rfl, rfl, rfl, rfl, rfl, ?_, ?_, ?_⟩
      · simp only [akeys_aset, mem_akeys_of_aget _ _ _ hg, if_true]
      · intro x
        unfold Store.nodeLabelsOf
        simp only [getD_aget_aerase]
        split
        · exact Or.inr rfl
        · exact Or.inl rfl
      · intro x
        unfold Store.nodePropsOf
        simp only [getD_aget_aerase]
        split
        · exact Or.inr rfl
        · exact Or.inl rfl

theorem good_deleteNodeAt {s : Store} (h : Good s) (id e : Nat) : Good (s.deleteNodeAt id e).1 := by
  obtain ⟨h1, h2, h3, h4, h5, h6, h7, h8, h9, h10, h11⟩ := deleteNodeAt_fields s id e
  refine ⟨?_, ?_, ⟨?_, ?_⟩, edgesOk_of_same h.ed h2 h3 h1 h4 h5 h6, edgeSingle_of_same h.sg h2⟩
  · unfold NodeKeysOk; rw [h9, h8]; exact h.nk
  · intro x
    rcases h10 x with e | e <;> rw [e]
    · exact h.lb x
    · exact List.nodup_nil
  · intro x
    rcases h11 x with e | e <;> rw [e]
    · exact h.pr.1 x
    · exact List.nodup_nil
  · intro x; rw [h7]; exact h.pr.2 x

theorem good_setNodePropRaw {s : Store} (h : Good s) (id k : Nat) (v : String) : Good (s.setNodePropRaw id k v) := by
  refine ⟨nodeKeysOk_of_same h.nk rfl rfl, labelsOk_of_same h.lb rfl, ⟨?_, h.pr.2⟩,
    edgesOk_of_same h.ed rfl rfl rfl rfl rfl rfl, edgeSingle_of_same h.sg rfl⟩
  intro x
  unfold Store.nodePropsOf Store.setNodePropRaw
  simp only [getD_aget_aset]
  split
  · rw [akeys_aset]
    split
    · exact h.pr.1 id
    · rename_i hk
      refine List.nodup_append.mpr ⟨h.pr.1 id, by simp, ?_⟩
      intro a ha b hb
      simp only [List.mem_singleton] at hb
      subst hb; intro e; subst e; exact hk ha
  · exact h.pr.1 x

theorem good_setNodeProp {s : Store} (h : Good s) (id k : Nat) (v : String) : Good (s.setNodeProp id k v) := by
  rw [setNodeProp_eq]
  split
  · exact good_setNodePropRaw h id k v
  · exact h

theorem good_setEdgePropRaw {s : Store} (h : Good s) (id k : Nat) (v : String) : Good (s.setEdgePropRaw id k v) := by
  refine ⟨nodeKeysOk_of_same h.nk rfl rfl, labelsOk_of_same h.lb rfl, ⟨h.pr.1, ?_⟩,
    edgesOk_of_same h.ed rfl rfl rfl rfl rfl rfl, edgeSingle_of_same h.sg rfl⟩
  intro x
  unfold Store.setEdgePropRaw
  simp only [getD_aget_aset]
  split
  · rw [akeys_aset]
    split
    · exact h.pr.2 id
    · rename_i hk
      refine List.nodup_append.mpr ⟨h.pr.2 id, by simp, ?_⟩
      intro a ha b hb
      simp only [List.mem_singleton] at hb
      subst hb; intro e; subst e; exact hk ha
  · exact h.pr.2 x

theorem good_setEdgeProp {s : Store} (h : Good s) (id k : Nat) (v : String) : Good (s.setEdgeProp id k v) := by
  rw [setEdgeProp_eq]
  split
  · exact good_setEdgePropRaw h id k v
  · exact h

theorem addLabel_fields (s : Store) (id l : Nat) :
    let s' := (s.addLabel id l).1
    s'.epoch = s.epoch ∧ s'.nodes = s.nodes ∧ s'.nextNode = s.nextNode ∧ s'.edges = s.edges ∧
    s'.nextEdge = s.nextEdge ∧ s'.fwd = s.fwd ∧ s'.bwd = s.bwd ∧ s'.hasBwd = s.hasBwd ∧ s'.nprops = s.nprops ∧
    s'.eprops = s.eprops ∧
    (∀ x, s'.nodeLabelsOf x = s.nodeLabelsOf x ∨ (l ∉ s.nodeLabelsOf x ∧ s'.nodeLabelsOf x = s.nodeLabelsOf x ++ [l])) := by
  unfold Store.addLabel
  split
  · exact ⟨rfl, rfl, rfl, rfl, rfl, rfl, rfl, rfl, rfl, rfl, fun x => Or.inl rfl⟩
  · split
    · exact ⟨rfl, rfl, rfl, rfl, rfl, rfl, rfl, rfl, rfl, rfl, fun x => Or.inl rfl⟩
    · split
      · exact ⟨rfl, rfl, rfl, rfl, rfl, rfl, rfl, rfl, rfl, rfl, fun x => Or.inl rfl⟩
      · rename_i hl
        refine ⟨rfl, rfl, rfl, rfl, rfl, rfl, rfl, rfl, rfl, rfl, ?_⟩
        intro x
        unfold Store.nodeLabelsOf at hl ⊢
        by_cases hx : x = id
        · subst hx; exact Or.inr ⟨hl, by simp only [getD_aget_aset, if_true]⟩
        · exact Or.inl (by simp only [getD_aget_aset, hx, if_false])

theorem good_addLabel {s : Store} (h : Good s) (id l : Nat) : Good (s.addLabel id l).1 := by
  obtain ⟨h1, h2, h3, h4, h5, h6, h7, h8, h9, h10, h11⟩ := addLabel_fields s id l
  refine ⟨nodeKeysOk_of_same h.nk h2 h3, ?_, propsOk_of_same h.pr h9 h10, edgesOk_of_same h.ed h4 h5 h1 h6 h7 h8,
    edgeSingle_of_same h.sg h4⟩
  intro x
  rcases h11 x with e | ⟨hl, e⟩ <;> rw [e]
  · exact h.lb x
  · refine List.nodup_append.mpr ⟨h.lb x, by simp, ?_⟩
    intro a ha b hb
    simp only [List.mem_singleton] at hb
    subst hb; intro e; subst e; exact hl ha

theorem removeLabel_fields (s : Store) (id l : Nat) :
    let s' := (s.removeLabel id l).1
    s'.epoch = s.epoch ∧ s'.nodes = s.nodes ∧ s'.nextNode = s.nextNode ∧ s'.edges = s.edges ∧
    s'.nextEdge = s.nextEdge ∧ s'.fwd = s.fwd ∧ s'.bwd = s.bwd ∧ s'.hasBwd = s.hasBwd ∧ s'.nprops = s.nprops ∧
    s'.eprops = s.eprops ∧
    (∀ x, s'.nodeLabelsOf x = s.nodeLabelsOf x ∨ s'.nodeLabelsOf x = serase (s.nodeLabelsOf x) l) := by
  unfold Store.removeLabel
  split
  · exact ⟨rfl, rfl, rfl, rfl, rfl, rfl, rfl, rfl, rfl, rfl, fun x => Or.inl rfl⟩
  · split
    · exact ⟨rfl, rfl, rfl, rfl, rfl, rfl, rfl, rfl, rfl, rfl, fun x => Or.inl rfl⟩
    · split
      · exact ⟨rfl, rfl, rfl, rfl, rfl, rfl, rfl, rfl, rfl, rfl, fun x => Or.inl rfl⟩
      · rename_i ls hls
        split
        · exact ⟨rfl, rfl, rfl, rfl, rfl, rfl, rfl, rfl, rfl, rfl, fun x => Or.inl rfl⟩
        · refine ⟨rfl, rfl, rfl, rfl, rfl, rfl, rfl, rfl, rfl, rfl, ?_⟩
          intro x
          unfold Store.nodeLabelsOf
          by_cases hx : x = id
          · subst hx; exact Or.inr (by simp only [getD_aget_aset, if_true, hls, Option.getD_some])
          · exact Or.inl (by simp only [getD_aget_aset, hx, if_false])

theorem good_removeLabel {s : Store} (h : Good s) (id l : Nat) : Good (s.removeLabel id l).1 := by
  obtain ⟨h1, h2, h3, h4, h5, h6, h7, h8, h9, h10, h11⟩ := removeLabel_fields s id l
  refine ⟨nodeKeysOk_of_same h.nk h2 h3, ?_, propsOk_of_same h.pr h9 h10, edgesOk_of_same h.ed h4 h5 h1 h6 h7 h8,
    edgeSingle_of_same h.sg h4⟩
  intro x
  rcases h11 x with e | e <;> rw [e]
  · exact h.lb x
  · exact List.Nodup.sublist List.filter_sublist (h.lb x)

end Grafeo.Lpg

namespace Grafeo.Lpg

/-! #### edges -/

theorem chainVisibleAt_fresh (e tx : Nat) : chainVisibleAt [⟨e, tx, none⟩] e = true := by
  simp [chainVisibleAt, Ver.visibleAt]

theorem edgeView_createEdgeWithId {s : Store} (id a b t : Nat) (hf : id ∉ akeys s.edges) :
    edgeView (s.createEdgeWithId id a b t) = edgeView s ++ [(id, ⟨a, b, t⟩)] := by
  unfold edgeView Store.createEdgeWithId
  simp only [aset_fresh _ _ _ hf, List.filter_append, List.map_append]
  simp [chainVisibleAt_fresh]

theorem good_createEdgeWithId {s : Store} (h : Good s) (id a b t : Nat) (hid : s.nextEdge ≤ id) :
    Good (s.createEdgeWithId id a b t) := by
  have hf := h.ed.fresh hid
  obtain ⟨e1, e2, e3, e4, e5⟩ := h.ed
  refine ⟨nodeKeysOk_of_same h.nk rfl rfl, labelsOk_of_same h.lb rfl, propsOk_of_same h.pr rfl rfl,
    ⟨?_, ?_, e3, ?_, ?_⟩, ?_⟩
  · show (akeys (aset s.edges id _)).Pairwise (· < ·)
    simp only [akeys_aset, hf, if_false]
    exact pairwise_lt_snoc e1 (fun k hk => by have := e2 k hk; omega)
  · intro k hk
    have hk' : k ∈ akeys (aset s.edges id ([⟨s.epoch, systemTx, none⟩], ⟨a, b, t⟩)) := hk
    simp only [akeys_aset, hf, if_false] at hk'
    have hge : id ≥ s.nextEdge := hid
    show k < (if id ≥ s.nextEdge then id + 1 else s.nextEdge)
    simp only [hge, if_true]
    rcases List.mem_append.mp hk' with hk' | hk'
    · have := e2 k hk'; omega
    · simp only [List.mem_singleton] at hk'; omega
  · intro n
    rw [edgeView_createEdgeWithId id a b t hf, outChar_append, ← e4 n]
    show (aget (adjAdd s.fwd a b id) n).getD [] = _
    rw [getD_adjAdd]
    by_cases hn : n = a
    · subst hn; simp [outChar, Store.outEdges]
    · have : ¬ a = n := fun e => hn e.symm
      simp [outChar, Store.outEdges, hn, this]
  · intro n
    rw [edgeView_createEdgeWithId id a b t hf, inChar_append, ← e5 n]
    show (if (s.createEdgeWithId id a b t).hasBwd = true then (aget (s.createEdgeWithId id a b t).bwd n).getD [] else _) = _
    have hb : (s.createEdgeWithId id a b t).hasBwd = true := e3
    simp only [hb, if_true]
    show (aget (if s.hasBwd = true then adjAdd s.bwd b a id else s.bwd) n).getD [] = _
    simp only [e3, if_true]
    rw [getD_adjAdd]
    by_cases hn : n = b
    · subst hn; simp [inChar, Store.inEdges, e3]
    · have : ¬ b = n := fun e => hn e.symm
      simp [inChar, Store.inEdges, e3, hn, this]

  · intro kv hkv
    rcases mem_aset _ _ _ _ hkv with e | e
    · subst e; exact ⟨_, rfl⟩
    · exact h.sg kv e

end Grafeo.Lpg

namespace Grafeo.Lpg

theorem markDeleted_single_invisible {e : Nat} {v : Ver} (hs : VerSettled e v)
    (hv : chainVisibleAt [v] e = true) : chainVisibleAt (chainMarkDeleted e [v]) e = false := by
  have h1 : v.visibleAt e = true := by simpa [chainVisibleAt] using hv
  rw [visibleAt_of_settled hs (Nat.le_refl _)] at h1
  simp [chainMarkDeleted, h1, chainVisibleAt, Ver.visibleAt]

theorem markDeleted_single_shape (e : Nat) (v : Ver) : ∃ v', chainMarkDeleted e [v] = [v'] := by
  simp only [chainMarkDeleted]
  split
  · exact ⟨_, rfl⟩
  · exact ⟨_, rfl⟩

theorem mem_edgeView {s : Store} {p : Nat × EdgeRec} (h : p ∈ edgeView s) :
    ∃ c, (p.1, (c, p.2)) ∈ s.edges := by
  unfold edgeView at h
  obtain ⟨kv, hkv, e⟩ := List.mem_map.mp h
  subst e
  exact ⟨kv.2.1, (List.mem_filter.mp hkv).1⟩

theorem good_deleteEdgeAt {s : Store} (h : Good s) (hs : Settled s) (id : Nat) :
    Good (s.deleteEdgeAt id s.epoch).1 := by
  unfold Store.deleteEdgeAt
  cases hg : aget s.edges id with
  | none => exact h
  | some cr =>
    obtain ⟨c, r⟩ := cr
    simp only
    cases hv : chainVisibleAt c s.epoch with
    | false => simp only [Bool.not_false, if_true]; exact h
    | true =>
    simp only [Bool.not_true, Bool.false_eq_true, if_false]
    obtain ⟨e1, e2, e3, e4, e5⟩ := h.ed
    have hnd := nodup_of_pairwise_lt e1
    have hmem := mem_akeys_of_aget _ _ _ hg
    obtain ⟨v, hcv⟩ := h.sg (id, (c, r)) (aget_mem _ _ _ hg)
    simp only at hcv
    subst hcv
    have hinv : chainVisibleAt (chainMarkDeleted s.epoch [v]) s.epoch = false :=
      markDeleted_single_invisible ((hs.edge hg) v List.mem_cons_self) hv
    -- the view loses exactly this edge
    have hview : edgeView { s with edges := aset s.edges id (chainMarkDeleted s.epoch [v], r),
                                   fwd := adjDel s.fwd r.src id,
                                   bwd := if s.hasBwd then adjDel s.bwd r.dst id else s.bwd,
                                   eprops := aerase s.eprops id } =
        (edgeView s).filter (fun p => p.1 != id) := by
      unfold edgeView
      simp only
      rw [aset_eq_map _ _ _ hnd hmem]
      apply view_update
      · intro kv _ hk; simp [hk]
      · intro kv _ hk; simp [hk, hinv]
    -- no other source / target files this edge
    have hsrc : ∀ p ∈ edgeView s, p.1 = id → p.2 = r := by
      intro p hp hpid
      obtain ⟨c', hm⟩ := mem_edgeView hp
      have := aget_of_mem_nodup _ _ _ hnd hm
      rw [hpid, hg] at this
      cases this; rfl
    refine ⟨nodeKeysOk_of_same h.nk rfl rfl, labelsOk_of_same h.lb rfl, ⟨h.pr.1, ?_⟩, ⟨?_, ?_, e3, ?_, ?_⟩, ?_⟩
    · intro x
      simp only [getD_aget_aerase]
      split
      · exact List.nodup_nil
      · exact h.pr.2 x
    · show (akeys (aset s.edges id _)).Pairwise (· < ·)
      simp only [akeys_aset, hmem, if_true]; exact e1
    · intro k hk
      have hk' : k ∈ akeys (aset s.edges id (chainMarkDeleted s.epoch [v], r)) := hk
      simp only [akeys_aset, hmem, if_true] at hk'
      exact e2 k hk'
    · intro n
      rw [hview, outChar_filter, ← e4 n]
      show (aget (adjDel s.fwd r.src id) n).getD [] = _
      rw [getD_adjDel]
      by_cases hn : n = r.src
      · subst hn; simp [Store.outEdges]
      · simp only [hn, if_false]
        symm
        apply List.filter_eq_self.mpr
        intro q hq
        have hq' : q ∈ outChar (edgeView s) n := by rw [← e4 n]; exact hq
        obtain ⟨p, hp, hps, hqe⟩ := mem_outChar hq'
        subst hqe
        simp only [bne_iff_ne, ne_eq]
        intro hpid
        have := hsrc p hp hpid
        rw [this] at hps
        exact hn hps.symm
    · intro n
      rw [hview, inChar_filter, ← e5 n]
      show (if s.hasBwd = true then (aget (if s.hasBwd = true then adjDel s.bwd r.dst id else s.bwd) n).getD [] else _) = _
      simp only [e3, if_true]
      rw [getD_adjDel]
      by_cases hn : n = r.dst
      · subst hn; simp [Store.inEdges, e3]
      · simp only [hn, if_false]
        have hin : s.inEdges n = (aget s.bwd n).getD [] := by simp [Store.inEdges, e3]
        rw [hin]
        symm
        apply List.filter_eq_self.mpr
        intro q hq
        have hq' : q ∈ inChar (edgeView s) n := by rw [← e5 n, hin]; exact hq
        obtain ⟨p, hp, hps, hqe⟩ := mem_inChar hq'
        subst hqe
        simp only [bne_iff_ne, ne_eq]
        intro hpid
        have := hsrc p hp hpid
        rw [this] at hps
        exact hn hps.symm
    · intro kv hkv
      rcases mem_aset _ _ _ _ hkv with e | e
      · subst e
        exact markDeleted_single_shape s.epoch v
      · exact h.sg kv e

end Grafeo.Lpg

namespace Grafeo.Persist
open Grafeo.Lpg Grafeo.Wal

/-! ### one logged call = at most one replayed record -/

/-- ids in a create record are not below the store's counters (always so for the record a
create call has just logged) -/
theorem nodePropsOf_removeNodeProp (s : Store) (id k x : Nat) :
    (s.removeNodeProp id k).1.nodePropsOf x = if x = id then aerase (s.nodePropsOf id) k else s.nodePropsOf x := by
  unfold Store.removeNodeProp Store.nodePropsOf
  simp only
  cases h : aget s.nprops id with
  | none =>
    simp only [Option.isSome_none, Bool.false_eq_true, if_false, Option.getD_none]
    by_cases hx : x = id
    · subst hx; simp [h, aerase]
    · simp [hx]
  | some p =>
    simp only [Option.isSome_some, if_true, getD_aget_aset, Option.getD_some]

theorem good_removeNodeProp {s : Store} (h : Good s) (id k : Nat) : Good (s.removeNodeProp id k).1 := by
  refine ⟨nodeKeysOk_of_same h.nk rfl rfl, labelsOk_of_same h.lb rfl, ⟨?_, h.pr.2⟩,
    edgesOk_of_same h.ed rfl rfl rfl rfl rfl rfl, edgeSingle_of_same h.sg rfl⟩
  intro x
  rw [nodePropsOf_removeNodeProp]
  split
  · rw [akeys_aerase]
    exact List.Nodup.sublist List.filter_sublist (h.pr.1 id)
  · exact h.pr.1 x

def RecFresh (s : Store) : WRec → Prop
  | .createNode id _ => s.nextNode ≤ id
  | .createEdge id _ _ _ => s.nextEdge ≤ id
  | _ => True

theorem good_applyRec {s : Store} (h : Good s) (hs : Settled s) (r : WRec) (hr : RecFresh s r) :
    Good (applyRec s r) := by
  cases r with
  | createNode id ls => exact good_createNodeWithId h id ls hr
  | deleteNode id => exact good_deleteNodeAt h id _
  | createEdge id a b t => exact good_createEdgeWithId h id a b t hr
  | deleteEdge id => exact good_deleteEdgeAt h hs id
  | setNodeProp id k v => exact good_setNodeProp h id k v
  | setEdgeProp id k v => exact good_setEdgeProp h id k v
  | addLabel id l => exact good_addLabel h id l
  | removeLabel id l => exact good_removeLabel h id l
  | removeNodeProp id k => exact good_removeNodeProp h id k
  | txCommit => exact h
  | txAbort => exact h
  | checkpoint => exact h

/-- the calls that change data (everything but checkpoint and close→reopen) -/
def LOp.isData : LOp → Bool
  | .checkpoint => false
  | .closeReopen => false
  | _ => true

/-- the record a logged call appends, as a function of the live store (`none`: the call was
refused and nothing is logged) -/
def recOf (s : Store) : LOp → Option WRec
  | .createNode ls => some (.createNode s.nextNode ls)
  | .deleteNode id => if (s.deleteNodeAt id s.epoch).2 then some (.deleteNode id) else none
  | .createEdge a b t => some (.createEdge s.nextEdge a b t)
  | .deleteEdge id => if (s.deleteEdgeAt id s.epoch).2 then some (.deleteEdge id) else none
  | .setNodeProp id k v => some (.setNodeProp id k v)
  | .setEdgeProp id k v => some (.setEdgeProp id k v)
  | .addLabel id l => if (s.addLabel id l).2 then some (.addLabel id l) else none
  | .removeLabel id l => if (s.removeLabel id l).2 then some (.removeLabel id l) else none
  | .removeNodeProp id k => if (s.removeNodeProp id k).2.isSome then some (.removeNodeProp id k) else none
  | .checkpoint => none
  | .closeReopen => none

/-- **normal form of a logged call**: the live store moves by replaying the record that is
appended to the log — the call and its replay are the same function. -/
theorem api_data (d : Db) (op : LOp) (h : op.isData = true) :
    d.api op = { d with live := (recOf d.live op).toList.foldl applyRec d.live,
                        log := d.log ++ (recOf d.live op).toList } := by
  cases op with
  | createNode ls =>
    simp only [Db.api, recOf, Option.toList_some, List.foldl_cons, List.foldl_nil, applyRec_createNode]
    rfl
  | createEdge a b t =>
    simp only [Db.api, recOf, Option.toList_some, List.foldl_cons, List.foldl_nil, applyRec_createEdge]
    rfl
  | setNodeProp id k v => rfl
  | setEdgeProp id k v => rfl
  | deleteNode id =>
    simp only [Db.api, recOf]
    cases hok : (d.live.deleteNodeAt id d.live.epoch).2 with
    | true => rfl
    | false => simp [deleteNodeAt_false _ _ _ hok]
  | deleteEdge id =>
    simp only [Db.api, recOf]
    cases hok : (d.live.deleteEdgeAt id d.live.epoch).2 with
    | true => rfl
    | false => simp [deleteEdgeAt_false _ _ _ hok]
  | addLabel id l =>
    simp only [Db.api, recOf]
    cases hok : (d.live.addLabel id l).2 with
    | true => rfl
    | false => simp [addLabel_false _ _ _ hok]
  | removeLabel id l =>
    simp only [Db.api, recOf]
    cases hok : (d.live.removeLabel id l).2 with
    | true => rfl
    | false => simp [removeLabel_false _ _ _ hok]
  | removeNodeProp id k =>
    simp only [Db.api, recOf]
    cases hok : (d.live.removeNodeProp id k).2 with
    | some o => rfl
    | none => simp [removeNodeProp_none _ _ _ hok]
  | checkpoint => cases h
  | closeReopen => cases h

theorem recOf_fresh (s : Store) (op : LOp) (r : WRec) (h : recOf s op = some r) : RecFresh s r := by
  cases op <;> simp only [recOf] at h
  case createNode ls => cases h; exact Nat.le_refl _
  case createEdge a b t => cases h; exact Nat.le_refl _
  case setNodeProp => cases h; trivial
  case setEdgeProp => cases h; trivial
  case deleteNode id => split at h <;> cases h; trivial
  case deleteEdge id => split at h <;> cases h; trivial
  case addLabel id l => split at h <;> cases h; trivial
  case removeLabel id l => split at h <;> cases h; trivial
  case removeNodeProp id k => split at h <;> cases h; trivial
  all_goals cases h

theorem recOf_kind (s : Store) (op : LOp) (r : WRec) (h : recOf s op = some r) : r.kind = .data := by
  cases op <;> simp only [recOf] at h
  case createNode ls => cases h; rfl
  case createEdge a b t => cases h; rfl
  case setNodeProp => cases h; rfl
  case setEdgeProp => cases h; rfl
  case deleteNode id => split at h <;> cases h; rfl
  case deleteEdge id => split at h <;> cases h; rfl
  case addLabel id l => split at h <;> cases h; rfl
  case removeLabel id l => split at h <;> cases h; rfl
  case removeNodeProp id k => split at h <;> cases h; rfl
  all_goals cases h

/-- the record logged does not depend on the stamps -/
theorem recOf_norm {s : Store} (hs : Settled s) (op : LOp) : recOf s.norm op = recOf s op := by
  cases op with
  | createNode ls => rfl
  | createEdge a b t => rfl
  | setNodeProp id k v => rfl
  | setEdgeProp id k v => rfl
  | deleteNode id => simp only [recOf]; rw [(norm_deleteNodeAt s hs id).2]; rfl
  | deleteEdge id => simp only [recOf]; rw [(norm_deleteEdgeAt s hs id).2]; rfl
  | addLabel id l => simp only [recOf, (norm_addLabel s hs id l).2]
  | removeLabel id l => simp only [recOf, (norm_removeLabel s hs id l).2]
  | removeNodeProp id k => rfl
  | checkpoint => rfl
  | closeReopen => rfl

end Grafeo.Persist

namespace Grafeo.Persist
open Grafeo.Lpg Grafeo.Wal

/-! ### the invariant of every database reached through the logged API -/

/-- close→reopen of a database whose log is in step with its store gives the same store -/
theorem reopen_live_of_inSync (d : Db) (h : InSync d) (ho : d.isOpen = true) : d.close.reopen.live = d.live := by
  unfold Db.reopen
  simp only [replay_eq]
  unfold Db.close
  simp only [ho, if_true]
  have h2 := inSync_commit_checkpoint d h
  unfold InSync at h2
  have hp := rstate_commit_ckpt_pending d.log
  simp only [hp, List.append_nil] at h2
  exact h2

structure Reach (d : Db) : Prop where
  sync : InSync d
  op : d.isOpen = true
  good : Good d.live
  settled : Settled d.live
  normal : d.live.norm = d.live

theorem reach_init : Reach {} := ⟨inSync_init, rfl, good_empty, settled_empty, rfl⟩

theorem api_live_checkpoint (d : Db) : (d.api .checkpoint).live = d.live := rfl

theorem reach_api (d : Db) (op : LOp) (h : Reach d) : Reach (d.api op) := by
  suffices hrest : Good (d.api op).live ∧ Settled (d.api op).live ∧ (d.api op).live.norm = (d.api op).live from
    ⟨inSync_api d op h.sync h.op, api_isOpen d op h.op, hrest.1, hrest.2.1, hrest.2.2⟩
  by_cases hd : op.isData = true
  · rw [api_data d op hd]
    cases hr : recOf d.live op with
    | none => exact ⟨h.good, h.settled, h.normal⟩
    | some r =>
      simp only [Option.toList_some, List.foldl_cons, List.foldl_nil]
      refine ⟨good_applyRec h.good h.settled r (recOf_fresh _ _ _ hr), settled_applyRec h.settled r, ?_⟩
      have he : d.live.epoch ≤ pendingEpoch := by rw [← h.normal]; exact Nat.zero_le _
      rw [norm_applyRec h.settled he r, h.normal]
  · cases op with
    | checkpoint => exact ⟨h.good, h.settled, h.normal⟩
    | closeReopen =>
      have : (d.api .closeReopen).live = d.live := reopen_live_of_inSync d h.sync h.op
      rw [this]; exact ⟨h.good, h.settled, h.normal⟩
    | _ => exact absurd rfl hd

theorem reach_foldl (ops : List LOp) (d : Db) (h : Reach d) : Reach (ops.foldl Db.api d) := by
  induction ops generalizing d with
  | nil => exact h
  | cons op ops ih => exact ih _ (reach_api d op h)

theorem reach_runApi (ops : List LOp) : Reach (runApi ops) := reach_foldl ops {} reach_init

theorem runApi_snoc (ops : List LOp) (op : LOp) : runApi (ops ++ [op]) = (runApi ops).api op := by
  simp [runApi, List.foldl_append]

end Grafeo.Persist

namespace Grafeo.Persist
open Grafeo.Lpg Grafeo.Wal

/-! ### what `copyStore` builds -/

theorem sortNat_sorted (l : List Nat) (h : l.Pairwise (· < ·)) : sortNat l = l := by
  induction l with
  | nil => rfl
  | cons x xs ih =>
    have hx := List.pairwise_cons.mp h
    unfold sortNat at ih ⊢
    simp only [List.foldr_cons, ih hx.2]
    cases xs with
    | nil => rfl
    | cons y ys =>
      have : ¬ y < x := by have := hx.1 y List.mem_cons_self; omega
      simp [insertNat, this]

theorem nodeIds_sorted {s : Store} (h : NodeKeysOk s) : s.nodeIds.Pairwise (· < ·) := by
  unfold Store.nodeIds
  exact List.Pairwise.sublist (List.Sublist.map _ List.filter_sublist) h.1

theorem edgeView_keys_sorted {s : Store} (h : EdgesOk s) : (akeys (edgeView s)).Pairwise (· < ·) := by
  have : akeys (edgeView s) = (s.edges.filter (fun kv => chainVisibleAt kv.2.1 s.epoch)).map (·.1) := by
    simp [akeys, edgeView, List.map_map, Function.comp_def]
  rw [this]
  exact List.Pairwise.sublist (List.Sublist.map _ List.filter_sublist) h.1

theorem nodeIds_createNodeWithId (s : Store) (id : Nat) (ls : List Nat) (hf : id ∉ akeys s.nodes) :
    (s.createNodeWithId id ls).nodeIds = s.nodeIds ++ [id] := by
  unfold Store.nodeIds Store.createNodeWithId
  simp only [aset_fresh _ _ _ hf, List.filter_append, List.map_append]
  simp [chainVisibleAt_fresh]

def copyNodeStep (s acc : Store) (id : Nat) : Store :=
  (s.nodePropsOf id).foldl (fun a2 kv => a2.setNodeProp id kv.1 kv.2) (acc.createNodeWithId id (s.nodeLabelsOf id))

def copyEdgeStep (s acc : Store) (id : Nat) : Store :=
  match aget s.edges id with
  | some (_, r) =>
    ((aget s.eprops id).getD []).foldl (fun a2 kv => a2.setEdgeProp id kv.1 kv.2) (acc.createEdgeWithId id r.src r.dst r.ty)
  | none => acc

theorem copyStore_eq (s : Store) :
    copyStore s = (sortNat s.edgeIds).foldl (copyEdgeStep s) ((sortNat s.nodeIds).foldl (copyNodeStep s) {}) := rfl

theorem nodePropsOf_setNodePropRaw (a : Store) (id k : Nat) (v : String) (x : Nat) :
    (a.setNodePropRaw id k v).nodePropsOf x = if x = id then aset (a.nodePropsOf id) k v else a.nodePropsOf x := by
  unfold Store.nodePropsOf Store.setNodePropRaw
  simp only [getD_aget_aset]
  rfl

/-- the copy sets properties on the node it has just created: the aliveness test passes -/
theorem foldl_setNodeProp (a : Store) (id : Nat) (ps : AList String) (ha : nodeAlive a id = true) :
    let t := ps.foldl (fun a2 kv => a2.setNodeProp id kv.1 kv.2) a
    (∀ x, t.nodePropsOf x = if x = id then ps.foldl (fun p kv => aset p kv.1 kv.2) (a.nodePropsOf id) else a.nodePropsOf x) ∧
    t.nodes = a.nodes ∧ t.epoch = a.epoch ∧ t.nextNode = a.nextNode ∧ t.nodeLabels = a.nodeLabels ∧
    t.edges = a.edges ∧ t.eprops = a.eprops ∧ t.nextEdge = a.nextEdge ∧ (Good a → Good t) := by
  induction ps generalizing a with
  | nil => exact ⟨fun x => by by_cases hx : x = id <;> simp [hx], rfl, rfl, rfl, rfl, rfl, rfl, rfl, fun h => h⟩
  | cons kv rest ih =>
    have hstep : a.setNodeProp id kv.1 kv.2 = a.setNodePropRaw id kv.1 kv.2 := by
      rw [setNodeProp_eq, ha]; rfl
    have ha' : nodeAlive (a.setNodePropRaw id kv.1 kv.2) id = true := ha
    obtain ⟨h1, h2, h3, h4, h5, h6, h7, h8, h9⟩ := ih (a.setNodePropRaw id kv.1 kv.2) ha'
    simp only [List.foldl_cons, hstep]
    refine ⟨fun x => ?_, h2, h3, h4, h5, h6, h7, h8, fun hg => h9 (good_setNodePropRaw hg _ _ _)⟩
    rw [h1 x]
    by_cases hx : x = id
    · simp [hx, nodePropsOf_setNodePropRaw]
    · simp [hx, nodePropsOf_setNodePropRaw]

theorem eprops_setEdgePropRaw (a : Store) (id k : Nat) (v : String) (x : Nat) :
    (aget (a.setEdgePropRaw id k v).eprops x).getD [] =
      if x = id then aset ((aget a.eprops id).getD []) k v else (aget a.eprops x).getD [] := by
  unfold Store.setEdgePropRaw
  simp only [getD_aget_aset]

theorem foldl_setEdgeProp (a : Store) (id : Nat) (ps : AList String) (ha : edgeAlive a id = true) :
    let t := ps.foldl (fun a2 kv => a2.setEdgeProp id kv.1 kv.2) a
    (∀ x, (aget t.eprops x).getD [] =
      if x = id then ps.foldl (fun p kv => aset p kv.1 kv.2) ((aget a.eprops id).getD []) else (aget a.eprops x).getD []) ∧
    t.nodes = a.nodes ∧ t.epoch = a.epoch ∧ t.nodeLabels = a.nodeLabels ∧ t.nprops = a.nprops ∧
    t.edges = a.edges ∧ t.nextEdge = a.nextEdge ∧ (Good a → Good t) := by
  induction ps generalizing a with
  | nil => exact ⟨fun x => by by_cases hx : x = id <;> simp [hx], rfl, rfl, rfl, rfl, rfl, rfl, fun h => h⟩
  | cons kv rest ih =>
    have hstep : a.setEdgeProp id kv.1 kv.2 = a.setEdgePropRaw id kv.1 kv.2 := by
      rw [setEdgeProp_eq, ha]; rfl
    have ha' : edgeAlive (a.setEdgePropRaw id kv.1 kv.2) id = true := ha
    obtain ⟨h1, h2, h3, h4, h5, h6, h7, h8⟩ := ih (a.setEdgePropRaw id kv.1 kv.2) ha'
    simp only [List.foldl_cons, hstep]
    refine ⟨fun x => ?_, h2, h3, h4, h5, h6, h7, fun hg => h8 (good_setEdgePropRaw hg _ _ _)⟩
    rw [h1 x]
    by_cases hx : x = id
    · simp [hx, eprops_setEdgePropRaw]
    · simp [hx, eprops_setEdgePropRaw]

theorem nodeAlive_createNodeWithId (acc : Store) (id : Nat) (ls : List Nat) (he : acc.epoch ≤ pendingEpoch) :
    nodeAlive (acc.createNodeWithId id ls) id = true := by
  unfold nodeAlive Store.createNodeWithId
  simp [aget_aset, chainAlive, chainVisibleAt, Ver.visibleAt, he]

theorem edgeAlive_createEdgeWithId (acc : Store) (id a b t : Nat) (he : acc.epoch ≤ pendingEpoch) :
    edgeAlive (acc.createEdgeWithId id a b t) id = true := by
  unfold edgeAlive Store.createEdgeWithId
  simp [aget_aset, chainAlive, chainVisibleAt, Ver.visibleAt, he]

end Grafeo.Persist

namespace Grafeo.Persist
open Grafeo.Lpg Grafeo.Wal

/-- state of the copy's node loop: `pre` done, `post` to do -/
structure P1 (s acc : Store) (pre post : List Nat) : Prop where
  good : Good acc
  ids : acc.nodeIds = pre
  nxt : ∀ b ∈ post, acc.nextNode ≤ b
  lab : ∀ x ∈ pre, acc.nodeLabelsOf x = s.nodeLabelsOf x
  prp : ∀ x ∈ pre, acc.nodePropsOf x = s.nodePropsOf x
  prp0 : ∀ x, x ∉ pre → acc.nodePropsOf x = []
  noE : acc.edges = [] ∧ acc.eprops = [] ∧ acc.nextEdge = 0
  ep : acc.epoch ≤ pendingEpoch

theorem p1_step {s acc : Store} {pre post : List Nat} {id : Nat} (hl : LabelsOk s) (hp : PropsOk s)
    (hsort : (pre ++ id :: post).Pairwise (· < ·)) (h : P1 s acc pre (id :: post)) :
    P1 s (copyNodeStep s acc id) (pre ++ [id]) post := by
  have hnd := nodup_of_pairwise_lt hsort
  have hidpre : id ∉ pre := by
    intro hm
    exact (List.nodup_append.mp hnd).2.2 _ hm _ List.mem_cons_self rfl
  have hfresh : acc.nextNode ≤ id := h.nxt id List.mem_cons_self
  have hfk : id ∉ akeys acc.nodes := h.good.nk.fresh hfresh
  let a := acc.createNodeWithId id (s.nodeLabelsOf id)
  have ha_good : Good a := good_createNodeWithId h.good id _ hfresh
  obtain ⟨f1, f2, f3, f4, f5, f6, f7, f8, f9⟩ := foldl_setNodeProp a id (s.nodePropsOf id)
    (nodeAlive_createNodeWithId acc id _ h.ep)
  have ha_lab : ∀ x, a.nodeLabelsOf x = if x = id then s.nodeLabelsOf id else acc.nodeLabelsOf x := by
    intro x
    show (aget (aset acc.nodeLabels id _) x).getD [] = _
    rw [getD_aget_aset]
    have := foldl_sinsert_rebuild (s.nodeLabelsOf id) [] (by simpa using hl id)
    simp only [List.nil_append] at this
    rw [this]; rfl
  have ha_next : a.nextNode = id + 1 := by
    show (if id ≥ acc.nextNode then id + 1 else acc.nextNode) = id + 1
    simp [hfresh]
  refine ⟨f9 ha_good, ?_, ?_, ?_, ?_, ?_, ?_, ?_⟩
  · show (copyNodeStep s acc id).nodeIds = pre ++ [id]
    unfold Store.nodeIds copyNodeStep
    rw [f2, f3]
    have := nodeIds_createNodeWithId acc id (s.nodeLabelsOf id) hfk
    unfold Store.nodeIds at this
    rw [this]
    have := h.ids
    unfold Store.nodeIds at this
    rw [this]
  · intro b hb
    show (copyNodeStep s acc id).nextNode ≤ b
    unfold copyNodeStep
    rw [f4, ha_next]
    have h1 := (List.pairwise_append.mp hsort).2.1
    have := (List.pairwise_cons.mp h1).1 b hb
    omega
  · intro x hx
    show (aget (copyNodeStep s acc id).nodeLabels x).getD [] = _
    unfold copyNodeStep
    rw [f5]
    show a.nodeLabelsOf x = _
    rw [ha_lab x]
    rcases List.mem_append.mp hx with hx | hx
    · have : x ≠ id := fun e => hidpre (e ▸ hx)
      simp only [this, if_false]; exact h.lab x hx
    · simp only [List.mem_singleton] at hx
      simp [hx]
  · intro x hx
    show (copyNodeStep s acc id).nodePropsOf x = _
    unfold copyNodeStep
    rw [f1 x]
    rcases List.mem_append.mp hx with hx | hx
    · have : x ≠ id := fun e => hidpre (e ▸ hx)
      simp only [this, if_false]; exact h.prp x hx
    · simp only [List.mem_singleton] at hx
      subst hx
      simp only [if_true]
      have h0 : a.nodePropsOf x = [] := h.prp0 x hidpre
      rw [h0]
      have := foldl_aset_rebuild (s.nodePropsOf x) [] (by simpa using hp.1 x)
      simpa using this
  · intro x hx
    show (copyNodeStep s acc id).nodePropsOf x = _
    unfold copyNodeStep
    rw [f1 x]
    have h1 : x ≠ id := fun e => hx (by simp [e])
    have h2 : x ∉ pre := fun hm => hx (by simp [hm])
    simp only [h1, if_false]
    exact h.prp0 x h2
  · show (copyNodeStep s acc id).edges = [] ∧ (copyNodeStep s acc id).eprops = [] ∧ (copyNodeStep s acc id).nextEdge = 0
    unfold copyNodeStep
    rw [f6, f7, f8]
    exact h.noE
  · show (copyNodeStep s acc id).epoch ≤ pendingEpoch
    unfold copyNodeStep
    rw [f3]; exact h.ep

theorem p1_fold {s : Store} (hl : LabelsOk s) (hp : PropsOk s) (post : List Nat) :
    ∀ (pre : List Nat) (acc : Store), (pre ++ post).Pairwise (· < ·) → P1 s acc pre post →
      P1 s (post.foldl (copyNodeStep s) acc) (pre ++ post) [] := by
  induction post with
  | nil => intro pre acc _ h; simpa using h
  | cons id post ih =>
    intro pre acc hsort h
    simp only [List.foldl_cons]
    have := ih (pre ++ [id]) (copyNodeStep s acc id) (by simpa using hsort) (p1_step hl hp hsort h)
    simpa using this

theorem p1_init (s : Store) (post : List Nat) : P1 s {} [] post :=
  ⟨good_empty, rfl, fun b _ => Nat.zero_le b, fun _ hx => (List.not_mem_nil hx).elim,
    fun _ hx => (List.not_mem_nil hx).elim, fun _ _ => rfl, ⟨rfl, rfl, rfl⟩, Nat.zero_le _⟩

end Grafeo.Persist

namespace Grafeo.Persist
open Grafeo.Lpg Grafeo.Wal

/-- state of the copy's edge loop -/
structure P2 (s s1 acc : Store) (pre post : List (Nat × EdgeRec)) : Prop where
  good : Good acc
  view : edgeView acc = pre
  nxt : ∀ p ∈ post, acc.nextEdge ≤ p.1
  epr : ∀ x ∈ akeys pre, (aget acc.eprops x).getD [] = (aget s.eprops x).getD []
  epr0 : ∀ x, x ∉ akeys pre → (aget acc.eprops x).getD [] = []
  nodes : acc.nodes = s1.nodes ∧ acc.epoch = s1.epoch ∧ acc.nodeLabels = s1.nodeLabels ∧ acc.nprops = s1.nprops
  ep : acc.epoch ≤ pendingEpoch

theorem p2_step {s s1 acc : Store} {pre post : List (Nat × EdgeRec)} {p : Nat × EdgeRec} (hp : PropsOk s)
    (hsort : (akeys (pre ++ p :: post)).Pairwise (· < ·)) (hrec : ∃ c, aget s.edges p.1 = some (c, p.2))
    (h : P2 s s1 acc pre (p :: post)) : P2 s s1 (copyEdgeStep s acc p.1) (pre ++ [p]) post := by
  obtain ⟨id, r⟩ := p
  obtain ⟨c, hrec⟩ := hrec
  simp only at hrec
  have hnd := nodup_of_pairwise_lt hsort
  have hidpre : id ∉ akeys pre := by
    intro hm
    simp only [akeys_append, akeys_cons] at hnd
    exact (List.nodup_append.mp hnd).2.2 _ hm _ List.mem_cons_self rfl
  have hfresh : acc.nextEdge ≤ id := h.nxt (id, r) List.mem_cons_self
  have hfk : id ∉ akeys acc.edges := h.good.ed.fresh hfresh
  let a := acc.createEdgeWithId id r.src r.dst r.ty
  have ha_good : Good a := good_createEdgeWithId h.good id _ _ _ hfresh
  have hstep : copyEdgeStep s acc id =
      ((aget s.eprops id).getD []).foldl (fun a2 kv => a2.setEdgeProp id kv.1 kv.2) a := by
    simp only [copyEdgeStep, hrec]
    rfl
  obtain ⟨f1, f2, f3, f4, f5, f6, f7, f8⟩ := foldl_setEdgeProp a id ((aget s.eprops id).getD [])
    (edgeAlive_createEdgeWithId acc id _ _ _ h.ep)
  have ha_view : edgeView a = pre ++ [(id, r)] := by
    have := edgeView_createEdgeWithId (s := acc) id r.src r.dst r.ty hfk
    rw [this, h.view]
  have ha_next : a.nextEdge = id + 1 := by
    show (if id ≥ acc.nextEdge then id + 1 else acc.nextEdge) = id + 1
    simp [hfresh]
  rw [hstep]
  refine ⟨f8 ha_good, ?_, ?_, ?_, ?_, ?_, ?_⟩
  · unfold edgeView
    rw [f6, f3]
    exact ha_view
  · intro q hq
    rw [f7, ha_next]
    simp only [akeys_append, akeys_cons] at hsort
    have h1 := (List.pairwise_append.mp hsort).2.1
    have := (List.pairwise_cons.mp h1).1 q.1 (List.mem_map.mpr ⟨q, hq, rfl⟩)
    omega
  · intro x hx
    rw [f1 x]
    simp only [akeys_append, akeys_cons, akeys_nil] at hx
    rcases List.mem_append.mp hx with hx | hx
    · have : x ≠ id := fun e => hidpre (e ▸ hx)
      simp only [this, if_false]; exact h.epr x hx
    · simp only [List.mem_singleton] at hx
      subst hx
      simp only [if_true]
      have h0 : (aget a.eprops x).getD [] = [] := h.epr0 x hidpre
      rw [h0]
      have := foldl_aset_rebuild ((aget s.eprops x).getD []) [] (by simpa using hp.2 x)
      simpa using this
  · intro x hx
    rw [f1 x]
    simp only [akeys_append, akeys_cons, akeys_nil] at hx
    have h1 : x ≠ id := fun e => hx (by simp [e])
    have h2 : x ∉ akeys pre := fun hm => hx (by simp [hm])
    simp only [h1, if_false]
    exact h.epr0 x h2
  · rw [f2, f3, f4, f5]; exact h.nodes
  · rw [f3]; exact h.ep

theorem p2_fold {s s1 : Store} (hp : PropsOk s) (post : List (Nat × EdgeRec)) :
    ∀ (pre : List (Nat × EdgeRec)) (acc : Store), (akeys (pre ++ post)).Pairwise (· < ·) →
      (∀ p ∈ post, ∃ c, aget s.edges p.1 = some (c, p.2)) → P2 s s1 acc pre post →
      P2 s s1 ((post.map (·.1)).foldl (copyEdgeStep s) acc) (pre ++ post) [] := by
  induction post with
  | nil => intro pre acc _ _ h; simpa using h
  | cons p post ih =>
    intro pre acc hsort hrec h
    simp only [List.map_cons, List.foldl_cons]
    have := ih (pre ++ [p]) (copyEdgeStep s acc p.1) (by simpa using hsort)
      (fun q hq => hrec q (List.mem_cons_of_mem _ hq)) (p2_step hp hsort (hrec p List.mem_cons_self) h)
    simpa using this

/-- two stores that every observer used by the dump tells nothing apart -/
structure ObsEq (s t : Store) : Prop where
  nodeIds : s.nodeIds = t.nodeIds
  labels : ∀ id ∈ s.nodeIds, s.nodeLabelsOf id = t.nodeLabelsOf id
  nprops : ∀ id ∈ s.nodeIds, s.nodePropsOf id = t.nodePropsOf id
  edgeIds : s.edgeIds = t.edgeIds
  erec : ∀ id ∈ s.edgeIds, (aget s.edges id).map (·.2) = (aget t.edges id).map (·.2)
  eprops : ∀ id ∈ s.edgeIds, (aget s.eprops id).getD [] = (aget t.eprops id).getD []
  out : ∀ n, s.outEdges n = t.outEdges n
  inn : ∀ n, s.inEdges n = t.inEdges n

theorem ObsEq.refl (s : Store) : ObsEq s s :=
  ⟨rfl, fun _ _ => rfl, fun _ _ => rfl, rfl, fun _ _ => rfl, fun _ _ => rfl, fun _ => rfl, fun _ => rfl⟩

theorem ObsEq.symm {s t : Store} (h : ObsEq s t) : ObsEq t s :=
  ⟨h.nodeIds.symm, fun id hid => (h.labels id (h.nodeIds ▸ hid)).symm, fun id hid => (h.nprops id (h.nodeIds ▸ hid)).symm,
   h.edgeIds.symm, fun id hid => (h.erec id (h.edgeIds ▸ hid)).symm, fun id hid => (h.eprops id (h.edgeIds ▸ hid)).symm,
   fun n => (h.out n).symm, fun n => (h.inn n).symm⟩

theorem ObsEq.trans {s t u : Store} (h : ObsEq s t) (g : ObsEq t u) : ObsEq s u :=
  ⟨h.nodeIds.trans g.nodeIds,
   fun id hid => (h.labels id hid).trans (g.labels id (h.nodeIds ▸ hid)),
   fun id hid => (h.nprops id hid).trans (g.nprops id (h.nodeIds ▸ hid)),
   h.edgeIds.trans g.edgeIds,
   fun id hid => (h.erec id hid).trans (g.erec id (h.edgeIds ▸ hid)),
   fun id hid => (h.eprops id hid).trans (g.eprops id (h.edgeIds ▸ hid)),
   fun n => (h.out n).trans (g.out n), fun n => (h.inn n).trans (g.inn n)⟩

/-- the record of an enumerated edge, read off the view -/
theorem aget_view {s : Store} (h : EdgesOk s) {id : Nat} (hid : id ∈ s.edgeIds) :
    (aget s.edges id).map (·.2) = aget (edgeView s) id := by
  rw [edgeIds_eq_view] at hid
  obtain ⟨p, hp, hpid⟩ := List.mem_map.mp hid
  obtain ⟨c, hm⟩ := mem_edgeView hp
  have h1 := aget_of_mem_nodup _ _ _ (nodup_of_pairwise_lt h.1) hm
  have h2 := aget_of_mem_nodup (edgeView s) p.1 p.2 (nodup_of_pairwise_lt (edgeView_keys_sorted h)) hp
  rw [← hpid, h1, h2]; rfl

/-- **what a copy is**: for a store with the invariants of the logged API, `copyStore` gives a
store that no observer of the dump can tell from the source, and that has those invariants too. -/
theorem copy_obsEq {s : Store} (h : Good s) : ObsEq (copyStore s) s ∧ Good (copyStore s) := by
  rw [copyStore_eq]
  have hN : sortNat s.nodeIds = s.nodeIds := sortNat_sorted _ (nodeIds_sorted h.nk)
  have hEs : (akeys (edgeView s)).Pairwise (· < ·) := edgeView_keys_sorted h.ed
  have hE : sortNat s.edgeIds = (edgeView s).map (·.1) := by
    rw [edgeIds_eq_view]; exact sortNat_sorted _ hEs
  rw [hN, hE]
  have q1 := p1_fold h.lb h.pr s.nodeIds [] {} (by simpa using nodeIds_sorted h.nk) (p1_init s _)
  simp only [List.nil_append] at q1
  generalize s.nodeIds.foldl (copyNodeStep s) {} = s1 at q1
  have q2init : P2 s s1 s1 [] (edgeView s) := by
    refine ⟨q1.good, ?_, ?_, fun x hx => (List.not_mem_nil hx).elim, ?_, ⟨rfl, rfl, rfl, rfl⟩, q1.ep⟩
    · unfold edgeView; rw [q1.noE.1]; rfl
    · intro p _; rw [q1.noE.2.2]; exact Nat.zero_le _
    · intro x _; rw [q1.noE.2.1]; rfl
  have q2 := p2_fold (s1 := s1) h.pr (edgeView s) [] s1 (by simpa using hEs)
    (fun p hp => by
      obtain ⟨c, hm⟩ := mem_edgeView hp
      exact ⟨c, aget_of_mem_nodup _ _ _ (nodup_of_pairwise_lt h.ed.1) hm⟩) q2init
  simp only [List.nil_append] at q2
  generalize ((edgeView s).map (·.1)).foldl (copyEdgeStep s) s1 = t at q2
  have hids : t.nodeIds = s.nodeIds := by
    unfold Store.nodeIds
    rw [q2.nodes.1, q2.nodes.2.1]
    exact q1.ids
  have heids : t.edgeIds = s.edgeIds := by rw [edgeIds_eq_view, edgeIds_eq_view, q2.view]
  refine ⟨⟨hids, ?_, ?_, heids, ?_, ?_, ?_, ?_⟩, q2.good⟩
  · intro id hid
    rw [hids] at hid
    show (aget t.nodeLabels id).getD [] = _
    rw [q2.nodes.2.2.1]
    exact q1.lab id hid
  · intro id hid
    rw [hids] at hid
    show (aget t.nprops id).getD [] = _
    rw [q2.nodes.2.2.2]
    exact q1.prp id hid
  · intro id hid
    rw [aget_view q2.good.ed hid, aget_view h.ed (heids ▸ hid), q2.view]
  · intro id hid
    apply q2.epr
    rw [heids, edgeIds_eq_view] at hid
    exact hid
  · intro n; rw [q2.good.ed.2.2.2.1 n, h.ed.2.2.2.1 n, q2.view]
  · intro n; rw [q2.good.ed.2.2.2.2 n, h.ed.2.2.2.2 n, q2.view]

end Grafeo.Persist

namespace Grafeo.Persist
open Grafeo.Lpg Grafeo.Wal

theorem filter_amap_keys {ν μ : Type} (l : AList ν) (g : ν → μ) (p : μ → Bool) (q : ν → Bool)
    (h : ∀ kv ∈ l, p (g kv.2) = q kv.2) :
    ((amap g l).filter (fun kv => p kv.2)).map (·.1) = (l.filter (fun kv => q kv.2)).map (·.1) := by
  induction l with
  | nil => rfl
  | cons kv rest ih =>
    have ih' := ih (fun x hx => h x (List.mem_cons_of_mem _ hx))
    have hk := h kv List.mem_cons_self
    unfold amap at ih' ⊢
    simp only [List.map_cons, List.filter_cons, hk]
    cases q kv.2 with
    | true => simp only [if_true, List.map_cons, ih']
    | false => simp only [Bool.false_eq_true, if_false, ih']

/-- forgetting the stamps of a settled store changes nothing an observer of the dump sees -/
theorem norm_obsEq {s : Store} (hs : Settled s) (hb : s.hasBwd = true) : ObsEq s.norm s := by
  refine ⟨?_, fun _ _ => rfl, fun _ _ => rfl, ?_, ?_, fun _ _ => rfl, fun _ => rfl, ?_⟩
  · unfold Store.nodeIds Store.norm
    exact filter_amap_keys s.nodes normChain (fun c => chainVisibleAt c 0) (fun c => chainVisibleAt c s.epoch)
      (fun kv hkv => chainVisibleAt_norm_settled (hs.1 kv hkv))
  · unfold Store.edgeIds Store.norm
    exact filter_amap_keys s.edges (fun cr => (normChain cr.1, cr.2)) (fun cr => chainVisibleAt cr.1 0)
      (fun cr => chainVisibleAt cr.1 s.epoch) (fun kv hkv => chainVisibleAt_norm_settled (hs.2 kv hkv))
  · intro id _
    have : aget s.norm.edges id = (aget s.edges id).map (fun cr => (normChain cr.1, cr.2)) :=
      aget_amap (fun (cr : List Ver × EdgeRec) => (normChain cr.1, cr.2)) s.edges id
    rw [this]
    cases aget s.edges id <;> rfl
  · intro n
    have : s.norm.hasBwd = true := hb
    simp only [Store.inEdges, this, hb, if_true]
    rfl

end Grafeo.Persist
