import GrafeoModel.Model.Idx

namespace Grafeo.Idx

/-! # LeapfrogJoin: enumeration = sorted intersection -/

def WF (it : TIter) : Prop := it.keys.Pairwise (· < ·)
def AllWF (its : List TIter) : Prop := ∀ it ∈ its, WF it
def Common (its : List TIter) (k : Nat) : Prop := ∀ it ∈ its, k ∈ it.rem
def AllAt (its : List TIter) (k : Nat) : Prop := ∀ it ∈ its, it.key = some k
def AllValid (its : List TIter) : Prop := ∀ it ∈ its, it.rem ≠ []
def SortedIts (its : List TIter) : Prop := its.Pairwise (fun a b => optLe a.key b.key = true)

/-! ## views -/

theorem TIter.key_eq (it : TIter) : it.key = it.rem.head? := by
  simp [TIter.key, TIter.rem, List.head?_drop]

theorem TIter.rem_pairwise {it : TIter} (h : WF it) : it.rem.Pairwise (· < ·) :=
  List.Pairwise.sublist (List.drop_sublist _ _) h

theorem TIter.isValid_iff (it : TIter) : it.isValid = true ↔ it.rem ≠ [] := by
  simp [TIter.isValid, TIter.rem]

theorem TIter.next_keys (it : TIter) : it.next.1.keys = it.keys := by
  unfold TIter.next; split <;> rfl

theorem TIter.next_rem (it : TIter) : it.next.1.rem = it.rem.tail := by
  unfold TIter.next; split
  · simp [TIter.rem, List.tail_drop]
  · rename_i h
    have : it.rem = [] := by simp [TIter.rem]; omega
    simp [this]

theorem seekOff_drop_lf (t : Nat) (l : List Nat) :
    l.drop (seekOff t l) = l.dropWhile (· < t) := by
  induction l with
  | nil => simp [seekOff]
  | cons a r ih =>
    by_cases h : a < t <;> simp [seekOff, h, ih]

theorem TIter.seek_keys (it : TIter) (t : Nat) : (it.seek t).1.keys = it.keys := rfl

theorem TIter.seek_rem (it : TIter) (t : Nat) :
    (it.seek t).1.rem = it.rem.dropWhile (· < t) := by
  simp only [TIter.seek, TIter.rem]
  rw [← seekOff_drop_lf, List.drop_drop]

theorem TIter.seek_snd (it : TIter) (t : Nat) :
    (it.seek t).2 = true ↔ (it.seek t).1.rem ≠ [] := by
  simp [TIter.seek, TIter.rem]

theorem lfMeasure_cons (it : TIter) (r : List TIter) :
    lfMeasure (it :: r) = it.rem.length + lfMeasure r := by
  simp [lfMeasure, TIter.rem]

/-! ## the order and the sort -/

theorem optLe_refl (a : Option Nat) : optLe a a = true := by
  cases a <;> simp [optLe]

theorem optLe_total {a b : Option Nat} (h : ¬ optLe a b = true) : optLe b a = true := by
  cases a <;> cases b <;> simp_all [optLe] <;> omega

theorem optLe_trans {a b c : Option Nat} (h1 : optLe a b = true) (h2 : optLe b c = true) :
    optLe a c = true := by
  cases a <;> cases b <;> cases c <;> simp_all [optLe] <;> omega

theorem mem_insIter {x y : TIter} {l : List TIter} : y ∈ insIter x l ↔ y = x ∨ y ∈ l := by
  induction l with
  | nil => simp [insIter]
  | cons z r ih =>
    simp only [insIter]; split
    · simp
    · simp [ih]; grind

theorem mem_sortIters {y : TIter} {l : List TIter} : y ∈ sortIters l ↔ y ∈ l := by
  induction l with
  | nil => simp [sortIters]
  | cons z r ih => simp [sortIters, mem_insIter, ih]

theorem sortedK_insIter (x : TIter) {l : List TIter} (h : SortedIts l) : SortedIts (insIter x l) := by
  induction l with
  | nil => simp [insIter, SortedIts]
  | cons z r ih =>
    unfold SortedIts at h ih ⊢
    rw [List.pairwise_cons] at h
    simp only [insIter]; split
    · rename_i hx
      rw [List.pairwise_cons]
      refine ⟨?_, List.pairwise_cons.2 h⟩
      intro w hw
      rcases List.mem_cons.1 hw with rfl | hw
      · exact hx
      · exact optLe_trans hx (h.1 w hw)
    · rename_i hx
      rw [List.pairwise_cons]
      refine ⟨?_, ih h.2⟩
      intro w hw
      rcases mem_insIter.1 hw with rfl | hw
      · exact optLe_total hx
      · exact h.1 w hw

theorem sortedK_sortIters (l : List TIter) : SortedIts (sortIters l) := by
  induction l with
  | nil => simp [sortIters, SortedIts]
  | cons z r ih => exact sortedK_insIter z ih

theorem lfMeasure_insIter (x : TIter) (l : List TIter) :
    lfMeasure (insIter x l) = lfMeasure (x :: l) := by
  induction l with
  | nil => simp [insIter]
  | cons z r ih =>
    simp only [insIter]; split
    · rfl
    · simp only [lfMeasure] at ih ⊢; omega

theorem lfMeasure_sortIters (l : List TIter) : lfMeasure (sortIters l) = lfMeasure l := by
  induction l with
  | nil => rfl
  | cons z r ih => simp only [sortIters, lfMeasure_insIter]; simp only [lfMeasure, ih]

theorem common_sortIters (l : List TIter) (k : Nat) : Common (sortIters l) k ↔ Common l k := by
  simp [Common, mem_sortIters]

theorem allWF_sortIters {l : List TIter} : AllWF (sortIters l) ↔ AllWF l := by
  simp [AllWF, mem_sortIters]

theorem allValid_sortIters {l : List TIter} : AllValid (sortIters l) ↔ AllValid l := by
  simp [AllValid, mem_sortIters]

theorem sortIters_ne_nil {l : List TIter} (h : l ≠ []) : sortIters l ≠ [] := by
  cases l with
  | nil => exact absurd rfl h
  | cons a r =>
    intro h'
    have : a ∈ sortIters (a :: r) := mem_sortIters.2 (by simp)
    rw [h'] at this; cases this

/-- in a sorted list every key is `≤` the key of the last element -/
theorem sortedK_le_last {l : List TIter} (h : SortedIts l) {z : TIter} (hz : l.getLast? = some z) :
    ∀ it ∈ l, optLe it.key z.key = true := by
  obtain ⟨ys, rfl⟩ := List.getLast?_eq_some_iff.1 hz
  intro it hit
  unfold SortedIts at h
  rw [List.pairwise_append] at h
  rcases List.mem_append.1 hit with hit | hit
  · exact h.2.2 it hit z (by simp)
  · simp at hit; subst hit; exact optLe_refl _

theorem sortedK_head_le {i0 : TIter} {rest : List TIter} (h : SortedIts (i0 :: rest)) :
    ∀ it ∈ i0 :: rest, optLe i0.key it.key = true := by
  intro it hit
  unfold SortedIts at h
  rw [List.pairwise_cons] at h
  rcases List.mem_cons.1 hit with rfl | hit
  · exact optLe_refl _
  · exact h.1 it hit

theorem allValid_of_sorted {i0 : TIter} {rest : List TIter} (h : SortedIts (i0 :: rest))
    (h0 : i0.rem ≠ []) : AllValid (i0 :: rest) := by
  intro it hit
  have := sortedK_head_le h it hit
  rw [TIter.key_eq, TIter.key_eq] at this
  intro hr
  rw [hr] at this
  cases hi : i0.rem with
  | nil => exact h0 hi
  | cons a t => rw [hi] at this; simp [optLe] at this

/-! ## list facts -/

theorem mem_dropWhile_of_not {p : Nat → Bool} {k : Nat} {l : List Nat} (hk : k ∈ l)
    (hp : ¬ p k = true) : k ∈ l.dropWhile p := by
  induction l with
  | nil => cases hk
  | cons a r ih =>
    rw [List.dropWhile_cons]; split
    · rename_i ha
      rcases List.mem_cons.1 hk with rfl | hk
      · exact absurd ha hp
      · exact ih hk
    · exact hk

theorem head_le_of_mem {l : List Nat} (hs : l.Pairwise (· < ·)) {a k : Nat}
    (hh : l.head? = some a) (hk : k ∈ l) : a ≤ k := by
  cases l with
  | nil => cases hk
  | cons b t =>
    simp at hh; subst hh
    rw [List.pairwise_cons] at hs
    rcases List.mem_cons.1 hk with rfl | hk
    · exact Nat.le_refl _
    · exact Nat.le_of_lt (hs.1 k hk)

theorem key_some_of_valid {it : TIter} (h : it.rem ≠ []) : ∃ k, it.key = some k := by
  rw [TIter.key_eq]
  cases hr : it.rem with
  | nil => exact absurd hr h
  | cons a t => exact ⟨a, rfl⟩

theorem mem_rem_of_key {it : TIter} {k : Nat} (h : it.key = some k) : k ∈ it.rem := by
  rw [TIter.key_eq] at h
  cases hr : it.rem with
  | nil => rw [hr] at h; cases h
  | cons a t => rw [hr] at h; simp at h; simp [h]

theorem common_of_allAt {its : List TIter} {k : Nat} (h : AllAt its k) : Common its k :=
  fun it hit => mem_rem_of_key (h it hit)

theorem le_of_common_allAt {its : List TIter} (hne : its ≠ []) (hwf : AllWF its) {k k' : Nat}
    (h : AllAt its k) (hc : Common its k') : k ≤ k' := by
  cases its with
  | nil => exact absurd rfl hne
  | cons a r =>
    have ha := h a (by simp)
    rw [TIter.key_eq] at ha
    exact head_le_of_mem (TIter.rem_pairwise (hwf a (by simp))) ha (hc a (by simp))

/-! ## the search loop -/

structure Inv (its : List TIter) : Prop where
  wf : AllWF its
  sorted : SortedIts its
  valid : AllValid its

theorem searchLoop_step {f : Nat} {i0 : TIter} {rest : List TIter} {mn mx : Nat}
    (h0 : i0.key = some mn) (hl : ((i0 :: rest).getLast?).bind TIter.key = some mx) :
    searchLoop (f+1) (i0 :: rest) =
      if mn = mx then (i0 :: rest, some mn)
      else if !(i0.seek mx).2 then ((i0.seek mx).1 :: rest, none)
      else searchLoop f (sortIters ((i0.seek mx).1 :: rest)) := by
  simp only [searchLoop, h0, hl]

theorem inv_keys {i0 : TIter} {rest : List TIter} (h : Inv (i0 :: rest)) :
    ∃ mn mx z, i0.key = some mn ∧ (i0 :: rest).getLast? = some z ∧ z ∈ i0 :: rest ∧
      z.key = some mx ∧ ((i0 :: rest).getLast?).bind TIter.key = some mx := by
  obtain ⟨mn, hmn⟩ := key_some_of_valid (h.valid i0 (by simp))
  have hne : i0 :: rest ≠ [] := by simp
  have hz : (i0 :: rest).getLast? = some ((i0 :: rest).getLast hne) := List.getLast?_eq_some_getLast hne
  have hzm : (i0 :: rest).getLast hne ∈ i0 :: rest := List.getLast_mem hne
  obtain ⟨mx, hmx⟩ := key_some_of_valid (h.valid _ hzm)
  exact ⟨mn, mx, _, hmn, hz, hzm, hmx, by rw [hz]; exact hmx⟩

theorem step_le {i0 : TIter} {rest : List TIter} (h : Inv (i0 :: rest)) {mn mx : Nat} {z : TIter}
    (h0 : i0.key = some mn) (hz : (i0 :: rest).getLast? = some z) (hzk : z.key = some mx) :
    mn ≤ mx := by
  have := sortedK_le_last h.sorted hz i0 (by simp)
  rw [h0, hzk] at this
  simpa [optLe] using this

theorem step_allAt {i0 : TIter} {rest : List TIter} (h : Inv (i0 :: rest)) {mn : Nat} {z : TIter}
    (h0 : i0.key = some mn) (hz : (i0 :: rest).getLast? = some z) (hzk : z.key = some mn) :
    AllAt (i0 :: rest) mn := by
  intro it hit
  have h1 := sortedK_le_last h.sorted hz it hit
  have h2 := sortedK_head_le h.sorted it hit
  obtain ⟨c, hc⟩ := key_some_of_valid (h.valid it hit)
  rw [hc, hzk] at h1
  rw [hc, h0] at h2
  simp [optLe] at h1 h2
  rw [hc]; congr 1; omega

theorem step_common {i0 : TIter} {rest : List TIter} (h : Inv (i0 :: rest)) {mx : Nat} {z : TIter}
    (hzm : z ∈ i0 :: rest) (hzk : z.key = some mx) (k : Nat) :
    Common ((i0.seek mx).1 :: rest) k ↔ Common (i0 :: rest) k := by
  constructor
  · intro hc it hit
    rcases List.mem_cons.1 hit with rfl | hit
    · have := hc _ (List.mem_cons_self)
      rw [TIter.seek_rem] at this
      exact (List.dropWhile_sublist _).subset this
    · exact hc it (List.mem_cons_of_mem _ hit)
  · intro hc it hit
    rcases List.mem_cons.1 hit with rfl | hit
    · rw [TIter.seek_rem]
      apply mem_dropWhile_of_not (hc i0 (by simp))
      have hz := hc z hzm
      rw [TIter.key_eq] at hzk
      have := head_le_of_mem (TIter.rem_pairwise (h.wf z hzm)) hzk hz
      simp; omega
    · exact hc it (List.mem_cons_of_mem _ hit)

theorem step_measure {i0 : TIter} {rest : List TIter} {mn mx : Nat}
    (h0 : i0.key = some mn) (hlt : mn < mx) :
    lfMeasure ((i0.seek mx).1 :: rest) < lfMeasure (i0 :: rest) := by
  rw [lfMeasure_cons, lfMeasure_cons, TIter.seek_rem]
  rw [TIter.key_eq] at h0
  cases hr : i0.rem with
  | nil => rw [hr] at h0; cases h0
  | cons a t =>
    rw [hr] at h0; simp at h0; subst h0
    rw [List.dropWhile_cons]
    simp only [decide_eq_true_eq, hlt, if_true]
    have := (List.dropWhile_sublist (fun x => decide (x < mx)) (l := t)).length_le
    simp only [List.length_cons]; omega

theorem step_inv {i0 : TIter} {rest : List TIter} (h : Inv (i0 :: rest)) {mx : Nat}
    (hv : (i0.seek mx).2 = true) : Inv (sortIters ((i0.seek mx).1 :: rest)) := by
  refine ⟨allWF_sortIters.2 ?_, sortedK_sortIters _, allValid_sortIters.2 ?_⟩
  · intro it hit
    rcases List.mem_cons.1 hit with rfl | hit
    · exact h.wf i0 (by simp)
    · exact h.wf it (List.mem_cons_of_mem _ hit)
  · intro it hit
    rcases List.mem_cons.1 hit with rfl | hit
    · exact (TIter.seek_snd _ _).1 hv
    · exact h.valid it (List.mem_cons_of_mem _ hit)

structure SearchPost (its : List TIter) (r : List TIter × Option Nat) : Prop where
  none_case : r.2 = none → ∀ k, ¬ Common its k
  some_case : ∀ k, r.2 = some k →
    AllAt r.1 k ∧ AllWF r.1 ∧ r.1 ≠ [] ∧ lfMeasure r.1 ≤ lfMeasure its ∧
      ∀ k', Common r.1 k' ↔ Common its k'

theorem SearchPost.mono {its its' : List TIter} {r : List TIter × Option Nat}
    (h : SearchPost its r) (hm : lfMeasure its ≤ lfMeasure its')
    (hc : ∀ k, Common its k ↔ Common its' k) : SearchPost its' r := by
  constructor
  · intro hn k hk; exact h.none_case hn k ((hc k).2 hk)
  · intro k hk
    obtain ⟨a, b, c, d, e⟩ := h.some_case k hk
    exact ⟨a, b, c, Nat.le_trans d hm, fun k' => (e k').trans (hc k')⟩

theorem searchLoop_spec (f : Nat) : ∀ its, its ≠ [] → Inv its → lfMeasure its < f →
    SearchPost its (searchLoop f its) := by
  induction f with
  | zero => intro its _ _ h; omega
  | succ f ih =>
    intro its hne h hf
    cases its with
    | nil => exact absurd rfl hne
    | cons i0 rest =>
      obtain ⟨mn, mx, z, h0, hz, hzm, hzk, hl⟩ := inv_keys h
      rw [searchLoop_step h0 hl]
      have hle := step_le h h0 hz hzk
      split
      · rename_i he; subst he
        constructor
        · intro hn; cases hn
        · intro k hk
          simp only [Option.some.injEq] at hk; subst hk
          exact ⟨step_allAt h h0 hz hzk, h.wf, by simp, Nat.le_refl _, fun _ => Iff.rfl⟩
      · rename_i hne'
        have hlt : mn < mx := by omega
        have hm := step_measure (rest := rest) h0 hlt
        have hc := step_common h hzm hzk
        split
        · rename_i hv
          constructor
          · intro _ k hk
            have := (hc k).2 hk _ (List.mem_cons_self)
            have hv' : ¬ (i0.seek mx).2 = true := by simpa using hv
            rw [TIter.seek_snd] at hv'
            simp only [ne_eq, Decidable.not_not] at hv'
            rw [hv'] at this; cases this
          · intro k hk; cases hk
        · rename_i hv
          have hv' : (i0.seek mx).2 = true := by simpa using hv
          have hi := step_inv h hv'
          have := ih _ (sortIters_ne_nil (by simp)) hi (by rw [lfMeasure_sortIters]; omega)
          exact this.mono (by rw [lfMeasure_sortIters]; omega)
            (fun k => by rw [common_sortIters]; exact hc k)

theorem searchLoop_fuel_aux (f : Nat) : ∀ g its, its ≠ [] → Inv its → lfMeasure its < f →
    lfMeasure its < g → searchLoop f its = searchLoop g its := by
  induction f with
  | zero => intro g its _ _ h; omega
  | succ f ih =>
    intro g its hne h hf hg
    cases g with
    | zero => omega
    | succ g =>
    cases its with
    | nil => exact absurd rfl hne
    | cons i0 rest =>
      obtain ⟨mn, mx, z, h0, hz, hzm, hzk, hl⟩ := inv_keys h
      rw [searchLoop_step h0 hl, searchLoop_step h0 hl]
      have hle := step_le h h0 hz hzk
      split
      · rfl
      · rename_i hne'
        have hlt : mn < mx := by omega
        have hm := step_measure (rest := rest) h0 hlt
        split
        · rfl
        · rename_i hv
          have hv' : (i0.seek mx).2 = true := by simpa using hv
          have hi := step_inv h hv'
          exact ih g _ (sortIters_ne_nil (by simp)) hi (by rw [lfMeasure_sortIters]; omega)
            (by rw [lfMeasure_sortIters]; omega)

/-- more fuel than `lfMeasure its + 1` changes nothing -/
theorem searchLoop_fuel {its : List TIter} (hne : its ≠ []) (hwf : ∀ it ∈ its, it.keys.Pairwise (· < ·))
    (hs : its.Pairwise (fun a b => optLe a.key b.key = true))
    (hv : ∀ it ∈ its, it.isValid = true) {f : Nat} (hf : f ≥ lfMeasure its + 1) :
    searchLoop f its = searchLoop (lfMeasure its + 1) its :=
  searchLoop_fuel_aux f _ its hne
    ⟨hwf, hs, fun it hit => (TIter.isValid_iff it).1 (hv it hit)⟩ (by omega) (by omega)

/-! ## `LF.search`, `LF.new` -/

theorem LF.search_spec {its : List TIter} (hne : its ≠ []) (hwf : AllWF its) (hs : SortedIts its) :
    SearchPost its ((LF.search its).iters, (LF.search its).cur) := by
  cases its with
  | nil => exact absurd rfl hne
  | cons i0 rest =>
    simp only [LF.search]
    split
    · rename_i hv
      have hv' : ¬ i0.isValid = true := by simpa using hv
      rw [TIter.isValid_iff] at hv'
      simp only [ne_eq, Decidable.not_not] at hv'
      constructor
      · intro _ k hk
        have := hk i0 (by simp)
        rw [hv'] at this; cases this
      · intro k hk; cases hk
    · rename_i hv
      have hv' : i0.isValid = true := by simpa using hv
      exact searchLoop_spec _ _ (by simp)
        ⟨hwf, hs, allValid_of_sorted hs ((TIter.isValid_iff i0).1 hv')⟩ (Nat.lt_succ_self _)

theorem LF.new_spec {its : List TIter} (hne : its ≠ []) (hwf : AllWF its) :
    SearchPost its ((LF.new its).iters, (LF.new its).cur) := by
  unfold LF.new
  have : its.isEmpty = false := by cases its <;> simp_all
  simp only [this]
  exact (LF.search_spec (sortIters_ne_nil hne) (allWF_sortIters.2 hwf) (sortedK_sortIters _)).mono
    (by rw [lfMeasure_sortIters]; exact Nat.le_refl _) (fun k => common_sortIters _ k)

/-! ## `LF.next`, `lfEnum` -/

structure Good (j : LF) (k : Nat) : Prop where
  cur : j.cur = some k
  allAt : AllAt j.iters k
  wf : AllWF j.iters
  ne : j.iters ≠ []

theorem good_of_post {its : List TIter} {j : LF} (h : SearchPost its (j.iters, j.cur)) {k : Nat}
    (hk : j.cur = some k) : Good j k := by
  obtain ⟨a, b, c, _, _⟩ := h.some_case k hk
  exact ⟨hk, a, b, c⟩

theorem LF.next_eq {j : LF} {i0 : TIter} {rest : List TIter} {k : Nat} (hc : j.cur = some k)
    (hi : j.iters = i0 :: rest) :
    j.next = (LF.search (sortIters ((i0.next).1 :: rest)),
      (LF.search (sortIters ((i0.next).1 :: rest))).cur.isSome) := by
  simp only [LF.next, hc, hi]

theorem next_wf {i0 : TIter} {rest : List TIter} (h : AllWF (i0 :: rest)) :
    AllWF ((i0.next).1 :: rest) := by
  intro it hit
  rcases List.mem_cons.1 hit with rfl | hit
  · have := h i0 (by simp)
    unfold WF at this ⊢; rw [TIter.next_keys]; exact this
  · exact h it (List.mem_cons_of_mem _ hit)

theorem next_measure {i0 : TIter} {rest : List TIter} {k0 : Nat} (h0 : i0.key = some k0) :
    lfMeasure ((i0.next).1 :: rest) + 1 = lfMeasure (i0 :: rest) := by
  rw [lfMeasure_cons, lfMeasure_cons, TIter.next_rem]
  rw [TIter.key_eq] at h0
  cases hr : i0.rem with
  | nil => rw [hr] at h0; cases h0
  | cons a t => simp; omega

theorem next_common {i0 : TIter} {rest : List TIter} {k0 : Nat} (hwf : WF i0)
    (h0 : i0.key = some k0) (k : Nat) :
    Common ((i0.next).1 :: rest) k ↔ (Common (i0 :: rest) k ∧ k0 < k) := by
  rw [TIter.key_eq] at h0
  have hs := TIter.rem_pairwise hwf
  cases hr : i0.rem with
  | nil => rw [hr] at h0; cases h0
  | cons a t =>
    rw [hr] at h0 hs; simp at h0; subst h0
    rw [List.pairwise_cons] at hs
    constructor
    · intro hc
      have hk : k ∈ t := by
        have := hc _ (List.mem_cons_self); rw [TIter.next_rem, hr] at this; exact this
      refine ⟨?_, hs.1 k hk⟩
      intro it hit
      rcases List.mem_cons.1 hit with rfl | hit
      · rw [hr]; exact List.mem_cons_of_mem _ hk
      · exact hc it (List.mem_cons_of_mem _ hit)
    · intro ⟨hc, hlt⟩ it hit
      rcases List.mem_cons.1 hit with rfl | hit
      · rw [TIter.next_rem, hr]
        have := hc i0 (by simp)
        rw [hr] at this
        rcases List.mem_cons.1 this with rfl | h
        · omega
        · exact h
      · exact hc it (List.mem_cons_of_mem _ hit)

theorem next_post {i0 : TIter} {rest : List TIter} (hwf : AllWF (i0 :: rest)) :
    SearchPost ((i0.next).1 :: rest)
      ((LF.search (sortIters ((i0.next).1 :: rest))).iters,
       (LF.search (sortIters ((i0.next).1 :: rest))).cur) :=
  (LF.search_spec (sortIters_ne_nil (by simp)) (allWF_sortIters.2 (next_wf hwf))
    (sortedK_sortIters _)).mono (by rw [lfMeasure_sortIters]; exact Nat.le_refl _)
    (fun k => common_sortIters _ k)

theorem lfEnum_none (f : Nat) {j : LF} (h : j.cur = none) : lfEnum f j = [] := by
  cases f <;> simp [lfEnum, LF.key, h]

theorem lfEnum_good (f : Nat) : ∀ j k0, Good j k0 → lfMeasure j.iters < f →
    (lfEnum f j).Pairwise (· < ·) ∧ ∀ k, k ∈ lfEnum f j ↔ Common j.iters k := by
  induction f with
  | zero => intro j k0 _ h; omega
  | succ f ih =>
    intro j k0 hg hf
    cases hi : j.iters with
    | nil => exact absurd hi hg.ne
    | cons i0 rest =>
      have hwf : AllWF (i0 :: rest) := hi ▸ hg.wf
      have hat : AllAt (i0 :: rest) k0 := hi ▸ hg.allAt
      have h0 : i0.key = some k0 := hat i0 (by simp)
      have hpost := next_post hwf
      have hm := next_measure (rest := rest) h0
      have hc := next_common (rest := rest) (hwf i0 (by simp)) h0
      have hck0 : Common (i0 :: rest) k0 := common_of_allAt hat
      have hge : ∀ k, Common (i0 :: rest) k → k0 ≤ k :=
        fun k hk => le_of_common_allAt (by simp) hwf hat hk
      rw [hi] at hf
      simp only [lfEnum, LF.key, hg.cur, LF.next_eq hg.cur hi]
      cases hc' : (LF.search (sortIters ((i0.next).1 :: rest))).cur with
      | none =>
        have hno := hpost.none_case hc'
        simp only [Option.isSome_none, Bool.false_eq_true, if_false]
        refine ⟨by simp, ?_⟩
        intro k
        simp only [List.mem_singleton]
        constructor
        · rintro rfl; exact hck0
        · intro hk
          have := hge k hk
          by_cases he : k = k0
          · exact he
          · exact absurd ((hc k).2 ⟨hk, by omega⟩) (hno k)
      | some k' =>
        obtain ⟨_, _, _, hle, hcm⟩ := hpost.some_case k' hc'
        have hg' := good_of_post hpost hc'
        obtain ⟨ihs, ihm⟩ := ih _ k' hg' (by simp only at hle; omega)
        simp only [Option.isSome_some, if_true]
        have hmem : ∀ k, k ∈ lfEnum f (LF.search (sortIters ((i0.next).1 :: rest))) ↔
            (Common (i0 :: rest) k ∧ k0 < k) := fun k =>
          (ihm k).trans ((hcm k).trans (hc k))
        constructor
        · rw [List.pairwise_cons]
          exact ⟨fun k hk => ((hmem k).1 hk).2, ihs⟩
        · intro k
          rw [List.mem_cons, hmem]
          constructor
          · rintro (rfl | h)
            · exact hck0
            · exact h.1
          · intro hk
            have := hge k hk
            by_cases he : k = k0
            · exact Or.inl he
            · exact Or.inr ⟨hk, by omega⟩

theorem lfEnum_fuel_aux (f : Nat) : ∀ g j k0, Good j k0 → lfMeasure j.iters < f →
    lfMeasure j.iters < g → lfEnum f j = lfEnum g j := by
  induction f with
  | zero => intro g j k0 _ h; omega
  | succ f ih =>
    intro g j k0 hg hf hg'
    cases g with
    | zero => omega
    | succ g =>
    cases hi : j.iters with
    | nil => exact absurd hi hg.ne
    | cons i0 rest =>
      have hwf : AllWF (i0 :: rest) := hi ▸ hg.wf
      have hat : AllAt (i0 :: rest) k0 := hi ▸ hg.allAt
      have h0 : i0.key = some k0 := hat i0 (by simp)
      have hpost := next_post hwf
      have hm := next_measure (rest := rest) h0
      rw [hi] at hf hg'
      simp only [lfEnum, LF.key, hg.cur, LF.next_eq hg.cur hi]
      cases hc' : (LF.search (sortIters ((i0.next).1 :: rest))).cur with
      | none => rfl
      | some k' =>
        obtain ⟨_, _, _, hle, _⟩ := hpost.some_case k' hc'
        have hg2 := good_of_post hpost hc'
        simp only at hle
        rw [ih g _ k' hg2 (by omega) (by omega)]

/-! ## main theorems -/

/-- Theorem 1: the driver loop enumerates, in strictly increasing order, exactly the keys common
to all iterators. -/
theorem lf_enum_eq_inter {its : List TIter} (hne : its ≠ [])
    (hwf : ∀ it ∈ its, it.keys.Pairwise (· < ·)) :
    (lfEnum (lfEnumFuel (LF.new its)) (LF.new its)).Pairwise (· < ·) ∧
    ∀ k, k ∈ lfEnum (lfEnumFuel (LF.new its)) (LF.new its) ↔ ∀ it ∈ its, k ∈ it.rem := by
  have hpost := LF.new_spec hne hwf
  cases hc : (LF.new its).cur with
  | none =>
    rw [lfEnum_none _ hc]
    refine ⟨by simp, fun k => ?_⟩
    simp only [List.not_mem_nil, false_iff]
    exact hpost.none_case hc k
  | some k0 =>
    obtain ⟨_, _, _, _, hcm⟩ := hpost.some_case k0 hc
    obtain ⟨h1, h2⟩ := lfEnum_good (lfEnumFuel (LF.new its)) _ k0 (good_of_post hpost hc)
      (Nat.lt_succ_self _)
    exact ⟨h1, fun k => (h2 k).trans (hcm k)⟩

theorem eq_of_sorted_of_mem {l₁ l₂ : List Nat} (h₁ : l₁.Pairwise (· < ·))
    (h₂ : l₂.Pairwise (· < ·)) (h : ∀ k, k ∈ l₁ ↔ k ∈ l₂) : l₁ = l₂ := by
  refine List.Perm.eq_of_pairwise (le := (· < ·)) ?_ h₁ h₂ ?_
  · intro a b _ _ hab hba; omega
  · exact (List.perm_ext_iff_of_nodup (h₁.imp (fun h => Nat.ne_of_lt h))
      (h₂.imp (fun h => Nat.ne_of_lt h))).2 h

theorem sInter_spec {its : List TIter} (hwf : ∀ it ∈ its, it.keys.Pairwise (· < ·))
    (hne : its ≠ []) :
    (sInter (its.map TIter.rem)).Pairwise (· < ·) ∧
    ∀ k, k ∈ sInter (its.map TIter.rem) ↔ ∀ it ∈ its, k ∈ it.rem := by
  cases its with
  | nil => exact absurd rfl hne
  | cons i r =>
    simp only [List.map_cons, sInter]
    refine ⟨List.Pairwise.filter _ (TIter.rem_pairwise (hwf i (by simp))), fun k => ?_⟩
    simp [List.mem_filter, List.all_eq_true]

/-- Theorem 1 (corollary): the enumeration is the specification function `sInter`. -/
theorem lf_enum_eq_sInter {its : List TIter} (hne : its ≠ [])
    (hwf : ∀ it ∈ its, it.keys.Pairwise (· < ·)) :
    lfEnum (lfEnumFuel (LF.new its)) (LF.new its) = sInter (its.map TIter.rem) := by
  obtain ⟨a1, a2⟩ := lf_enum_eq_inter hne hwf
  obtain ⟨b1, b2⟩ := sInter_spec hwf hne
  exact eq_of_sorted_of_mem a1 b1 (fun k => (a2 k).trans (b2 k).symm)

theorem lfEnum_head (f : Nat) (j : LF) : (lfEnum (f + 1) j).head? = j.key := by
  simp only [lfEnum]
  cases j.key with
  | none => rfl
  | some k => simp only; split <;> rfl

/-- Theorem 2: the key after construction is the first key of the intersection. -/
theorem lf_new_key {its : List TIter} (hne : its ≠ [])
    (hwf : ∀ it ∈ its, it.keys.Pairwise (· < ·)) :
    (LF.new its).key = (sInter (its.map TIter.rem)).head? := by
  rw [← lf_enum_eq_sInter hne hwf, lfEnumFuel, lfEnum_head]

/-- Theorem 3b: more fuel than `lfEnumFuel` changes nothing. -/
theorem lfEnum_fuel {its : List TIter} (hne : its ≠ [])
    (hwf : ∀ it ∈ its, it.keys.Pairwise (· < ·)) {f : Nat} (hf : f ≥ lfEnumFuel (LF.new its)) :
    lfEnum f (LF.new its) = lfEnum (lfEnumFuel (LF.new its)) (LF.new its) := by
  have hpost := LF.new_spec hne hwf
  cases hc : (LF.new its).cur with
  | none => rw [lfEnum_none _ hc, lfEnum_none _ hc]
  | some k0 =>
    unfold lfEnumFuel at hf ⊢
    exact lfEnum_fuel_aux f _ _ k0 (good_of_post hpost hc) (by omega) (by omega)

/-! ## non-vacuity -/

def exIts : List TIter :=
  [TIter.mk (.mk [] .nil) [1, 3, 5, 7] 0,
   TIter.mk (.mk [] .nil) [0, 3, 4, 7, 9] 0,
   TIter.mk (.mk [] .nil) [2, 3, 6, 7] 0]

example : lfEnum (lfEnumFuel (LF.new exIts)) (LF.new exIts) = [3, 7] := by decide

example : exIts ≠ [] ∧ ∀ it ∈ exIts, it.keys.Pairwise (· < ·) := by
  refine ⟨by simp [exIts], ?_⟩
  intro it hit
  simp only [exIts, List.mem_cons, List.not_mem_nil, or_false] at hit
  rcases hit with rfl | rfl | rfl <;> decide

end Grafeo.Idx
