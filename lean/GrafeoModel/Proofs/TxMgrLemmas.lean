import GrafeoModel.Model.TxMgr

/-! Invariant of the transaction manager model and its preservation by every operation. -/

namespace Grafeo.TxMgr

/-! ### slot access -/

theorem get_lt {m : Mgr} {i : Nat} {t : Tx} (h : m.get i = some t) : i < m.slots.length := by
  unfold Mgr.get at h
  by_cases hi : i < m.slots.length
  · exact hi
  · rw [List.getElem?_eq_none (Nat.le_of_not_lt hi)] at h; simp at h

theorem get_set (e : Nat) (slots : List (Option Tx)) (i j : Nat) (t' : Tx) :
    (Mgr.mk e (slots.set i (some t'))).get j =
      if i = j ∧ i < slots.length then some t' else (Mgr.mk e slots).get j := by
  unfold Mgr.get
  simp only [List.getElem?_set]
  by_cases hij : i = j
  · subst hij
    by_cases hl : i < slots.length
    · simp [hl]
    · simp [hl]
  · simp [hij]

theorem get_epoch (e e' : Nat) (slots : List (Option Tx)) (j : Nat) :
    (Mgr.mk e slots).get j = (Mgr.mk e' slots).get j := rfl

theorem get_append (e : Nat) (slots : List (Option Tx)) (x : Tx) (j : Nat) :
    (Mgr.mk e (slots ++ [some x])).get j =
      if j = slots.length then some x else (Mgr.mk e slots).get j := by
  unfold Mgr.get
  by_cases hlt : j < slots.length
  · rw [List.getElem?_append_left hlt]
    have : j ≠ slots.length := by omega
    simp [this]
  · by_cases heq : j = slots.length
    · subst heq; simp
    · have hge : slots.length ≤ j := Nat.le_of_not_lt hlt
      rw [List.getElem?_append_right hge]
      have : j - slots.length ≠ 0 := by omega
      simp only [heq, if_false]
      rw [List.getElem?_eq_none (by simp; omega), List.getElem?_eq_none hge]

theorem intersects_iff (a b : List Nat) : intersects a b = true ↔ ∃ x, x ∈ a ∧ x ∈ b := by
  unfold intersects
  simp [List.any_eq_true]

theorem intersects_comm (a b : List Nat) : intersects a b = intersects b a := by
  have h : ∀ a b, intersects a b = true → intersects b a = true := by
    intro a b h
    obtain ⟨x, h1, h2⟩ := (intersects_iff a b).mp h
    exact (intersects_iff b a).mpr ⟨x, h2, h1⟩
  cases hab : intersects a b with
  | true => exact (h a b hab).symm
  | false =>
    cases hba : intersects b a with
    | true => rw [h b a hba] at hab; exact absurd hab (by simp)
    | false => rfl

theorem anyOther_intro (m : Mgr) (i j : Nat) (p : Tx → Bool) (u : Tx)
    (hne : j ≠ i) (hg : m.get j = some u) (hp : p u = true) : anyOther m i p = true := by
  unfold anyOther
  rw [List.any_eq_true]
  refine ⟨j, List.mem_range.mpr (get_lt hg), ?_⟩
  simp [hne, hg, hp]

theorem anyOther_elim (m : Mgr) (i : Nat) (p : Tx → Bool) (h : anyOther m i p = true) :
    ∃ j u, j ≠ i ∧ m.get j = some u ∧ p u = true := by
  unfold anyOther at h
  rw [List.any_eq_true] at h
  obtain ⟨j, _, hj⟩ := h
  simp only [Bool.and_eq_true, bne_iff_ne, ne_eq] at hj
  obtain ⟨hne, hm⟩ := hj
  cases hg : m.get j with
  | none => rw [hg] at hm; simp at hm
  | some u => rw [hg] at hm; exact ⟨j, u, hne, hg, hm⟩

/-! ### minimum of the active start epochs -/

theorem listMin_le (l : List Nat) (x : Nat) (hx : x ∈ l) : ∃ ms, listMin l = some ms ∧ ms ≤ x := by
  induction l with
  | nil => simp at hx
  | cons y ys ih =>
    simp only [listMin]
    rcases List.mem_cons.mp hx with rfl | h
    · cases listMin ys with
      | none => exact ⟨x, rfl, Nat.le_refl _⟩
      | some z => exact ⟨min x z, rfl, Nat.min_le_left _ _⟩
    · obtain ⟨ms, h1, h2⟩ := ih h
      rw [h1]
      exact ⟨min y ms, rfl, Nat.le_trans (Nat.min_le_right _ _) h2⟩

theorem active_start_mem (m : Mgr) (j : Nat) (a : Tx) (hg : m.get j = some a)
    (ha : a.state = .active) : a.start ∈ activeStarts m := by
  unfold activeStarts
  rw [List.mem_filterMap]
  refine ⟨some a, ?_, by simp [ha]⟩
  unfold Mgr.get at hg
  rw [List.mem_iff_getElem?]
  refine ⟨j, ?_⟩
  cases h : m.slots[j]? with
  | none => rw [h] at hg; simp at hg
  | some s =>
    cases s with
    | none => rw [h] at hg; simp at hg
    | some t => rw [h] at hg; simp at hg; subst hg; rfl

/-! ### the invariant -/

structure Inv (m : Mgr) (log : List Rec) : Prop where
  /-- every retained transaction began no later than now; Committed ⇔ has a commit epoch,
  and then its publication is in the log. -/
  slot_ok : ∀ i t, m.get i = some t → t.start ≤ m.epoch ∧
    (t.state = .committed → ∃ e, t.cepoch = some e ∧
        (⟨i, t.iso, t.start, t.wset, t.rset, e⟩ : Rec) ∈ log) ∧
    (t.state ≠ .committed → t.cepoch = none)
  /-- log records are in the past, and the slot of a published transaction is either gone
  or still says exactly what was published. -/
  log_ok : ∀ r, r ∈ log → r.epoch ≤ m.epoch ∧ r.start < r.epoch ∧ r.tx < m.slots.length ∧
    (∀ u, m.get r.tx = some u → u.state = .committed ∧ u.cepoch = some r.epoch ∧ u.wset = r.wset)
  /-- retention: a publication newer than the start of some active transaction is still
  retained (this is what the `gc` rule has to guarantee). -/
  retained : ∀ r, r ∈ log → ∀ j a, m.get j = some a → a.state = .active → a.start < r.epoch →
    ∃ u, m.get r.tx = some u
  /-- first-committer-wins: two publications with intersecting write sets do not overlap. -/
  safe : ∀ r, r ∈ log → ∀ r', r' ∈ log → r ≠ r' → intersects r.wset r'.wset = true →
    r.epoch ≤ r'.start ∨ r'.epoch ≤ r.start
  /-- serializable publications read nothing that was overwritten during their lifetime. -/
  ssi : ∀ r, r ∈ log → r.iso = .serializable → ∀ r', r' ∈ log → r' ≠ r →
    intersects r.rset r'.wset = true → r'.epoch ≤ r.start ∨ r.epoch < r'.epoch
  /-- publication epochs are unique. -/
  uniq : ∀ r, r ∈ log → ∀ r', r' ∈ log → r.epoch = r'.epoch → r = r'

theorem inv_init : Inv init [] := by
  constructor
  · intro i t h; simp [init, Mgr.get] at h
  · intro r h; simp at h
  · intro r h; simp at h
  · intro r h; simp at h
  · intro r h; simp at h
  · intro r h; simp at h

/-- operations that only touch the read/write set or the Active→Aborted flag of an active
slot, and leave the log alone. -/
theorem inv_update_active (m : Mgr) (log : List Rec) (i : Nat) (t t' : Tx)
    (hinv : Inv m log) (hg : m.get i = some t) (hact : t.state = .active)
    (hst : t'.state = .active ∨ t'.state = .aborted) (hstart : t'.start = t.start)
    (hce : t'.cepoch = t.cepoch) :
    Inv { m with slots := m.slots.set i (some t') } log := by
  have hi : i < m.slots.length := get_lt hg
  have hget : ∀ j, (Mgr.mk m.epoch (m.slots.set i (some t'))).get j =
      if i = j then some t' else m.get j := by
    intro j; rw [get_set]
    by_cases h : i = j
    · subst h; simp [hi]
    · simp only [h, false_and, if_false]
  have hnc : t'.state ≠ .committed := by rcases hst with h | h <;> rw [h] <;> decide
  have htce : t.cepoch = none := (hinv.slot_ok i t hg).2.2 (by rw [hact]; decide)
  constructor
  · intro j u hu
    show u.start ≤ m.epoch ∧ _
    rw [hget] at hu
    by_cases hij : i = j
    · simp only [hij, if_true, Option.some.injEq] at hu
      subst hu
      refine ⟨by rw [hstart]; exact (hinv.slot_ok i t hg).1, fun h => absurd h hnc, fun _ => by rw [hce, htce]⟩
    · simp only [hij, if_false] at hu
      exact hinv.slot_ok j u hu
  · intro r hr
    obtain ⟨h1, h2, hlen, h3⟩ := hinv.log_ok r hr
    refine ⟨h1, h2, by simpa using hlen, ?_⟩
    intro u hu
    rw [hget] at hu
    by_cases hij : i = r.tx
    · -- slot i is active in m, but a published slot is committed: contradiction
      have := (h3 t (hij ▸ hg)).1
      rw [hact] at this; exact absurd this (by decide)
    · simp only [hij, if_false] at hu
      exact h3 u hu
  · intro r hr j a ha hact' hlt
    rw [hget] at ha
    have hold : ∃ u, m.get r.tx = some u := by
      by_cases hij : i = j
      · simp only [hij, if_true, Option.some.injEq] at ha
        subst ha
        exact hinv.retained r hr i t hg hact (by rw [← hstart]; exact hlt)
      · simp only [hij, if_false] at ha
        exact hinv.retained r hr j a ha hact' hlt
    obtain ⟨u, hu⟩ := hold
    rw [hget]
    by_cases hij : i = r.tx
    · have := ((hinv.log_ok r hr).2.2.2 t (hij ▸ hg)).1
      rw [hact] at this; exact absurd this (by decide)
    · exact ⟨u, by simp only [hij, if_false]; exact hu⟩
  · exact hinv.safe
  · exact hinv.ssi
  · exact hinv.uniq

theorem inv_begin (m : Mgr) (log : List Rec) (iso : Iso) (hinv : Inv m log) :
    Inv (m.begin iso).1 log := by
  unfold Mgr.begin
  simp only
  have hget : ∀ j, (Mgr.mk m.epoch (m.slots ++ [some ⟨.active, iso, m.epoch, [], [], none⟩])).get j =
      if j = m.slots.length then some ⟨.active, iso, m.epoch, [], [], none⟩ else m.get j := by
    intro j; rw [get_append]
  constructor
  · intro j u hu
    show u.start ≤ m.epoch ∧ _
    rw [hget] at hu
    by_cases hj : j = m.slots.length
    · simp only [hj, if_true, Option.some.injEq] at hu
      subst hu
      exact ⟨Nat.le_refl _, fun h => by simp at h, fun _ => rfl⟩
    · simp only [hj, if_false] at hu
      exact hinv.slot_ok j u hu
  · intro r hr
    obtain ⟨h1, h2, hlen, h3⟩ := hinv.log_ok r hr
    refine ⟨h1, h2, by simp; omega, ?_⟩
    intro u hu
    rw [hget] at hu
    have hj : r.tx ≠ m.slots.length := by omega
    simp only [hj, if_false] at hu
    exact h3 u hu
  · intro r hr j a ha hact hlt
    rw [hget] at ha
    by_cases hj : j = m.slots.length
    · simp only [hj, if_true, Option.some.injEq] at ha
      subst ha
      have := (hinv.log_ok r hr).1
      simp at hlt; omega
    · simp only [hj, if_false] at ha
      obtain ⟨u, hu⟩ := hinv.retained r hr j a ha hact hlt
      refine ⟨u, ?_⟩
      rw [hget]
      have : r.tx ≠ m.slots.length := by have := get_lt hu; omega
      simp only [this, if_false]; exact hu
  · exact hinv.safe
  · exact hinv.ssi
  · exact hinv.uniq

end Grafeo.TxMgr

namespace Grafeo.TxMgr

theorem inv_commit_ok (m : Mgr) (log : List Rec) (i : Nat) (t : Tx) (hinv : Inv m log)
    (hg : m.get i = some t) (hact : t.state = .active)
    (hww : (wwLoop1 m i t || wwLoop2 m i t) = false)
    (hssi : (t.iso == .serializable && !t.rset.isEmpty && (ssiLoop1 m i t || ssiLoop2 m i t)) = false) :
    Inv ⟨m.epoch + 1, m.slots.set i (some { t with state := .committed, cepoch := some (m.epoch + 1) })⟩
      (⟨i, t.iso, t.start, t.wset, t.rset, m.epoch + 1⟩ :: log) := by
  have hi : i < m.slots.length := get_lt hg
  have hget : ∀ j, (Mgr.mk (m.epoch + 1) (m.slots.set i
      (some { t with state := .committed, cepoch := some (m.epoch + 1) }))).get j =
      if i = j then some { t with state := .committed, cepoch := some (m.epoch + 1) } else m.get j := by
    intro j; rw [get_set]
    by_cases h : i = j
    · subst h; simp [hi]
    · simp only [h, false_and, if_false]; rfl
  have hww2 : wwLoop2 m i t = false := by
    cases h : wwLoop2 m i t with
    | false => rfl
    | true => rw [h] at hww; simp at hww
  -- a published record's slot is never the (active) slot i
  have hne : ∀ r, r ∈ log → r.tx ≠ i := by
    intro r hr heq
    have := ((hinv.log_ok r hr).2.2.2 t (heq ▸ hg)).1
    rw [hact] at this; exact absurd this (by decide)
  -- the write-write check: any old record overlapping us has a disjoint write set
  have hkey : ∀ r, r ∈ log → intersects t.wset r.wset = true → r.epoch ≤ t.start := by
    intro r hr hint
    apply Nat.le_of_not_lt
    intro hlt
    obtain ⟨u, hu⟩ := hinv.retained r hr i t hg hact hlt
    obtain ⟨_, hce, hws⟩ := (hinv.log_ok r hr).2.2.2 u hu
    have : wwLoop2 m i t = true := by
      unfold wwLoop2
      apply anyOther_intro m i r.tx _ u (hne r hr) hu
      rw [hce, hws]; simp [hlt, hint]
    rw [this] at hww2; exact absurd hww2 (by decide)
  have hkeyr : ∀ r, r ∈ log → t.iso = .serializable → intersects t.rset r.wset = true → r.epoch ≤ t.start := by
    intro r hr hser hint
    apply Nat.le_of_not_lt
    intro hlt
    obtain ⟨u, hu⟩ := hinv.retained r hr i t hg hact hlt
    obtain ⟨_, hce, hws⟩ := (hinv.log_ok r hr).2.2.2 u hu
    have h1 : ssiLoop1 m i t = true := by
      unfold ssiLoop1
      apply anyOther_intro m i r.tx _ u (hne r hr) hu
      rw [hce, hws]; simp [hlt, hint]
    have h2 : t.rset.isEmpty = false := by
      obtain ⟨x, hx, _⟩ := (intersects_iff _ _).mp hint
      cases h : t.rset with
      | nil => rw [h] at hx; simp at hx
      | cons a b => rfl
    rw [hser, h1, h2] at hssi; simp at hssi
  constructor
  · intro j u hu
    show u.start ≤ m.epoch + 1 ∧ _
    rw [hget] at hu
    by_cases hij : i = j
    · simp only [hij, if_true, Option.some.injEq] at hu
      subst hu
      refine ⟨Nat.le_succ_of_le (hinv.slot_ok i t hg).1, fun _ => ⟨m.epoch + 1, rfl, ?_⟩, fun h => absurd rfl h⟩
      subst hij; exact List.mem_cons_self
    · simp only [hij, if_false] at hu
      obtain ⟨h1, h2, h3⟩ := hinv.slot_ok j u hu
      refine ⟨Nat.le_succ_of_le h1, fun hc => ?_, h3⟩
      obtain ⟨e, he1, he2⟩ := h2 hc
      exact ⟨e, he1, List.mem_cons_of_mem _ he2⟩
  · intro r hr
    rcases List.mem_cons.mp hr with rfl | hr
    · refine ⟨Nat.le_refl _, Nat.lt_succ_of_le (hinv.slot_ok i t hg).1, by simpa using hi, ?_⟩
      intro u hu
      rw [hget] at hu
      simp only [if_true, Option.some.injEq] at hu
      subst hu; exact ⟨rfl, rfl, rfl⟩
    · obtain ⟨h1, h2, hlen, h3⟩ := hinv.log_ok r hr
      refine ⟨Nat.le_succ_of_le h1, h2, by simpa using hlen, ?_⟩
      intro u hu
      rw [hget] at hu
      have : i ≠ r.tx := fun h => hne r hr h.symm
      simp only [this, if_false] at hu
      exact h3 u hu
  · intro r hr j a ha hact' hlt
    rw [hget] at ha
    by_cases hij : i = j
    · simp only [hij, if_true, Option.some.injEq] at ha
      subst ha; simp at hact'
    · simp only [hij, if_false] at ha
      rcases List.mem_cons.mp hr with rfl | hr
      · refine ⟨{ t with state := .committed, cepoch := some (m.epoch + 1) }, ?_⟩
        rw [hget]; simp
      · obtain ⟨u, hu⟩ := hinv.retained r hr j a ha hact' hlt
        refine ⟨u, ?_⟩
        rw [hget]
        have : i ≠ r.tx := fun h => hne r hr h.symm
        simp only [this, if_false]; exact hu
  · intro r hr r' hr' hneq hint
    rcases List.mem_cons.mp hr with rfl | hr
    · rcases List.mem_cons.mp hr' with rfl | hr'
      · exact absurd rfl hneq
      · exact Or.inr (hkey r' hr' hint)
    · rcases List.mem_cons.mp hr' with rfl | hr'
      · exact Or.inl (hkey r hr (by rw [intersects_comm]; exact hint))
      · exact hinv.safe r hr r' hr' hneq hint
  · intro r hr hser r' hr' hneq hint
    rcases List.mem_cons.mp hr with rfl | hr
    · rcases List.mem_cons.mp hr' with rfl | hr'
      · exact absurd rfl hneq
      · exact Or.inl (hkeyr r' hr' hser hint)
    · rcases List.mem_cons.mp hr' with rfl | hr'
      · exact Or.inr (Nat.lt_succ_of_le (hinv.log_ok r hr).1)
      · exact hinv.ssi r hr hser r' hr' hneq hint
  · intro r hr r' hr' heq
    rcases List.mem_cons.mp hr with rfl | hr
    · rcases List.mem_cons.mp hr' with rfl | hr'
      · rfl
      · have := (hinv.log_ok r' hr').1; simp at heq; omega
    · rcases List.mem_cons.mp hr' with rfl | hr'
      · have := (hinv.log_ok r hr).1; simp at heq; omega
      · exact hinv.uniq r hr r' hr' heq

theorem get_gc (m : Mgr) (j : Nat) :
    (m.gc).1.get j = match m.get j with
      | some t => if gcRemoves (listMin (activeStarts m)) t then none else some t
      | none => none := by
  unfold Mgr.gc Mgr.get
  simp only [List.getElem?_map]
  cases h : m.slots[j]? with
  | none => simp
  | some s =>
    cases s with
    | none => simp
    | some t =>
      simp only [Option.map_some]
      by_cases hr : gcRemoves (listMin (activeStarts m)) t = true <;> simp [hr]

theorem get_gc_some (m : Mgr) (j : Nat) (u : Tx) (h : (m.gc).1.get j = some u) : m.get j = some u := by
  rw [get_gc] at h
  cases hg : m.get j with
  | none => rw [hg] at h; simp at h
  | some t =>
    rw [hg] at h
    simp only at h
    split at h
    · simp at h
    · exact h

theorem inv_gc (m : Mgr) (log : List Rec) (hinv : Inv m log) : Inv (m.gc).1 log := by
  have hep : (m.gc).1.epoch = m.epoch := rfl
  have hlen : (m.gc).1.slots.length = m.slots.length := by simp [Mgr.gc]
  constructor
  · intro j u hu
    rw [hep]
    exact hinv.slot_ok j u (get_gc_some m j u hu)
  · intro r hr
    obtain ⟨h1, h2, h3, h4⟩ := hinv.log_ok r hr
    exact ⟨by rw [hep]; exact h1, h2, by rw [hlen]; exact h3, fun u hu => h4 u (get_gc_some m _ u hu)⟩
  · intro r hr j a ha hact hlt
    have ha' := get_gc_some m j a ha
    obtain ⟨u, hu⟩ := hinv.retained r hr j a ha' hact hlt
    obtain ⟨hst, hce, _⟩ := (hinv.log_ok r hr).2.2.2 u hu
    obtain ⟨ms, hms, hle⟩ := listMin_le (activeStarts m) a.start (active_start_mem m j a ha' hact)
    refine ⟨u, ?_⟩
    rw [get_gc, hu]
    have : gcRemoves (listMin (activeStarts m)) u = false := by
      unfold gcRemoves
      rw [hst, hms, hce]
      simp; omega
    simp [this]
  · exact hinv.safe
  · exact hinv.ssi
  · exact hinv.uniq

theorem inv_gstep (g : Mgr × List Rec) (op : Op) (hinv : Inv g.1 g.2) :
    Inv (gstep g op).1.1 (gstep g op).1.2 := by
  obtain ⟨m, log⟩ := g
  cases op with
  | begin iso => exact inv_begin m log iso hinv
  | gc => exact inv_gc m log hinv
  | write i e =>
    simp only [gstep, step, Mgr.recordWrite]
    cases hg : m.get i with
    | none => exact hinv
    | some t =>
      simp only
      by_cases hact : t.state = .active
      · simp only [hact, ne_eq, not_true_eq_false, if_false]
        exact inv_update_active m log i t _ hinv hg hact (Or.inl rfl) rfl rfl
      · simp only [ne_eq, hact, not_false_eq_true, if_true]; exact hinv
  | read i e =>
    simp only [gstep, step, Mgr.recordRead]
    cases hg : m.get i with
    | none => exact hinv
    | some t =>
      simp only
      by_cases hact : t.state = .active
      · simp only [hact, ne_eq, not_true_eq_false, if_false]
        exact inv_update_active m log i t _ hinv hg hact (Or.inl rfl) rfl rfl
      · simp only [ne_eq, hact, not_false_eq_true, if_true]; exact hinv
  | abort i =>
    simp only [gstep, step, Mgr.abort]
    cases hg : m.get i with
    | none => exact hinv
    | some t =>
      simp only
      by_cases hact : t.state = .active
      · simp only [hact, ne_eq, not_true_eq_false, if_false]
        exact inv_update_active m log i t _ hinv hg hact (Or.inr rfl) rfl rfl
      · simp only [ne_eq, hact, not_false_eq_true, if_true]; exact hinv
  | commit i =>
    simp only [gstep, step, Mgr.commit]
    cases hg : m.get i with
    | none => exact hinv
    | some t =>
      simp only
      by_cases hact : t.state = .active
      · simp only [hact, ne_eq, not_true_eq_false, if_false]
        cases hww : (wwLoop1 m i t || wwLoop2 m i t) with
        | true => simp only [if_true]; exact hinv
        | false =>
          simp only [Bool.false_eq_true, if_false]
          cases hssi : (t.iso == .serializable && !t.rset.isEmpty && (ssiLoop1 m i t || ssiLoop2 m i t)) with
          | true => simp only [if_true]; exact hinv
          | false =>
            simp only [Bool.false_eq_true, if_false, hg]
            exact inv_commit_ok m log i t hinv hg hact hww hssi
      · simp only [ne_eq, hact, not_false_eq_true, if_true]; exact hinv

theorem inv_grun (ops : List Op) : Inv (grun ops).1 (grun ops).2 := by
  unfold grun
  have : ∀ (g : Mgr × List Rec), Inv g.1 g.2 →
      Inv (ops.foldl (fun g op => (gstep g op).1) g).1 (ops.foldl (fun g op => (gstep g op).1) g).2 := by
    induction ops with
    | nil => intro g h; exact h
    | cons op ops ih => intro g h; exact ih _ (inv_gstep g op h)
  exact this (init, []) inv_init

end Grafeo.TxMgr
