import GrafeoModel.Proofs.SessLemmas

/-!
The invariant that ties the session model (`World`) to the snapshot-isolation oracle on
creation-only histories, and its preservation by every step of `St.step`.
-/

set_option linter.unusedSimpArgs false
set_option linter.unusedVariables false

namespace Grafeo.SessSpec
open Grafeo.Lpg Grafeo.Sess Grafeo.TxMgr

/-! ### session maps -/

theorem agetD_aset {ν : Type} (l : AList (Option ν)) (k k' : Nat) (x : Option ν) :
    (aget (aset l k x) k').getD none = if k' = k then x else (aget l k').getD none := by
  rw [aget_aset]
  by_cases e : k' = k <;> simp [e]

/-- the oracle's open transaction of session `k` -/
def otxOf (z : St) (k : Nat) : Option STx := (aget z.txs k).getD none

theorem view_def (z : St) (k : Nat) :
    z.view k = match otxOf z k with
      | some t => t.writes.foldl SGraph.apply t.snap
      | none => z.committed := rfl

theorem curOf_aset (w : World) (k k' : Nat) (x : Option Nat) (s : Store) (m : Mgr) :
    World.curOf { store := s, mgr := m, cur := aset w.cur k x } k' = if k' = k then x else w.curOf k' :=
  agetD_aset w.cur k k' x

/-! ### the oracle's write lists in creation-only histories -/

def W.isCreate : W → Bool
  | .node _ _ | .edge _ _ => true
  | _ => false

def wsNodes (ws : List W) : AList (List Nat × AList String) :=
  ws.filterMap (fun w => match w with | .node id ls => some (id, (ls.foldl sinsert [], [])) | _ => none)

def wsEdges (ws : List W) : AList EdgeRec :=
  ws.filterMap (fun w => match w with | .edge id r => some (id, r) | _ => none)

theorem foldl_apply_create (ws : List W) (g : SGraph) (hc : ∀ w ∈ ws, w.isCreate = true) :
    (ws.foldl SGraph.apply g).nodes = (wsNodes ws).foldl (fun a kv => aset a kv.1 kv.2) g.nodes ∧
    (ws.foldl SGraph.apply g).edges = (wsEdges ws).foldl (fun a kv => aset a kv.1 kv.2) g.edges := by
  induction ws generalizing g with
  | nil => exact ⟨rfl, rfl⟩
  | cons w rest ih =>
    have hw := hc w (by simp)
    have ih' := fun g' => ih g' (fun x hx => hc x (List.mem_cons_of_mem _ hx))
    cases w with
    | node id ls => exact ih' _
    | edge id r => exact ih' _
    | setProp _ _ _ => simp [W.isCreate] at hw
    | addLabel _ _ => simp [W.isCreate] at hw
    | remLabel _ _ => simp [W.isCreate] at hw
    | delNode _ _ => simp [W.isCreate] at hw
    | delEdge _ => simp [W.isCreate] at hw

/-! ### the invariant -/

def otN (otx : Nat → Option STx) (k : Nat) : Option (AList (List Nat × AList String) × AList (List Nat × AList String)) :=
  (otx k).map (fun t => (t.snap.nodes, wsNodes t.writes))

def otE (otx : Nat → Option STx) (k : Nat) : Option (AList EdgeRec × AList EdgeRec) :=
  (otx k).map (fun t => (t.snap.edges, wsEdges t.writes))

/-- the invariant, over the components of the stream state it looks at: the model world, the oracle's
committed graph and the oracle's open transactions -/
structure InvC (w : World) (com : SGraph) (otx : Nat → Option STx) : Prop where
  store : StoreOK w.store
  mgr : MgrOK w.mgr w.curOf
  sess : ∀ k, (otx k).isSome = (w.curOf k).isSome
  creat : ∀ k t, otx k = some t → (∀ x ∈ t.writes, x.isCreate = true) ∧ t.modified = []
  nodes : TabRel w.mgr w.curOf (nodeEnts w.store) com.nodes (otN otx)
  edges : TabRel w.mgr w.curOf (edgeEnts w.store) com.edges (otE otx)

def Inv (z : St) : Prop := InvC z.w z.committed (otxOf z)

theorem InvC.congr {w : World} {com : SGraph} {otx otx' : Nat → Option STx} (h : InvC w com otx)
    (he : ∀ k, otx' k = otx k) : InvC w com otx' := by
  have : otx' = otx := funext he
  rw [this]; exact h

/-- an empty database, at any epoch -/
theorem inv_empty (e : Nat) : Inv { w := { store := { epoch := e }, mgr := ⟨e, []⟩ } } := by
  refine ⟨?_, ⟨?_, ?_⟩, ?_, ?_, ?_, ?_⟩
  · refine ⟨by simp [NodupKeys, keys], by simp, by simp, by simp [NodupKeys, keys], by simp, by simp, rfl, rfl,
      by intro id _; rfl, ?_, by intro l; simp [Store.nodesByLabel, aget], ?_, by intro n; simp [Store.outEdges, aget]⟩
    · intro l id; simp [inIdx, hasLabel, Store.nodeLabelsOf, aget]
    · intro n d e; simp [Store.outEdges, aget]
  · intro k slot h; simp [World.curOf, aget] at h
  · intro k k' slot h; simp [World.curOf, aget] at h
  · intro k; rfl
  · intro k t h; simp [otxOf, aget] at h
  · exact tabRel_empty _
  · exact tabRel_empty _

theorem inv_init : Inv {} := inv_empty 0


/-! ### micro-steps -/

/-- every open transaction began strictly below the current epoch (true right after `freshEpoch`) -/
def StartsBelow (w : World) : Prop :=
  ∀ k slot t, w.curOf k = some slot → w.mgr.get slot = some t → t.start < w.mgr.epoch

theorem invC_bump {w : World} {com : SGraph} {otx : Nat → Option STx} (h : InvC w com otx) :
    InvC w.freshEpoch.1 com otx ∧ StartsBelow w.freshEpoch.1 := by
  have hm : MgrOK w.freshEpoch.1.mgr w.freshEpoch.1.curOf := by
    refine ⟨?_, h.mgr.inj⟩
    intro k slot hk
    obtain ⟨t, a, b, c, d, e⟩ := h.mgr.active k slot hk
    exact ⟨t, a, b, c, d, Nat.le_succ_of_le e⟩
  refine ⟨⟨storeOK_syncEpoch _ _ h.store, hm, h.sess, h.creat, ?_, ?_⟩, ?_⟩
  · exact tabRel_bump h.nodes (w.mgr.epoch + 1) (Nat.le_succ _)
  · exact tabRel_bump h.edges (w.mgr.epoch + 1) (Nat.le_succ _)
  · intro k slot t hk hg
    obtain ⟨t2, a, _, _, _, e⟩ := h.mgr.active k slot hk
    have : w.mgr.get slot = some t := hg
    rw [this] at a; injection a with a; subst a
    exact Nat.lt_succ_of_le e

theorem nextNode_fresh {s : Store} (h : StoreOK s) : s.nextNode ∉ keys (nodeEnts s) := by
  rw [keys_nodeEnts]
  intro hk
  obtain ⟨v, hv⟩ := mem_keys.mp hk
  exact Nat.lt_irrefl _ (h.nodesLt _ hv)

theorem nextEdge_fresh {s : Store} (h : StoreOK s) : s.nextEdge ∉ keys (edgeEnts s) := by
  rw [keys_edgeEnts]
  intro hk
  obtain ⟨v, hv⟩ := mem_keys.mp hk
  exact Nat.lt_irrefl _ (h.edgesLt _ hv)

theorem invC_addNodeAuto {w : World} {com : SGraph} {otx : Nat → Option STx} (h : InvC w com otx)
    (hb : StartsBelow w) (ls : List Nat) :
    InvC { w with store := (w.store.createNode ls w.mgr.epoch systemTx).1 }
      (com.apply (.node w.store.nextNode ls)) otx := by
  have hf := nextNode_fresh h.store
  refine ⟨storeOK_createNode _ _ _ _ h.store, h.mgr, h.sess, h.creat, ?_, h.edges⟩
  show TabRel w.mgr w.curOf (nodeEnts (w.store.createNode ls w.mgr.epoch systemTx).1)
    (aset com.nodes w.store.nextNode (ls.foldl sinsert [], [])) (otN otx)
  rw [nodeEnts_createNode _ _ _ _ h.store, aset_fresh _ _ _ (h.nodes.fresh_com hf)]
  exact tabRel_addCommitted h.nodes _ _ hf hb

theorem invC_addEdgeAuto {w : World} {com : SGraph} {otx : Nat → Option STx} (h : InvC w com otx)
    (hb : StartsBelow w) (a b ty : Nat) :
    InvC { w with store := (w.store.createEdge a b ty w.mgr.epoch systemTx).1 }
      (com.apply (.edge w.store.nextEdge ⟨a, b, ty⟩)) otx := by
  have hf := nextEdge_fresh h.store
  refine ⟨storeOK_createEdge _ _ _ _ _ _ h.store, h.mgr, h.sess, h.creat, h.nodes, ?_⟩
  show TabRel w.mgr w.curOf (edgeEnts (w.store.createEdge a b ty w.mgr.epoch systemTx).1)
    (aset com.edges w.store.nextEdge ⟨a, b, ty⟩) (otE otx)
  rw [edgeEnts_createEdge _ _ _ _ _ _ h.store, aset_fresh _ _ _ (h.edges.fresh_com hf)]
  exact tabRel_addCommitted h.edges _ _ hf hb

theorem wsNodes_append (a b : List W) : wsNodes (a ++ b) = wsNodes a ++ wsNodes b := by
  simp [wsNodes, List.filterMap_append]

theorem wsEdges_append (a b : List W) : wsEdges (a ++ b) = wsEdges a ++ wsEdges b := by
  simp [wsEdges, List.filterMap_append]

theorem invC_addNodeTx {w : World} {com : SGraph} {otx : Nat → Option STx} (h : InvC w com otx)
    (k slot : Nat) (t : STx) (hk : w.curOf k = some slot) (hot : otx k = some t) (ls : List Nat) :
    InvC { w with store := (w.store.createNode ls pendingEpoch (txIdOf slot)).1 } com
      (fun k' => if k' = k then some { t with writes := t.writes ++ [.node w.store.nextNode ls] } else otx k') := by
  have hf := nextNode_fresh h.store
  refine ⟨storeOK_createNode _ _ _ _ h.store, h.mgr, ?_, ?_, ?_, ?_⟩
  · intro k'
    by_cases e : k' = k
    · subst e; simp only [if_true, Option.isSome_some]
      show true = (w.curOf k').isSome
      rw [hk]; rfl
    · simp only [e, if_false]; exact h.sess k'
  · intro k' t' ht'
    by_cases e : k' = k
    · subst e
      simp only [if_true, Option.some.injEq] at ht'
      subst ht'
      obtain ⟨a, b⟩ := h.creat k' t hot
      refine ⟨?_, b⟩
      intro x hx
      rcases List.mem_append.mp hx with y | y
      · exact a x y
      · simp only [List.mem_singleton] at y; subst y; rfl
    · simp only [e, if_false] at ht'; exact h.creat k' t' ht'
  · show TabRel w.mgr w.curOf (nodeEnts (w.store.createNode ls pendingEpoch (txIdOf slot)).1) com.nodes _
    rw [nodeEnts_createNode _ _ _ _ h.store]
    refine tabRel_addPending h.nodes h.mgr _ _ hf k slot t.snap.nodes (wsNodes t.writes) hk ?_ ?_
    · simp [otN, hot]
    · intro k'
      by_cases e : k' = k
      · subst e; simp [otN, wsNodes_append, wsNodes]
      · simp [otN, e]
  · refine h.edges.congr_ot ?_
    intro k'
    by_cases e : k' = k
    · subst e; simp [otE, hot, wsEdges_append, wsEdges]
    · simp [otE, e]

theorem invC_addEdgeTx {w : World} {com : SGraph} {otx : Nat → Option STx} (h : InvC w com otx)
    (k slot : Nat) (t : STx) (hk : w.curOf k = some slot) (hot : otx k = some t) (a b ty : Nat) :
    InvC { w with store := (w.store.createEdge a b ty pendingEpoch (txIdOf slot)).1 } com
      (fun k' => if k' = k then some { t with writes := t.writes ++ [.edge w.store.nextEdge ⟨a, b, ty⟩] } else otx k') := by
  have hf := nextEdge_fresh h.store
  refine ⟨storeOK_createEdge _ _ _ _ _ _ h.store, h.mgr, ?_, ?_, ?_, ?_⟩
  · intro k'
    by_cases e : k' = k
    · subst e; simp only [if_true, Option.isSome_some]
      show true = (w.curOf k').isSome
      rw [hk]; rfl
    · simp only [e, if_false]; exact h.sess k'
  · intro k' t' ht'
    by_cases e : k' = k
    · subst e
      simp only [if_true, Option.some.injEq] at ht'
      subst ht'
      obtain ⟨x1, x2⟩ := h.creat k' t hot
      refine ⟨?_, x2⟩
      intro x hx
      rcases List.mem_append.mp hx with y | y
      · exact x1 x y
      · simp only [List.mem_singleton] at y; subst y; rfl
    · simp only [e, if_false] at ht'; exact h.creat k' t' ht'
  · refine h.nodes.congr_ot ?_
    intro k'
    by_cases e : k' = k
    · subst e; simp [otN, hot, wsNodes_append, wsNodes]
    · simp [otN, e]
  · show TabRel w.mgr w.curOf (edgeEnts (w.store.createEdge a b ty pendingEpoch (txIdOf slot)).1) com.edges _
    rw [edgeEnts_createEdge _ _ _ _ _ _ h.store]
    refine tabRel_addPending h.edges h.mgr _ _ hf k slot t.snap.edges (wsEdges t.writes) hk ?_ ?_
    · simp [otE, hot]
    · intro k'
      by_cases e : k' = k
      · subst e; simp [otE, wsEdges_append, wsEdges]
      · simp [otE, e]


/-! ### begin / commit / rollback -/

theorem invC_begin {w : World} {com : SGraph} {otx : Nat → Option STx} (h : InvC w com otx)
    (k : Nat) (iso : Iso) (sq : Nat) (hk : w.curOf k = none) :
    InvC { w with mgr := (w.mgr.begin iso).1, cur := aset w.cur k (some w.mgr.slots.length) } com
      (fun k' => if k' = k then some { snap := com, beginSeq := sq } else otx k') := by
  have hcur : ∀ k', World.curOf { w with mgr := (w.mgr.begin iso).1, cur := aset w.cur k (some w.mgr.slots.length) } k' =
      if k' = k then some w.mgr.slots.length else w.curOf k' := fun k' => curOf_aset w k k' _ _ _
  have hget : ∀ j, (w.mgr.begin iso).1.get j =
      if j = w.mgr.slots.length then some ⟨.active, iso, w.mgr.epoch, [], [], none⟩ else w.mgr.get j := by
    intro j; exact get_append w.mgr.epoch w.mgr.slots _ j
  refine ⟨h.store, ⟨?_, ?_⟩, ?_, ?_, ?_, ?_⟩
  · intro k' slot hk'
    rw [hcur] at hk'
    by_cases e : k' = k
    · simp only [e, if_true, Option.some.injEq] at hk'
      subst hk'
      exact ⟨⟨.active, iso, w.mgr.epoch, [], [], none⟩, by rw [hget]; simp, rfl, rfl, rfl, Nat.le_refl _⟩
    · simp only [e, if_false] at hk'
      obtain ⟨t, a, b⟩ := h.mgr.active k' slot hk'
      have : slot ≠ w.mgr.slots.length := by have := get_lt a; omega
      exact ⟨t, by rw [hget]; simp [this, a], b⟩
  · intro k1 k2 slot h1 h2
    rw [hcur] at h1 h2
    by_cases e1 : k1 = k <;> by_cases e2 : k2 = k
    · rw [e1, e2]
    · simp only [e1, if_true, Option.some.injEq, e2, if_false] at h1 h2
      subst h1
      have := h.mgr.lt h2; omega
    · simp only [e1, if_false, e2, if_true, Option.some.injEq] at h1 h2
      subst h2
      have := h.mgr.lt h1; omega
    · simp only [e1, e2, if_false] at h1 h2
      exact h.mgr.inj k1 k2 slot h1 h2
  · intro k'
    rw [hcur]
    by_cases e : k' = k
    · simp [e]
    · simp only [e, if_false]; exact h.sess k'
  · intro k' t' ht'
    by_cases e : k' = k
    · simp only [e, if_true, Option.some.injEq] at ht'
      subst ht'
      exact ⟨(by intro x hx; cases hx), rfl⟩
    · simp only [e, if_false] at ht'; exact h.creat k' t' ht'
  · refine tabRel_begin h.nodes h.mgr k iso hk hcur ?_
    intro k'
    by_cases e : k' = k
    · simp [otN, e, wsNodes]
    · simp [otN, e]
  · refine tabRel_begin h.edges h.mgr k iso hk hcur ?_
    intro k'
    by_cases e : k' = k
    · simp [otE, e, wsEdges]
    · simp [otE, e]

theorem mgrOK_close {m : Mgr} {cur cur' : Nat → Option Nat} (h : MgrOK m cur) {k slot : Nat} (hk : cur k = some slot)
    (hcur' : ∀ k', cur' k' = if k' = k then none else cur k') (e' : Nat) (he : m.epoch ≤ e') (t' : Tx) :
    MgrOK ⟨e', m.slots.set slot (some t')⟩ cur' := by
  refine ⟨?_, ?_⟩
  · intro k' slot' hk'
    rw [hcur'] at hk'
    by_cases e : k' = k
    · simp [e] at hk'
    · simp only [e, if_false] at hk'
      obtain ⟨t, a, b, c, d, f⟩ := h.active k' slot' hk'
      have hne : slot ≠ slot' := by
        intro e2; subst e2; exact e (h.inj k' k slot hk' hk)
      refine ⟨t, ?_, b, c, d, Nat.le_trans f he⟩
      rw [get_set]
      simp only [hne, false_and, if_false]
      exact a
  · intro k1 k2 s h1 h2
    rw [hcur'] at h1 h2
    by_cases e1 : k1 = k
    · simp [e1] at h1
    · by_cases e2 : k2 = k
      · simp [e2] at h2
      · simp only [e1, e2, if_false] at h1 h2
        exact h.inj k1 k2 s h1 h2

theorem sess_close {w : World} {com : SGraph} {otx : Nat → Option STx} (h : InvC w com otx) (k : Nat)
    {cur' : Nat → Option Nat} (hcur' : ∀ k', cur' k' = if k' = k then none else w.curOf k') :
    ∀ k', ((fun k' => if k' = k then none else otx k') k').isSome = (cur' k').isSome := by
  intro k'
  rw [hcur']
  by_cases e : k' = k
  · simp [e]
  · simp only [e, if_false]; exact h.sess k'

theorem invC_commit {w : World} {com : SGraph} {otx : Nat → Option STx} (h : InvC w com otx)
    (k slot : Nat) (t t' : Tx) (ot : STx) (hk : w.curOf k = some slot) (hg : w.mgr.get slot = some t) (hot : otx k = some ot) :
    InvC { w with store := w.store.finalize (txIdOf slot) (w.mgr.epoch + 1),
                  mgr := ⟨w.mgr.epoch + 1, w.mgr.slots.set slot (some t')⟩, cur := aset w.cur k none }
      (ot.writes.foldl SGraph.apply com) (fun k' => if k' = k then none else otx k') := by
  have hcur : ∀ k', World.curOf ⟨w.store.finalize (txIdOf slot) (w.mgr.epoch + 1), ⟨w.mgr.epoch + 1, w.mgr.slots.set slot (some t')⟩, aset w.cur k none⟩ k' =
      if k' = k then none else w.curOf k' := fun k' => curOf_aset w k k' _ _ _
  obtain ⟨hcN, hcE⟩ := foldl_apply_create ot.writes com (h.creat k ot hot).1
  have hotN : otN otx k = some (ot.snap.nodes, wsNodes ot.writes) := by simp [otN, hot]
  have hotE : otE otx k = some (ot.snap.edges, wsEdges ot.writes) := by simp [otE, hot]
  obtain ⟨_, hwN, _, _⟩ := h.nodes.open_ k slot t _ _ hk hg hotN
  obtain ⟨_, hwE, _, _⟩ := h.edges.open_ k slot t _ _ hk hg hotE
  rw [asetAll_fresh _ _ hwN (h.nodes.com_wr_disjoint hk hg hotN)] at hcN
  rw [asetAll_fresh _ _ hwE (h.edges.com_wr_disjoint hk hg hotE)] at hcE
  refine ⟨storeOK_finalize _ _ _ h.store, mgrOK_close h.mgr hk hcur _ (Nat.le_succ _) t', sess_close h k hcur, ?_, ?_, ?_⟩
  · intro k' t'' ht'
    by_cases e : k' = k
    · simp [e] at ht'
    · simp only [e, if_false] at ht'; exact h.creat k' t'' ht'
  · show TabRel _ _ (nodeEnts (w.store.finalize (txIdOf slot) (w.mgr.epoch + 1))) (ot.writes.foldl SGraph.apply com).nodes _
    rw [nodeEnts_finalize _ _ _ h.store, hcN]
    refine tabRel_commit h.nodes h.mgr k slot t t' _ _ hk hg hotN hcur ?_
    intro k'
    by_cases e : k' = k
    · simp [otN, e]
    · simp [otN, e]
  · show TabRel _ _ (edgeEnts (w.store.finalize (txIdOf slot) (w.mgr.epoch + 1))) (ot.writes.foldl SGraph.apply com).edges _
    rw [edgeEnts_finalize _ _ _ h.store, hcE]
    refine tabRel_commit h.edges h.mgr k slot t t' _ _ hk hg hotE hcur ?_
    intro k'
    by_cases e : k' = k
    · simp [otE, e]
    · simp [otE, e]

theorem invC_rollback {w : World} {com : SGraph} {otx : Nat → Option STx} (h : InvC w com otx)
    (k slot : Nat) (t' : Tx) (hk : w.curOf k = some slot) :
    InvC { w with store := w.store.discard (txIdOf slot),
                  mgr := { w.mgr with slots := w.mgr.slots.set slot (some t') }, cur := aset w.cur k none }
      com (fun k' => if k' = k then none else otx k') := by
  have hcur : ∀ k', World.curOf ⟨w.store.discard (txIdOf slot), ⟨w.mgr.epoch, w.mgr.slots.set slot (some t')⟩, aset w.cur k none⟩ k' =
      if k' = k then none else w.curOf k' := fun k' => curOf_aset w k k' _ _ _
  refine ⟨storeOK_discard _ _ h.store, mgrOK_close h.mgr hk hcur _ (Nat.le_refl _) t', sess_close h k hcur, ?_, ?_, ?_⟩
  · intro k' t'' ht'
    by_cases e : k' = k
    · simp [e] at ht'
    · simp only [e, if_false] at ht'; exact h.creat k' t'' ht'
  · show TabRel _ _ (nodeEnts (w.store.discard (txIdOf slot))) com.nodes _
    rw [nodeEnts_discard _ _ h.store]
    refine tabRel_rollback h.nodes h.mgr k slot t' hk hcur ?_
    intro k'
    by_cases e : k' = k
    · simp [otN, e]
    · simp [otN, e]
  · show TabRel _ _ (edgeEnts (w.store.discard (txIdOf slot))) com.edges _
    rw [edgeEnts_discard _ _ h.store]
    refine tabRel_rollback h.edges h.mgr k slot t' hk hcur ?_
    intro k'
    by_cases e : k' = k
    · simp [otE, e]
    · simp [otE, e]


/-! ### equations for the session calls -/

theorem begin_some {w : World} {k s : Nat} (iso : Iso) (h : w.curOf k = some s) :
    w.begin k iso = (w, .err "invalid") := by
  unfold World.begin; rw [h]

theorem begin_none {w : World} {k : Nat} (iso : Iso) (h : w.curOf k = none) :
    w.begin k iso = ({ w with mgr := (w.mgr.begin iso).1, cur := aset w.cur k (some w.mgr.slots.length) }, .ok) := by
  unfold World.begin; rw [h]; rfl

theorem commit_none {w : World} {k : Nat} (h : w.curOf k = none) : w.commit k = (w, .err "invalid") := by
  unfold World.commit; rw [h]

theorem commit_some {w : World} {k slot : Nat} {t : Tx} (h : w.curOf k = some slot) (hg : w.mgr.get slot = some t)
    (ha : t.state = .active) (hw : t.wset = []) (hr : t.rset = []) :
    w.commit k = ({ w with store := w.store.finalize (txIdOf slot) (w.mgr.epoch + 1),
                           mgr := ⟨w.mgr.epoch + 1, w.mgr.slots.set slot (some { t with state := .committed, cepoch := some (w.mgr.epoch + 1) })⟩,
                           cur := aset w.cur k none }, .ok) := by
  unfold World.commit; rw [h]
  simp only [commit_ok_of_empty w.mgr slot t hg ha hw hr]

theorem rollback_none {w : World} {k : Nat} (h : w.curOf k = none) : w.rollback k = (w, .err "invalid") := by
  unfold World.rollback; rw [h]

theorem rollback_some {w : World} {k slot : Nat} {t : Tx} (h : w.curOf k = some slot) (hg : w.mgr.get slot = some t)
    (ha : t.state = .active) :
    w.rollback k = ({ w with store := w.store.discard (txIdOf slot),
                             mgr := { w.mgr with slots := w.mgr.slots.set slot (some { t with state := .aborted }) },
                             cur := aset w.cur k none }, .ok) := by
  unfold World.rollback; rw [h]
  simp only [abort_ok w.mgr slot t hg ha, if_true]

theorem writeCtx_some {w : World} {k slot : Nat} (h : w.curOf k = some slot) :
    w.writeCtx k = (w, pendingEpoch, txIdOf slot) := by
  unfold World.writeCtx; rw [h]

theorem writeCtx_none {w : World} {k : Nat} (h : w.curOf k = none) :
    w.writeCtx k = (w.freshEpoch.1, w.mgr.epoch + 1, systemTx) := by
  unfold World.writeCtx; rw [h]; rfl

theorem freshEpoch_epoch (w : World) : w.freshEpoch.1.mgr.epoch = w.mgr.epoch + 1 := rfl
theorem freshEpoch_curOf (w : World) (k : Nat) : w.freshEpoch.1.curOf k = w.curOf k := rfl

/-! ### every step preserves the invariant -/

theorem Inv.otx_none {z : St} (h : Inv z) {k : Nat} (hk : z.w.curOf k = none) : (aget z.txs k).getD none = none := by
  have := h.sess k
  rw [hk] at this
  cases hx : otxOf z k with
  | none => exact hx
  | some t => rw [hx] at this; cases this

theorem Inv.otx_some {z : St} (h : Inv z) {k slot : Nat} (hk : z.w.curOf k = some slot) :
    ∃ t, (aget z.txs k).getD none = some t := by
  have := h.sess k
  rw [hk] at this
  cases hx : otxOf z k with
  | none => rw [hx] at this; cases this
  | some t => exact ⟨t, hx⟩

theorem otxOf_txs (z : St) (w' : World) (c' : SGraph) (k : Nat) (x : Option STx) (sq : Nat) (cm : List (Nat × List Nat))
    (tc ab : List Nat) (k' : Nat) :
    otxOf { w := w', committed := c', txs := aset z.txs k x, seq := sq, commits := cm, touched := tc, abortedTouched := ab } k' =
      if k' = k then x else otxOf z k' := agetD_aset z.txs k k' x

theorem inv_begin {z : St} (h : Inv z) (k : Nat) (iso : Iso) : Inv (z.step (.begin k iso)) := by
  cases hk : z.w.curOf k with
  | some s =>
    obtain ⟨t, ht⟩ := h.otx_some hk
    have : z.step (.begin k iso) = z := by
      simp only [St.step, begin_some iso hk, ht, Option.isSome_some, if_true]
    rw [this]; exact h
  | none =>
    have ht := h.otx_none hk
    have : z.step (.begin k iso) =
        { z with w := { z.w with mgr := (z.w.mgr.begin iso).1, cur := aset z.w.cur k (some z.w.mgr.slots.length) },
                 txs := aset z.txs k (some { snap := z.committed, beginSeq := z.seq }) } := by
      simp only [St.step, begin_none iso hk, ht, Option.isSome_none, Bool.false_eq_true, if_false]
    rw [this]
    refine (invC_begin h k iso z.seq hk).congr ?_
    intro k'; exact otxOf_txs z _ _ k _ _ _ _ _ k'

theorem inv_commit {z : St} (h : Inv z) (k : Nat) : Inv (z.step (.commit k)) := by
  cases hk : z.w.curOf k with
  | none =>
    have ht := h.otx_none hk
    have : z.step (.commit k) = { z with txs := aset z.txs k none } := by
      simp only [St.step, commit_none hk, ht]
    rw [this]
    refine InvC.congr (w := z.w) (com := z.committed) h ?_
    intro k'
    rw [otxOf_txs z _ _ k _ _ _ _ _ k']
    by_cases e : k' = k
    · subst e; simp only [if_true]; exact ht.symm
    · simp [e]
  | some slot =>
    obtain ⟨ot, hot⟩ := h.otx_some hk
    obtain ⟨t, hg, ha, hw, hr, _⟩ := h.mgr.active k slot hk
    have : z.step (.commit k) =
        { z with w := { z.w with store := z.w.store.finalize (txIdOf slot) (z.w.mgr.epoch + 1),
                                 mgr := ⟨z.w.mgr.epoch + 1, z.w.mgr.slots.set slot (some { t with state := .committed, cepoch := some (z.w.mgr.epoch + 1) })⟩,
                                 cur := aset z.w.cur k none },
                 committed := ot.writes.foldl SGraph.apply z.committed,
                 txs := aset z.txs k none, seq := z.seq + 1, commits := (z.seq + 1, ot.modified) :: z.commits } := by
      simp only [St.step, commit_some hk hg ha hw hr, hot]
    rw [this]
    refine (invC_commit h k slot t _ ot hk hg hot).congr ?_
    intro k'; exact otxOf_txs z _ _ k _ _ _ _ _ k'

theorem inv_rollback {z : St} (h : Inv z) (k : Nat) : Inv (z.step (.rollback k)) := by
  cases hk : z.w.curOf k with
  | none =>
    have ht := h.otx_none hk
    have : z.step (.rollback k) = { z with txs := aset z.txs k none } := by
      simp only [St.step, rollback_none hk, ht]
    rw [this]
    refine InvC.congr (w := z.w) (com := z.committed) h ?_
    intro k'
    rw [otxOf_txs z _ _ k _ _ _ _ _ k']
    by_cases e : k' = k
    · subst e; simp only [if_true]; exact ht.symm
    · simp [e]
  | some slot =>
    obtain ⟨ot, hot⟩ := h.otx_some hk
    obtain ⟨t, hg, ha, _⟩ := h.mgr.active k slot hk
    have : z.step (.rollback k) =
        { z with w := { z.w with store := z.w.store.discard (txIdOf slot),
                                 mgr := { z.w.mgr with slots := z.w.mgr.slots.set slot (some { t with state := .aborted }) },
                                 cur := aset z.w.cur k none },
                 txs := aset z.txs k none, abortedTouched := z.abortedTouched ++ ot.touchedKeys } := by
      simp only [St.step, rollback_some hk hg ha, hot]
    rw [this]
    refine (invC_rollback h k slot _ hk).congr ?_
    intro k'; exact otxOf_txs z _ _ k _ _ _ _ _ k'


/-! #### creations -/

theorem createNode_tx {w : World} {k slot : Nat} (ls : List Nat) (h : w.curOf k = some slot) :
    w.createNode k ls = ({ w with store := (w.store.createNode ls pendingEpoch (txIdOf slot)).1 }, w.store.nextNode) := by
  unfold World.createNode; rw [writeCtx_some h]; rfl

theorem createNode_auto {w : World} {k : Nat} (ls : List Nat) (h : w.curOf k = none) :
    w.createNode k ls =
      ({ w.freshEpoch.1 with store := (w.freshEpoch.1.store.createNode ls w.freshEpoch.1.mgr.epoch systemTx).1 },
       w.freshEpoch.1.store.nextNode) := by
  unfold World.createNode; rw [writeCtx_none h]; rfl

theorem createEdge_tx {w : World} {k slot : Nat} (a b ty : Nat) (h : w.curOf k = some slot) :
    w.createEdge k a b ty = ({ w with store := (w.store.createEdge a b ty pendingEpoch (txIdOf slot)).1 }, w.store.nextEdge) := by
  unfold World.createEdge; rw [writeCtx_some h]; rfl

theorem createEdge_auto {w : World} {k : Nat} (a b ty : Nat) (h : w.curOf k = none) :
    w.createEdge k a b ty =
      ({ w.freshEpoch.1 with store := (w.freshEpoch.1.store.createEdge a b ty w.freshEpoch.1.mgr.epoch systemTx).1 },
       w.freshEpoch.1.store.nextEdge) := by
  unfold World.createEdge; rw [writeCtx_none h]; rfl

theorem dbCreateNode_eq (w : World) (ls : List Nat) :
    w.dbCreateNode ls =
      ({ w.freshEpoch.1 with store := (w.freshEpoch.1.store.createNode ls w.freshEpoch.1.mgr.epoch systemTx).1 },
       w.freshEpoch.1.store.nextNode) := rfl

theorem inv_cn {z : St} (h : Inv z) (k : Nat) (ls : List Nat) : Inv (z.step (.cn k ls)) := by
  cases hk : z.w.curOf k with
  | some slot =>
    obtain ⟨t, ht⟩ := h.otx_some hk
    have : z.step (.cn k ls) =
        { z with w := { z.w with store := (z.w.store.createNode ls pendingEpoch (txIdOf slot)).1 },
                 txs := aset z.txs k (some { t with writes := t.writes ++ [.node z.w.store.nextNode ls] }) } := by
      simp only [St.step, createNode_tx ls hk, ht]
    rw [this]
    refine (invC_addNodeTx h k slot t hk ht ls).congr ?_
    intro k'; exact otxOf_txs z _ _ k _ _ _ _ _ k'
  | none =>
    have ht := h.otx_none hk
    have : z.step (.cn k ls) =
        { z with w := { z.w.freshEpoch.1 with store := (z.w.freshEpoch.1.store.createNode ls z.w.freshEpoch.1.mgr.epoch systemTx).1 },
                 committed := z.committed.apply (.node z.w.freshEpoch.1.store.nextNode ls) } := by
      simp only [St.step, createNode_auto ls hk, ht]
    rw [this]
    obtain ⟨h1, hb⟩ := invC_bump h
    exact invC_addNodeAuto h1 hb ls

theorem inv_dbcn {z : St} (h : Inv z) (ls : List Nat) : Inv (z.step (.dbcn ls)) := by
  have : z.step (.dbcn ls) =
      { z with w := { z.w.freshEpoch.1 with store := (z.w.freshEpoch.1.store.createNode ls z.w.freshEpoch.1.mgr.epoch systemTx).1 },
               committed := z.committed.apply (.node z.w.freshEpoch.1.store.nextNode ls) } := by
    simp only [St.step, dbCreateNode_eq]
  rw [this]
  obtain ⟨h1, hb⟩ := invC_bump h
  exact invC_addNodeAuto h1 hb ls

theorem inv_ce {z : St} (h : Inv z) (k a b ty : Nat) : Inv (z.step (.ce k a b ty)) := by
  cases hk : z.w.curOf k with
  | some slot =>
    obtain ⟨t, ht⟩ := h.otx_some hk
    have : z.step (.ce k a b ty) =
        { z with w := { z.w with store := (z.w.store.createEdge a b ty pendingEpoch (txIdOf slot)).1 },
                 txs := aset z.txs k (some { t with writes := t.writes ++ [.edge z.w.store.nextEdge ⟨a, b, ty⟩] }) } := by
      simp only [St.step, createEdge_tx a b ty hk, ht]
    rw [this]
    refine (invC_addEdgeTx h k slot t hk ht a b ty).congr ?_
    intro k'; exact otxOf_txs z _ _ k _ _ _ _ _ k'
  | none =>
    have ht := h.otx_none hk
    have : z.step (.ce k a b ty) =
        { z with w := { z.w.freshEpoch.1 with store := (z.w.freshEpoch.1.store.createEdge a b ty z.w.freshEpoch.1.mgr.epoch systemTx).1 },
                 committed := z.committed.apply (.edge z.w.freshEpoch.1.store.nextEdge ⟨a, b, ty⟩) } := by
      simp only [St.step, createEdge_auto a b ty hk, ht]
    rw [this]
    obtain ⟨h1, hb⟩ := invC_bump h
    exact invC_addEdgeAuto h1 hb a b ty

theorem createNodeAndEdge_tx {w : World} {k slot : Nat} (a l ty : Nat) (h : w.curOf k = some slot) :
    w.createNodeAndEdge k a l ty =
      ({ w with store := ((w.store.createNode [l] pendingEpoch (txIdOf slot)).1.createEdge a w.store.nextNode ty pendingEpoch (txIdOf slot)).1 },
       w.store.nextNode, w.store.nextEdge) := by
  unfold World.createNodeAndEdge; rw [writeCtx_some h]; rfl

theorem createNodeAndEdge_auto {w : World} {k : Nat} (a l ty : Nat) (h : w.curOf k = none) :
    w.createNodeAndEdge k a l ty =
      ({ w.freshEpoch.1 with store := ((w.freshEpoch.1.store.createNode [l] w.freshEpoch.1.mgr.epoch systemTx).1.createEdge a
            w.freshEpoch.1.store.nextNode ty w.freshEpoch.1.mgr.epoch systemTx).1 },
       w.freshEpoch.1.store.nextNode, w.freshEpoch.1.store.nextEdge) := by
  unfold World.createNodeAndEdge; rw [writeCtx_none h]; rfl

theorem inv_qce {z : St} (h : Inv z) (k a ty l : Nat) : Inv (z.step (.qce k a ty l)) := by
  by_cases hv : (z.w.scanAll k).contains a = true
  · cases hk : z.w.curOf k with
    | some slot =>
      obtain ⟨t, ht⟩ := h.otx_some hk
      have : z.step (.qce k a ty l) =
          { z with w := { z.w with store := ((z.w.store.createNode [l] pendingEpoch (txIdOf slot)).1.createEdge a z.w.store.nextNode ty pendingEpoch (txIdOf slot)).1 },
                   txs := aset z.txs k (some { t with writes := t.writes ++ [.node z.w.store.nextNode [l], .edge z.w.store.nextEdge ⟨a, z.w.store.nextNode, ty⟩] }) } := by
        simp only [St.step, hv, if_true, createNodeAndEdge_tx a l ty hk, ht]
      rw [this]
      have h1 := invC_addNodeTx h k slot t hk ht [l]
      have h2 := invC_addEdgeTx h1 k slot { t with writes := t.writes ++ [.node z.w.store.nextNode [l]] } hk (by simp) a z.w.store.nextNode ty
      refine h2.congr ?_
      intro k'
      rw [otxOf_txs z _ _ k _ _ _ _ _ k']
      by_cases e : k' = k
      · simp only [e, if_true, List.append_assoc, List.cons_append, List.nil_append]; rfl
      · simp only [e, if_false]
    | none =>
      have ht := h.otx_none hk
      have : z.step (.qce k a ty l) =
          { z with w := { z.w.freshEpoch.1 with store := ((z.w.freshEpoch.1.store.createNode [l] z.w.freshEpoch.1.mgr.epoch systemTx).1.createEdge a
                            z.w.freshEpoch.1.store.nextNode ty z.w.freshEpoch.1.mgr.epoch systemTx).1 },
                   committed := (z.committed.apply (.node z.w.freshEpoch.1.store.nextNode [l])).apply
                      (.edge z.w.freshEpoch.1.store.nextEdge ⟨a, z.w.freshEpoch.1.store.nextNode, ty⟩) } := by
        simp only [St.step, hv, if_true, createNodeAndEdge_auto a l ty hk, ht, List.foldl_cons, List.foldl_nil]
      rw [this]
      obtain ⟨h1, hb⟩ := invC_bump h
      have h2 := invC_addNodeAuto h1 hb [l]
      exact invC_addEdgeAuto h2 hb a z.w.freshEpoch.1.store.nextNode ty
  · have : z.step (.qce k a ty l) = z := by
      simp only [St.step, hv, if_false, Bool.false_eq_true]
    rw [this]; exact h

theorem qMerge_tx {w : World} {k slot : Nat} (l : Nat) (h : w.curOf k = some slot) :
    w.qMerge k l =
      if ((w.store.nodesByLabel l).filter (fun id => (w.store.getNodeTo id (w.ctx k).1 (w.ctx k).2).isSome)).isEmpty then
        ({ w with store := (w.store.createNode [l] pendingEpoch (txIdOf slot)).1 }, some w.store.nextNode)
      else (w, none) := by
  unfold World.qMerge; rw [writeCtx_some h]; rfl

theorem qMerge_auto {w : World} {k : Nat} (l : Nat) (h : w.curOf k = none) :
    w.qMerge k l =
      if ((w.store.nodesByLabel l).filter (fun id => (w.store.getNodeTo id (w.ctx k).1 (w.ctx k).2).isSome)).isEmpty then
        ({ w.freshEpoch.1 with store := (w.freshEpoch.1.store.createNode [l] w.freshEpoch.1.mgr.epoch systemTx).1 },
         some w.freshEpoch.1.store.nextNode)
      else (w.freshEpoch.1, none) := by
  unfold World.qMerge; rw [writeCtx_none h]; rfl

theorem inv_qmerge {z : St} (h : Inv z) (k l : Nat) : Inv (z.step (.qmerge k l)) := by
  cases hk : z.w.curOf k with
  | some slot =>
    obtain ⟨t, ht⟩ := h.otx_some hk
    by_cases hc : ((z.w.store.nodesByLabel l).filter (fun id => (z.w.store.getNodeTo id (z.w.ctx k).1 (z.w.ctx k).2).isSome)).isEmpty = true
    · have : z.step (.qmerge k l) =
          { z with w := { z.w with store := (z.w.store.createNode [l] pendingEpoch (txIdOf slot)).1 },
                   txs := aset z.txs k (some { t with writes := t.writes ++ [.node z.w.store.nextNode [l]] }) } := by
        simp only [St.step, qMerge_tx l hk, hc, if_true, ht]
      rw [this]
      refine (invC_addNodeTx h k slot t hk ht [l]).congr ?_
      intro k'; exact otxOf_txs z _ _ k _ _ _ _ _ k'
    · have : z.step (.qmerge k l) = z := by
        simp only [St.step, qMerge_tx l hk, hc, if_false, Bool.false_eq_true]
      rw [this]; exact h
  | none =>
    have ht := h.otx_none hk
    obtain ⟨h1, hb⟩ := invC_bump h
    by_cases hc : ((z.w.store.nodesByLabel l).filter (fun id => (z.w.store.getNodeTo id (z.w.ctx k).1 (z.w.ctx k).2).isSome)).isEmpty = true
    · have : z.step (.qmerge k l) =
          { z with w := { z.w.freshEpoch.1 with store := (z.w.freshEpoch.1.store.createNode [l] z.w.freshEpoch.1.mgr.epoch systemTx).1 },
                   committed := z.committed.apply (.node z.w.freshEpoch.1.store.nextNode [l]) } := by
        simp only [St.step, qMerge_auto l hk, hc, if_true, ht]
      rw [this]
      exact invC_addNodeAuto h1 hb [l]
    · have : z.step (.qmerge k l) = { z with w := z.w.freshEpoch.1 } := by
        simp only [St.step, qMerge_auto l hk, hc, if_false, Bool.false_eq_true]
      rw [this]
      exact h1

/-- **the invariant is preserved by every step** -/
theorem inv_step {z : St} (h : Inv z) (op : Op) : Inv (z.step op) := by
  cases op with
  | begin k iso => exact inv_begin h k iso
  | commit k => exact inv_commit h k
  | rollback k => exact inv_rollback h k
  | cn k ls => exact inv_cn h k ls
  | ce k a b ty => exact inv_ce h k a b ty
  | qce k a ty l => exact inv_qce h k a ty l
  | dbcn ls => exact inv_dbcn h ls
  | qmerge k l => exact inv_qmerge h k l

theorem inv_foldl {z : St} (h : Inv z) (ops : List Op) : Inv (ops.foldl St.step z) := by
  induction ops generalizing z with
  | nil => exact h
  | cons op rest ih => exact ih (inv_step h op)

theorem inv_run (ops : List Op) : Inv (run ops) := inv_foldl inv_init ops

/-! ### the epoch grows by at most one per step -/

theorem step_w (z : St) (op : Op) : (z.step op).w = mstep z.w op := by
  cases op with
  | begin k iso => simp only [St.step, mstep]
  | commit k => simp only [St.step, mstep]
  | rollback k => simp only [St.step, mstep]
  | cn k ls => simp only [St.step, mstep]; split <;> rfl
  | ce k a b ty => simp only [St.step, mstep]; split <;> rfl
  | qce k a ty l =>
    simp only [St.step, mstep]
    split
    · split <;> rfl
    · rfl
  | dbcn ls => simp only [St.step, mstep]
  | qmerge k l =>
    simp only [St.step, mstep]
    split
    · split <;> rfl
    · rfl

theorem writeCtx_epoch (w : World) (k : Nat) : (w.writeCtx k).1.mgr.epoch ≤ w.mgr.epoch + 1 := by
  unfold World.writeCtx
  split
  · exact Nat.le_succ _
  · exact Nat.le_refl _

theorem mgr_commit_epoch (m : Mgr) (i : Nat) : (m.commit i).1.epoch ≤ m.epoch + 1 := by
  unfold Mgr.commit
  split
  · exact Nat.le_succ _
  · split
    · exact Nat.le_succ _
    · split
      · exact Nat.le_succ _
      · split
        · exact Nat.le_succ _
        · exact Nat.le_refl _

theorem mgr_abort_epoch (m : Mgr) (i : Nat) : (m.abort i).1.epoch = m.epoch := by
  unfold Mgr.abort
  split
  · rfl
  · split <;> rfl

theorem mstep_epoch_le (w : World) (op : Op) : (mstep w op).mgr.epoch ≤ w.mgr.epoch + 1 := by
  cases op with
  | begin k iso =>
    simp only [mstep]; unfold World.begin; split
    · exact Nat.le_succ _
    · exact Nat.le_succ _
  | commit k =>
    simp only [mstep]; unfold World.commit; split
    · exact Nat.le_succ _
    · exact mgr_commit_epoch _ _
  | rollback k =>
    simp only [mstep]; unfold World.rollback; split
    · exact Nat.le_succ _
    · show (w.mgr.abort _).1.epoch ≤ _
      rw [mgr_abort_epoch]; exact Nat.le_succ _
  | cn k ls => exact writeCtx_epoch w k
  | ce k a b ty => exact writeCtx_epoch w k
  | qce k a ty l =>
    simp only [mstep]; split
    · exact writeCtx_epoch w k
    · exact Nat.le_succ _
  | dbcn ls => exact Nat.le_refl _
  | qmerge k l =>
    simp only [mstep]; unfold World.qMerge
    simp only
    split
    · exact writeCtx_epoch w k
    · exact writeCtx_epoch w k

theorem step_epoch_le (z : St) (op : Op) : (z.step op).w.mgr.epoch ≤ z.w.mgr.epoch + 1 := by
  rw [step_w]; exact mstep_epoch_le z.w op

theorem foldl_epoch_le (z : St) (ops : List Op) : (ops.foldl St.step z).w.mgr.epoch ≤ z.w.mgr.epoch + ops.length := by
  induction ops generalizing z with
  | nil => exact Nat.le_refl _
  | cons op rest ih =>
    have h1 := ih (z.step op)
    have h2 := step_epoch_le z op
    simp only [List.foldl_cons, List.length_cons]
    omega

theorem run_epoch_le (ops : List Op) : (run ops).w.mgr.epoch ≤ ops.length := by
  have := foldl_epoch_le {} ops
  simpa [run, TxMgr.init] using this

end Grafeo.SessSpec
