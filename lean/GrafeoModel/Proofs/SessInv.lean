import GrafeoModel.Proofs.SessLemmas

/-!
The invariant that ties the session model (`World`) to the snapshot-isolation oracle on
creation-only histories, and its preservation by every step of `St.step`.
-/

set_option linter.unusedSimpArgs false
set_option linter.unusedVariables false

namespace Grafeo.SessSpec
open Grafeo.Lpg Grafeo.Sess Grafeo.TxMgr

/-! ### session maps -/

theorem agetD_aset {ν : Type} (l : AList (Option ν)) (k k' : Nat) (x : Option ν) :
    (aget (aset l k x) k').getD none = if k' = k then x else (aget l k').getD none := by
  rw [aget_aset]
  by_cases e : k' = k <;> simp [e]

/-- the oracle's open transaction of session `k` -/
def otxOf (z : St) (k : Nat) : Option STx := (aget z.txs k).getD none

theorem view_def (z : St) (k : Nat) :
    z.view k = match otxOf z k with
      | some t => t.writes.foldl SGraph.apply t.snap
      | none => z.committed := rfl

theorem curOf_aset (w : World) (k k' : Nat) (x : Option Nat) (s : Store) (m : Mgr) :
    World.curOf { store := s, mgr := m, cur := aset w.cur k x } k' = if k' = k then x else w.curOf k' :=
  agetD_aset w.cur k k' x

/-! ### the oracle's write lists in creation-only histories -/

def W.isCreate : W → Bool
  | .node _ _ | .edge _ _ => true
  | _ => false

def wsNodes (ws : List W) : AList (List Nat × AList String) :=
  ws.filterMap (fun w => match w with | .node id ls => some (id, (ls.foldl sinsert [], [])) | _ => none)

def wsEdges (ws : List W) : AList EdgeRec :=
  ws.filterMap (fun w => match w with | .edge id r => some (id, r) | _ => none)

theorem foldl_apply_create (ws : List W) (g : SGraph) (hc : ∀ w ∈ ws, w.isCreate = true) :
    (ws.foldl SGraph.apply g).nodes = (wsNodes ws).foldl (fun a kv => aset a kv.1 kv.2) g.nodes ∧
    (ws.foldl SGraph.apply g).edges = (wsEdges ws).foldl (fun a kv => aset a kv.1 kv.2) g.edges := by
  induction ws generalizing g with
  | nil => exact ⟨rfl, rfl⟩
  | cons w rest ih =>
    have hw := hc w (by simp)
    have ih' := fun g' => ih g' (fun x hx => hc x (List.mem_cons_of_mem _ hx))
    cases w with
    | node id ls => exact ih' _
    | edge id r => exact ih' _
    | setProp _ _ _ => simp [W.isCreate] at hw
    | addLabel _ _ => simp [W.isCreate] at hw
    | remLabel _ _ => simp [W.isCreate] at hw
    | delNode _ => simp [W.isCreate] at hw
    | delEdge _ => simp [W.isCreate] at hw

/-! ### the invariant -/

def otN (otx : Nat → Option STx) (k : Nat) : Option (AList (List Nat × AList String) × AList (List Nat × AList String)) :=
  (otx k).map (fun t => (t.snap.nodes, wsNodes t.writes))

def otE (otx : Nat → Option STx) (k : Nat) : Option (AList EdgeRec × AList EdgeRec) :=
  (otx k).map (fun t => (t.snap.edges, wsEdges t.writes))

/-- the invariant, over the components of the stream state it looks at: the model world, the oracle's
committed graph and the oracle's open transactions -/
structure InvC (w : World) (com : SGraph) (otx : Nat → Option STx) : Prop where
  store : StoreOK w.store
  mgr : MgrOK w.mgr w.curOf
  sess : ∀ k, (otx k).isSome = (w.curOf k).isSome
  creat : ∀ k t, otx k = some t → (∀ x ∈ t.writes, x.isCreate = true) ∧ t.modified = []
  nodes : TabRel w.mgr w.curOf (nodeEnts w.store) com.nodes (otN otx)
  edges : TabRel w.mgr w.curOf (edgeEnts w.store) com.edges (otE otx)

def Inv (z : St) : Prop := InvC z.w z.committed (otxOf z)

theorem InvC.congr {w : World} {com : SGraph} {otx otx' : Nat → Option STx} (h : InvC w com otx)
    (he : ∀ k, otx' k = otx k) : InvC w com otx' := by
  have : otx' = otx := funext he
  rw [this]; exact h

theorem inv_init : Inv {} := by
  refine ⟨storeOK_init, ⟨?_, ?_⟩, ?_, ?_, ?_, ?_⟩
  · intro k slot h; simp [World.curOf, aget] at h
  · intro k k' slot h; simp [World.curOf, aget] at h
  · intro k; rfl
  · intro k t h; simp [otxOf, aget] at h
  · exact tabRel_init
  · exact tabRel_init


/-! ### micro-steps -/

/-- every open transaction began strictly below the current epoch (true right after `freshEpoch`) -/
def StartsBelow (w : World) : Prop :=
  ∀ k slot t, w.curOf k = some slot → w.mgr.get slot = some t → t.start < w.mgr.epoch

theorem invC_bump {w : World} {com : SGraph} {otx : Nat → Option STx} (h : InvC w com otx) :
    InvC w.freshEpoch.1 com otx ∧ StartsBelow w.freshEpoch.1 := by
  have hm : MgrOK w.freshEpoch.1.mgr w.freshEpoch.1.curOf := by
    refine ⟨?_, h.mgr.inj⟩
    intro k slot hk
    obtain ⟨t, a, b, c, d, e⟩ := h.mgr.active k slot hk
    exact ⟨t, a, b, c, d, Nat.le_succ_of_le e⟩
  refine ⟨⟨storeOK_syncEpoch _ _ h.store, hm, h.sess, h.creat, ?_, ?_⟩, ?_⟩
  · exact tabRel_bump h.nodes (w.mgr.epoch + 1) (Nat.le_succ _)
  · exact tabRel_bump h.edges (w.mgr.epoch + 1) (Nat.le_succ _)
  · intro k slot t hk hg
    obtain ⟨t2, a, _, _, _, e⟩ := h.mgr.active k slot hk
    have : w.mgr.get slot = some t := hg
    rw [this] at a; injection a with a; subst a
    exact Nat.lt_succ_of_le e

theorem nextNode_fresh {s : Store} (h : StoreOK s) : s.nextNode ∉ keys (nodeEnts s) := by
  rw [keys_nodeEnts]
  intro hk
  obtain ⟨v, hv⟩ := mem_keys.mp hk
  exact Nat.lt_irrefl _ (h.nodesLt _ hv)

theorem nextEdge_fresh {s : Store} (h : StoreOK s) : s.nextEdge ∉ keys (edgeEnts s) := by
  rw [keys_edgeEnts]
  intro hk
  obtain ⟨v, hv⟩ := mem_keys.mp hk
  exact Nat.lt_irrefl _ (h.edgesLt _ hv)

theorem invC_addNodeAuto {w : World} {com : SGraph} {otx : Nat → Option STx} (h : InvC w com otx)
    (hb : StartsBelow w) (ls : List Nat) :
    InvC { w with store := (w.store.createNode ls w.mgr.epoch systemTx).1 }
      (com.apply (.node w.store.nextNode ls)) otx := by
  have hf := nextNode_fresh h.store
  refine ⟨storeOK_createNode _ _ _ _ h.store, h.mgr, h.sess, h.creat, ?_, h.edges⟩
  show TabRel w.mgr w.curOf (nodeEnts (w.store.createNode ls w.mgr.epoch systemTx).1)
    (aset com.nodes w.store.nextNode (ls.foldl sinsert [], [])) (otN otx)
  rw [nodeEnts_createNode _ _ _ _ h.store, aset_fresh _ _ _ (h.nodes.fresh_com hf)]
  exact tabRel_addCommitted h.nodes _ _ hf hb

theorem invC_addEdgeAuto {w : World} {com : SGraph} {otx : Nat → Option STx} (h : InvC w com otx)
    (hb : StartsBelow w) (a b ty : Nat) :
    InvC { w with store := (w.store.createEdge a b ty w.mgr.epoch systemTx).1 }
      (com.apply (.edge w.store.nextEdge ⟨a, b, ty⟩)) otx := by
  have hf := nextEdge_fresh h.store
  refine ⟨storeOK_createEdge _ _ _ _ _ _ h.store, h.mgr, h.sess, h.creat, h.nodes, ?_⟩
  show TabRel w.mgr w.curOf (edgeEnts (w.store.createEdge a b ty w.mgr.epoch systemTx).1)
    (aset com.edges w.store.nextEdge ⟨a, b, ty⟩) (otE otx)
  rw [edgeEnts_createEdge _ _ _ _ _ _ h.store, aset_fresh _ _ _ (h.edges.fresh_com hf)]
  exact tabRel_addCommitted h.edges _ _ hf hb

theorem wsNodes_append (a b : List W) : wsNodes (a ++ b) = wsNodes a ++ wsNodes b := by
  simp [wsNodes, List.filterMap_append]

theorem wsEdges_append (a b : List W) : wsEdges (a ++ b) = wsEdges a ++ wsEdges b := by
  simp [wsEdges, List.filterMap_append]

theorem invC_addNodeTx {w : World} {com : SGraph} {otx : Nat → Option STx} (h : InvC w com otx)
    (k slot : Nat) (t : STx) (hk : w.curOf k = some slot) (hot : otx k = some t) (ls : List Nat) :
    InvC { w with store := (w.store.createNode ls pendingEpoch (txIdOf slot)).1 } com
      (fun k' => if k' = k then some { t with writes := t.writes ++ [.node w.store.nextNode ls] } else otx k') := by
  have hf := nextNode_fresh h.store
  refine ⟨storeOK_createNode _ _ _ _ h.store, h.mgr, ?_, ?_, ?_, ?_⟩
  · intro k'
    by_cases e : k' = k
    · subst e; simp only [if_true, Option.isSome_some]
      show true = (w.curOf k').isSome
      rw [hk]; rfl
    · simp only [e, if_false]; exact h.sess k'
  · intro k' t' ht'
    by_cases e : k' = k
    · subst e
      simp only [if_true, Option.some.injEq] at ht'
      subst ht'
      obtain ⟨a, b⟩ := h.creat k' t hot
      refine ⟨?_, b⟩
      intro x hx
      rcases List.mem_append.mp hx with y | y
      · exact a x y
      · simp only [List.mem_singleton] at y; subst y; rfl
    · simp only [e, if_false] at ht'; exact h.creat k' t' ht'
  · show TabRel w.mgr w.curOf (nodeEnts (w.store.createNode ls pendingEpoch (txIdOf slot)).1) com.nodes _
    rw [nodeEnts_createNode _ _ _ _ h.store]
    refine tabRel_addPending h.nodes h.mgr _ _ hf k slot t.snap.nodes (wsNodes t.writes) hk ?_ ?_
    · simp [otN, hot]
    · intro k'
      by_cases e : k' = k
      · subst e; simp [otN, wsNodes_append, wsNodes]
      · simp [otN, e]
  · refine h.edges.congr_ot ?_
    intro k'
    by_cases e : k' = k
    · subst e; simp [otE, hot, wsEdges_append, wsEdges]
    · simp [otE, e]

theorem invC_addEdgeTx {w : World} {com : SGraph} {otx : Nat → Option STx} (h : InvC w com otx)
    (k slot : Nat) (t : STx) (hk : w.curOf k = some slot) (hot : otx k = some t) (a b ty : Nat) :
    InvC { w with store := (w.store.createEdge a b ty pendingEpoch (txIdOf slot)).1 } com
      (fun k' => if k' = k then some { t with writes := t.writes ++ [.edge w.store.nextEdge ⟨a, b, ty⟩] } else otx k') := by
  have hf := nextEdge_fresh h.store
  refine ⟨storeOK_createEdge _ _ _ _ _ _ h.store, h.mgr, ?_, ?_, ?_, ?_⟩
  · intro k'
    by_cases e : k' = k
    · subst e; simp only [if_true, Option.isSome_some]
      show true = (w.curOf k').isSome
      rw [hk]; rfl
    · simp only [e, if_false]; exact h.sess k'
  · intro k' t' ht'
    by_cases e : k' = k
    · subst e
      simp only [if_true, Option.some.injEq] at ht'
      subst ht'
      obtain ⟨x1, x2⟩ := h.creat k' t hot
      refine ⟨?_, x2⟩
      intro x hx
      rcases List.mem_append.mp hx with y | y
      · exact x1 x y
      · simp only [List.mem_singleton] at y; subst y; rfl
    · simp only [e, if_false] at ht'; exact h.creat k' t' ht'
  · refine h.nodes.congr_ot ?_
    intro k'
    by_cases e : k' = k
    · subst e; simp [otN, hot, wsNodes_append, wsNodes]
    · simp [otN, e]
  · show TabRel w.mgr w.curOf (edgeEnts (w.store.createEdge a b ty pendingEpoch (txIdOf slot)).1) com.edges _
    rw [edgeEnts_createEdge _ _ _ _ _ _ h.store]
    refine tabRel_addPending h.edges h.mgr _ _ hf k slot t.snap.edges (wsEdges t.writes) hk ?_ ?_
    · simp [otE, hot]
    · intro k'
      by_cases e : k' = k
      · subst e; simp [otE, wsEdges_append, wsEdges]
      · simp [otE, e]


/-! ### begin / commit / rollback -/

theorem invC_begin {w : World} {com : SGraph} {otx : Nat → Option STx} (h : InvC w com otx)
    (k : Nat) (iso : Iso) (sq : Nat) (hk : w.curOf k = none) :
    InvC { w with mgr := (w.mgr.begin iso).1, cur := aset w.cur k (some w.mgr.slots.length) } com
      (fun k' => if k' = k then some { snap := com, beginSeq := sq } else otx k') := by
  have hcur : ∀ k', World.curOf { w with mgr := (w.mgr.begin iso).1, cur := aset w.cur k (some w.mgr.slots.length) } k' =
      if k' = k then some w.mgr.slots.length else w.curOf k' := fun k' => curOf_aset w k k' _ _ _
  have hget : ∀ j, (w.mgr.begin iso).1.get j =
      if j = w.mgr.slots.length then some ⟨.active, iso, w.mgr.epoch, [], [], none⟩ else w.mgr.get j := by
    intro j; exact get_append w.mgr.epoch w.mgr.slots _ j
  refine ⟨h.store, ⟨?_, ?_⟩, ?_, ?_, ?_, ?_⟩
  · intro k' slot hk'
    rw [hcur] at hk'
    by_cases e : k' = k
    · simp only [e, if_true, Option.some.injEq] at hk'
      subst hk'
      exact ⟨_, by rw [hget]; simp, rfl, rfl, rfl, Nat.le_refl _⟩
    · simp only [e, if_false] at hk'
      obtain ⟨t, a, b⟩ := h.mgr.active k' slot hk'
      have : slot ≠ w.mgr.slots.length := by have := get_lt a; omega
      exact ⟨t, by rw [hget]; simp [this, a], b⟩
  · intro k1 k2 slot h1 h2
    rw [hcur] at h1 h2
    by_cases e1 : k1 = k <;> by_cases e2 : k2 = k
    · rw [e1, e2]
    · simp only [e1, if_true, Option.some.injEq, e2, if_false] at h1 h2
      subst h1
      have := h.mgr.lt h2; omega
    · simp only [e1, if_false, e2, if_true, Option.some.injEq] at h1 h2
      subst h2
      have := h.mgr.lt h1; omega
    · simp only [e1, e2, if_false] at h1 h2
      exact h.mgr.inj k1 k2 slot h1 h2
  · intro k'
    rw [hcur]
    by_cases e : k' = k
    · simp [e]
    · simp only [e, if_false]; exact h.sess k'
  · intro k' t' ht'
    by_cases e : k' = k
    · simp only [e, if_true, Option.some.injEq] at ht'
      subst ht'
      exact ⟨by intro x hx; cases hx, rfl⟩
    · simp only [e, if_false] at ht'; exact h.creat k' t' ht'
  · refine tabRel_begin h.nodes h.mgr k iso hk hcur ?_
    intro k'
    by_cases e : k' = k
    · simp [otN, e, wsNodes]
    · simp [otN, e]
  · refine tabRel_begin h.edges h.mgr k iso hk hcur ?_
    intro k'
    by_cases e : k' = k
    · simp [otE, e, wsEdges]
    · simp [otE, e]

theorem mgrOK_close {m : Mgr} {cur cur' : Nat → Option Nat} (h : MgrOK m cur) {k slot : Nat} (hk : cur k = some slot)
    (hcur' : ∀ k', cur' k' = if k' = k then none else cur k') (e' : Nat) (he : m.epoch ≤ e') (t' : Tx) :
    MgrOK ⟨e', m.slots.set slot (some t')⟩ cur' := by
  refine ⟨?_, ?_⟩
  · intro k' slot' hk'
    rw [hcur'] at hk'
    by_cases e : k' = k
    · simp [e] at hk'
    · simp only [e, if_false] at hk'
      obtain ⟨t, a, b, c, d, f⟩ := h.active k' slot' hk'
      have hne : slot ≠ slot' := by
        intro e2; subst e2; exact e (h.inj k' k slot hk' hk)
      refine ⟨t, ?_, b, c, d, Nat.le_trans f he⟩
      rw [get_set]
      simp only [hne, false_and, if_false]
      exact a
  · intro k1 k2 s h1 h2
    rw [hcur'] at h1 h2
    by_cases e1 : k1 = k
    · simp [e1] at h1
    · by_cases e2 : k2 = k
      · simp [e2] at h2
      · simp only [e1, e2, if_false] at h1 h2
        exact h.inj k1 k2 s h1 h2

theorem sess_close {w : World} {com : SGraph} {otx : Nat → Option STx} (h : InvC w com otx) (k : Nat)
    {cur' : Nat → Option Nat} (hcur' : ∀ k', cur' k' = if k' = k then none else w.curOf k') :
    ∀ k', ((fun k' => if k' = k then none else otx k') k').isSome = (cur' k').isSome := by
  intro k'
  rw [hcur']
  by_cases e : k' = k
  · simp [e]
  · simp only [e, if_false]; exact h.sess k'

theorem invC_commit {w : World} {com : SGraph} {otx : Nat → Option STx} (h : InvC w com otx)
    (k slot : Nat) (t t' : Tx) (ot : STx) (hk : w.curOf k = some slot) (hg : w.mgr.get slot = some t) (hot : otx k = some ot) :
    InvC { w with store := w.store.finalize (txIdOf slot) (w.mgr.epoch + 1),
                  mgr := ⟨w.mgr.epoch + 1, w.mgr.slots.set slot (some t')⟩, cur := aset w.cur k none }
      (ot.writes.foldl SGraph.apply com) (fun k' => if k' = k then none else otx k') := by
  have hcur : ∀ k', World.curOf { w with store := w.store.finalize (txIdOf slot) (w.mgr.epoch + 1),
        mgr := ⟨w.mgr.epoch + 1, w.mgr.slots.set slot (some t')⟩, cur := aset w.cur k none } k' =
      if k' = k then none else w.curOf k' := fun k' => curOf_aset w k k' _ _ _
  obtain ⟨hcN, hcE⟩ := foldl_apply_create ot.writes com (h.creat k ot hot).1
  have hotN : otN otx k = some (ot.snap.nodes, wsNodes ot.writes) := by simp [otN, hot]
  have hotE : otE otx k = some (ot.snap.edges, wsEdges ot.writes) := by simp [otE, hot]
  obtain ⟨_, hwN, _, _⟩ := h.nodes.open_ k slot t _ _ hk hg hotN
  obtain ⟨_, hwE, _, _⟩ := h.edges.open_ k slot t _ _ hk hg hotE
  rw [asetAll_fresh _ _ hwN (h.nodes.com_wr_disjoint hk hg hotN)] at hcN
  rw [asetAll_fresh _ _ hwE (h.edges.com_wr_disjoint hk hg hotE)] at hcE
  refine ⟨storeOK_finalize _ _ _ h.store, mgrOK_close h.mgr hk hcur _ (Nat.le_succ _) t', sess_close h k hcur, ?_, ?_, ?_⟩
  · intro k' t'' ht'
    by_cases e : k' = k
    · simp [e] at ht'
    · simp only [e, if_false] at ht'; exact h.creat k' t'' ht'
  · show TabRel _ _ (nodeEnts (w.store.finalize (txIdOf slot) (w.mgr.epoch + 1))) (ot.writes.foldl SGraph.apply com).nodes _
    rw [nodeEnts_finalize _ _ _ h.store, hcN]
    refine tabRel_commit h.nodes h.mgr k slot t t' _ _ hk hg hotN hcur ?_
    intro k'
    by_cases e : k' = k
    · simp [otN, e]
    · simp [otN, e]
  · show TabRel _ _ (edgeEnts (w.store.finalize (txIdOf slot) (w.mgr.epoch + 1))) (ot.writes.foldl SGraph.apply com).edges _
    rw [edgeEnts_finalize _ _ _ h.store, hcE]
    refine tabRel_commit h.edges h.mgr k slot t t' _ _ hk hg hotE hcur ?_
    intro k'
    by_cases e : k' = k
    · simp [otE, e]
    · simp [otE, e]

theorem invC_rollback {w : World} {com : SGraph} {otx : Nat → Option STx} (h : InvC w com otx)
    (k slot : Nat) (t' : Tx) (hk : w.curOf k = some slot) :
    InvC { w with store := w.store.discard (txIdOf slot),
                  mgr := { w.mgr with slots := w.mgr.slots.set slot (some t') }, cur := aset w.cur k none }
      com (fun k' => if k' = k then none else otx k') := by
  have hcur : ∀ k', World.curOf { w with store := w.store.discard (txIdOf slot),
        mgr := { w.mgr with slots := w.mgr.slots.set slot (some t') }, cur := aset w.cur k none } k' =
      if k' = k then none else w.curOf k' := fun k' => curOf_aset w k k' _ _ _
  refine ⟨storeOK_discard _ _ h.store, mgrOK_close h.mgr hk hcur _ (Nat.le_refl _) t', sess_close h k hcur, ?_, ?_, ?_⟩
  · intro k' t'' ht'
    by_cases e : k' = k
    · simp [e] at ht'
    · simp only [e, if_false] at ht'; exact h.creat k' t'' ht'
  · show TabRel _ _ (nodeEnts (w.store.discard (txIdOf slot))) com.nodes _
    rw [nodeEnts_discard _ _ h.store]
    refine tabRel_rollback h.nodes h.mgr k slot t' hk hcur ?_
    intro k'
    by_cases e : k' = k
    · simp [otN, e]
    · simp [otN, e]
  · show TabRel _ _ (edgeEnts (w.store.discard (txIdOf slot))) com.edges _
    rw [edgeEnts_discard _ _ h.store]
    refine tabRel_rollback h.edges h.mgr k slot t' hk hcur ?_
    intro k'
    by_cases e : k' = k
    · simp [otE, e]
    · simp [otE, e]

end Grafeo.SessSpec
