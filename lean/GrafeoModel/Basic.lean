def hello := "world"
