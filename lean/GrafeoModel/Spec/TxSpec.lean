import GrafeoModel.Model.TxMgr
/-
Specification of commit validation (C03, C04): a complete history of transactions, nothing is
ever forgotten (`gc` is a no-op), and the rule is the property's own wording:

* refused with a write conflict  ⇔ some *other* transaction committed after we began and
  wrote an entity we wrote;
* (Serializable only) refused with a serialization failure ⇔ not the above, we wrote
  something (read-only transactions are never refused), and some other transaction
  committed after we began and wrote an entity we read;
* otherwise accepted, with the next epoch.
-/
namespace Grafeo.TxSpec
open Grafeo.TxMgr

inductive Status where
  | active | committed (e : Nat) | aborted
  deriving DecidableEq, Repr

structure STx where
  iso : Iso
  start : Nat
  wset : List Nat
  rset : List Nat
  status : Status
  deriving DecidableEq, Repr

structure Spec where
  epoch : Nat
  txs : List STx
  deriving DecidableEq, Repr

def init : Spec := ⟨0, []⟩

def overlapsWriter (s : Spec) (i : Nat) (start : Nat) (ents : List Nat) : Bool :=
  (List.range s.txs.length).any (fun j => j != i && match s.txs[j]? with
    | some u => (match u.status with | .committed e => e > start | _ => false) && intersects ents u.wset
    | none => false)

def step (s : Spec) : Op → Spec × Out
  | .begin iso => ({ s with txs := s.txs ++ [⟨iso, s.epoch, [], [], .active⟩] }, .id s.txs.length)
  | .write i e =>
    match s.txs[i]? with
    | some t => if t.status = .active then ({ s with txs := s.txs.set i { t with wset := e :: t.wset } }, .flag true) else (s, .flag false)
    | none => (s, .flag false)
  | .read i e =>
    match s.txs[i]? with
    | some t => if t.status = .active then ({ s with txs := s.txs.set i { t with rset := e :: t.rset } }, .flag true) else (s, .flag false)
    | none => (s, .flag false)
  | .abort i =>
    match s.txs[i]? with
    | some t => if t.status = .active then ({ s with txs := s.txs.set i { t with status := .aborted } }, .flag true) else (s, .flag false)
    | none => (s, .flag false)
  | .gc => (s, .count 0)
  | .commit i =>
    match s.txs[i]? with
    | none => (s, .commit .invalid)
    | some t =>
      if t.status ≠ .active then (s, .commit .invalid)
      else if overlapsWriter s i t.start t.wset then (s, .commit .writeConflict)
      else if t.iso == .serializable && !t.wset.isEmpty && overlapsWriter s i t.start t.rset then (s, .commit .serFail)
      else ({ epoch := s.epoch + 1, txs := s.txs.set i { t with status := .committed (s.epoch + 1) } }, .commit (.ok (s.epoch + 1)))

/-- re-base the specification state on the outcome the implementation actually produced, so
that one deviation does not cascade into every later line of the same history. -/
def adopt (s : Spec) (i : Nat) : CommitRes → Spec
  | .ok e =>
    match s.txs[i]? with
    | some t => { epoch := e, txs := s.txs.set i { t with status := .committed e } }
    | none => s
  | _ => s

end Grafeo.TxSpec
