/-
Line-protocol helpers shared by all stream handlers (import-free).

A handler maps the argument tokens of one op line to `Out`:
  `model` – what the executable model of the code outputs,
  `spec`  – what the property's specification demands ("-" = unconstrained),
  `sig`   – when model ≠ spec, the signature of the deviation (matched against
            known_findings.json); "-" otherwise.
-/
namespace Grafeo.Proto

structure Out where
  model : String
  spec : String := "-"
  sig : String := "-"

def Out.render (o : Out) : String := o.model ++ "\t" ++ o.spec ++ "\t" ++ o.sig

def joinWith (sep : String) (xs : List String) : String := sep.intercalate xs

def natList (xs : List Nat) : String := joinWith "," (xs.map toString)
def intList (xs : List Int) : String := joinWith "," (xs.map toString)

/-- parse a comma separated list of naturals; "" and "-" are the empty list. -/
def parseNatList (s : String) : Option (List Nat) :=
  if s == "" || s == "-" then some []
  else (s.splitOn ",").mapM (fun t => t.toNat?)

def parseIntList (s : String) : Option (List Int) :=
  if s == "" || s == "-" then some []
  else (s.splitOn ",").mapM (fun t => t.toInt?)

def hexDigit (n : Nat) : Char :=
  if n < 10 then Char.ofNat (48 + n) else Char.ofNat (87 + n)

def hexByte (b : Nat) : String := String.ofList [hexDigit (b / 16 % 16), hexDigit (b % 16)]
def hexBytes (bs : List Nat) : String := String.join (bs.map hexByte)

def hexVal (c : Char) : Option Nat :=
  if '0' ≤ c ∧ c ≤ '9' then some (c.toNat - 48)
  else if 'a' ≤ c ∧ c ≤ 'f' then some (c.toNat - 87)
  else if 'A' ≤ c ∧ c ≤ 'F' then some (c.toNat - 55)
  else none

def parseHexAux : List Char → Option (List Nat)
  | [] => some []
  | [_] => none
  | a :: b :: rest => do
    let x ← hexVal a
    let y ← hexVal b
    let r ← parseHexAux rest
    pure ((16 * x + y) :: r)

def parseHex (s : String) : Option (List Nat) :=
  if s == "-" then some [] else parseHexAux s.toList

end Grafeo.Proto
