import GrafeoModel.Driver.Proto
/-! stream `sptx` (stub; replaced by its builder) -/
open Grafeo Grafeo.Proto
namespace DriverSparqlTx
def handle (_args : List String) : Option Out := none
end DriverSparqlTx
