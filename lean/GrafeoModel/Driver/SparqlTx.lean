import GrafeoModel.Model.SparqlTx
import GrafeoModel.Driver.Proto
/-! stream `sptx`: `sptx run <script>`; the script is a `;`-separated list of
`b<s>` `c<s>` `r<s>` `i<s>:<k>` `d<s>:<k>` `q<s>` `a<s>:<k>` (sessions 0..2, pool triples 0..5).
Output: the result of every b/c/r/q/a step joined with `|` (`ok`, `err`, sorted code list,
`e` = no rows); `none` when the script prints nothing. -/
open Grafeo Grafeo.Proto Grafeo.Rdf Grafeo.SparqlTx
namespace DriverSparqlTx

def parseSess (s : String) : Option Nat :=
  match s.toNat? with
  | some n => if n < 3 then some n else none
  | none => none

def parseST (s : String) : Option (Nat × Triple) :=
  match s.splitOn ":" with
  | [a, b] =>
    match parseSess a, b.toNat? with
    | some n, some k => if k < 6 then some (n, tripleOf k) else none
    | _, _ => none
  | _ => none

def parseStep (tok : String) : Option Step :=
  match tok.toList with
  | [] => none
  | c :: rest =>
    let r := String.ofList rest
    if c == 'b' then (parseSess r).map Step.begin
    else if c == 'c' then (parseSess r).map Step.commit
    else if c == 'r' then (parseSess r).map Step.rollback
    else if c == 'q' then (parseSess r).map Step.query
    else if c == 'i' then (parseST r).map (fun p => Step.ins p.1 p.2)
    else if c == 'd' then (parseST r).map (fun p => Step.del p.1 p.2)
    else if c == 'a' then (parseST r).map (fun p => Step.ask p.1 p.2)
    else none

def showRes : Res → String
  | .ok => "ok"
  | .err => "err"
  | .rows [] => "e"
  | .rows ts => natList (sortNat (ts.map codeOf))

def showAll (rs : List Res) : String :=
  if rs.isEmpty then "none" else joinWith "|" (rs.map showRes)

def handle (args : List String) : Option Out :=
  match args with
  | ["run", script] =>
    match (script.splitOn ";").mapM parseStep with
    | none => none
    | some steps =>
      let m := showAll (run steps).2
      let s := showAll (specRun steps).2
      let comm := showAll (commOnlyFrom Spec.init steps)
      let snap := showAll (snapOnlyFrom Spec.init steps)
      let sigs := (if m != s then ["rdf-own-writes-invisible"] else []) ++
                  (if comm != snap then ["rdf-read-not-snapshot"] else [])
      some { model := m, spec := s, sig := if sigs.isEmpty then "-" else joinWith "+" sigs }
  | _ => none

end DriverSparqlTx
