import GrafeoModel.Model.Graph
import GrafeoModel.Driver.Proto

/-!
Stream `algo` (C19). Stateless lines that carry the whole graph:

  algo <op> <n> <edges> [<source>]      edges = `u>v:w,u>v:w,…` or `-`; nodes are `0 .. n-1`

The driver computes each result with a simple **unverified reference search** (fuel-bounded
relaxation / frontier growth), prints it in the canonical text form the harness uses for the real
implementation's result (`model`), and runs the **verified checker** of `Model/Graph.lean` on the
reference result together with the certificate the search produced: `spec = model` only when the
checker accepts (so the printed specification value is backed by a theorem of `Props/C19.lean`),
otherwise `spec = checker-rejects`.

  dijkstra, bellman_ford   `v=d,…` sorted by node (`negcycle` for a reachable negative cycle)   checkSssp / checkNegCycle
  sssp.agree               `agree` (Dijkstra and Bellman-Ford distance maps are equal)           checkSssp (uniqueness)
  dijkstra.paths           `ok` (every reconstructed path is a walk of cost = distance)          checkSssp
  bfs, dfs                 visited set, sorted                                                   checkReachOrder
  bfs.layers               hop-distance layers `0|1,2|3`                                         checkSssp on unit weights
  wcc, scc                 partition `0,1|2|3,4` (classes sorted, ordered by least element)      checkWcc / checkScc
  topo                     `valid` / `none` (the harness checks the returned order)              checkTopo / checkCycle
  kruskal                  `<#edges>:<weight>`; model = a minimum spanning forest over all edges (before the repair: the FIRST edge per unordered node pair, then a minimum
                           forest; spec = minimum spanning forest of the multigraph              checkSpanning (+ cycle property)
  prim                     `<#edges>:<weight>` on the symmetrised store; model = tree of the start's component
  prim.cover               `<#edges>` on the directed store; model = out-reachable set − 1, spec = component − 1
-/
namespace Grafeo.DriverAlgo
open Grafeo.Proto Grafeo.Graph

/-! ### parsing / printing -/

def parseEdge (t : String) : Option Edge :=
  match t.splitOn ">" with
  | [a, rest] =>
    match rest.splitOn ":" with
    | [b, w] => do
      let a ← a.toNat?
      let b ← b.toNat?
      let w ← w.toInt?
      pure (a, b, w)
    | _ => none
  | _ => none

def parseEdges (s : String) : Option (List Edge) :=
  if s == "-" || s == "" then some [] else (s.splitOn ",").mapM parseEdge

def insertNat (x : Nat) : List Nat → List Nat
  | [] => [x]
  | y :: ys => if y < x then y :: insertNat x ys else x :: y :: ys

def sortNat (l : List Nat) : List Nat := l.foldr insertNat []

def insertKey (q : Nat × Int) : List (Nat × Int) → List (Nat × Int)
  | [] => [q]
  | y :: ys => if y.1 < q.1 then y :: insertKey q ys else q :: y :: ys

def showSet (l : List Nat) : String := if l.isEmpty then "-" else natList (sortNat l)

def showDist (r : List (Nat × Int)) : String :=
  if r.isEmpty then "-"
  else joinWith "," ((r.foldr insertKey []).map fun q => s!"{q.1}={q.2}")

def showClasses (cs : List (List Nat)) : String :=
  if cs.isEmpty then "-" else joinWith "|" (cs.map fun c => natList (sortNat c))

def iter {α : Type} (f : α → α) : Nat → α → α
  | 0, a => a
  | k + 1, a => iter f k (f a)

/-! ### unverified reference searches (their results go through the verified checkers) -/

/-- frontier growth: the nodes reachable from `s`, each appended when an in-neighbour is listed -/
def reachOrder (es : List Edge) (s : Nat) : List Nat :=
  iter (fun o => es.foldl (fun o e =>
    if o.contains e.1 && !o.contains e.2.1 then o ++ [e.2.1] else o) o) (es.length + 1) [s]

structure BF where
  d : Array (Option Int)
  p : Array (Option Edge)
  changed : Option Nat := none

def relaxRound (es : List Edge) (st : BF) : BF :=
  es.foldl (fun st e =>
    match st.d.getD e.1 none with
    | none => st
    | some du =>
      let nd := du + e.2.2
      let better := match st.d.getD e.2.1 none with
        | none => true
        | some dv => decide (nd < dv)
      if better && e.2.1 < st.d.size then
        { d := st.d.setIfInBounds e.2.1 (some nd), p := st.p.setIfInBounds e.2.1 (some e),
          changed := some e.2.1 }
      else st) { st with changed := none }

/-- walk the predecessor function back from `x` until it returns to `x` (fuel), collecting the
edges in forward order -/
def collectCycle (p : Nat → Option Edge) (x : Nat) : Nat → Nat → List Edge → List Edge
  | 0, _, acc => acc
  | f + 1, cur, acc =>
    match p cur with
    | none => acc
    | some e => if e.1 == x then e :: acc else collectCycle p x f e.1 (e :: acc)

def cycleVia (p : Nat → Option Edge) (n start : Nat) : List Edge :=
  let x := iter (fun v => match p v with
    | some e => e.1
    | none => v) n start
  collectCycle p x (n + 1) x []

/-- order the final distances so that every entry follows a tight predecessor -/
def ssspOrder (es : List Edge) (s : Nat) (d : Array (Option Int)) : List (Nat × Int) :=
  iter (fun o => es.foldl (fun o e =>
    match o.lookup e.1 with
    | none => o
    | some du =>
      if (o.lookup e.2.1).isNone && d.getD e.2.1 none == some (du + e.2.2)
      then o ++ [(e.2.1, du + e.2.2)] else o) o) (es.length + 1) [(s, 0)]

inductive SsspRef where
  | dist (r : List (Nat × Int))
  | neg (order : List Nat) (cyc : List Edge)

/-- Bellman-Ford style relaxation with fuel `n`; a change in round `n + 1` means a reachable
negative cycle, extracted from the predecessor edges -/
def ssspRef (es : List Edge) (n s : Nat) : SsspRef :=
  let init : BF := { d := (Array.replicate n none).setIfInBounds s (some 0), p := Array.replicate n none }
  let st := iter (relaxRound es) n init
  let st' := relaxRound es st
  match st'.changed with
  | none => .dist (ssspOrder es s st.d)
  | some v => .neg (reachOrder es s) (cycleVia (fun x => st'.p.getD x none) n v)

def wccClasses (es : List Edge) (n : Nat) : List (List Nat) :=
  (List.range n).foldl (fun cls v =>
    if cls.any (fun c => c.contains v) then cls else cls ++ [reachOrder (sym es) v]) []

def sccCert (es : List Edge) (n : Nat) : List (List Nat × List Nat) :=
  (List.range n).foldl (fun cert v =>
    if cert.any (fun fb => (sccClass fb).contains v) then cert
    else cert ++ [(reachOrder es v, reachOrder (rev es) v)]) []

/-- naive Kahn: repeatedly place the least unplaced node all of whose in-edges come from placed
nodes -/
def topoRef (es : List Edge) (n : Nat) : List Nat :=
  iter (fun placed =>
    match (List.range n).find? (fun v => !placed.contains v &&
        es.all (fun e => e.2.1 != v || placed.contains e.1)) with
    | some v => placed ++ [v]
    | none => placed) n []

def insertEdge (e : Edge) : List Edge → List Edge
  | [] => [e]
  | y :: ys => if y.2.2 ≤ e.2.2 then y :: insertEdge e ys else e :: y :: ys

/-- stable sort by weight -/
def sortEdges (es : List Edge) : List Edge := es.foldr insertEdge []

/-- greedy forest over edges already sorted by weight, with component labels -/
def forestRef (n : Nat) (sorted : List Edge) : List Edge :=
  (sorted.foldl (fun (acc : Array Nat × List Edge) e =>
    let a := acc.1.getD e.1 0
    let b := acc.1.getD e.2.1 0
    if a == b then acc else (acc.1.map (fun l => if l == b then a else l), acc.2 ++ [e]))
    (Array.range n, [])).2

/-- `kruskal`'s edge collection: nodes ascending, each node's out-edges in creation order, and an
edge is dropped when its unordered node pair was already seen (first one wins, not the lightest) -/
def kruskalCollect (es : List Edge) (n : Nat) : List Edge :=
  ((List.range n).flatMap fun i => es.filter fun e => e.1 == i).foldl (fun acc e =>
    if acc.any (fun f => (f.1 == e.1 && f.2.1 == e.2.1) || (f.1 == e.2.1 && f.2.1 == e.1))
    then acc else acc ++ [e]) []

def conn (t : List Edge) (u v : Nat) : Bool := (reachOrder (sym t) u).contains v

def showForest (t : List Edge) : String := s!"{t.length}:{totalWeight t}"

/-- minimum spanning forest of the multigraph: reference + verified spanning check + executable
cycle property -/
def msfSpec (es : List Edge) (n : Nat) : String :=
  let t := forestRef n (sortEdges es)
  if checkSpanning es n t (wccClasses t n) && checkCycleProperty conn es t then showForest t
  else "checker-rejects"

/-! ### structure.rs: cut vertices, bridges, core numbers — by definition, on the simple
undirected graph (adjacency sets: parallel edges collapse, direction is ignored) -/

/-- undirected simple edges `{u, v}`, `u ≠ v`, each once as `(min, max)` -/
def simpleEdges (es : List Edge) : List (Nat × Nat) :=
  es.foldl (fun acc e =>
    let a := min e.1 e.2.1
    let b := max e.1 e.2.1
    if a == b || acc.contains (a, b) then acc else acc ++ [(a, b)]) []

/-- the same, self-loops kept (`(v, v)`): for core numbers a self-loop makes a node its own
neighbour, as the adjacency sets of `kcore_decomposition` do -/
def simpleEdgesWithLoops (es : List Edge) : List (Nat × Nat) :=
  es.foldl (fun acc e =>
    let a := min e.1 e.2.1
    let b := max e.1 e.2.1
    if acc.contains (a, b) then acc else acc ++ [(a, b)]) []

def toEdges (ps : List (Nat × Nat)) : List Edge := ps.map (fun p => (p.1, p.2, (0 : Int)))

/-- number of connected components among the nodes `vs` using the simple edges `ps` -/
def compCount (vs : List Nat) (ps : List (Nat × Nat)) : Nat :=
  (vs.foldl (fun (acc : List (List Nat)) v =>
    if acc.any (fun c => c.contains v) then acc else acc ++ [reachOrder (sym (toEdges ps)) v]) []).length

/-- `v` is a cut vertex iff deleting it (with its edges) leaves more components -/
def cutVertices (es : List Edge) (n : Nat) : List Nat :=
  let ps := simpleEdges es
  let vs := List.range n
  let base := compCount vs ps
  vs.filter (fun v => compCount (vs.filter (· != v)) (ps.filter (fun p => p.1 != v && p.2 != v)) > base)

/-- an edge is a bridge iff deleting it leaves more components -/
def bridgeEdges (es : List Edge) (n : Nat) : List (Nat × Nat) :=
  let ps := simpleEdges es
  let vs := List.range n
  let base := compCount vs ps
  ps.filter (fun p => compCount vs (ps.filter (· != p)) > base)

/-- the `k`-core: delete nodes of degree below `k` until none is left (fuel `n` rounds) -/
def kCore (ps : List (Nat × Nat)) (n k : Nat) : List Nat :=
  iter (fun (alive : List Nat) =>
    alive.filter (fun v =>
      ((ps.filter (fun p => (p.1 == v && alive.contains p.2) || (p.2 == v && alive.contains p.1))).length) ≥ k))
    n (List.range n)

def coreNumber (ps : List (Nat × Nat)) (n v : Nat) : Nat :=
  ((List.range (n + 1)).filter (fun k => (kCore ps n k).contains v)).foldl max 0

def insertPair (x : Nat × Nat) : List (Nat × Nat) → List (Nat × Nat)
  | [] => [x]
  | y :: ys => if x.1 < y.1 || (x.1 == y.1 && x.2 ≤ y.2) then x :: y :: ys else y :: insertPair x ys

/-! ### handler -/

def mk (m s sig : String) : Proto.Out := { model := m, spec := s, sig := if m == s then "-" else sig }

/-- `spec = model` only if the verified checker accepted the reference result -/
def certified (m : String) (accepted : Bool) : Proto.Out :=
  mk m (if accepted then m else "checker-rejects") "checker-rejects"

def wellFormed (es : List Edge) (n : Nat) : Bool := es.all fun e => e.1 < n && e.2.1 < n

def ssspOut (es : List Edge) (n s : Nat) : Proto.Out :=
  match ssspRef es n s with
  | .dist r => certified (showDist r) (checkSssp es s r)
  | .neg order cyc => certified "negcycle" (checkNegCycle es s order cyc)

def layersOut (es : List Edge) (n s : Nat) : Proto.Out :=
  match ssspRef (unit es) n s with
  | .dist r =>
    let layers := ((List.range n).map fun (k : Nat) =>
      (r.filter fun q => q.2 == Int.ofNat k).map Prod.fst).takeWhile fun l => !l.isEmpty
    certified (showClasses layers) (checkSssp (unit es) s r)
  | .neg _ _ => certified "?" false

def handle (args : List String) : Option Proto.Out :=
  match args with
  | [op, n, edges, src] => do
    let n ← n.toNat?
    let es ← parseEdges edges
    let s ← src.toNat?
    if !wellFormed es n then none
    else if s ≥ n then
      -- a source that is not a node: the implementation returns an empty result; unconstrained
      if ["dijkstra", "bellman_ford", "bfs", "dfs", "bfs.layers"].contains op then pure { model := "-" }
      else if op == "prim" then pure { model := "0:0" }
      else if op == "prim.cover" then pure { model := "0" }
      else if op == "sssp.agree" then pure { model := "agree" }
      else if op == "dijkstra.paths" then pure { model := "ok" }
      else none
    else if op == "dijkstra" || op == "bellman_ford" then pure (ssspOut es n s)
    else if op == "sssp.agree" then
      match ssspRef es n s with
      | .dist r => pure (certified "agree" (checkSssp es s r))
      | .neg _ _ => none
    else if op == "dijkstra.paths" then
      match ssspRef es n s with
      | .dist r => pure (certified "ok" (checkSssp es s r))
      | .neg _ _ => none
    else if op == "bfs" || op == "dfs" then
      let o := reachOrder es s
      pure (certified (showSet o) (checkReachOrder es s o))
    else if op == "bfs.layers" then pure (layersOut es n s)
    else if op == "prim" then
      -- the harness stores every listed edge in both directions for this op; `prim` grows one tree
      -- per component (the start's first): a minimum spanning forest
      let t := forestRef n (sortEdges es)
      pure (mk (showForest t) (msfSpec es n) "prim-not-minimal-forest")
    else if op == "prim.cover" then
      -- directed store: incoming edges count as well, and every component gets its tree
      let cls := wccClasses es n
      let spec := if checkWcc es n cls then toString (n - cls.length) else "checker-rejects"
      pure (mk spec spec "prim-does-not-span")
    else none
  | [op, n, edges] => do
    let n ← n.toNat?
    let es ← parseEdges edges
    if !wellFormed es n then none
    else if op == "wcc" then
      let cls := wccClasses es n
      pure (certified (showClasses cls) (checkWcc es n cls))
    else if op == "scc" then
      let cert := sccCert es n
      pure (certified (showClasses (cert.map sccClass)) (checkScc es n cert))
    else if op == "topo" then
      let order := topoRef es n
      if order.length == n then pure (certified "valid" (checkTopo es n order))
      else
        let pred := fun v => es.find? fun e => e.2.1 == v && !order.contains e.1
        let start := ((List.range n).find? fun v => !order.contains v).getD 0
        pure (certified "none" (checkCycle es (cycleVia pred n start)))
    else if op == "artic" then
      let v := cutVertices es n
      let m := if v.isEmpty then "none" else natList v
      pure { model := m, spec := m }
    else if op == "bridges" then
      let b := (bridgeEdges es n).foldr insertPair []
      let m := if b.isEmpty then "none" else joinWith "," (b.map (fun p => s!"{p.1}-{p.2}"))
      pure { model := m, spec := m }
    else if op == "kcore" then
      let ps := simpleEdgesWithLoops es
      let cs := (List.range n).map (fun v => (v, coreNumber ps n v))
      let mx := (cs.map (·.2)).foldl max 0
      let m := if n == 0 then "none" else s!"{joinWith "," (cs.map (fun c => s!"{c.1}:{c.2}"))}|{mx}"
      pure { model := m, spec := m }
    else if op == "kruskal" then
      -- every edge takes part (parallel and antiparallel ones included)
      let t := forestRef n (sortEdges es)
      pure (mk (showForest t) (msfSpec es n) "kruskal-not-minimal")
    else none
  | _ => none

end Grafeo.DriverAlgo
