import GrafeoModel.Driver.Proto

/-! Stream `algo` (stub: filled in by the owner of this stream). Stateless lines. -/
namespace Grafeo.DriverAlgo
open Grafeo.Proto

def handle (args : List String) : Option Proto.Out :=
  match args with
  | _ => none

end Grafeo.DriverAlgo
