import GrafeoModel.Model.Rdf
import GrafeoModel.Driver.Proto

/-! Stream `rdf`: the triple store (C13; the pending-buffer ops also serve C01/C02). -/
namespace Grafeo.DriverRdf
open Grafeo.Rdf Grafeo.Proto

structure St where
  st : Store := Store.new true
  buf : Buffers := []
  spec : List Triple := []          -- the abstract set

def tripleLt (a b : Triple) : Bool :=
  a.s < b.s || (a.s == b.s && (a.p < b.p || (a.p == b.p && a.o < b.o)))

def insertSorted (t : Triple) : List Triple → List Triple
  | [] => [t]
  | x :: xs => if tripleLt x t then x :: insertSorted t xs else t :: x :: xs

def sortTriples (l : List Triple) : List Triple := l.foldr insertSorted []

def showTriples (l : List Triple) : String :=
  joinWith "," ((sortTriples l).map (fun t => s!"{t.s}.{t.p}.{t.o}"))

def parsePos (s : String) : Option (Option Nat) :=
  if s == "*" then some none else s.toNat?.map some

def parseTriple (s p o : String) : Option Triple := do
  pure ⟨← s.toNat?, ← p.toNat?, ← o.toNat?⟩

def specInsert (set : List Triple) (t : Triple) : List Triple := if t ∈ set then set else t :: set
def specRemove (set : List Triple) (t : Triple) : List Triple := set.filter (· != t)

def specApply (set : List Triple) : List Pending → List Triple
  | [] => set
  | .ins t :: r => specApply (specInsert set t) r
  | .del t :: r => specApply (specRemove set t) r

def boolStr (b : Bool) : String := if b then "true" else "false"

def mk (m s sig : String) : Proto.Out := { model := m, spec := s, sig := if m == s then "-" else sig }

def handle (z : St) (args : List String) : Option (St × Proto.Out) :=
  match args with
  | ["new", b] => some ({ st := Store.new (b == "1") }, { model := "-" })
  | ["insert", s, p, o] => do
    let t ← parseTriple s p o
    let (st', r) := z.st.insert t
    pure ({ z with st := st', spec := specInsert z.spec t }, mk (boolStr r) (boolStr (!(z.spec.contains t))) "rdf-insert-flag")
  | ["remove", s, p, o] => do
    let t ← parseTriple s p o
    let (st', r) := z.st.remove t
    pure ({ z with st := st', spec := specRemove z.spec t }, mk (boolStr r) (boolStr (z.spec.contains t)) "rdf-remove-flag")
  | ["clear"] => some ({ z with st := z.st.clear, spec := [] }, { model := "-" })
  | ["find", s, p, o] => do
    let pat : Pattern := ⟨← parsePos s, ← parsePos p, ← parsePos o⟩
    pure (z, mk (showTriples (z.st.find pat)) (showTriples (z.spec.filter pat.matches)) "rdf-find")
  | ["ws", k] => do
    let k ← k.toNat?
    pure (z, mk (showTriples (z.st.withSubject k)) (showTriples (z.spec.filter (·.s == k))) "rdf-with-subject")
  | ["wp", k] => do
    let k ← k.toNat?
    pure (z, mk (showTriples (z.st.withPredicate k)) (showTriples (z.spec.filter (·.p == k))) "rdf-with-predicate")
  | ["wo", k] => do
    let k ← k.toNat?
    pure (z, mk (showTriples (z.st.withObject k)) (showTriples (z.spec.filter (·.o == k))) "rdf-with-object")
  | ["len"] => some (z, mk (toString z.st.triples.length) (toString z.spec.length) "rdf-len")
  | ["stats"] =>
    let (a, b, c, d) := z.st.stats
    let distinct (f : Triple → Nat) := (z.spec.map f).eraseDups.length
    let sd := if z.st.indexObjects then distinct (·.o) else 0
    some (z, mk s!"{a};{b};{c};{d}" s!"{z.spec.length};{distinct (·.s)};{distinct (·.p)};{sd}" "rdf-stats")
  | ["txins", tx, s, p, o] => do
    let t ← parseTriple s p o
    pure ({ z with buf := bufPush z.buf (← tx.toNat?) (.ins t) }, { model := "-" })
  | ["txdel", tx, s, p, o] => do
    let t ← parseTriple s p o
    pure ({ z with buf := bufPush z.buf (← tx.toNat?) (.del t) }, { model := "-" })
  | ["txcommit", tx] => do
    let tx ← tx.toNat?
    let ops := (bufGet z.buf tx).getD []
    pure ({ z with st := applyPending z.st ops, buf := bufDrop z.buf tx, spec := specApply z.spec ops },
          { model := toString ops.length })
  | ["txrollback", tx] => do
    let tx ← tx.toNat?
    let ops := (bufGet z.buf tx).getD []
    pure ({ z with buf := bufDrop z.buf tx }, { model := toString ops.length })
  | ["findp", tx, s, p, o] => do
    let pat : Pattern := ⟨← parsePos s, ← parsePos p, ← parsePos o⟩
    let txo ← if tx == "-" then some none else tx.toNat?.map some
    let m := showTriples (findWithPending z.st z.buf pat txo)
    let view := match txo with
      | none => z.spec
      | some t => specApply z.spec ((bufGet z.buf t).getD [])
    let sp := showTriples (view.filter pat.matches)
    pure (z, mk m sp "rdf-find-with-pending")
  | _ => none

end Grafeo.DriverRdf
