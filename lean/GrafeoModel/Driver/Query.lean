import GrafeoModel.Model.Query
import GrafeoModel.Model.QueryVar
import GrafeoModel.Driver.Proto

/-! Stream `q`: read queries over a graph given in the op line (C08; C10 reuses the oracle). -/
namespace Grafeo.DriverQuery
open Grafeo.Query Grafeo.Proto

def parseVal (s : String) : Option Val :=
  match s.toList with
  | ['N'] => some .null
  | 'I' :: r => (String.ofList r).toInt?.map .int
  | 'S' :: r => do
    let bs ← parseHex (if r.isEmpty then "-" else String.ofList r)
    pure (.str (String.ofList (bs.map (fun b => Char.ofNat b))))     -- ASCII payloads only
  | _ => none

def showVal : Val → String
  | .null => "N"
  | .int i => s!"I{i}"
  | .str s => "S" ++ hexBytes (s.toList.map (·.toNat))

def optNat (s : String) : Option (Option Nat) := if s == "*" || s == "-" then some none else s.toNat?.map some

/-- `id:l.l:k=v&k=v` -/
def parseNode (s : String) : Option Node := do
  match s.splitOn ":" with
  | [id, ls, ps] =>
    let labels ← if ls == "" then some [] else (ls.splitOn ".").mapM (·.toNat?)
    let props ← if ps == "" then some [] else (ps.splitOn "&").mapM (fun kv =>
      match kv.splitOn "=" with
      | [k, v] => do pure (← k.toNat?, ← parseVal v)
      | _ => none)
    pure ⟨← id.toNat?, labels, props⟩
  | _ => none

/-- `id:src>dst:ty` -/
def parseEdge (s : String) : Option Edge := do
  match s.splitOn ":" with
  | [id, sd, ty] =>
    match sd.splitOn ">" with
    | [a, b] => pure ⟨← id.toNat?, ← a.toNat?, ← b.toNat?, ← ty.toNat?⟩
    | _ => none
  | _ => none

def parseList {α} (f : String → Option α) (s : String) : Option (List α) :=
  if s == "-" then some [] else (s.splitOn ",").mapM f

def parseDir : String → Option Dir
  | "o" => some .out | "i" => some .inc | "b" => some .both | _ => none

/-- `ty/dir/label` -/
def parseHop (s : String) : Option Hop := do
  match s.splitOn "/" with
  | [t, d, l] => pure ⟨← optNat t, ← parseDir d, ⟨← optNat l⟩⟩
  | _ => none

def parseCmp : String → Option Cmp
  | "eq" => some .eq | "ne" => some .ne | "lt" => some .lt | "le" => some .le | "gt" => some .gt | "ge" => some .ge | _ => none

/-- `c/var/key/op/val`, `n/...` (negated comparison), `z/var/key` (IS NULL), `y/var/key` (IS NOT NULL) -/
def parsePred (s : String) : Option Pred := do
  match s.splitOn "/" with
  | ["c", v, k, op, val] => pure (.cmp (← v.toNat?) (← k.toNat?) (← parseCmp op) (← parseVal val))
  | ["n", v, k, op, val] => pure (.notCmp (← v.toNat?) (← k.toNat?) (← parseCmp op) (← parseVal val))
  | ["z", v, k] => pure (.isNull (← v.toNat?) (← k.toNat?))
  | ["y", v, k] => pure (.isNotNull (← v.toNat?) (← k.toNat?))
  | _ => none

def parseRet (s : String) : Option Ret :=
  if s == "c" then some .countStar
  else do
    let cols ← (s.splitOn ",").mapM (fun c => match c.splitOn "." with
      | [v, k] => do pure (← v.toNat?, ← k.toNat?)
      | _ => none)
    pure (.props cols)

def parseOrd (s : String) : Option (List (Nat × Bool)) :=
  parseList (fun t => match t.toList.reverse with
    | 'a' :: r => (String.ofList r.reverse).toNat?.map (fun i => (i, true))
    | 'd' :: r => (String.ofList r.reverse).toNat?.map (fun i => (i, false))
    | _ => none) s

def showRow (r : List Val) : String := joinWith "|" (r.map showVal)

def insertStr (x : String) : List String → List String
  | [] => [x]
  | y :: ys => if x < y then x :: y :: ys else y :: insertStr x ys

def showRows (ordered : Bool) (rows : List (List Val)) : String :=
  let rs := rows.map showRow
  let rs := if ordered then rs else rs.foldr insertStr []
  if rs.isEmpty then "norows" else joinWith ";" rs

def mk (m s sig : String) : Proto.Out := { model := m, spec := s, sig := if m == s then "-" else sig }

partial def handle (args : List String) : Option Proto.Out :=
  match args with
  | ["run", nodes, edges, start, hops, preds, ret, distinct, ord, skip, lim, lang] => do
    let g : Graph := ⟨← parseList parseNode nodes, ← parseList parseEdge edges⟩
    let q : Q := { start := ⟨← optNat start⟩, hops := ← parseList parseHop hops, preds := ← parseList parsePred preds,
                   ret := ← parseRet ret, distinct := distinct == "1", orderBy := ← parseOrd ord,
                   skip := ← optNat skip, limit := ← optNat lim }
    let ordered := !q.orderBy.isEmpty
    let _ := lang
    pure (mk (showRows ordered (Pipe.exec g q)) (showRows ordered (Spec.eval g q)) "pipeline-differs-from-enumeration")
  -- one variable-length hop `lo..hi`
  | ["vrun", nodes, edges, start, hop, lo, hi, preds, ret, distinct, ord, skip, lim, lang] => do
    let g : Graph := ⟨← parseList parseNode nodes, ← parseList parseEdge edges⟩
    let h ← parseHop hop
    let lo ← lo.toNat?
    let hi ← hi.toNat?
    let q : Q := { start := ⟨← optNat start⟩, hops := [], preds := ← parseList parsePred preds,
                   ret := ← parseRet ret, distinct := distinct == "1", orderBy := ← parseOrd ord,
                   skip := ← optNat skip, limit := ← optNat lim }
    let ordered := !q.orderBy.isEmpty
    let m := showRows ordered (Pipe.execVar g q h lo hi)
    -- openCypher never traverses a relationship twice within one pattern; GQL's default is WALK
    let de := lang == "cypher"
    let sp := showRows ordered (Spec.evalVar g q h de lo hi)
    -- name the cause: the zero-length match, or an edge used twice
    let noZero := showRows ordered (Spec.evalVar g q h de (if lo == 0 then 1 else lo) hi)
    pure (mk m sp (if lo == 0 && m == noZero then "varlen-zero-length-missing" else "varlen-walks-not-trails"))
  -- `opt run`: same query, one optimizer switch set / statistics state / execution strategy:
  -- the answer must not depend on any of them
  | ["optrun", nodes, edges, start, hops, preds, ret, distinct, ord, skip, lim, lang, _mask, _stats, _fact] =>
    handle ["run", nodes, edges, start, hops, preds, ret, distinct, ord, skip, lim, lang]
  -- `opt cfg`: one physical configuration (factorized on/off, indexed keys, plan cache warm): same answer
  | ["optcfg", nodes, edges, start, hops, preds, ret, distinct, ord, skip, lim, lang, _fact, _idx] =>
    handle ["run", nodes, edges, start, hops, preds, ret, distinct, ord, skip, lim, lang]
  -- `opt hist`: executed once on an earlier state, then again after the data changed: answer of the final graph
  | ["opthist", nodes, edges, start, hops, preds, ret, distinct, ord, skip, lim, lang, _fact, _idx, _e1, _pre] =>
    handle ["run", nodes, edges, start, hops, preds, ret, distinct, ord, skip, lim, lang]
  -- `opt cache2 t1 t2`: `RETURN <string literal>` twice with different literals: each returns its own literal
  | ["optcache2", h1, h2] => do
    let lit := fun (h : String) => do
      let bs ← parseHex h
      let cs := bs.map Char.ofNat
      -- the characters between the first and the last quote
      let q := cs.dropWhile (fun c => c != '\'' && c != '"')
      let body := (q.drop 1).reverse.drop 1 |>.reverse
      pure ("S" ++ hexBytes (body.map (·.toNat)))
    let a ← lit h1
    let b ← lit h2
    pure { model := s!"{a};{b}", spec := s!"{a};{b}" }
  | _ => none

end Grafeo.DriverQuery
