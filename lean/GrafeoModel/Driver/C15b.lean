import GrafeoModel.Model.Codec2
import GrafeoModel.Driver.Proto

/-! Stream `c15b`: dictionary, bit vector, codec selector, compressed property columns, compressed
adjacency chunks and succinct structures — model outputs in the exact text format of the Rust
harness (`harness/src/c15b.rs`, which documents the argument formats). Stateless lines. -/
namespace Grafeo.DriverC15b
open Grafeo.Codec Grafeo.Codec2 Grafeo.Proto

/-! ### argument parsing -/

def tailS (s : String) : String := String.ofList (s.toList.drop 1)
def headC (s : String) : Char := s.toList.headD ' '

def parseElemU (e : String) : Option (List Nat) :=
  match e.splitOn ".." with
  | [a, b] => do
    let a ← a.toNat?
    let b ← b.toNat?
    pure ((List.range (b + 1 - a)).map (· + a))
  | _ => match e.splitOn "*" with
    | [a, k] => do
      let a ← a.toNat?
      let k ← k.toNat?
      pure (List.replicate k a)
    | [a] => do
      let a ← a.toNat?
      pure [a]
    | _ => none

def parseU64s (s : String) : Option (List Nat) :=
  if s == "-" || s == "" then some []
  else do
    let parts ← (s.splitOn ",").mapM parseElemU
    pure parts.flatten

def parseElemI (e : String) : Option (List Int) :=
  match e.splitOn "*" with
  | [a, k] => do
    let a ← a.toInt?
    let k ← k.toNat?
    pure (List.replicate k a)
  | [a] => do
    let a ← a.toInt?
    pure [a]
  | _ => none

def parseI64s (s : String) : Option (List Int) :=
  if s == "-" || s == "" then some []
  else do
    let parts ← (s.splitOn ",").mapM parseElemI
    pure parts.flatten

def parseSeg (seg : String) : Option (List Bool) :=
  match seg.splitOn "^" with
  | [pat, k] => do
    let k ← k.toNat?
    pure (List.replicate k (pat.toList.map (· == '1'))).flatten
  | _ =>
  match seg.splitOn "*" with
  | [b, n] => do
    let n ← n.toNat?
    pure (List.replicate n (b == "1"))
  | [raw] => some (raw.toList.map (· == '1'))
  | _ => none

def parseBits (s : String) : Option (List Bool) :=
  if s == "-" || s == "" then some []
  else do
    let parts ← (s.splitOn ".").mapM parseSeg
    pure parts.flatten

def bitsStr (bs : List Bool) : String :=
  if bs.isEmpty then "-" else String.ofList (bs.map (fun b => if b then '1' else '0'))

def parseStrTok (t : String) : Option (Option Str) :=
  if t == "~" then some none
  else if headC t == 'S' then do
    let bs ← parseHex (if t.length == 1 then "-" else tailS t)
    pure (some bs)
  else none

def parseStrs (s : String) : Option (List (Option Str)) :=
  if s == "-" || s == "" then some []
  else (s.splitOn ",").mapM parseStrTok

def sTok (s : Str) : String := "S" ++ hexBytes s
def optS : Option Str → String
  | some s => sTok s
  | none => "~"

def lst (xs : List String) : String := if xs.isEmpty then "-" else joinWith "," xs
def natL (xs : List Nat) : String := lst (xs.map toString)

def dev (ok : Bool) (sig : String) : String := if ok then "-" else sig

def optNatS : Option Nat → String
  | some v => s!"ok:{v}"
  | none => "none"

def resOptNat : Res (Option Nat) → String
  | .ok o => optNatS o
  | .err => "err"
  | .panic => "panic"

def resNatS : Res Nat → String
  | .ok v => toString v
  | .err => "err"
  | .panic => "panic"

/-! ### bit vector programs -/

inductive BvStart where
  | new | frm (bs : List Bool) | ones (n : Nat) | zeros (n : Nat)

inductive BvOperand where
  | bits (bs : List Bool) | ones (n : Nat)

inductive BvOp where
  | push (b : Bool) | pushes (bs : List Bool) | set (i : Nat) (b : Bool) | not
  | and (x : BvOperand) | or (x : BvOperand) | xor (x : BvOperand)

def parseOperand (s : String) : Option BvOperand :=
  if headC s == 'o' then (tailS s).toNat?.map .ones else (parseBits s).map .bits

def parseBvStart (s : String) : Option BvStart :=
  match headC s with
  | 'e' => some .new
  | 'f' => (parseBits (tailS s)).map .frm
  | 'o' => (tailS s).toNat?.map .ones
  | 'z' => (tailS s).toNat?.map .zeros
  | 'c' => (tailS s).toNat?.map (fun _ => .new)
  | _ => none

def parseBvOp (s : String) : Option BvOp :=
  match headC s with
  | 'p' => some (.push (tailS s == "1"))
  | 'P' => (parseBits (tailS s)).map .pushes
  | 's' => match (tailS s).splitOn ":" with
    | [i, b] => i.toNat?.map (fun i => .set i (b == "1"))
    | _ => none
  | 'n' => some .not
  | 'A' => (parseOperand (tailS s)).map .and
  | 'O' => (parseOperand (tailS s)).map .or
  | 'X' => (parseOperand (tailS s)).map .xor
  | _ => none

def parseBvProg (s : String) : Option (BvStart × List BvOp) :=
  match s.splitOn "," with
  | [] => none
  | f :: rest => do
    let st ← parseBvStart f
    let ops ← rest.mapM parseBvOp
    pure (st, ops)

def operandM : BvOperand → BVec
  | .bits bs => BVec.fromBools bs
  | .ones n => BVec.filled n true

def operandR : BvOperand → List Bool
  | .bits bs => bs
  | .ones n => List.replicate n true

def startM : BvStart → BVec
  | .new => BVec.empty
  | .frm bs => BVec.fromBools bs
  | .ones n => BVec.filled n true
  | .zeros n => BVec.filled n false

def startR : BvStart → List Bool
  | .new => []
  | .frm bs => bs
  | .ones n => List.replicate n true
  | .zeros n => List.replicate n false

def opM (v : BVec) : BvOp → Res BVec
  | .push b => v.push b
  | .pushes bs => v.pushAll bs
  | .set i b => v.set i b
  | .not => .ok v.not
  | .and x => .ok (v.and (operandM x))
  | .or x => .ok (v.or (operandM x))
  | .xor x => .ok (v.xor (operandM x))

/-- reference semantics on `List Bool`; `none` = documented panic (`set` out of range) -/
def opR (v : List Bool) : BvOp → Option (List Bool)
  | .push b => some (v ++ [b])
  | .pushes bs => some (v ++ bs)
  | .set i b => if i < v.length then some (v.set i b) else none
  | .not => some (v.map (!·))
  | .and x => some (List.zipWith (· && ·) v (operandR x))
  | .or x => some (List.zipWith (· || ·) v (operandR x))
  | .xor x => some (List.zipWith (fun a b => a != b) v (operandR x))

def runM (v : BVec) : List BvOp → Res BVec
  | [] => .ok v
  | o :: os => match opM v o with
    | .ok v' => runM v' os
    | .err => .err
    | .panic => .panic

def runR (v : List Bool) : List BvOp → Option (List Bool)
  | [] => some v
  | o :: os => match opR v o with
    | some v' => runR v' os
    | none => none

def bvModel (p : BvStart × List BvOp) : Res BVec := runM (startM p.1) p.2
def bvRef (p : BvStart × List BvOp) : Option (List Bool) := runR (startR p.1) p.2

def idxWhere (b : Bool) (bs : List Bool) : List Nat :=
  (List.range bs.length).filter (fun i => bs.getD i false == b)

/-- `len;bits;ones;zeros` -/
def bvProgOut (v : BVec) : String :=
  match v.toBools, v.countOnes, v.countZeros with
  | .ok bs, .ok o, .ok z => s!"{v.len};{bitsStr bs};{o};{z}"
  | _, _, _ => "panic"

def bvProgRef (bs : List Bool) : String :=
  s!"{bs.length};{bitsStr bs};{(bs.filter id).length};{(bs.filter (!·)).length}"

/-! ### codec selector -/

def codecStr : CodecK → String
  | .none => "None"
  | .delta => "Delta"
  | .bitPacked b => s!"BitPacked:{b}"
  | .deltaBitPacked b => s!"DeltaBitPacked:{b}"
  | .dictionary => "Dictionary"
  | .bitVector => "BitVector"
  | .runLength => "RunLength"

def parseCodec (s : String) : Option CodecK :=
  match s.splitOn ":" with
  | ["None"] => some .none
  | ["Delta"] => some .delta
  | ["BitPacked", b] => b.toNat?.map .bitPacked
  | ["DeltaBitPacked", b] => b.toNat?.map .deltaBitPacked
  | ["Dictionary"] => some .dictionary
  | ["BitVector"] => some .bitVector
  | ["RunLength"] => some .runLength
  | _ => none

def metaStr : CMeta → String
  | .none => "None"
  | .delta b => s!"Delta:{b}"
  | .bitPacked c => s!"BitPacked:{c}"
  | .deltaBitPacked b c => s!"DeltaBitPacked:{b}:{c}"
  | .dictionary i => s!"Dictionary:{i}"
  | .runLength n => s!"RunLength:{n}"

def cdStr (c : CData) : String :=
  s!"{codecStr c.codec};{c.uncompressedSize};{if c.data.isEmpty then "-" else hexBytes c.data};{metaStr c.cmeta};{if c.ratioGt12 then 1 else 0}"

def resListS : Res (List Nat) → String
  | .ok l => "ok:" ++ natList l
  | .err => "err"
  | .panic => "panic"

/-! ### property columns -/

def hexNat (cs : List Char) : Option Nat :=
  cs.foldlM (fun acc c => (hexVal c).map (fun d => acc * 16 + d)) 0

def parsePV (t : String) : Option PV :=
  match t.toList with
  | ['N'] => some .null
  | ['B', b] => some (.bool (b == '1'))
  | 'I' :: r => (String.ofList r).toInt?.map (fun i => .int (BitVec.ofInt 64 i))
  | 'F' :: r => (hexNat r).map .float
  | 'S' :: r => (parseHex (if r.isEmpty then "-" else String.ofList r)).map .str
  | _ => none

def hex16 (n : Nat) : String := hexBytes ((leBytes 8 n).reverse)

def pvTok : PV → String
  | .null => "N"
  | .bool b => if b then "B1" else "B0"
  | .int v => s!"I{v.toInt}"
  | .float b => "F" ++ hex16 b
  | .str s => "S" ++ hexBytes s

def optPV : Option PV → String
  | some v => pvTok v
  | none => "~"

def strBytes (s : String) : Str := s.toUTF8.toList.map (·.toNat)

def bulkVal (pat : Char) (id : Nat) : Option PV :=
  match pat with
  | 'q' => some (.int (BitVec.ofNat 64 (1000 + id)))
  | 'm' => some (.int (BitVec.ofNat 64 (20 + id % 50)))
  | 'w' => some (.int (BitVec.ofNat 64 (id * 0x9E3779B97F4A7C15)))
  | 'g' => some (.int (BitVec.ofInt 64 (-(Int.ofNat (id % 7)))))
  | 'c' => some (.str (strBytes (["Person", "Company", "Product", "Location"].getD (id % 4) "")))
  | 'u' => some (.str (strBytes s!"u{id}"))
  | 't' => some (.bool (id % 2 == 0))
  | 'T' => some (.bool true)
  | _ => none

inductive PcOp where
  | set (id k : Nat) (v : PV) | remove (id k : Nat) | removeAll (id : Nat)
  | force | compressAll | enable (k : Nat) (m : CMode)

def parseMode (s : String) : Option CMode :=
  match s with
  | "0" => some .none
  | "1" => some .auto
  | "2" => some .eager
  | _ => none

def parsePcOp (s : String) : Option (List PcOp) :=
  let f := (tailS s).splitOn ":"
  match headC s, f with
  | 's', [id, k, v] => do
    let id ← id.toNat?
    let k ← k.toNat?
    let v ← parsePV v
    pure [.set id k v]
  | 'b', [st, n, k, pat] => do
    let st ← st.toNat?
    let n ← n.toNat?
    let k ← k.toNat?
    (List.range n).mapM (fun i => (bulkVal (headC pat) (st + i)).map (fun v => PcOp.set (st + i) k v))
  | 'r', [id, k] => do
    let id ← id.toNat?
    let k ← k.toNat?
    pure [.remove id k]
  | 'R', [id] => id.toNat?.map (fun id => [.removeAll id])
  | 'F', _ => some [.force]
  | 'C', _ => some [.compressAll]
  | 'D', [k] => k.toNat?.map (fun k => [.enable k .none])
  | 'E', [k, m] => do
    let k ← k.toNat?
    let m ← parseMode m
    pure [.enable k m]
  | _, _ => none

def parsePcProg (s : String) : Option (CMode × List PcOp) :=
  if s == "-" then some (.none, [])
  else
    let parts := s.splitOn ","
    match parts with
    | [] => some (.none, [])
    | f :: rest =>
      if headC f == 'M' then do
        let m ← parseMode (tailS f)
        let ops ← rest.mapM parsePcOp
        pure (m, ops.flatten)
      else do
        let ops ← parts.mapM parsePcOp
        pure (.none, ops.flatten)

def pcStep (s : PStore) : PcOp → Res PStore
  | .set id k v => s.set id k v
  | .remove id k => s.remove id k
  | .removeAll id => s.removeAll id
  | .force => .ok s.forceCompressAll
  | .compressAll => .ok s.compressAll
  | .enable k m => s.enableCompression k m

def pcRun (s : PStore) : List PcOp → Res PStore
  | [] => .ok s
  | o :: os => match pcStep s o with
    | .ok s' => pcRun s' os
    | .err => .err
    | .panic => .panic

/-- the same program with compression switched off: mode `None`, compression requests ignored -/
def okOr (s : PStore) : Res PStore → PStore
  | .ok s' => s'
  | _ => s

def pcStepRef (s : PStore) : PcOp → PStore
  | .set id k v => okOr s (s.set id k v)
  | .remove id k => okOr s (s.remove id k)
  | .removeAll id => okOr s (s.removeAll id)
  | _ => s

def insKV (kv : Nat × PV) : List (Nat × PV) → List (Nat × PV)
  | [] => [kv]
  | x :: xs => if kv.1 ≤ x.1 then kv :: x :: xs else x :: insKV kv xs

def sortKV (l : List (Nat × PV)) : List (Nat × PV) := l.foldr insKV []

def resPV : Res (Option PV) → String
  | .ok o => optPV o
  | .err => "err"
  | .panic => "panic"

def pcQuery (s : PStore) (q : String) : Option String :=
  let r := tailS q
  match headC q with
  | 'g' => match r.splitOn ":" with
    | [id, k] => do
      let id ← id.toNat?
      let k ← k.toNat?
      pure (resPV (s.get id k))
    | _ => none
  | 'a' => do
    let id ← r.toNat?
    match s.getAll id with
    | .ok l => pure ("{" ++ joinWith "&" ((sortKV l).map (fun (k, v) => s!"k{k}={pvTok v}")) ++ "}")
    | _ => pure "panic"
  | 'B' => match r.splitOn ":" with
    | [k, ids] => do
      let k ← k.toNat?
      let ids ← (ids.splitOn ".").mapM (·.toNat?)
      pure ("[" ++ joinWith "." (ids.map (fun id => resPV (s.get id k))) ++ "]")
    | _ => none
  | _ => none

/-! ### adjacency -/

inductive AdjOp where
  | add (src dst eid : Nat) | del (src eid : Nat) | compact | compactIfNeeded | freeze

def parseAdjOp (s : String) : Option AdjOp :=
  let f := (tailS s).splitOn ":"
  match headC s, f with
  | 'a', [a, b, c] => do
    let a ← a.toNat?
    let b ← b.toNat?
    let c ← c.toNat?
    pure (.add a b c)
  | 'd', [a, b] => do
    let a ← a.toNat?
    let b ← b.toNat?
    pure (.del a b)
  | 'c', _ => some .compact
  | 'n', _ => some .compactIfNeeded
  | 'f', _ => some .freeze
  | _, _ => none

def parseAdjProg (s : String) : Option (List AdjOp) :=
  if s == "-" then some [] else (s.splitOn ",").mapM parseAdjOp

def adjStep (a : Adj) : AdjOp → Adj
  | .add s d e => a.addEdge s d e
  | .del s e => a.markDeleted s e
  | .compact => a.compact
  | .compactIfNeeded => a.compactIfNeeded
  | .freeze => a.freezeAll

/-- reference: every added entry of `src`, in insertion order, whose edge id was not marked deleted
at `src` (at any time: a tombstone may precede the insertion, 7783d93) -/
structure AdjRef where
  entries : List (Nat × Entry) := []      -- (src, (dst, eid))
  deleted : List (Nat × Nat) := []        -- (src, eid)

def adjStepRef (a : AdjRef) : AdjOp → AdjRef
  | .add s d e => { a with entries := a.entries ++ [(s, (d, e))] }
  | .del s e => { a with deleted := (s, e) :: a.deleted }
  | _ => a

def AdjRef.edgesFrom (a : AdjRef) (src : Nat) : List Entry :=
  ((a.entries.filter (fun x => x.1 == src)).map (·.2)).filter (fun e => !a.deleted.contains (src, e.2))

def edgesStr (es : List Entry) : String :=
  if es.isEmpty then "-" else joinWith "," (es.map (fun (d, e) => s!"{d}:{e}"))

def insEntry (x : Entry) : List Entry → List Entry
  | [] => [x]
  | y :: ys => if x.1 < y.1 ∨ (x.1 = y.1 ∧ x.2 ≤ y.2) then x :: y :: ys else y :: insEntry x ys

def sortEntries (l : List Entry) : List Entry := l.foldr insEntry []

def sumRes : List (Res Nat) → Res Nat
  | [] => .ok 0
  | r :: rs => match r, sumRes rs with
    | .ok a, .ok b => .ok (a + b)
    | _, _ => .panic

/-! ### succinct -/

def boolsOf (v : BVec) : List Bool :=
  match v.toBools with
  | .ok bs => bs
  | _ => []

/-! ### the handler -/

def handle (args : List String) : Option Out :=
  match args with
  -- ── dictionary ──
  | ["dict.build", l] => do
    let vs ← parseStrs l
    let d := dictOf vs
    let nulls := (List.range (d.codes.length + 70)).filter d.isNull
    pure { model := s!"{natL d.codes}|{lst (d.dictionary.map sTok)}|{natL nulls}|{d.dictionary.length}" }
  | ["dict.get", l, i] => do
    let vs ← parseStrs l
    let i ← i.toNat?
    let m := optS ((dictOf vs).get i)
    let s := optS ((vs[i]?).join)
    pure { model := m, spec := s, sig := dev (m == s) "dict-get" }
  | ["dict.code", l, i] => do
    let vs ← parseStrs l
    let i ← i.toNat?
    pure { model := match (dictOf vs).getCode i with
      | some c => toString c
      | none => "~" }
  | ["dict.dec", l] => do
    let vs ← parseStrs l
    let d := dictOf vs
    let m := s!"{d.codes.length};{lst (d.decode.map optS)}"
    let s := s!"{vs.length};{lst (vs.map optS)}"
    pure { model := m, spec := s, sig := dev (m == s) "dict-lossy" }
  | ["dict.enc", l, t] => do
    let vs ← parseStrs l
    let t ← parseStrTok t
    let t ← t
    let m := optNatS ((dictOf vs).encode t)
    let s := optNatS ((Spec.distinct vs []).idxOf? t)
    pure { model := m, spec := s, sig := dev (m == s) "dict-enc" }
  | ["dict.filter", l, c] => do
    let vs ← parseStrs l
    let c ← c.toNat?
    let d := dictOf vs
    let m := natL (d.filterByCode c)
    let s := natL (match (Spec.distinct vs [])[c]? with
      | some t => (List.range vs.length).filter (fun i => vs[i]? == some (some t))
      | none => [])
    pure { model := m, spec := s, sig := dev (m == s) "dict-filter" }
  | ["dict.ratio", l] => do
    let vs ← parseStrs l
    pure { model := if (dictOf vs).ratioGt12 then "1" else "0" }
  | ["dict.raw", dict, codes, bitmap, i] => do
    let ds ← parseStrs dict
    let ds ← ds.mapM id
    let codes ← parseU64s codes
    let bm ← if bitmap == "x" then some none else (parseU64s bitmap).map some
    let i ← i.toNat?
    let d : Dict := ⟨ds, codes.map (· % 4294967296), bm⟩
    pure { model := s!"{optS (d.get i)};{match d.getCode i with
      | some c => toString c
      | none => "~"}" }
  -- ── bit vector ──
  | ["bv.from", b] => do
    let bs ← parseBits b
    let v := BVec.fromBools bs
    pure { model := s!"{v.len};{natL v.data}" }
  | ["bv.collect", b] => do
    let bs ← parseBits b
    pure { model := match BVec.empty.pushAll bs with
      | .ok v => s!"{v.len};{natL v.data}"
      | _ => "panic" }
  | ["bv.get", p, i] => do
    let p ← parseBvProg p
    let i ← i.toNat?
    let m := match bvModel p with
      | .ok v => (match v.get i with
        | .ok b => if b then "ok:1" else "ok:0"
        | .err => "none"
        | .panic => "panic")
      | _ => "panic"
    let s := match bvRef p with
      | some bs => (match bs[i]? with
        | some b => if b then "ok:1" else "ok:0"
        | none => "none")
      | none => "panic"
    pure { model := m, spec := s, sig := dev (m == s) "bv-get" }
  | ["bv.prog", p] => do
    let p ← parseBvProg p
    let m := match bvModel p with
      | .ok v => bvProgOut v
      | _ => "panic"
    let s := match bvRef p with
      | some bs => bvProgRef bs
      | none => "panic"
    pure { model := m, spec := s, sig := dev (m == s) "bv-dirty-padding" }
  | ["bv.words", p] => do
    let p ← parseBvProg p
    pure { model := match bvModel p with
      | .ok v => s!"{v.len};{natL v.data}"
      | _ => "panic" }
  | ["bv.iter", p] => do
    let p ← parseBvProg p
    let m := match bvModel p with
      | .ok v => (match v.toBools with
        | .ok bs => s!"{natL (idxWhere true bs)}|{natL (idxWhere false bs)}|{bitsStr bs}"
        | _ => "panic")
      | _ => "panic"
    let s := match bvRef p with
      | some bs => s!"{natL (idxWhere true bs)}|{natL (idxWhere false bs)}|{bitsStr bs}"
      | none => "panic"
    pure { model := m, spec := s, sig := dev (m == s) "bv-dirty-padding" }
  | ["bv.eq", p, q] => do
    let p ← parseBvProg p
    let q ← parseBvProg q
    let m := match bvModel p, bvModel q with
      | .ok a, .ok b => if a == b then "1" else "0"
      | _, _ => "panic"
    let s := match bvRef p, bvRef q with
      | some a, some b => if a == b then "1" else "0"
      | _, _ => "panic"
    pure { model := m, spec := s, sig := dev (m == s) "bv-eq-padding" }
  | ["bv.bytes", p] => do
    let p ← parseBvProg p
    pure { model := match bvModel p with
      | .ok v => hexBytes v.toBytes
      | _ => "panic" }
  | ["bv.rt", p] => do
    let p ← parseBvProg p
    let m := match bvModel p with
      | .ok v => (match BVec.fromBytes v.toBytes with
        | some w => (match w.toBools with
          | .ok bs => s!"ok:{w.len};{bitsStr bs};{if w == v then 1 else 0}"
          | _ => "panic")
        | none => "err")
      | _ => "panic"
    -- specification: reading back gives the vector that was written (whatever its padding)
    let s := match bvModel p with
      | .ok v => (match v.toBools with
        | .ok bs => s!"ok:{v.len};{bitsStr bs};1"
        | _ => "panic")
      | _ => "panic"
    pure { model := m, spec := s, sig := dev (m == s) "bv-bytes-lossy" }
  | ["bv.fb", h] => do
    let bs ← parseHex h
    pure { model := match BVec.fromBytes bs with
      | some w => s!"ok:{w.len};{natL w.data}"
      | none => "err" }
  -- ── codec selector ──
  | ["sel.int", l] => do
    let xs ← parseU64s l
    pure { model := codecStr (selectInts xs).toK }
  | ["sel.str", l] => do
    let vs ← parseStrs l
    let vs ← vs.mapM id
    pure { model := codecStr (selectStrs vs) }
  | ["sel.cint", l] => do
    let xs ← parseU64s l
    pure { model := cdStr (compressInts xs) }
  | ["sel.rt", l] => do
    let xs ← parseU64s l
    let m := resListS (decompressInts (compressInts xs))
    let s := "ok:" ++ natList xs
    pure { model := m, spec := s, sig := dev (m == s) "sel-lossy" }
  | ["sel.srt", l] => do
    let xs ← parseI64s l
    let m := match decodeSigned (decompressInts (compressSigned (xs.map (BitVec.ofInt 64)))) with
      | .ok vs => "ok:" ++ intList (vs.map (·.toInt))
      | .err => "err"
      | .panic => "panic"
    let s := "ok:" ++ intList xs
    pure { model := m, spec := s, sig := dev (m == s) "sel-signed-lossy" }
  | ["sel.bool", b] => do
    let bs ← parseBits b
    let c := compressBools bs
    let d := match decompressBools c with
      | .ok v => "ok:" ++ bitsStr v
      | .err => "err"
      | .panic => "panic"
    let m := s!"{cdStr c}|{d}"
    let s := s!"{cdStr c}|ok:{bitsStr bs}"
    pure { model := m, spec := s, sig := dev (m == s) "sel-bool-lossy" }
  | ["sel.dec", codec, h] => do
    let k ← parseCodec codec
    let bs ← parseHex h
    pure { model := resListS (decompressInts ⟨k, 0, bs, .none⟩) }
  -- ── property columns ──
  | ["pc", prog, qs] => do
    let (m0, ops) ← parsePcProg prog
    let ref := ops.foldl pcStepRef {}
    let sp ← (qs.splitOn ",").mapM (pcQuery ref)
    let s := joinWith ";" sp
    match pcRun { defaultMode := m0 } ops with
    | .ok st =>
      let mo ← (qs.splitOn ",").mapM (pcQuery st)
      let m := joinWith ";" mo
      -- which kind of deviation: a value that became unreadable, or a wrong/stale value
      let unreadable := (mo.zip sp).any (fun (a, b) => a != b && (a == "~" || a.length < b.length))
      pure { model := m, spec := s,
             sig := dev (m == s) (if unreadable then "propcol-compressed-unreadable" else "propcol-stale-after-decompress") }
    | _ => pure { model := "panic", spec := s, sig := "propcol-panic" }
  | ["pc.stat", prog, k] => do
    let (m0, ops) ← parsePcProg prog
    let k ← k.toNat?
    match pcRun { defaultMode := m0 } ops with
    | .ok st =>
      pure { model := match colGet st.cols k with
        | some c => s!"{match c.codec with
            | some k => codecStr k
            | none => "-"}:{c.len}"
        | none => "nocol" }
    | _ => pure { model := "panic" }
  -- ── adjacency ──
  | ["adj.seq", cap, prog, src] => do
    let cap ← cap.toNat?
    let ops ← parseAdjProg prog
    let src ← src.toNat?
    let a := ops.foldl adjStep { cap := cap }
    pure { model := match a.edgesFrom src with
      | .ok es => s!"{edgesStr es}|{natL (es.map (·.1))}|{es.length}"
      | _ => "panic" }
  | ["adj.set", cap, prog, src] => do
    let cap ← cap.toNat?
    let ops ← parseAdjProg prog
    let src ← src.toNat?
    let a := ops.foldl adjStep { cap := cap }
    let r := (ops.foldl adjStepRef {}).edgesFrom src
    let s := edgesStr (sortEntries r)
    match a.edgesFrom src with
    | .ok es =>
      let m := edgesStr (sortEntries es)
      let lost := r.filter (fun e => !es.contains e)
      pure { model := m, spec := s,
             sig := dev (m == s) (if cap = 0 then "adj-capacity-zero"
                                  else if lost.all (fun e => e.1 == 0) then "adj-cold-dst0-lost" else "adj-lossy") }
    | _ => pure { model := "panic", spec := s, sig := "adj-panic" }
  | ["adj.stat", cap, prog] => do
    let cap ← cap.toNat?
    let ops ← parseAdjProg prog
    let a := ops.foldl adjStep { cap := cap }
    let hot := (a.lists.map (fun kl => kl.2.hotCount)).sum
    let cold := (a.lists.map (fun kl => kl.2.coldCount)).sum
    let cb := (a.lists.map (fun kl => (kl.2.cold.map CChunk.memorySize).sum)).sum
    -- `active_edge_count` saturates since 7783d93 (a tombstone may precede its insertion)
    let act := a.edgeCount - a.deletedCount
    pure { model := s!"{hot};{cold};{cb};{a.edgeCount};{act};{a.lists.length}" }
  -- ── succinct bit vector ──
  | ["sbv.info", p] => do
    let p ← parseBvProg p
    pure { model := match bvModel p with
      | .ok v =>
        let s := SBV.ofBVec v
        (match s.countZeros with
         | .ok z => s!"{v.len};{s.onesCount};{z};{s.auxSize}"
         | _ => "panic")
      | _ => "panic" }
  | [op, p, i] =>
    if op == "sbv.rank1" || op == "sbv.rank0" || op == "sbv.sel1" || op == "sbv.sel0" then do
      let p ← parseBvProg p
      let i ← i.toNat?
      match bvModel p with
      | .ok v =>
        let s := SBV.ofBVec v
        let bs := boolsOf v
        let (m, sp) :=
          if op == "sbv.rank1" then (resNatS (s.rank1 i), toString (Spec.rank true bs i))
          else if op == "sbv.rank0" then (resNatS (s.rank0 i), toString (Spec.rank false bs i))
          else if op == "sbv.sel1" then (resOptNat (s.select1 i), optNatS (Spec.select true bs i 0))
          else (resOptNat (s.select0 i), optNatS (Spec.select false bs i 0))
        pure { model := m, spec := sp,
               sig := dev (m == sp) "sbv-rank-select" }
      | _ => pure { model := "panic" }
    else if op == "ef.get" || op == "ef.contains" || op == "ef.pred" || op == "ef.succ" then do
      let xs ← parseU64s p
      let i ← i.toNat?
      let sorted := strictlyIncreasing xs
      let e := EF.new xs
      let sg := if xs.any (· ≥ 2 ^ 63 - 1) then "ef-extreme-value" else "ef-lossy"
      let m := match e with
        | .ok e =>
          if op == "ef.get" then resNatS (e.get i)
          else if op == "ef.contains" then (match e.contains i with
            | .ok b => if b then "1" else "0"
            | _ => "panic")
          else if op == "ef.pred" then resOptNat (e.predecessor i)
          else resOptNat (e.successor i)
        | _ => "panic"
      -- the property speaks about strictly increasing input (the documented contract)
      let sp :=
        if !sorted then "-"
        else if op == "ef.get" then (match xs[i]? with
          | some v => toString v
          | none => "panic")
        else if op == "ef.contains" then (if xs.contains i then "1" else "0")
        else if op == "ef.pred" then optNatS (Spec.predecessor xs i)
        else optNatS (Spec.successor xs i)
      pure { model := m, spec := sp, sig := if sp == "-" then "-" else dev (m == sp) sg }
    else if op == "wt.access" || op == "wt.count" then do
      let xs ← parseU64s p
      let i ← i.toNat?
      let w := WT.new xs
      let m := match w with
        | .ok w => if op == "wt.access" then resNatS (w.access i) else resNatS (w.rank i w.len)
        | _ => "panic"
      let sp := if op == "wt.access" then (match xs[i]? with
          | some v => toString v
          | none => "panic")
        else toString (Spec.symRank xs i xs.length)
      pure { model := m, spec := sp, sig := dev (m == sp) "wt-lossy" }
    else none
  -- ── Elias-Fano ──
  | ["ef.info", l] => do
    let xs ← parseU64s l
    pure { model := match EF.new xs with
      | .ok e => s!"{e.n};{e.univ};{e.payloadBytes}"
      | _ => "panic" }
  | ["ef.dec", l] => do
    let xs ← parseU64s l
    let e := EF.new xs
    let m := match e with
      | .ok e => resListS e.decode
      | _ => "panic"
    let sp := if strictlyIncreasing xs then "ok:" ++ natList xs else "-"
    pure { model := m, spec := sp,
           sig := if sp == "-" then "-" else dev (m == sp)
             (if xs.any (· ≥ 2 ^ 63 - 1) then "ef-extreme-value" else "ef-lossy") }
  -- ── wavelet tree ──
  | ["wt.info", l] => do
    let xs ← parseU64s l
    pure { model := match WT.new xs with
      | .ok w => s!"{w.len};{w.sigma};{natL w.symbols};{w.payloadBytes}"
      | _ => "panic" }
  | ["wt.dec", l] => do
    let xs ← parseU64s l
    let w := WT.new xs
    let m := match w with
      | .ok w => resListS w.decode
      | _ => "panic"
    let sp := "ok:" ++ natList xs
    pure { model := m, spec := sp, sig := dev (m == sp) "wt-lossy" }
  | [op, l, s, i] =>
    if op == "wt.rank" || op == "wt.select" then do
      let xs ← parseU64s l
      let s ← s.toNat?
      let i ← i.toNat?
      let w := WT.new xs
      let m := match w with
        | .ok w => if op == "wt.rank" then resNatS (w.rank s i) else resOptNat (w.select s i)
        | _ => "panic"
      let sp := if op == "wt.rank" then toString (Spec.symRank xs s i) else optNatS (Spec.symSelect s xs i 0)
      pure { model := m, spec := sp, sig := dev (m == sp) "wt-lossy" }
    else none
  | _ => none

end Grafeo.DriverC15b
