import GrafeoModel.Driver.Proto
/-! stream `join` (stub; replaced by its builder) -/
open Grafeo Grafeo.Proto
namespace DriverJoin
def handle (_args : List String) : Option Out := none
end DriverJoin
