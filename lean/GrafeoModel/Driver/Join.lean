import GrafeoModel.Model.Join
import GrafeoModel.Driver.Ops2
import GrafeoModel.Driver.Proto
/-! Stream `join` (C08, join operators). Stateless lines; see harness/src/join.rs for the
line formats. -/
open Grafeo Grafeo.Proto
namespace DriverJoin
open Grafeo.Join Grafeo.Ops2 Grafeo.DriverOps2

/-- the builder capacity in the code: `DataChunkBuilder::with_capacity(&schema, 2048)` -/
def cap : Nat := 2048

def parseJT : String → Option JT
  | "inner" => some .inner | "left" => some .left | "right" => some .right | "full" => some .full
  | "cross" => some .cross | "semi" => some .semi | "anti" => some .anti
  | _ => none

def parseCell (pos : Nat) (s : String) : Option Val :=
  if s == "#" then some (.int pos) else
  match s.toList with
  | 'F' :: r => if r.length = 16 then parseTok s else none
  | _ => parseTok s

def repeatRow (cells : List String) : Nat → Nat → Option (List (List Val))
  | 0, _ => some []
  | n + 1, pos => do
    let r ← cells.mapM (parseCell pos)
    let rest ← repeatRow cells n (pos + 1)
    pure (r :: rest)

def parseSegs (ncols : Nat) : List String → Nat → Option (List (List Val))
  | [], _ => some []
  | seg :: segs, pos => do
    let (rowS, n) ← match seg.splitOn "*" with
      | [r] => some (r, 1)
      | [r, n] => n.toNat?.map fun k => (r, k)
      | _ => none
    let cells := rowS.splitOn ","
    if cells.length ≠ ncols || n > 100000 then none
    else do
      let rows ← repeatRow cells n pos
      let rest ← parseSegs ncols segs (pos + n)
      pure (rows ++ rest)

def parseTbl (ncols : Nat) (s : String) : Option (List (List Val)) :=
  if s == "-" then some [] else parseSegs ncols (s.splitOn ";") 0

def parseSz (s : String) : Option (List Nat) :=
  if s.startsWith "c:" then parseNatList (s.drop 2).toString else none

def parseKeys (s : String) : Option (List Nat) :=
  if s == "-" then some [] else (s.splitOn ",").mapM (fun t => t.toNat?)

/-- the chunks the mock child hands out: `sizes` in order (cut at the end of the table), then
whatever is left as one more chunk -/
def splitChunks (rows : List (List Val)) : List Nat → List Chunk
  | [] => if rows.isEmpty then [] else [rows]
  | n :: ns => rows.take n :: splitChunks (rows.drop n) ns

def showR (r : List Val) : String := if r.isEmpty then "()" else showRow r

def showChunks (cs : List Chunk) : String :=
  if cs.isEmpty then "-" else
    joinWith "|" (cs.map fun c => if c.isEmpty then "_" else joinWith ";" (c.map showR))

def showBag (rows : List (List Val)) : String :=
  if rows.isEmpty then "-" else
    joinWith ";" ((rows.map showR).mergeSort (fun a b => !(b < a)))

def isFlt : Val → Bool
  | .flt _ => true
  | _ => false

def keyCells (keys : List Nat) (rows : List (List Val)) : List Val :=
  rows.flatMap fun r => keys.map fun k => r.getD k .null

def sigOf (parts : List String) : String := if parts.isEmpty then "unclassified" else joinWith "+" parts

def hashSpec (jt : JT) (pk bk : List Nat) (lcols rcols : Nat) (L R : List (List Val)) : Option (List (List Val)) :=
  let θ := Spec.keysMatch pk bk
  match jt with
  | .inner => some (Spec.inner θ L R)
  | .left => some (Spec.leftOuter θ rcols L R)
  | .right => some (Spec.rightOuter θ lcols L R)
  | .full => some (Spec.fullOuter θ lcols rcols L R)
  | .cross => if pk.isEmpty then some (Spec.cross L R) else none
  | .semi => some (Spec.semi θ L R)
  | .anti => some (Spec.anti θ L R)

def handleHash (chunked : Bool) (a : List String) : Option Out :=
  match a with
  | [jtS, lcS, rcS, pkS, bkS, lsS, rsS, ltS, rtS] => do
    let jt ← parseJT jtS
    let lcols ← lcS.toNat?
    let rcols ← rcS.toNat?
    if lcols = 0 || rcols = 0 || lcols > 8 || rcols > 8 then none else
    let pk ← parseKeys pkS
    let bk ← parseKeys bkS
    if pk.length ≠ bk.length then none else
    let ls ← parseSz lsS
    let rs ← parseSz rsS
    let L ← parseTbl lcols ltS
    let R ← parseTbl rcols rtS
    let probe := splitChunks L ls
    let build := splitChunks R rs
    -- `extract_key` with one key column that does not exist: `OperatorError::ColumnNotFound`
    let err := (match bk with | [c] => decide (c ≥ rcols) && !R.isEmpty | _ => false) ||
               (match pk with | [c] => decide (c ≥ lcols) && !L.isEmpty | _ => false)
    if err then some { model := "err" } else
    let fuel := L.length * R.length + L.length + R.length + 10
    let (out, fin) := hashJoin jt pk bk cap lcols rcols probe build fuel
    if !fin then some { model := "hang" } else
    if chunked then some { model := showChunks out } else
    let m := showBag out.flatten
    match hashSpec jt pk bk lcols rcols L R with
    | none => some { model := m }
    | some sp =>
      let s := showBag sp
      if s == m then some { model := m, spec := s } else
      let cells := keyCells pk L ++ keyCells bk R
      let parts :=
        (if cells.any isFlt then ["hash-join-float-key-as-bits"] else []) ++
        (if (keyCells pk L).any (· == .null) && (keyCells bk R).any (· == .null) && (jt.keepsNull || pk.length ≠ 1)
          then ["hash-join-null-key-matches"] else []) ++
        (if jt.padsLeft && build.isEmpty && !L.isEmpty then ["left-join-short-row-without-build-chunk"] else [])
      some { model := m, spec := s, sig := sigOf parts }
  | _ => none

def parseCond (s : String) : Option (Option (Nat × Nat)) :=
  if s == "x" then some none
  else if s.startsWith "e" then
    match (s.drop 1).toString.splitOn "." with
    | [l, r] => do
      let a ← l.toNat?
      let b ← r.toNat?
      pure (some (a, b))
    | _ => none
  else none

def handleNl (chunked : Bool) (a : List String) : Option Out :=
  match a with
  | [jtS, lcS, rcS, cS, lsS, rsS, ltS, rtS] => do
    let jt ← parseJT jtS
    let lcols ← lcS.toNat?
    let rcols ← rcS.toNat?
    if lcols = 0 || rcols = 0 || lcols > 8 || rcols > 8 then none else
    let c ← parseCond cS
    let ls ← parseSz lsS
    let rs ← parseSz rsS
    let L ← parseTbl lcols ltS
    let R ← parseTbl rcols rtS
    let cond : List Val → List Val → Bool := match c with
      | none => fun _ _ => true
      | some (lc, rc) => eqCond lc rc
    let fuel := L.length * R.length + L.length + R.length + 10
    let (out, fin) := nlJoin jt cap rcols cond (splitChunks L ls) (splitChunks R rs) fuel
    if !fin then some { model := "hang" } else
    if chunked then some { model := showChunks out } else
    let m := showBag out.flatten
    let θ : Option (List Val → List Val → Bool) := match c with
      | none => some fun _ _ => true
      | some (lc, rc) => if lc < lcols && rc < rcols then some (Spec.keysMatch [lc] [rc]) else none
    let sp : Option (List (List Val)) := match θ, jt with
      | some θ, .inner => some (Spec.inner θ L R)
      | some θ, .cross => some (Spec.inner θ L R)
      | some θ, .left => some (Spec.leftOuter θ rcols L R)
      | _, _ => none       -- the operator has no RIGHT / FULL / SEMI / ANTI mode: it answers as INNER
    match sp with
    | none => some { model := m }
    | some sp =>
      let s := showBag sp
      if s == m then some { model := m, spec := s } else
      let cells := match c with
        | some (lc, rc) => keyCells [lc] L ++ keyCells [rc] R
        | none => []
      let parts :=
        (if cells.any isFlt then ["nl-equality-int-float-distinct"] else []) ++
        (if cells.any (· == .null) then ["nl-equality-null-equals-null"] else [])
      some { model := m, spec := s, sig := sigOf parts }
  | _ => none

def b01 (b : Bool) : String := if b then "1" else "0"

def handleKey (x y : String) : Option Out := do
  let a ← parseCell 0 x
  let b ← parseCell 0 y
  let f := match evalQ Quirks.code (.bin .eq (.lit a) (.lit b)) [] with
    | some (.bool true) => "1"
    | some (.bool false) => "0"
    | some .null | none => "n"
    | some v => showTok v
  some { model := s!"{b01 (decide (HK.ofVal a = HK.ofVal b))};{b01 (valDerivedEq a b)};{f}" }

def isIntOrNull : Val → Bool
  | .int _ => true
  | .null => true
  | _ => false

def handleLf (chunked : Bool) (a : List String) : Option Out :=
  match a with
  | ncS :: kS :: szS :: tabs => do
    if tabs.isEmpty || tabs.length > 4 then none else
    let ncols ← ncS.toNat?
    if ncols = 0 || ncols > 8 then none else
    let keys ← parseKeys kS
    if keys.any (· ≥ ncols) then none else
    let sizes ← (szS.splitOn "/").mapM parseSz
    let tables ← tabs.mapM (parseTbl ncols)
    if sizes.length ≠ tables.length then none else
    if tables.any (fun t => t.any fun r => r.any fun v => !isIntOrNull v) then none else
    let inputs := (tables.zip sizes).map fun p => splitChunks p.1 p.2
    if chunked then some { model := showChunks (lfJoin cap keys inputs) } else
    let m := showBag (lfRows keys inputs)
    let s := showBag (Spec.leapfrog keys inputs)
    if s == m then some { model := m, spec := s }
    else some { model := m, spec := s, sig := "leapfrog-join-first-key-level-only" }
  | _ => none

def handle (args : List String) : Option Out :=
  match args with
  | "hash" :: rest => handleHash false rest
  | "hash.c" :: rest => handleHash true rest
  | "nl" :: rest => handleNl false rest
  | "nl.c" :: rest => handleNl true rest
  | ["key", x, y] => handleKey x y
  | "lf" :: rest => handleLf false rest
  | "lf.c" :: rest => handleLf true rest
  | _ => none

end DriverJoin
