import GrafeoModel.Model.Exec
import GrafeoModel.Driver.Proto

/-! Stream `exec`: morsels, k-way merge, mergeable accumulators (C17 building blocks). -/
namespace Grafeo.DriverExec
open Grafeo.Exec Grafeo.Proto

def parseRuns (s : String) : Option (List (List Int)) :=
  if s == "-" then some [] else (s.splitOn "|").mapM (fun c => if c == "_" || c == "" then some [] else parseIntList c)

def showMorsels (ms : List Morsel) : String :=
  if ms.isEmpty then "-" else joinWith "," (ms.map (fun m => s!"{m.id}:{m.start}-{m.stop}"))

/-- partition verdict computed from a morsel list -/
def morselVerdict (total size : Nat) (ms : List Morsel) : String :=
  let rec go (expectId expectStart : Nat) : List Morsel → String
    | [] => if expectStart == total || (total == 0 ∨ size == 0) && expectStart == 0 then "ok" else "incomplete"
    | m :: rest =>
      if m.id != expectId then "bad-id"
      else if m.start != expectStart then "gap-or-overlap"
      else if m.stop ≤ m.start then "empty-morsel"
      else if m.stop - m.start > size then "too-large"
      else if m.stop > total then "beyond-end"
      else go (expectId + 1) m.stop rest
  go 0 0 ms

def insertSorted (x : Int) : List Int → List Int
  | [] => [x]
  | y :: ys => if y < x then y :: insertSorted x ys else x :: y :: ys

def sortInts (l : List Int) : List Int := l.foldr insertSorted []

def optStr : Option Int → String
  | none => "N"
  | some v => toString v

def accStr (a : Acc) : String :=
  s!"{a.count};{if a.count == 0 then "N" else toString a.sum};{optStr a.min};{optStr a.max};{optStr a.first}"

def mk (m s sig : String) : Proto.Out := { model := m, spec := s, sig := if m == s then "-" else sig }

def handle (args : List String) : Option Proto.Out :=
  match args with
  | ["morsels", t, s] => do
    pure { model := showMorsels (generateMorsels (← t.toNat?) (← s.toNat?)) }
  | ["morsels.chk", t, s] => do
    let t ← t.toNat?
    let s ← s.toNat?
    pure (mk (morselVerdict t s (generateMorsels t s)) "ok" "morsels-not-a-partition")
  | ["merge", runs] => do
    let rs ← parseRuns runs
    pure (mk (intList (mergeSortedRuns rs)) (intList (sortInts rs.flatten)) "merge-not-sorted-permutation")
  | ["agg", parts] => do
    let ps ← parseRuns parts
    let merged := (ps.map Acc.ofList).foldl Acc.merge Acc.new
    pure (mk (accStr merged) (accStr (Acc.ofList ps.flatten)) "parallel-aggregate-differs")
  | _ => none

end Grafeo.DriverExec
