import GrafeoModel.Driver.Proto
/-! stream `idx` (stub; replaced by its builder) -/
open Grafeo Grafeo.Proto
namespace DriverIdx
def handle (_args : List String) : Option Out := none
end DriverIdx
