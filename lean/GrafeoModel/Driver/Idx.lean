import GrafeoModel.Model.Idx
import GrafeoModel.Driver.Proto

/-! Stream `idx`: histories of HashIndex / BTreeIndex (i64 and OrderedFloat keys) / TrieIndex
operations and leapfrog joins, one self-contained history per line. Formats are documented in
`harness/src/idx.rs`. The `model` column runs `Model/Idx.lean`; the `spec` column runs the
plain-map / scan / list-intersection specification of the same file. -/
open Grafeo Grafeo.Proto Grafeo.Idx
namespace DriverIdx

def tailS (s : String) : String := String.ofList (s.toList.drop 1)
def headC (s : String) : Char := s.toList.headD ' '

def u64? (s : String) : Option Nat :=
  match s.toNat? with
  | some n => if n < 2 ^ 64 && s.toList.all Char.isDigit then some n else none
  | none => none

def i64? (s : String) : Option Int :=
  let body := if headC s == '-' then tailS s else s
  if body.isEmpty || !(body.toList.all Char.isDigit) then none
  else match s.toInt? with
    | some i => if -(2 ^ 63 : Int) ≤ i && i < (2 ^ 63 : Int) then some i else none
    | none => none

def optS (o : Option Nat) : String :=
  match o with
  | none => "~"
  | some v => toString v

def b01 (b : Bool) : String := if b then "1" else "0"

/-! ### programs over hash / btree indexes -/

inductive POp (K : Type) where
  | ins (k : K) (v : Nat)
  | rem (k : K)
  | get (k : K)
  | has (k : K)
  | len
  | isEmpty
  | clear
  | min
  | max
  | range (lo hi : Bound K)

def parseBound {K : Type} (pk : String → Option K) (s : String) : Option (Bound K) :=
  if s == "u" then some .unb
  else if headC s == 'i' then (pk (tailS s)).map .inc
  else if headC s == 'e' then (pk (tailS s)).map .exc
  else none

def parseOp {K : Type} (pk : String → Option K) (ordered : Bool) (s : String) : Option (POp K) :=
  let c := headC s
  let r := tailS s
  if s == "l" then some .len
  else if s == "e" then some .isEmpty
  else if s == "x" then some .clear
  else if s == "m" then (if ordered then some .min else none)
  else if s == "M" then (if ordered then some .max else none)
  else if c == 'i' then
    match r.splitOn ":" with
    | [k, v] => do
      let k ← pk k
      let v ← u64? v
      pure (.ins k v)
    | _ => none
  else if c == 'r' then (pk r).map .rem
  else if c == 'g' then (pk r).map .get
  else if c == 'c' then (pk r).map .has
  else if c == 'R' && ordered then
    match r.splitOn "_" with
    | [lo, hi] => do
      let lo ← parseBound pk lo
      let hi ← parseBound pk hi
      pure (.range lo hi)
    | _ => none
  else none

def parseProg {K : Type} (pk : String → Option K) (ordered : Bool) (s : String) : Option (List (POp K)) :=
  if s == "-" then some [] else (s.splitOn ",").mapM (parseOp pk ordered)

def entS {K : Type} (sk : K → String) (e : K × Nat) : String := sk e.1 ++ ":" ++ toString e.2
def entsS {K : Type} (sk : K → String) (es : List (K × Nat)) : String := joinWith ";" (es.map (entS sk))
def optEntS {K : Type} (sk : K → String) (o : Option (K × Nat)) : String :=
  match o with
  | none => "~"
  | some e => entS sk e

/-- one op on the BTreeIndex model -/
def bExec {K : Type} (cmp : K → K → Ordering) (sk : K → String)
    (t : BT K Nat) : POp K → BT K Nat × String
  | .ins k v => let r := bInsert cmp t k v; (r.1, optS r.2)
  | .rem k => let r := bRemove cmp t k; (r.1, optS r.2)
  | .get k => (t, optS (bGet cmp t k))
  | .has k => (t, b01 (bContains cmp t k))
  | .len => (t, toString (bLen t))
  | .isEmpty => (t, b01 (bLen t == 0))
  | .clear => (bClear t, ".")
  | .min => (t, optEntS sk (bMin t))
  | .max => (t, optEntS sk (bMax t))
  | .range lo hi => (t, "[" ++ entsS sk (bRange cmp t lo hi) ++ "]")

/-- one op on the plain-map specification (Int keys) -/
def sExec (sk : Int → String) (a : List (Int × Nat)) : POp Int → List (Int × Nat) × String
  | .ins k v => (sInsert a k v, optS (sGet a k))
  | .rem k => (sErase a k, optS (sGet a k))
  | .get k => (a, optS (sGet a k))
  | .has k => (a, b01 (sGet a k).isSome)
  | .len => (a, toString (sLen a))
  | .isEmpty => (a, b01 (sLen a == 0))
  | .clear => ([], ".")
  | .min => (a, optEntS sk (sMin a))
  | .max => (a, optEntS sk (sMax a))
  | .range lo hi => (a, "[" ++ entsS sk (sRange a lo hi) ++ "]")

def runOps {S O : Type} (step : S → O → S × String) : S → List O → S × List String
  | s, [] => (s, [])
  | s, o :: r =>
    let x := step s o
    let y := runOps step x.1 r
    (y.1, x.2 :: y.2)

/-- one op on the HashIndex model -/
def hExec (m : List (Nat × Nat)) : POp Nat → List (Nat × Nat) × String
  | .ins k v => let r := hInsert m k v; (r.1, optS r.2)
  | .rem k => let r := hRemove m k; (r.1, optS r.2)
  | .get k => (m, optS (hGet m k))
  | .has k => (m, b01 (hContains m k))
  | .len => (m, toString (hLen m))
  | .isEmpty => (m, b01 (hLen m == 0))
  | .clear => ([], ".")
  | _ => (m, "?")

def natKeyed (m : List (Nat × Nat)) : List (Int × Nat) := m.map (fun e => ((e.1 : Int), e.2))
def opToInt {K : Type} (f : K → Int) : POp K → POp Int
  | .ins k v => .ins (f k) v
  | .rem k => .rem (f k)
  | .get k => .get (f k)
  | .has k => .has (f k)
  | .len => .len
  | .isEmpty => .isEmpty
  | .clear => .clear
  | .min => .min
  | .max => .max
  | .range lo hi =>
    let g : Bound K → Bound Int := fun b =>
      match b with
      | .unb => .unb
      | .inc k => .inc (f k)
      | .exc k => .exc (f k)
    .range (g lo) (g hi)


def mkOut (mres sres : List String) (mdump sdump : String) : Out :=
  let m := joinWith "," mres ++ "|" ++ mdump
  let s := joinWith "," sres ++ "|" ++ sdump
  { model := m, spec := s, sig := if m == s then "-" else "idx-deviation" }

def showI (i : Int) : String := toString i

/-! float keys: canonical bit patterns (−0 ↦ +0, every NaN ↦ the quiet NaN); the specification
orders them "numeric, NaN greatest" through the `Int` key `Idx.fkeyI` -/
def nanBits : Nat := 0x7ff8000000000000
def canonF (b : Nat) : Nat := if F64.isNaN b then nanBits else if b == 2 ^ 63 then 0 else b
def fkeyInv (i : Int) : Nat := if i == (2 ^ 63 : Int) then nanBits else if i ≥ 0 then i.toNat else 2 ^ 63 + (-i).toNat
def showF (b : Nat) : String := toString (canonF b)

def handleHash (prog : String) : Option Out := do
  let ops ← parseProg u64? false prog
  let (m, mres) := runOps hExec [] ops
  let (a, sres) := runOps (sExec showI) [] (ops.map (opToInt (fun (k : Nat) => (k : Int))))
  let mdump := entsS showI (sortByKey (natKeyed m))
  let sdump := entsS showI (sortByKey a)
  pure (mkOut mres sres mdump sdump)

def handleBt (prog : String) : Option Out := do
  let ops ← parseProg i64? true prog
  let (t, mres) := runOps (bExec icmp showI) BT.empty ops
  let (a, sres) := runOps (sExec showI) [] ops
  let mdump := entsS showI t.ents
  let sdump := entsS showI (sortByKey a)
  pure (mkOut mres sres mdump sdump)

def handleBtf (prog : String) : Option Out := do
  let ops ← parseProg u64? true prog
  let (t, mres) := runOps (bExec fcmp showF) BT.empty ops
  let (a, sres) := runOps (sExec (fun i => toString (fkeyInv i))) [] (ops.map (opToInt fkeyI))
  let mdump := entsS showF t.ents
  let sdump := entsS (fun i => toString (fkeyInv i)) (sortByKey a)
  pure (mkOut mres sres mdump sdump)

/-! ### trie -/

def parsePath (s : String) : Option (List Nat) :=
  if s == "" then some [] else (s.splitOn ".").mapM u64?

def parseTrieInsE (s : String) : Option (List Nat × Nat) :=
  if headC s == 'E' then
    match (tailS s).splitOn "=" with
    | [p, e] => do
      let p ← parsePath p
      let e ← u64? e
      if p.length != 2 then none
      pure (p, e)
    | _ => none
  else
    match s.splitOn "=" with
    | [p, e] => do
      let p ← parsePath p
      let e ← u64? e
      pure (p, e)
    | _ => none

def dotList (xs : List Nat) : String := joinWith "." (xs.map toString)
def brk (xs : List String) : String := "[" ++ joinWith "." xs ++ "]"

inductive WStep where
  | next | seek (t : Nat) | key | valid | open

def parseStep (s : String) : Option WStep :=
  if s == "n" then some .next
  else if s == "k" then some .key
  else if s == "v" then some .valid
  else if s == "o" then some .open
  else if headC s == 's' then (u64? (tailS s)).map .seek
  else none

def parseSteps (s : String) : Option (List WStep) :=
  if s == "" then some [] else (s.splitOn ".").mapM parseStep

/-- walk program on the model iterator -/
def walkM : TIter → List WStep → List String
  | _, [] => []
  | it, .next :: r => let x := it.next; b01 x.2 :: walkM x.1 r
  | it, .seek t :: r => let x := it.seek t; b01 x.2 :: walkM x.1 r
  | it, .key :: r => optS it.key :: walkM it r
  | it, .valid :: r => b01 it.isValid :: walkM it r
  | it, .open :: r =>
    match it.open with
    | none => ["~"]
    | some c => "1" :: walkM c r

/-- walk program on the specification: (path, remaining keys) over the inserted-path list -/
def walkS (h : List (List Nat × Nat)) : List Nat → List Nat → List WStep → List String
  | _, _, [] => []
  | p, rem, .next :: r =>
    match rem with
    | [] => "0" :: walkS h p [] r
    | _ :: tl => b01 (!tl.isEmpty) :: walkS h p tl r
  | p, rem, .seek t :: r =>
    let rem' := rem.filter (fun k => decide (t ≤ k))
    b01 (!rem'.isEmpty) :: walkS h p rem' r
  | p, rem, .key :: r => optS rem.head? :: walkS h p rem r
  | p, rem, .valid :: r => b01 (!rem.isEmpty) :: walkS h p rem r
  | p, rem, .open :: r =>
    match rem with
    | [] => ["~"]
    | k :: _ =>
      match sTrieKeys h (p ++ [k]) with
      | none => ["~"]
      | some ks => "1" :: walkS h (p ++ [k]) ks r

def trieQuery (h : List (List Nat × Nat)) (t : Trie) (q : String) : Option (String × String) :=
  let c := headC q
  let r := tailS q
  if q == "l" then some (toString t.len, toString h.length)
  else if q == "z" then some (b01 (t.len == 0), b01 h.isEmpty)
  else if c == 'g' then do
    let p ← parsePath r
    let f : Option (List Nat) → String := fun o => match o with | none => "~" | some es => dotList es
    pure (f (t.get p), f (sTrieGet h p))
  else if c == 'k' then do
    let p ← parsePath r
    let m := match (if p.isEmpty then some t.iter else t.iterAt p) with
      | none => "~"
      | some it => brk ((itEnum (it.keys.length + 1) it).map toString)
    let s := match sTrieKeys h p with
      | none => "~"
      | some ks => brk (ks.map toString)
    pure (m, s)
  else if c == 'w' then
    match r.splitOn "/" with
    | [p, st] => do
      let p ← parsePath p
      let st ← parseSteps st
      let m := match t.iterAt p with
        | none => "~"
        | some it => brk (walkM it st)
      let s := match sTrieKeys h p with
        | none => "~"
        | some ks => brk (walkS h p ks st)
      pure (m, s)
    | _ => none
  else none

def handleTrie (ins qs : String) : Option Out := do
  let h ← if ins == "-" then some [] else (ins.splitOn ";").mapM parseTrieInsE
  let t := Trie.build h
  let rs ← if qs == "-" then some [] else (qs.splitOn ";").mapM (trieQuery h t)
  let m := if rs.isEmpty then "-" else joinWith ";" (rs.map (·.1))
  let s := if rs.isEmpty then "-" else joinWith ";" (rs.map (·.2))
  pure { model := m, spec := s, sig := if m == s then "-" else "trie-deviation" }

/-! ### leapfrog -/

def parseList (s : String) : Option (List Nat) :=
  if s == "-" then some [] else (s.splitOn ",").mapM u64?

def enumFrom (n : Nat) : List Nat → List (Nat × Nat)
  | [] => []
  | x :: r => (x, n) :: enumFrom (n + 1) r

def listTrie (l : List Nat) : Trie := Trie.build ((enumFrom 0 l).map (fun kj => ([kj.1], kj.2)))

/-- `k` / `n` program on the model join -/
def lfProgM : LF → List Char → List String
  | _, [] => []
  | j, 'k' :: r => optS j.key :: lfProgM j r
  | j, _ :: r => let x := j.next; b01 x.2 :: lfProgM x.1 r

/-- the same program on the specification: the remaining intersection -/
def lfProgS : List Nat → List Char → List String
  | _, [] => []
  | rem, 'k' :: r => optS rem.head? :: lfProgS rem r
  | rem, _ :: r =>
    match rem with
    | [] => "0" :: lfProgS [] r
    | _ :: tl => b01 (!tl.isEmpty) :: lfProgS tl r

def handleLf (ls prog : String) : Option Out := do
  let lists ← if ls == "none" then some [] else (ls.splitOn ";").mapM parseList
  let j := LF.new (lists.map (fun l => (listTrie l).iter))
  let inter := sInter (lists.map (fun l => isort (dedupNat l)))
  if prog == "a" then
    let m := brk ((lfEnum (lfEnumFuel j) j).map toString)
    let s := if lists.isEmpty then "-" else brk (inter.map toString)
    pure { model := m, spec := s, sig := if s == "-" || m == s then "-" else "leapfrog-deviation" }
  else if prog.toList.all (fun c => c == 'k' || c == 'n') && !prog.isEmpty then
    let m := joinWith "." (lfProgM j prog.toList)
    let s := if lists.isEmpty then "-" else joinWith "." (lfProgS inter prog.toList)
    pure { model := m, spec := s, sig := if s == "-" || m == s then "-" else "leapfrog-deviation" }
  else none

def parseEdge (s : String) : Option (Nat × Nat) :=
  match s.splitOn "." with
  | [a, b] => do
    let a ← u64? a
    let b ← u64? b
    pure (a, b)
  | _ => none

def parseEdges (s : String) : Option (List (Nat × Nat)) :=
  if s == "-" then some [] else (s.splitOn ";").mapM parseEdge

def edgeHist : Nat → List (Nat × Nat) → List (List Nat × Nat)
  | _, [] => []
  | n, (a, b) :: r => ([a, b], n) :: edgeHist (n + 1) r

/-- two-level leapfrog trie join on the model -/
def lf2Loop : Nat → LF → List String
  | 0, _ => []
  | f + 1, j =>
    match j.key with
    | none => []
    | some k =>
      let e := match j.open with
        | none => toString k ++ ":~"
        | some cs => let c := LF.new cs; toString k ++ ":" ++ brk ((lfEnum (lfEnumFuel c) c).map toString)
      let r := j.next
      if r.2 then e :: lf2Loop f r.1 else [e]

def handleLf2 (ts : String) : Option Out := do
  let tries ← (ts.splitOn "|").mapM parseEdges
  let j := LF.new (tries.map (fun es => (Trie.build (edgeHist 0 es)).iter))
  let ms := lf2Loop (lfEnumFuel j) j
  let top := sInter (tries.map (fun es => isort (dedupNat (es.map (·.1)))))
  let ss := top.map (fun k =>
    let inner := sInter (tries.map (fun es =>
      isort (dedupNat ((es.filter (fun e => e.1 == k)).map (·.2)))))
    toString k ++ ":" ++ brk (inner.map toString))
  let m := if ms.isEmpty then "-" else joinWith ";" ms
  let s := if ss.isEmpty then "-" else joinWith ";" ss
  pure { model := m, spec := s, sig := if m == s then "-" else "leapfrog-deviation" }

def handle (args : List String) : Option Out :=
  match args with
  | ["hash", p] => handleHash p
  | ["bt", p] => handleBt p
  | ["btf", p] => handleBtf p
  | ["trie", i, q] => handleTrie i q
  | ["lf", l, p] => handleLf l p
  | ["lf2", t] => handleLf2 t
  | _ => none

end DriverIdx
