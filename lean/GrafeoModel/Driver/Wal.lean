import GrafeoModel.Model.Wal
import GrafeoModel.Proofs.WalDefs
import GrafeoModel.Driver.Proto

/-! Stream `wal`: log framing, truncation, bit flips, append-after-crash (C06; framing for C05). -/
namespace Grafeo.DriverWal
open Grafeo.Wal Grafeo.Proto

def parsePayloads (args : List String) : Option (List (List Nat)) := args.mapM parseHex

def showRecs (rs : List (List Nat)) : String :=
  if rs.isEmpty then "-" else joinWith "," (rs.map hexBytes)

def recoverBytes (bs : List Nat) : List (List Nat) :=
  replay kindOf (parseFile crc32 (fun _ => true) bs.length bs)

def flipBit (bs : List Nat) (i : Nat) : List Nat :=
  bs.mapIdx (fun j b => if j = i / 8 then b ^^^ (2 ^ (i % 8)) else b)

def mk (m s sig : String) : Proto.Out := { model := m, spec := s, sig := if m == s then "-" else sig }

def splitAt (sep : String) (l : List String) : List String × List String :=
  (l.takeWhile (· != sep), (l.dropWhile (· != sep)).drop 1)

def handle (args : List String) : Option Proto.Out :=
  match args with
  | "log" :: ps => do
    let ps ← parsePayloads ps
    pure { model := hexBytes (encodeAll crc32 ps) }
  | "cut" :: k :: ps => do
    let k ← k.toNat?
    let ps ← parsePayloads ps
    let m := recoverBytes ((encodeAll crc32 ps).take k)
    -- the theorem's right-hand side: the commit rule over exactly the frames that fit
    let s := replay kindOf (ps.take (wholeFrames k ps))
    pure (mk (showRecs m) (showRecs s) "wal-truncation")
  | "flip" :: i :: ps => do
    let i ← i.toNat?
    let ps ← parsePayloads ps
    let bytes := encodeAll crc32 ps
    let m := recoverBytes (flipBit bytes i)
    -- specification: the damaged frame and everything after it is not applied; frames before it are
    let full := replay kindOf ps
    let isPre := (m.length ≤ full.length) && (full.take m.length == m)
    pure { model := showRecs m, spec := if isPre then showRecs m else "prefix-of:" ++ showRecs full,
           sig := if isPre then "-" else "wal-bitflip-applied" }
  | "synced" :: _mode :: ps => do
    -- a crash image taken after a successful `sync()`: every record logged before it is on disk
    let ps ← parsePayloads ps
    let m := recoverBytes (encodeAll crc32 ps)
    pure (mk (showRecs m) (showRecs (replay kindOf ps)) "wal-sync-lost-records")
  | "cont" :: k :: rest => do
    let k ← k.toNat?
    let (a, b) := splitAt "|" rest
    let pa ← parsePayloads a
    let pb ← parsePayloads b
    -- reopening cuts the torn tail, then the new records are appended
    let bytes := reopenBytes crc32 (fun _ => true) ((encodeAll crc32 pa).take k) ++ encodeAll crc32 pb
    let m := recoverBytes bytes
    -- specification: what survived the crash, then everything written afterwards
    let s := replay kindOf (pa.take (wholeFrames k pa) ++ pb)
    pure (mk (showRecs m) (showRecs s) "wal-append-after-torn-tail")
  | _ => none

end Grafeo.DriverWal
