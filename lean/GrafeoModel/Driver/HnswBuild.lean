import GrafeoModel.Driver.Proto
/-! stream `hcon` (stub; replaced by its builder) -/
open Grafeo Grafeo.Proto
namespace DriverHnswBuild
def handle (_args : List String) : Option Out := none
end DriverHnswBuild
