import GrafeoModel.Model.HnswBuild
import GrafeoModel.Driver.Proto

/-! Stream `hcon`: HNSW graph construction / maintenance (`Model/HnswBuild.lean`) and the integer
parts of the vector quantisers, in the text format of `harness/src/hcon.rs` (which documents the
argument formats).  Stateless lines: a history is carried inside one line. -/
namespace DriverHnswBuild
open Grafeo Grafeo.Proto Grafeo.Hnsw Grafeo.HnswBuild

abbrev Vec := List Int

def distE (a b : Vec) : Nat := (List.zipWith (fun x y => (x - y).natAbs ^ 2) a b).foldl (· + ·) 0
def distM (a b : Vec) : Nat := (List.zipWith (fun x y => (x - y).natAbs) a b).foldl (· + ·) 0

/-- `vector_distance(cv, sv) < alpha * candidate.distance`, alpha = num/den, on exact integer keys:
Manhattan keys are the distances, Euclidean keys their squares (alpha a power of two there) -/
def mkCfg (metric : String) (num den m mMax efc fuel : Nat) : Option (Cfg Vec) :=
  if den = 0 then none
  else if metric == "e" then
    some { m := m, mMax := mMax, efc := efc, fuel := fuel, dist := distE,
           covers := fun dcs dcq => decide (den * den * dcs < num * num * dcq), missing := 10 ^ 15 }
  else if metric == "m" then
    some { m := m, mMax := mMax, efc := efc, fuel := fuel, dist := distM,
           covers := fun dcs dcq => decide (den * dcs < num * dcq), missing := 10 ^ 15 }
  else none

def parseOp (dim : Nat) (t : String) : Option (Op Vec) :=
  match t.toList with
  | 'i' :: rest =>
    match (String.ofList rest).splitOn ":" with
    | [id, lv, vs] => do
      let id ← id.toNat?
      let lv ← lv.toNat?
      let v ← (vs.splitOn ",").mapM (fun s => s.toInt?)
      if v.length = dim then pure (Op.ins id lv v) else none
    | _ => none
  | 'r' :: rest =>
    match (String.ofList rest).splitOn ":" with
    | [id, pick] => do
      let id ← id.toNat?
      let pick ← pick.toNat?
      pure (Op.rem id pick)
    | _ => none
  | _ => none

def parseOps (dim : Nat) (s : String) : Option (List (Op Vec)) :=
  if s == "_" then some [] else (s.splitOn "|").mapM (parseOp dim)

def insVecs : List (Op Vec) → List Vec
  | [] => []
  | .ins _ _ v :: r => v :: insVecs r
  | .rem _ _ :: r => insVecs r

def eraseIdx {α : Type} (l : List α) (i : Nat) : List α := l.take i ++ l.drop (i + 1)

/-- no two inserted vectors are equally far from a third one -/
def tieFree (dist : Vec → Vec → Nat) (ws : List Vec) : Bool :=
  (List.range ws.length).all fun i =>
    match ws[i]? with
    | none => true
    | some q => nodupB ((eraseIdx ws i).map (dist q))

def showList (l : List Nat) : String := if l.isEmpty then "_" else natList l

def showDump (ix : Index Vec) : String :=
  let sorted := sortBy (fun (p : Nat × Node Vec) => p.1) ix.nodes
  let parts := sorted.map fun p => toString p.1 ++ "=" ++ joinWith "/" (p.2.nbrs.map showList)
  joinWith ";" ([match ix.entry with | none => "N" | some e => toString e, toString ix.maxLevel] ++ parts)

/-- after the history: a search from every inserted vector (k = 2, ef = ef_construction) must pass
the executable search specification `checkSound` -/
def searchesSound (c : Cfg Vec) (ix : Index Vec) (qs : List Vec) : Bool :=
  qs.all fun q =>
    let d := dq c ix.nodes q
    checkSound (keys ix.nodes) d 2 (searchWithEf ix.toGraph d 2 c.efc c.fuel) == "sound"

structure Line where
  cfg : Cfg Vec
  ops : List (Op Vec)

def parseLine (args : List String) : Option Line :=
  match args with
  | [metric, alpha, dim, m, mMax, efc, seed, ml, ops] => do
    let dim ← dim.toNat?
    let m ← m.toNat?
    let mMax ← mMax.toNat?
    let efc ← efc.toNat?
    let _ ← seed.toNat?
    let _ ← ml.toNat?
    let (num, den) ← (match alpha.splitOn "/" with
      | [a, b] => do
        let a ← a.toNat?
        let b ← b.toNat?
        pure (a, b)
      | _ => none)
    if dim = 0 || dim > 8 then none else
    let ops ← parseOps dim ops
    let c ← mkCfg metric num den m mMax efc (ops.length + 2)
    pure { cfg := c, ops := ops }
  | _ => none

def coreVerdict (c : Cfg Vec) (ops : List (Op Vec)) : String :=
  let ix := run c ops
  let v := verdictCore c.m c.mMax ix
  if searchesSound c ix (insVecs ops) then v
  else if v == "ok" then "viol:s" else v ++ ",s"

/-! quantisation lines -/

def parseBits (s : String) : Option (List Bool) :=
  if s == "-" then some []
  else s.toList.mapM fun ch => if ch == '0' then some false else if ch == '1' then some true else none

def handle (args : List String) : Option Out :=
  match args with
  | "hist" :: rest => do
    let l ← parseLine rest
    if !(tieFree l.cfg.dist (insVecs l.ops)) then pure { model := "ties" }
    else
      let ix := run l.cfg l.ops
      pure { model := coreVerdict l.cfg l.ops ++ "#" ++ verdictShape ix ++ "#" ++ toString ix.len
                        ++ "#" ++ showDump ix }
  | "inv" :: rest => do
    let l ← parseLine rest
    let v := coreVerdict l.cfg l.ops
    pure { model := v, spec := "ok", sig := if v == "ok" then "-" else "hcon-invariant" }
  | ["bq.ham", a, b] => do
    let a ← parseIntList a
    let b ← parseIntList b
    let h := hammingWords (bqQuantize a) (bqQuantize b)
    let spec := if a.length = b.length then toString (diffBits (signBits a) (signBits b)) else "-"
    pure { model := natList (bqQuantize a) ++ ";" ++ natList (bqQuantize b) ++ ";" ++ toString h,
           spec := if spec == "-" then "-" else natList (bqQuantize a) ++ ";" ++ natList (bqQuantize b) ++ ";" ++ spec,
           sig := if spec == "-" || spec == toString h then "-" else "hcon-hamming" }
  | ["sq.rt", mn, lg, xs] => do
    let mn ← mn.toInt?
    let lg ← lg.toNat?
    let xs ← parseIntList xs
    if lg > 6 || xs.isEmpty then none else
    let s := 2 ^ lg
    let qs := xs.map (sqQuantize mn s)
    let back := qs.map (sqDequantize mn s)
    let inRange := xs.all fun x => decide (mn ≤ x ∧ x ≤ mn + 255 * s)
    let within := (List.zipWith (fun (x y : Int) => decide (y ≤ x ∧ x < y + s)) xs back).all id
    let body := natList qs ++ ";" ++ intList back
    pure { model := body ++ ";" ++ (if within then "within" else "off"),
           spec := if inRange then body ++ ";within" else "-",
           sig := if inRange && !within then "hcon-sq-step" else "-" }
  | _ => none

end DriverHnswBuild
