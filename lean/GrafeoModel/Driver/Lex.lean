import GrafeoModel.Driver.Proto

/-! Stream `lex` (stub: filled in by the owner of this stream). Stateless lines. -/
namespace Grafeo.DriverLex
open Grafeo.Proto

def handle (args : List String) : Option Proto.Out :=
  match args with
  | _ => none

end Grafeo.DriverLex
