import GrafeoModel.Model.Lex
import GrafeoModel.Driver.Proto

/-!
Stream `lex` (C12). Stateless lines; query text = lowercase hex of its UTF-8 bytes (`-` = empty).

  lex gql <hex>               CORRESPONDENCE: the token list of `Model/Lex.lean` (`tokenize`, the function
                              the theorems of `Props/C12.lean` are about) as `class:start-end,…`;
                              `spec = -` (the token list itself is not constrained by the property)
  lex gql.ok <hex>            model = spec = `no-panic` (backed by `c12_lexer_boundary` /
                              `c12_lexer_terminates`: every slice is legal, the loop ends)
  lex run <lang> <db> <hex>   EXPLORATION (search, not proof).  The front ends (parser, translator,
                              binder, planner, executor of the five languages) are NOT modelled: the
                              "model" of a front end is only the claim that it returns, so
                              model = spec = `returned` — except for shapes recognised from the op
                              line alone as a known deviation class (see `knownDeviation`), where
                              model = what the implementation really does and spec = `returned`.
-/
namespace Grafeo.DriverLex
open Grafeo.Proto Grafeo.Lex

/-! ### UTF-8 decoding (the harness only ever sends valid UTF-8: it hex-encodes a Rust `&str`) -/

def isCont (b : Nat) : Bool := 0x80 ≤ b && b < 0xC0

partial def decodeUtf8 (bs : List Nat) (acc : Array Char) : Option (Array Char) :=
  match bs with
  | [] => some acc
  | b0 :: r =>
    if b0 < 0x80 then decodeUtf8 r (acc.push (Char.ofNat b0))
    else if 0xC0 ≤ b0 && b0 < 0xE0 then
      match r with
      | b1 :: r' =>
        if isCont b1 then decodeUtf8 r' (acc.push (Char.ofNat ((b0 - 0xC0) * 64 + (b1 - 0x80))))
        else none
      | _ => none
    else if 0xE0 ≤ b0 && b0 < 0xF0 then
      match r with
      | b1 :: b2 :: r' =>
        if isCont b1 && isCont b2 then
          decodeUtf8 r' (acc.push (Char.ofNat ((b0 - 0xE0) * 4096 + (b1 - 0x80) * 64 + (b2 - 0x80))))
        else none
      | _ => none
    else if 0xF0 ≤ b0 && b0 < 0xF8 then
      match r with
      | b1 :: b2 :: b3 :: r' =>
        if isCont b1 && isCont b2 && isCont b3 then
          decodeUtf8 r' (acc.push (Char.ofNat
            ((b0 - 0xF0) * 262144 + (b1 - 0x80) * 4096 + (b2 - 0x80) * 64 + (b3 - 0x80))))
        else none
      | _ => none
    else none

def parseText (h : String) : Option (List Char) := do
  let bs ← parseHex h
  let cs ← decodeUtf8 bs #[]
  pure cs.toList

/-! ### printing -/

def clsName : Cls → String
  | .eof => "eof" | .error => "error" | .string => "string" | .qident => "qident"
  | .param => "param" | .int => "int" | .float => "float" | .word => "word" | .punct => "punct"

def showTok (t : Tok) : String := s!"{clsName t.cls}:{t.start}-{t.stop}"

/-- the harness stops after 10000 tokens and appends `runaway` when no `eof` arrived by then -/
def maxTokens : Nat := 10000

def showToks (ts : List Tok) : String :=
  if ts.length > maxTokens then joinWith "," ((ts.take maxTokens).map showTok ++ ["runaway"])
  else joinWith "," (ts.map showTok)

/-! ### known deviation classes of the front-end exploration, recognised from the op line alone

Each class: a shape test on (language, database, query text), what the implementation really does
on that shape (`model`), and the deviation's signature; `spec` stays `returned`.  The tests are
deliberately simple and err on one side only: a text they flag may still be answered with
`returned` (e.g. because it fails to parse before the defect is reached) — check.py counts
impl = spec ≠ model under a listed signature as "repaired upstream", never as a failure; a failing
text they do NOT flag shows up as an implementation/model disagreement, i.e. as an unlisted finding.

Nothing here is a model of a parser: these are classifiers for findings of the search. -/

/-- deepest nesting reached, counting only the given opening / closing characters (quotes are not
interpreted) -/
def bracketDepth (opens closes : List Char) (cs : List Char) : Nat :=
  let step := fun (st : Nat × Nat) (c : Char) =>
    if opens.contains c then (st.1 + 1, max st.2 (st.1 + 1))
    else if closes.contains c then (st.1 - 1, st.2)
    else st
  (cs.foldl step (0, 0)).2

/-- the text after the first occurrence of `pat` -/
partial def afterFirst (pat cs : List Char) : Option (List Char) :=
  if pat.isPrefixOf cs then some (cs.drop pat.length)
  else match cs with
    | [] => none
    | _ :: r => afterFirst pat r

/-- the texts after every occurrence of `pat` -/
partial def afterEach (pat cs : List Char) (acc : List (List Char) := []) : List (List Char) :=
  match cs with
  | [] => acc.reverse
  | _ :: r =>
    if pat.isPrefixOf cs then afterEach pat r (cs.drop pat.length :: acc) else afterEach pat r acc

def countOcc (pat cs : List Char) : Nat := (afterEach pat cs).length

def skipSp (cs : List Char) : List Char := cs.dropWhile fun c => c == ' ' || c == '\t' || c == '\n' || c == '\r'

def digitsOf (cs : List Char) : List Char × List Char := cs.span fun c => '0' ≤ c && c ≤ '9'

/-- an optionally negative decimal integer literal -/
def intLit (cs : List Char) : Option (Int × List Char) :=
  let (neg, r) := match cs with
    | '-' :: r => (true, r)
    | _ => (false, cs)
  let (ds, rest) := digitsOf r
  if ds.isEmpty then none
  else
    let n : Nat := ds.foldl (fun a c => 10 * a + (c.toNat - 48)) 0
    some (if neg then -(n : Int) else (n : Int), rest)

def inI64 (i : Int) : Bool := -(2 ^ 63 : Int) ≤ i && i < (2 ^ 63 : Int)

/-- `i as usize` on a 64-bit target -/
def asU64 (i : Int) : Nat := (i % (2 ^ 64 : Int)).toNat

/-- nesting (or operator / step chains) deep enough to overflow the 8 MiB main-thread stack of the
harness child: recursive-descent parsers and recursive translators / planners / destructors without
a depth limit.  The thresholds sit just below the smallest depth at which the dev-profile build was
seen to overflow for any construct of that kind (brackets: GQL 1538 `CASE`, Cypher 1806 `NOT (`,
SPARQL 2099 `STR(`, GraphQL 3710 selection sets; chains: `NOT`/`AND` 6250, GQL `+` 7323, Gremlin
`.from(g.V()…` 6933 and `.out()` steps 8397); they are measurements, not constants of the code. -/
def deepNesting (lang : String) (cs : List Char) : Bool :=
  let chains := countOcc "NOT".toList cs ≥ 6000 || countOcc "AND".toList cs ≥ 6000
  if lang == "gql" then
    bracketDepth ['(', '['] [')', ']'] cs ≥ 1500 || countOcc "CASE".toList cs ≥ 1500 ||
    chains || countOcc ['+'] cs ≥ 7000
  else if lang == "cypher" then
    bracketDepth ['(', '[', '{'] [')', ']', '}'] cs ≥ 1750 || countOcc "CASE".toList cs ≥ 1750 ||
    chains
  else if lang == "sparql" then bracketDepth ['(', '{'] [')', '}'] cs ≥ 2000
  else if lang == "graphql" then bracketDepth ['{'] ['}'] cs ≥ 3500
  else if lang == "gremlin" then countOcc ['('] cs ≥ 6500
  else false

/-- (what the implementation does, signature) for a recognised shape -/
def knownDeviation (_lang _db : String) (_cs : List Char) : Option (String × String) :=
  -- deep nesting used to overflow the stack (`deepNesting`: the measured thresholds); the parsers
  -- and the plan now carry depth limits and answer with an error, so nothing deviates here
  none

def handle (args : List String) : Option Proto.Out :=
  match args with
  | ["gql", h] => do
    let cs ← parseText h
    pure { model := showToks (tokenize cs) }
  | ["gql.ok", h] => do
    let _ ← parseText h
    pure { model := "no-panic", spec := "no-panic" }
  | ["run", lang, db, h] => do
    if !(["gql", "cypher", "gremlin", "graphql", "sparql"].contains lang) then none
    if !(["empty", "small"].contains db) then none
    let cs ← parseText h
    match knownDeviation lang db cs with
    | some (actual, sig) => pure { model := actual, spec := "returned", sig := sig }
    | none => pure { model := "returned", spec := "returned" }
  | _ => none

end Grafeo.DriverLex
