import GrafeoModel.Model.Persist
import GrafeoModel.Driver.Lpg

/-! Stream `pers`: persistent GrafeoDB — mutate, checkpoint, close, reopen, dump (C05, C07). -/
namespace Grafeo.DriverPers
open Grafeo.Lpg Grafeo.Proto Grafeo.DriverLpg
open Grafeo.Persist (Db LOp WRec copyStore)

structure St where
  db : Db := {}                     -- the model: live store + log (`Persist.Db`)
  g : DriverLpg.St := {}            -- plain-graph specification (its `st` mirrors `db.live`)
  isOpen : Bool := false
  -- what happened since the data was last known to be on disk (for the signature)
  sawRnp : Bool := false
  sawQuery : Bool := false
  sawMidCkpt : Bool := false

def insertPairNat (x : Nat × Nat) : List (Nat × Nat) → List (Nat × Nat)
  | [] => [x]
  | y :: ys => if x.1 < y.1 || (x.1 == y.1 && x.2 ≤ y.2) then x :: y :: ys else y :: insertPairNat x ys

def dumpStore (s : Store) : String :=
  let ns := (sortNat s.nodeIds).map (fun id =>
    s!"{id}:{natList (sortNat (s.nodeLabelsOf id))}:{showProps (s.nodePropsOf id)}")
  let es := (sortNat s.edgeIds).map (fun id =>
    match aget s.edges id with
    | some (_, r) => s!"{id}:{r.src}>{r.dst}:{r.ty}:{showProps ((aget s.eprops id).getD [])}"
    | none => s!"{id}:?")
  let showAdj := fun (l : List (Nat × Nat)) =>
    joinWith "," ((l.map (fun p => (p.2, p.1))).foldr insertPairNat [] |>.map (fun p => s!"{p.1}.{p.2}"))
  let adj := (sortNat s.nodeIds).map (fun id => s!"{id}>{showAdj (s.outEdges id)}<{showAdj (s.inEdges id)}")
  joinWith ";" ns ++ "|" ++ joinWith ";" es ++ "|" ++ joinWith ";" adj

def dumpSpec (z : DriverLpg.St) : String :=
  let nids := sortNat ((z.sn.filter (fun kv => kv.2.alive)).map (·.1))
  let ns := nids.map (fun id => match aget z.sn id with
    | some n => s!"{id}:{natList (sortNat n.labels)}:{showProps n.props}"
    | none => "?")
  let eids := sortNat ((z.se.filter (fun kv => kv.2.alive)).map (·.1))
  let es := eids.map (fun id => match aget z.se id with
    | some e => s!"{id}:{e.src}>{e.dst}:{e.ty}:{showProps e.props}"
    | none => "?")
  -- the specification's adjacency: every live edge, filed under its source and under its target
  let live := eids.filterMap (fun id => (aget z.se id).map (fun e => (id, e)))
  let adj := nids.map (fun n =>
    let o := (live.filter (fun p => p.2.src == n)).map (fun p => s!"{p.1}.{p.2.dst}")
    let i := (live.filter (fun p => p.2.dst == n)).map (fun p => s!"{p.1}.{p.2.src}")
    s!"{n}>{joinWith "," o}<{joinWith "," i}")
  joinWith ";" ns ++ "|" ++ joinWith ";" es ++ "|" ++ joinWith ";" adj

def sigNow (z : St) : String :=
  if !z.g.ghost.isEmpty || !z.g.ghostE.isEmpty then "property-set-on-missing-node"
  else if z.sawQuery then "query-mutation-not-logged"
  else if z.sawRnp then "remove-property-not-logged"
  else if z.sawMidCkpt then "checkpoint-discards-preceding-records"
  else "reopen-differs"

def mk (m s sig : String) : Proto.Out := { model := m, spec := s, sig := if m == s then "-" else sig }

/-- one logged API call: the model side is `Db.api` (the function the C05 theorem is about);
the `lpg` handler is run on the same store only to keep the plain-graph specification in step
and to render the call's return value. -/
def logged (z : St) (op : LOp) (lpgArgs : List String) : Option (St × Proto.Out) := do
  let (g', o) ← DriverLpg.handle { z.g with st := z.db.live } lpgArgs
  let db' := z.db.api op
  pure ({ z with db := db', g := { g' with st := db'.live } }, o)

def handle (z : St) (args : List String) : Option (St × Proto.Out) :=
  match args with
  | ["open"] => some ({ isOpen := true }, { model := "-" })
  | ["cn", ls] => do logged z (.createNode (← parseNatList ls)) ["cn", ls]
  | ["snp", id, k, v] => do logged z (.setNodeProp (← id.toNat?) (← k.toNat?) v) ["snp", id, k, v]
  | ["dn", id] => do logged z (.deleteNode (← id.toNat?)) ["dn", id]
  | ["ce", s, d, t] => do logged z (.createEdge (← s.toNat?) (← d.toNat?) (← t.toNat?)) ["ce", s, d, t]
  | ["de", id] => do logged z (.deleteEdge (← id.toNat?)) ["de", id]
  | ["sep", id, k, v] => do logged z (.setEdgeProp (← id.toNat?) (← k.toNat?) v) ["sep", id, k, v]
  | ["al", id, l] => do logged z (.addLabel (← id.toNat?) (← l.toNat?)) ["al", id, l]
  | ["rl", id, l] => do logged z (.removeLabel (← id.toNat?) (← l.toNat?)) ["rl", id, l]
  | ["rnp", id, k] => do
    -- `GrafeoDB::remove_node_property`: answers whether something was removed; logged if so
    let (st', o) ← logged z (.removeNodeProp (← id.toNat?) (← k.toNat?)) ["rnp", id, k]
    let f := fun (x : String) => if x == "none" then "none" else "removed"
    pure (st', { model := f o.model, spec := f o.spec, sig := if f o.model == f o.spec then "-" else o.sig })
  | ["qins", l, k, v] => do
    -- `INSERT (:L {k: v})` through a session query: applied to the store, never logged
    let (g1, o) ← DriverLpg.handle { z.g with st := z.db.live } ["cn", l]
    let (g2, _) ← DriverLpg.handle g1 ["snp", o.model, k, v]
    pure ({ z with db := { z.db with live := g2.st }, g := g2, sawQuery := true }, o)
  | ["ckpt"] => some ({ z with db := z.db.api .checkpoint, sawMidCkpt := true }, { model := "-" })
  -- the log continues in its next file: no effect on what a reopen returns
  | ["rotate"] => some (z, { model := "-" })
  | ["close"] => some ({ z with db := z.db.close }, { model := "-" })
  | ["reopen"] =>
    let d' := z.db.close.reopen
    some ({ z with db := d', g := { z.g with st := d'.live } }, { model := "-" })
  | ["dump"] =>
    some (z, mk (dumpStore z.g.st) (dumpSpec z.g) (sigNow z))
  | ["resync"] =>
    -- the specification adopts the observed state (so that one loss does not mask later ones)
    let sn' : AList SNode := (sortNat z.g.st.nodeIds).map (fun id => (id, ⟨true, z.g.st.nodeLabelsOf id, z.g.st.nodePropsOf id⟩))
    let se' : AList SEdge := (sortNat z.g.st.edgeIds).filterMap (fun id => match aget z.g.st.edges id with
      | some (_, r) => some (id, ⟨true, r.src, r.dst, r.ty, (aget z.g.st.eprops id).getD []⟩)
      | none => none)
    -- ids that carry properties without being live nodes (left behind by C14's finding)
    let ghost' := (z.g.st.nprops.filter (fun kv => !kv.2.isEmpty && !z.g.st.nodeIds.contains kv.1)).map (·.1)
    some ({ z with g := { z.g with sn := sn', se := se', ghost := ghost', ghostE := (z.g.st.eprops.filter (fun kv => !kv.2.isEmpty && !z.g.st.edgeIds.contains kv.1)).map (·.1) }, sawRnp := false, sawQuery := false, sawMidCkpt := false }, { model := "-" })
  | ["copy", _kind] =>
    -- export+import / to_memory / save+open: all enumerate the source and re-create with ids
    some (z, mk (dumpStore (copyStore z.g.st)) (dumpSpec z.g)
      (if !z.g.ghost.isEmpty || !z.g.ghostE.isEmpty then "property-set-on-missing-node" else "copy-differs-from-source"))
  | ["copyadd", _kind, n] => do
    -- a copy is a database of its own: edges created on it afterwards get fresh ids (its counters
    -- must sit above every copied id, whatever order the copy was filled in)
    let n ← n.toNat?
    let t0 : DriverLpg.St := { z.g with st := copyStore z.g.st }
    let ids := sortNat t0.st.nodeIds
    match ids.head?, ids.getLast? with
    | some a, some b =>
      let step := fun (acc : Option (DriverLpg.St × List String × List String)) (_ : Nat) => do
        let (t, ms, ss) ← acc
        let (t', o) ← DriverLpg.handle t ["ce", toString a, toString b, "0"]
        pure (t', ms ++ [o.model], ss)
      let (t, ms, ss) ← (List.range n).foldl step (some (t0, [], []))
      some (z, mk (joinWith "," ms ++ "|" ++ dumpStore t.st) (joinWith "," ms ++ "|" ++ dumpSpec t) "copy-counter-collides")
    | _, _ => some (z, { model := "-" })
  | _ => none

end Grafeo.DriverPers
