import GrafeoModel.Driver.Proto
/-! stream `alg2` (stub; replaced by its builder) -/
open Grafeo Grafeo.Proto
namespace DriverAlgo2
def handle (_args : List String) : Option Out := none
end DriverAlgo2
