import GrafeoModel.Model.Algo2
import GrafeoModel.Driver.Algo
import GrafeoModel.Driver.Proto
/-!
Stream `alg2` (C19): the executable models of the algorithms' own loops (`Model/Algo2.lean`).

  alg2 <op> <n> <edges> [<source>]     edges = `u>v:w,…` or `-`; nodes are `0 .. n-1`
  alg2 uf <n> <script>                 script = `u.x.y,f.x,c.x.y,…` on `UnionFind::new(n)`

`model` is what the model of the code computes, printed as the harness prints the real result.
`spec = model` only when the proved-sound checker of `Model/Graph.lean` accepts the model's result
(`checker-rejects` otherwise), so a line where impl = model = spec says: the real output is the
output of the model, and that output is correct by a theorem of `Props/C19.lean`.

  bfs          discovery order              checkReachOrder on the order itself
  bfs.layers   layers                       checkSssp over unit weights on (node, layer index)
  dfs          post-order                   same set as the certified BFS order, no duplicates
  wcc          component id per node        checkWcc on the classes (certificate: model BFS over sym)
  topo         valid / none                 checkTopo on the model's order / checkCycle
  kruskal      chosen edges / total         checkSpanning + executable cycle property
  dijkstra, bellman_ford   distance map     checkSssp / checkNegCycle
  uf           script results               (`-`: the theorems of Props/C19Algo.lean speak for it)
-/
open Grafeo Grafeo.Proto Grafeo.Graph Grafeo.Algo2
namespace DriverAlgo2
open Grafeo.DriverAlgo (parseEdges showDist sortNat wellFormed certified mk ssspOrder conn reachOrder cycleVia)

def showList (l : List Nat) : String := if l.isEmpty then "-" else natList l

def showEdges (t : List Edge) : String :=
  if t.isEmpty then "-" else joinWith "," (t.map fun e => s!"{e.1}>{e.2.1}:{e.2.2}")

/-- the classes of a labelling (entry `i` = label of node `i`), each class certified by a model BFS
over the symmetrised edges from its least element -/
def classesOf (es : List Edge) (n : Nat) (lab : List Nat) : List (List Nat) × Bool :=
  let ids := (lab.foldl (fun acc c => if acc.contains c then acc else acc ++ [c]) [])
  let cls := ids.map fun c => (List.range n).filter fun v => lab.getD v n == c
  let cert := cls.map fun c => match c with
    | [] => []
    | r :: _ => bfs n (sym es) r
  (cert, (cls.zip cert).all fun p => sortNat p.1 == sortNat p.2)

def arrOf (n : Nat) (r : List (Nat × Int)) : Array (Option Int) :=
  r.foldl (fun a q => a.setIfInBounds q.1 (some q.2)) (Array.replicate n none)

/-- a closed chain of edges found by walking predecessor edges backwards (unverified search; the
result goes through `checkCycle`) -/
def findCycle (es : List Edge) (n : Nat) : List Edge :=
  -- nodes that still have an in-edge from the remaining set after peeling sources n times
  let rem := Grafeo.DriverAlgo.iter (fun (rem : List Nat) =>
    rem.filter fun v => es.any fun e => e.2.1 == v && rem.contains e.1) n (List.range n)
  match rem with
  | [] => []
  | v :: _ => cycleVia (fun x => es.find? fun e => e.2.1 == x && rem.contains e.1) n v

def runUf (n : Nat) (ops : List String) : Option String :=
  let rec go (u : UF) (ops : List String) (acc : List String) : Option (Option (List String)) :=
    match ops with
    | [] => some (some acc)
    | op :: rest =>
      match op.splitOn "." with
      | ["u", x, y] =>
        match x.toNat?, y.toNat? with
        | some x, some y =>
          if x < n && y < n then
            let r := u.union x y
            go r.1 rest (acc ++ [if r.2 then "t" else "f"])
          else some none
        | _, _ => none
      | ["c", x, y] =>
        match x.toNat?, y.toNat? with
        | some x, some y =>
          if x < n && y < n then
            let r := u.connected x y
            go r.1 rest (acc ++ [if r.2 then "t" else "f"])
          else some none
        | _, _ => none
      | ["f", x] =>
        match x.toNat? with
        | some x =>
          if x < n then
            let r := u.find x
            go r.1 rest (acc ++ [toString r.2])
          else some none
        | none => none
      | _ => none
  -- the real code validates the whole script lazily: a malformed op after a panic is never seen
  match go (UF.new n) ops [] with
  | none => none
  | some none => some "panic"
  | some (some acc) => some (if acc.isEmpty then "-" else joinWith "," acc)

def handle (args : List String) : Option Out :=
  match args with
  | ["uf", n, script] => do
    let n ← n.toNat?
    let ops := if script == "-" then [] else script.splitOn ","
    let r ← runUf n ops
    pure { model := r }
  | [op, n, edges] => do
    let n ← n.toNat?
    let es ← parseEdges edges
    if !wellFormed es n then none
    else if op == "wcc" then
      let lab := connectedComponents n es
      let c := classesOf es n lab
      pure (certified (showList lab) (lab.length == n && c.2 && checkWcc es n c.1))
    else if op == "topo" then
      match kahn n es with
      | some o => pure (certified "valid" (checkTopo es n o))
      | none => pure (certified "none" (checkCycle es (findCycle es n)))
    else if op == "kruskal" then
      let r := kruskal n es
      let c := classesOf r.1 n (connectedComponents n r.1)
      pure (certified (showEdges r.1 ++ "/" ++ toString r.2)
        (r.2 == totalWeight r.1 && c.2 && checkSpanning es n r.1 c.1 && checkCycleProperty conn es r.1))
    else none
  | [op, n, edges, src] => do
    let n ← n.toNat?
    let es ← parseEdges edges
    let s ← src.toNat?
    if !wellFormed es n then none
    else if op == "bfs" then
      let o := bfs n es s
      pure (if s < n then certified (showList o) (checkReachOrder es s o) else { model := showList o })
    else if op == "bfs.layers" then
      let ls := bfsLayers n es s
      let m := if ls.isEmpty then "-" else joinWith "|" (ls.map showList)
      let r : List (Nat × Int) := ((List.range ls.length).zip ls).flatMap fun p => p.2.map fun v => (v, Int.ofNat p.1)
      pure (if s < n then certified m (checkSssp (unit es) s r) else { model := m })
    else if op == "dfs" then
      let o := dfs n es s
      let b := bfs n es s
      pure (if s < n then certified (showList o) (checkReachOrder es s b && sortNat o == sortNat b)
        else { model := showList o })
    else if op == "dijkstra" then
      if es.any fun e => e.2.2 < 0 then none
      else
        match dijkstra n es s with
        | none => pure { model := "out-of-fuel" }
        | some r =>
          pure (if s < n then certified (showDist r) (checkSssp es s (ssspOrder es s (arrOf n r)) &&
              showDist r == showDist (ssspOrder es s (arrOf n r)))
            else { model := showDist r })
    else if op == "bellman_ford" then
      let r := bellmanFord n es s
      if s ≥ n then pure { model := showDist r.1 }
      else if r.2 then
        -- a still-relaxable edge: certify a reachable negative cycle with the reference search
        match Grafeo.DriverAlgo.ssspRef es n s with
        | .neg order cyc => pure (certified "negcycle" (checkNegCycle es s order cyc))
        | .dist _ => pure (certified "negcycle" false)
      else
        pure (certified (showDist r.1) (checkSssp es s (ssspOrder es s (arrOf n r.1)) &&
          showDist r.1 == showDist (ssspOrder es s (arrOf n r.1))))
    else none
  | _ => none
end DriverAlgo2
