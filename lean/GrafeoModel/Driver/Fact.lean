import GrafeoModel.Model.Fact
import GrafeoModel.Driver.Proto

/-! Stream `fact`: factorized chunks (`harness/src/fact.rs` documents the argument formats).
Stateless lines.  `model` = what the model of the Rust code computes, `spec` = the same question
answered on the flat relation the chunk denotes (`-` when the chunk is not one the constructors'
contract covers, or when the op's arguments address a column that does not exist). -/
open Grafeo Grafeo.Proto Grafeo.Fact
namespace DriverFact

/-! ### parsing -/

def parseVal (t : String) : Option (Option Int) :=
  if t == "~" then some none else (t.toInt?).map some

def parseVals (s : String) : Option (List (Option Int)) :=
  if s == "-" then some [] else (s.splitOn ",").mapM parseVal

def parseNats (s : String) : Option (List Nat) :=
  if s == "-" then some [] else (s.splitOn ",").mapM (·.toNat?)

/-- a level description `offs;col;col…` (`offs` = `-` for a flat level); at least one column,
all columns of the same length -/
def parseLevel (s : String) : Option (Option (List Nat) × List (List (Option Int))) :=
  match s.splitOn ";" with
  | o :: c :: cs => do
    let offs ← if o == "-" then some none else (parseNats o).map some
    let cols ← (c :: cs).mapM parseVals
    let n := (cols.headD []).length
    if cols.all (fun d => d.length == n) then some (offs, cols) else none
  | _ => none

inductive Built where
  | panic
  | ok (c : Chunk)

/-- `E` = `FactorizedChunk::empty()`; otherwise levels separated by `/`: a flat first level goes
through `with_flat_level`, every level with offsets through `add_level`. -/
def buildChunk (s : String) : Option Built :=
  if s == "E" then some (.ok Chunk.empty) else do
    let lv ← (s.splitOn "/").mapM parseLevel
    match lv with
    | [] => none
    | (o0, c0) :: rest =>
      if rest.any (fun l => l.1.isNone) then none else
      let start : Built := match o0 with
        | none => .ok (withFlatLevel c0)
        | some o => match addLevel Chunk.empty c0 o with
          | none => .panic
          | some c => .ok c
      some (rest.foldl (fun b l => match b with
        | .panic => .panic
        | .ok c => match addLevel c l.2 (l.1.getD []) with
          | none => .panic
          | some c' => .ok c') start)

inductive Pred where
  | lt (k : Int) | le (k : Int) | gt (k : Int) | ge (k : Int) | eq (k : Int) | ne (k : Int)
  | isNull | notNull | all

def Pred.eval : Pred → Option Int → Bool
  | .lt k, some v => decide (v < k)
  | .le k, some v => decide (v ≤ k)
  | .gt k, some v => decide (v > k)
  | .ge k, some v => decide (v ≥ k)
  | .eq k, some v => decide (v = k)
  | .ne k, some v => decide (v ≠ k)
  | .isNull, v => v.isNone
  | .notNull, v => v.isSome
  | .all, _ => true
  | _, none => false

def parsePred (s : String) : Option Pred :=
  match s.splitOn ":" with
  | ["null"] => some .isNull
  | ["notnull"] => some .notNull
  | ["all"] => some .all
  | [o, k] => do
    let k ← k.toInt?
    match o with
    | "lt" => some (.lt k) | "le" => some (.le k) | "gt" => some (.gt k)
    | "ge" => some (.ge k) | "eq" => some (.eq k) | "ne" => some (.ne k)
    | _ => none
  | _ => none

/-! ### rendering -/

def valStr : Option Int → String
  | none => "~"
  | some i => toString i

def colStr (d : List (Option Int)) : String :=
  if d.isEmpty then "-" else joinWith "," (d.map valStr)

def colsStr (cs : List (List (Option Int))) : String :=
  if cs.isEmpty then "-" else joinWith "|" (cs.map colStr)

def tupStr (ts : List (List Nat)) : String :=
  if ts.isEmpty then "-" else joinWith ";" (ts.map fun t => joinWith "." (t.map toString))

def totalCols (levels : List Level) : Nat := (levels.map fun l => l.cols.length).sum

/-- what the harness prints for a flattened chunk: column count, row count (first column), columns -/
def flatStr (cols : List (List (Option Int))) : String :=
  s!"k={cols.length} n={(cols.headD []).length} {colsStr cols}"

def rowsAsCols (k : Nat) (rows : List (List (Option Int))) : List (List (Option Int)) :=
  (List.range k).map fun j => rows.map fun r => (r[j]?).join

def specFlatStr (k : Nat) (rows : List (List (Option Int))) : String :=
  if k == 0 then "k=0 n=0 -" else s!"k={k} n={rows.length} {colsStr (rowsAsCols k rows)}"

def chunkStr (c : Chunk) : String := s!"{flatStr (flattenCols c)} lrc={c.lrc}"

def specChunkStr (levels : List Level) : String :=
  let rows := flatRows levels
  s!"{specFlatStr (totalCols levels) rows} lrc={rows.length}"

/-! ### decidable well-formedness (mirrors `wfLevels`) -/

def wfChainB : Nat → List Level → Bool
  | _, [] => true
  | n, l :: ls => l.mults.length == n && l.groupCount == l.mults.sum && l.offs == some (prefixSums l.mults) &&
      l.cols.all (fun d => d.length == l.groupCount) && wfChainB l.groupCount ls

def wfB : List Level → Bool
  | [] => true
  | l0 :: rest => l0.cols.all (fun d => d.length == l0.groupCount) && wfChainB l0.groupCount rest

/-- level 0 built by `add_level` on the empty chunk carries offsets: the contract also covers it when
its offsets are the prefix sums of its multiplicities -/
def wfAny (levels : List Level) : Bool :=
  wfB levels && match levels with
    | [] => true
    | l0 :: _ => l0.offs.isNone || l0.offs == some (prefixSums l0.mults)

def gcdN : Nat → Nat → Nat := Nat.gcd

def fracStr : Option (Int × Nat) → String
  | none => "~"
  | some (s, n) =>
    if n == 0 then "div0" else
    let g := Nat.gcd s.natAbs n
    if g == 0 then "0/1" else s!"{s / (g : Int)}/{n / g}"

def ovStr : Option (Option Int) → String
  | none => "~"
  | some v => valStr v

def aggStr (c : Chunk) (ci : Nat) : String :=
  let sumS := match sumDeepest c ci with | none => "~" | some s => toString s
  s!"count={c.lrc} cc={countColumn c ci} sum={sumS} avg={fracStr (avgDeepest c ci)} min={ovStr (minDeepest c ci)} max={ovStr (maxDeepest c ci)}"

def specAggStr (levels : List Level) (ci : Nat) : String :=
  let rows := denote levels
  let vs := rows.map (lastVal ci)
  s!"count={rows.length} cc={specCountCol vs} sum={specSum vs} avg={fracStr (specAvg vs)} min={valStr (specMin vs)} max={valStr (specMax vs)}"

def aggSig (c : Chunk) (ci : Nat) : String :=
  let vs := (denote c.levels).map (lastVal ci)
  let parts : List String :=
    (if c.lrc != (denote c.levels).length then ["fact-count"] else []) ++
    (if countColumn c ci != specCountCol vs then ["fact-countcol"] else []) ++
    (if sumDeepest c ci != some (specSum vs) then ["fact-sum"] else []) ++
    (if fracStr (avgDeepest c ci) != fracStr (specAvg vs) then
      [if vs.any Option.isNone then "fact-avg-divides-by-null-rows" else "fact-avg"] else []) ++
    (if ovStr (minDeepest c ci) != valStr (specMin vs) then
      [if vs.any Option.isNone then "fact-min-null-is-least" else "fact-min"] else []) ++
    (if ovStr (maxDeepest c ci) != valStr (specMax vs) then ["fact-max"] else [])
  if parts.isEmpty then "-" else joinWith "+" parts

/-! ### graphs for the chain ops -/

/-- `s>t` pairs; edge `i` (creation order) has id `i` -/
def parseEdges (s : String) : Option (List (Nat × Nat)) :=
  if s == "-" then some [] else
    (s.splitOn ",").mapM fun e =>
      match e.splitOn ">" with
      | [a, b] => do
        let a ← a.toNat?
        let b ← b.toNat?
        pure (a, b)
      | _ => none

/-- outgoing `(edge id, target)` of a node, in creation order; ids that are not nodes have none -/
def adjOf (n : Nat) (edges : List (Nat × Nat)) (s : Nat) : List (Nat × Nat) :=
  if s ≥ n then [] else
    edges.zipIdx.filterMap fun (e, i) => if e.1 == s then some (i, e.2) else none

def mkOut (model spec sig : String) : Out :=
  if model == spec then { model := model, spec := spec } else { model := model, spec := spec, sig := sig }

/-! ### chain ops -/

structure GraphArgs where
  adj : Nat → List (Nat × Nat)
  srcs : List (Option Int)
  hops : Nat

def parseSrc (t : String) : Option (Option Int) :=
  if t == "~" then some none else (t.toNat?).map fun n => some (n : Int)

def parseGraph (n e s h : String) : Option GraphArgs := do
  let n ← n.toNat?
  let edges ← parseEdges e
  if n > 64 || edges.any (fun p => p.1 ≥ n || p.2 ≥ n) then none else
  let srcs ← if s == "-" then some [] else (s.splitOn ",").mapM parseSrc
  let hops ← h.toNat?
  if hops == 0 || hops > 6 then none else
  some { adj := adjOf n edges, srcs := srcs, hops := hops }

def chainRowsStr (hops : Nat) (rows : List (List (List (Option Int)))) (withLrc : Bool) : String :=
  if rows.isEmpty then "none" else
    let base := specFlatStr (1 + 2 * hops) (rows.map List.flatten)
    if withLrc then s!"{base} lrc={rows.length}" else base

def cmpOp (o : String) (k : Int) : Option (Option Int → Bool) :=
  match o with
  | "lt" => some (Pred.lt k).eval | "le" => some (Pred.le k).eval | "gt" => some (Pred.gt k).eval
  | "ge" => some (Pred.ge k).eval | "eq" => some (Pred.eq k).eval | "ne" => some (Pred.ne k).eval
  | _ => none

/-- value at (level, column) of a denoted row; a missing level or column fails every comparison -/
def entryVal (level col : Nat) (r : List (List (Option Int))) : Option (Option Int) :=
  match r[level]? with
  | some e => e[col]?
  | none => none

def handleChain (args : List String) : Option Out :=
  match args with
  | [op, n, e, s, h] =>
    if op == "chain" || op == "chainflat" || op == "chainagg" then do
      let g ← parseGraph n e s h
      let res := chain g.adj g.srcs g.hops
      let rows := flatChain g.adj g.srcs g.hops
      match res with
      | .err => some { model := "err" }
      | .noResult =>
        if op == "chainagg" then
          some (mkOut "count=0 cc=0 sum=~ avg=~ min=~ max=~"
            (if rows.isEmpty then "count=0 cc=0 sum=~ avg=~ min=~ max=~" else "rows") "fact-chain")
        else some (mkOut "none" (chainRowsStr g.hops rows (op == "chain")) "fact-chain")
      | .chunk c =>
        if op == "chain" then some (mkOut (chunkStr c) (chainRowsStr g.hops rows true) "fact-chain")
        else if op == "chainflat" then
          some (mkOut (flatStr (flattenCols c)) (chainRowsStr g.hops rows false) "fact-chain")
        else
          let vs := rows.map (lastVal 1)
          let sp := s!"count={rows.length} cc={specCountCol vs} sum={specSum vs} avg={fracStr (specAvg vs)} min={valStr (specMin vs)} max={valStr (specMax vs)}"
          some (mkOut (aggStr c 1) sp "fact-chain-agg")
    else none
  | ["expand1", n, e, s] => do
    let g ← parseGraph n e s "1"
    let rows := flatChain g.adj g.srcs 1
    let sp := specFlatStr 3 (rows.map List.flatten)
    match expandCols g.adj g.srcs with
    | none => some { model := "err" }
    | some (offs, es, ts) =>
      let c? := if es.isEmpty then some (withFlatLevel [g.srcs]) else addLevel (withFlatLevel [g.srcs]) [es, ts] offs
      match c? with
      | none => some { model := "panic" }
      | some c => some (mkOut (flatStr (flattenCols c)) sp "fact-expand-op-no-edges-returns-sources")
  | ["chainfilt", n, e, s, h, level, col, o, k, mat] => do
    let g ← parseGraph n e s h
    let level ← level.toNat?
    let col ← col.toNat?
    let k ← k.toInt?
    let p ← cmpOp o k
    let mat ← if mat == "0" then some false else if mat == "1" then some true else none
    match chain g.adj g.srcs g.hops with
    | .err => some { model := "err" }
    | .noResult => some (mkOut "none" (chainRowsStr g.hops ((flatChain g.adj g.srcs g.hops).filter fun r =>
        match entryVal level col r with | some v => p v | none => false) true) "fact-chain")
    | .chunk c =>
      -- the selection is stored in the chunk state and read by nobody; `materialize` re-copies the
      -- deepest level with a constant-true predicate; the lazy chain hands its result out twice
      let c' := if mat && level + 1 == c.levels.length then
          (match filterDeepest c 0 (fun _ => true) with | some x => x | none => c) else c
      let one := chunkStr c'
      let rows := (flatChain g.adj g.srcs g.hops).filter fun r =>
        match entryVal level col r with | some v => p v | none => false
      let sp := chainRowsStr g.hops rows true
      let sig := if one == sp then "fact-lazy-chain-yields-twice"
        else "fact-filter-op-selection-not-applied+fact-lazy-chain-yields-twice"
      some (mkOut s!"{one} ++ {one}" sp sig)
  | _ => none


/-! ### qcase -/

def okType (x : String) : Bool :=
  let cs := x.toList
  !cs.isEmpty && cs.length ≤ 8 && cs.all (fun c => c.isAlphanum) && (cs.headD ' ').isAlpha

def insertSorted (x : String) : List String → List String
  | [] => [x]
  | y :: ys => if x < y then x :: y :: ys else y :: insertSorted x ys

def sortStrs (xs : List String) : List String := xs.foldl (fun acc x => insertSorted x acc) []

def qcaseStr (count : Bool) (rows : List (Nat × Nat)) : String :=
  if count then toString rows.length
  else if rows.isEmpty then "norows"
  else joinWith ";" (sortStrs (rows.map fun r => s!"{r.1}|{r.2}"))

def handleQcase (args : List String) : Option Out :=
  match args with
  | ["qcase", n, e, stored, q, hops, fact, mode] => do
    let n ← n.toNat?
    let edges ← parseEdges e
    if n > 64 || edges.any (fun p => p.1 ≥ n || p.2 ≥ n) then none else
    if !(okType stored && okType q) then none else
    let hops ← hops.toNat?
    if hops == 0 || hops > 4 then none else
    let fact ← if fact == "0" then some false else if fact == "1" then some true else none
    let count ← if mode == "rows" then some false else if mode == "count" then some true else none
    let ci := stored.toLower == q.toLower
    let exact := stored == q
    let later := laterHopOk fact hops ci exact
    let m := qcaseStr count (qcaseRows n edges ci later hops)
    let sp := qcaseStr count (qcaseRows n edges ci ci hops)
    some (mkOut m sp "fact-qcase")
  | _ => none

def handle (args : List String) : Option Out :=
  match args with
  | ["flatten", ch] => do
    match ← buildChunk ch with
    | .panic => some { model := "panic" }
    | .ok c =>
      let m := chunkStr c
      if wfAny c.levels then some (mkOut m (specChunkStr c.levels) "fact-flatten") else some { model := m }
  | ["iter", ch] => do
    match ← buildChunk ch with
    | .panic => some { model := "panic" }
    | .ok c =>
      let pc := tupStr (pcRows c.levels)
      let m := s!"ri={tupStr (riRows c.levels)} pc={pc} st={pc}"
      let sp := tupStr (denoteIdx c.levels)
      if wfAny c.levels then some (mkOut m s!"ri={sp} pc={sp} st={sp}" "fact-iter") else some { model := m }
  | ["agg", ch, ci] => do
    let ci ← ci.toNat?
    match ← buildChunk ch with
    | .panic => some { model := "panic" }
    | .ok c =>
      let m := aggStr c ci
      if wfAny c.levels && (deepestCol c ci).isSome then some (mkOut m (specAggStr c.levels ci) (aggSig c ci))
      else some { model := m }
  | [op, ch, ci, pr] =>
    if op == "filt" || op == "filtm" then do
      let ci ← ci.toNat?
      let p ← parsePred pr
      match ← buildChunk ch with
      | .panic => some { model := "panic" }
      | .ok c =>
        if op == "filtm" && (deepestCol c ci).isNone then none else
        let m := match filterDeepest c ci p.eval with
          | none => "none"
          | some c' => chunkStr c'
        if wfAny c.levels && (deepestCol c ci).isSome then
          let rows := (denote c.levels).filter fun r => p.eval (lastVal ci r)
          let flat := rows.map List.flatten
          -- an empty result is `FactorizedChunk::empty()`: no columns
          let sp := if rows.isEmpty then "k=0 n=0 - lrc=0"
            else s!"{specFlatStr (totalCols c.levels) flat} lrc={rows.length}"
          some (mkOut m sp "fact-filter")
        else some { model := m }
    else (handleChain args <|> handleQcase args)
  | _ => (handleChain args <|> handleQcase args)

end DriverFact
