import GrafeoModel.Driver.Proto
/-! stream `fact` (stub; replaced by its builder) -/
open Grafeo Grafeo.Proto
namespace DriverFact
def handle (_args : List String) : Option Out := none
end DriverFact
