import GrafeoModel.Model.TxMgr
import GrafeoModel.Spec.TxSpec
import GrafeoModel.Driver.Proto

/-! Stream `tx`: the transaction manager (C03, C04). Stateful; reset at every `# case`. -/
namespace Grafeo.DriverTx
open Grafeo.TxMgr Grafeo.Proto

structure St where
  m : Mgr := TxMgr.init
  s : TxSpec.Spec := TxSpec.init

def parseIso : String → Option Iso
  | "rc" => some .readCommitted
  | "si" => some .snapshot
  | "ser" => some .serializable
  | _ => none

/-- `n<k>` ↦ 2k, `e<k>` ↦ 2k+1 -/
def parseEnt (s : String) : Option Nat :=
  match s.toList with
  | 'n' :: r => (String.ofList r).toNat?.map (2 * ·)
  | 'e' :: r => (String.ofList r).toNat?.map (2 * · + 1)
  | _ => none

def showOut : TxMgr.Out → String
  | .id i => s!"{i}"
  | .flag true => "ok"
  | .flag false => "err"
  | .count n => s!"{n}"
  | .commit (.ok e) => s!"ok:{e}"
  | .commit .invalid => "err:invalid"
  | .commit .writeConflict => "err:conflict"
  | .commit .serFail => "err:serialization"

def stateStr : Option Tx → String
  | none => "-"
  | some t => match t.state with
    | .active => "A" | .committed => "C" | .aborted => "X"

def parseOp (args : List String) : Option Op :=
  match args with
  | ["begin", iso] => (parseIso iso).map Op.begin
  | ["write", i, e] => do pure (.write (← i.toNat?) (← parseEnt e))
  | ["read", i, e] => do pure (.read (← i.toNat?) (← parseEnt e))
  | ["commit", i] => do pure (.commit (← i.toNat?))
  | ["abort", i] => do pure (.abort (← i.toNat?))
  | ["gc"] => some .gc
  | _ => none

def sigOf (op : Op) (st : St) (mo so : TxMgr.Out) : String :=
  if mo == so then "-" else
  match op, mo, so with
  | .commit i, .commit .serFail, .commit (.ok _) =>
    match st.m.get i with
    | some t => if t.wset.isEmpty then "readonly-ser-refused" else "ser-refusal-unexpected"
    | none => "commit-deviates"
  | .commit _, .commit .writeConflict, .commit (.ok _) => "false-write-conflict"
  | .commit _, .commit (.ok _), .commit .writeConflict => "lost-update-accepted"
  | .commit _, .commit (.ok _), .commit .serFail => "write-skew-accepted"
  | _, _, _ => "tx-deviates"

def handle (st : St) (args : List String) : Option (St × Proto.Out) :=
  match args with
  | ["obs"] =>
    let sts := (List.range st.m.slots.length).map (fun j => stateStr (st.m.get j))
    some (st, ({ model := s!"{st.m.epoch};{st.m.minActiveEpoch};{st.m.activeCount};{String.join sts}" } : Proto.Out))
  | _ => do
    let op ← parseOp args
    let (m', mo) := TxMgr.step st.m op
    let (s', so) := TxSpec.step st.s op
    let constrained := match op with | .gc => false | _ => true
    let specStr := if constrained then showOut so else "-"
    let sigStr := if constrained then sigOf op st mo so else "-"
    let o : Proto.Out := { model := showOut mo, spec := specStr, sig := sigStr }
    -- on a deviating commit the spec state follows the observed outcome
    let s'' := match op, mo with
      | .commit i, .commit r => if mo == so then s' else TxSpec.adopt st.s i r
      | _, _ => s'
    pure ({ m := m', s := s'' }, o)

end Grafeo.DriverTx
