import GrafeoModel.Model.ZoneMap
import GrafeoModel.Driver.Proto

/-! Stream `zm`: zone maps, property indexes, the planner's path choice (C10, storage half).

`model` column: the executable model of the code (`Model/ZoneMap.lean`).
`spec` column:
* `might` / `range`: `-` while the model answers `true`; when it answers `false` the spec is
  computed independently of the zone map, from the current values of the column: `false` if no
  current value satisfies the predicate under the engine's filter semantics (`fsat`), else `true`
  (an unsound prune then shows as model ≠ spec, with a signature naming its kind);
* `find`: the scan answer; `findrange`, `plan`: the generic filter's answer (`fsat`);
* `findprops`: the conjunction evaluated by scan;
* `mix` (stateless): the set of outcomes of `rebuild_zone_map` + `might_match` over *all*
  iteration orders of the listed values (the implementation side samples freshly seeded hash
  maps); spec: the same set without an unsound `false`.
Node sets print sorted, the empty set as `empty` (a bare `-` would read as "unconstrained").
`rebuild -` answers `order-sensitive` when some column's rebuilt zone map depends on the
iteration order (the implementation's order is random, so such a line cannot be compared).

Deviation signatures that can still occur (model ≠ spec) with the code at 9bbd0dc — both at the
level of the store API, neither reachable from query text:
`zm-find-float-bits` (index keys are bit patterns: ±0.0, NaN), `zm-findrange-bool`
(`find_nodes_in_range` orders booleans, the filter does not; the planner re-filters).
Unreachable fallbacks, kept so that a regression is named: `zm-find-nonlive-node`,
`zm-find-missed-live-node`, `zm-plan-index-missed-live-node` (ruled out by `iinv_run` and
`c10_planner_paths_agree` now that a write to an id that is not a live node is a no-op), and
the `zm-prune-*`, `zm-prune-range-*`, `zm-plan-pruned-*`, `zm-plan-range-*`, other
`zm-plan-index-*`, `zm-findrange-{int-float,nan}` signatures of earlier code
(`c10_zone_map_sound_filter`, `c10_zone_map_range_sound`).
-/
namespace Grafeo.DriverZm
open Grafeo.ZoneMap Grafeo.F64 Grafeo.Proto

structure St where
  s : Store := {}
  /-- keys whose zone map was rebuilt over order-sensitive content: min/max are not compared -/
  fuzzy : List Nat := []

def hexNat (s : String) : Option Nat :=
  s.toList.foldlM (fun acc c => do pure (acc * 16 + (← hexVal c))) 0

def parseV (t : String) : Option V :=
  match t.toList with
  | ['N'] => some .null
  | ['B', '0'] => some (.bool false)
  | ['B', '1'] => some (.bool true)
  | 'I' :: r => (String.ofList r).toInt?.map .int
  | 'F' :: r => (hexNat (String.ofList r)).map .float
  | 'S' :: r => (parseHex (if r.isEmpty then "-" else String.ofList r)).map .str
  | _ => none

def hex16 (n : Nat) : String :=
  String.ofList ((List.range 16).reverse.map (fun i => hexDigit (n / 16 ^ i % 16)))

def showV : V → String
  | .null => "N"
  | .bool b => if b then "B1" else "B0"
  | .int i => s!"I{i}"
  | .float b => "F" ++ hex16 b
  | .str s => "S" ++ hexBytes s

def parseOp : String → Option Op
  | "eq" => some .eq | "ne" => some .ne | "lt" => some .lt
  | "le" => some .le | "gt" => some .gt | "ge" => some .ge
  | _ => none

def parseBound (t : String) : Option (Option V) :=
  if t == "*" then some none else (parseV t).map some

def boolStr (b : Bool) : String := if b then "true" else "false"

def insertSorted (n : Nat) : List Nat → List Nat
  | [] => [n]
  | x :: xs => if x < n then x :: insertSorted n xs else n :: x :: xs

def showIds (l : List Nat) : String :=
  let s := l.foldr insertSorted []
  if s.isEmpty then "empty" else natList s

def showOptV : Option V → String
  | some v => showV v
  | none => "-"

def showZone : Option ZM → String
  | none => "none"
  | some z => s!"{showOptV z.min},{showOptV z.max},{z.nullCount},{z.rowCount}"

def showZoneFuzzy : Option ZM → String
  | none => "none"
  | some z => s!"~,~,{z.nullCount},{z.rowCount}"

/-- `key=id.id.id,key=id.id` -/
def parseOrds (t : String) : Option (List (Nat × List Nat)) :=
  if t == "-" then some []
  else (t.splitOn ",").mapM (fun part =>
    match part.splitOn "=" with
    | [k, ids] => do
      let k ← k.toNat?
      let ids ← (ids.splitOn ".").mapM (fun x => x.toNat?)
      pure (k, ids)
    | _ => none)

def parseConds (t : String) : Option (List (Nat × V)) :=
  (t.splitOn ",").mapM (fun part =>
    match part.splitOn "=" with
    | [k, v] => do pure (← k.toNat?, ← parseV v)
    | _ => none)

def mk (m s sig : String) : Proto.Out := { model := m, spec := s, sig := if m == s then "-" else sig }

def isNaNV : V → Bool
  | .float b => isNaN b
  | _ => false
def isInfV : V → Bool
  | .float b => !isFinite b && !isNaN b
  | _ => false
def isNumV : V → Bool
  | .float _ => true
  | .int _ => true
  | _ => false
def isBoolV : V → Bool
  | .bool _ => true
  | _ => false

/-- the kind of a value `x` that satisfies `x <op> v` for the filter although the zone map said
"no row can match" (none of these can occur with the repaired code: `c10_zone_map_sound_filter`) -/
def pruneKind (op : Op) (x v : V) : String :=
  if op == .ne && x == .null then "null"
  else if isNaNV x || isNaNV v then "nan"
  else if op == .ne && isInfV x then "inf"
  else if zsat op x v then "rounding"
  else if op == .eq then "eps"
  else "other"

def currentVals (s : Store) (key : Nat) : List V :=
  match aget s.props key with
  | some c => c.vals.map (·.2)
  | none => []

def firstSat (xs : List V) (p : V → Bool) : Option V := xs.find? p

/-- how a node's value makes a path's answer differ from the generic filter -/
def diffKind (op : Op) (x v : V) : String :=
  if isNaNV x || isNaNV v then "nan"
  else if isBoolV x && isBoolV v then "bool"
  else if isNumV x && isNumV v then
    (match x, v with
     | .int _, .float _ => "int-float"
     | .float _, .int _ => "int-float"
     | .float _, .float _ => if op == .eq || op == .ne then "float-eq" else "float"
     | _, _ => "int")
  else if x == .null || v == .null then "null"
  else "other"

def firstDiff (a b : List Nat) : Option Nat :=
  ((a ++ b).foldr insertSorted []).find? (fun n => a.contains n != b.contains n)

/-- signature of a node-set difference: first node (ascending) on which the two sets disagree -/
def setDiffSig (pre : String) (s : Store) (key : Nat) (op : Op) (v : V) (a b : List Nat) : String :=
  match firstDiff a b with
  | none => "-"
  | some n =>
    if !s.live.contains n then pre ++ "-nonlive-node"
    else match s.props.get n key with
      | some x => pre ++ "-" ++ diffKind op x v
      | none => pre ++ "-no-property"

def prunedSig (pre : String) (s : Store) (key : Nat) (op : Op) (v : V) (a b : List Nat) : String :=
  match firstDiff a b with
  | none => "-"
  | some n =>
    match s.props.get n key with
    | some x => pre ++ "-" ++ pruneKind op x v
    | none => pre ++ "-no-property"

def kindRank : String → Nat
  | "nan" => 0 | "int-float" => 1 | "bool" => 2 | "none" => 9 | _ => 5

/-- signature of a difference between the indexed lookup and the scan -/
def findSig (s : Store) (key : Nat) (v : V) (a b : List Nat) : String :=
  match firstDiff a b with
  | none => "-"
  | some n =>
    if !s.live.contains n then "zm-find-nonlive-node"
    else match s.props.get n key with
      | some x =>
        if isNumV x && isNumV v && (isNaNV x || x != v) then "zm-find-float-bits"   -- NaN, ±0
        else if x == v then "zm-find-missed-live-node"
        else "zm-find-other"
      | none => "zm-find-no-property"

def sameSet (a b : List Nat) : Bool := a.all b.contains && b.all a.contains

def rangeSpec (s : Store) (key : Nat) (lo hi : Option V) (li hi' : Bool) : List Nat :=
  s.live.filter (fun n => holds (s.props.get n key) (fun x => satRange fsat x lo hi li hi'))

def rangeSig (pre : String) (s : Store) (key : Nat) (lo hi : Option V) (a b : List Nat) : String :=
  match firstDiff a b with
  | none => "-"
  | some n =>
    if !s.live.contains n then pre ++ "-nonlive-node"
    else match s.props.get n key with
      | some x =>
        let k1 := match lo with | some l => diffKind .ge x l | none => "none"
        let k2 := match hi with | some h => diffKind .le x h | none => "none"
        pre ++ "-" ++ (if kindRank k1 ≤ kindRank k2 then k1 else k2)
      | none => pre ++ "-no-property"

/-- a literal with a leading minus is `Unary(Neg, Literal)` in the logical plan: no zone-map
check, no index path, no range path — the generic filter evaluates it -/
def negLiteral : V → Bool
  | .int i => i < 0
  | .float b => signBit b == 1
  | _ => false

/-- all permutations -/
def insertAll (x : Nat) : List Nat → List (List Nat)
  | [] => [[x]]
  | y :: ys => (x :: y :: ys) :: (insertAll x ys).map (y :: ·)

def perms : List Nat → List (List Nat)
  | [] => [[]]
  | x :: xs => (perms xs).flatMap (insertAll x)

def insertStr (a : String) : List String → List String
  | [] => [a]
  | x :: xs => if x < a then x :: insertStr a xs else if x == a then x :: xs else a :: x :: xs

def sortDedup (l : List String) : List String := l.foldr insertStr []

/-- is the rebuilt zone map of some column different under another iteration order?
(checked with the given order, its reverse and the rotations) -/
def colOrders (c : Col) : List (List Nat) :=
  let ids := c.vals.map (·.1)
  let rots := (List.range ids.length).map (fun i => ids.drop i ++ ids.take i)
  ids.reverse :: rots ++ rots.map List.reverse

def colSensitive (c : Col) : Bool :=
  let base := c.rebuild []
  (colOrders c).any (fun o => let r := c.rebuild o; r.zm != base.zm || r.mixed != base.mixed)

def handle (z : St) (args : List String) : Option (St × Proto.Out) :=
  let s := z.s
  match args with
  | ["node"] => some ({ z with s := s.createNode }, { model := toString s.next })
  | ["set", id, k, v] => do
    let id ← id.toNat?; let k ← k.toNat?; let v ← parseV v
    pure ({ z with s := s.setProp id k v }, { model := "-" })
  | ["remove", id, k] => do
    let id ← id.toNat?; let k ← k.toNat?
    let old := match s.props.get id k with | some v => showV v | none => "none"
    pure ({ z with s := s.removeProp id k }, { model := old })
  | ["delnode", id] => do
    let id ← id.toNat?
    pure ({ z with s := s.deleteNode id }, { model := boolStr (s.live.contains id) })
  | ["rebuild", ords] => do
    -- `-`, an explicit order `k=id.id,..` (model only), or `~k.k` = the keys whose rebuilt
    -- zone map depends on the (random) iteration order: their min/max are not compared until
    -- the next rebuild. The claim is re-checked here.
    let (claimed, ords) ← (if ords.startsWith "~" then do
        let ks ← ((String.ofList (ords.toList.drop 1)).splitOn ".").mapM (fun x => x.toNat?)
        pure (ks, ([] : List (Nat × List Nat)))
      else do pure ([], ← parseOrds ords))
    let sens := if ords.isEmpty then (s.props.filter (fun p => colSensitive p.2)).map (·.1) else []
    let ok := sens.all claimed.contains
    pure ({ s := s.rebuild ords, fuzzy := claimed }, { model := if ok then "-" else "order-sensitive" })
  | ["mix", op, q, vals] => do
    let op ← parseOp op; let q ← parseV q
    let vs ← (vals.splitOn ",").mapM parseV
    let n := vs.length
    let c0 : Col := (List.range n).zip vs |>.foldl (fun c p => c.set p.1 p.2) {}
    let outs := (perms (List.range n)).map (fun o => let c := c0.rebuild o; (c.mightMatch op q, showZone (some c.zm)))
    let answers := sortDedup (outs.map (fun o => boolStr o.1))
    let zones := sortDedup (outs.map (·.2))
    let m := joinWith "|" answers ++ ";" ++ joinWith "|" zones
    -- spec: an order under which the column is pruned although a value satisfies the filter?
    match (if answers.contains "false" then firstSat vs (fun x => fsat op x q) else none) with
    | none => pure (z, { model := m })
    | some x =>
      let ok := answers.filter (· != "false")
      let sp := (if ok.isEmpty then "true" else joinWith "|" ok) ++ ";" ++ joinWith "|" zones
      pure (z, mk m sp ("zm-prune-" ++ pruneKind op x q))
  | ["zone", k] => do
    let k ← k.toNat?
    pure (z, { model := if z.fuzzy.contains k then showZoneFuzzy (s.props.zone k) else showZone (s.props.zone k) })
  | ["might", k, op, v] => do
    let k ← k.toNat?; let op ← parseOp op; let v ← parseV v
    let m := s.props.mightMatch k op v
    if m then pure (z, { model := "true" })
    else
      match firstSat (currentVals s k) (fun x => fsat op x v) with
      | none => pure (z, mk "false" "false" "-")
      | some x => pure (z, mk "false" "true" ("zm-prune-" ++ pruneKind op x v))
  | ["range", k, lo, hi, li, hi'] => do
    let k ← k.toNat?; let lo ← parseBound lo; let hi ← parseBound hi
    let li := li == "1"; let hi' := hi' == "1"
    let m := s.props.mightRange k lo hi li hi'
    if m then pure (z, { model := "true" })
    else
      match firstSat (currentVals s k) (fun x => satRange fsat x lo hi li hi') with
      | none => pure (z, mk "false" "false" "-")
      | some x =>
        let kind := if isNaNV x then "nan" else if satRange zsat x lo hi li hi' then "rounding" else "other"
        pure (z, mk "false" "true" ("zm-prune-range-" ++ kind))
  | ["index", k] => do
    let k ← k.toNat?
    pure ({ z with s := s.createIndex k }, { model := "-" })
  | ["dropindex", k] => do
    let k ← k.toNat?
    pure ({ z with s := s.dropIndex k }, { model := boolStr (s.hasIndex k) })
  | ["find", k, v] => do
    let k ← k.toNat?; let v ← parseV v
    let m := s.find k v
    let sp := s.scanFind k v
    pure (z, { model := showIds m, spec := showIds sp,
               sig := if sameSet m sp then "-" else findSig s k v m sp })
  | ["findrange", k, lo, hi, li, hi'] => do
    let k ← k.toNat?; let lo ← parseBound lo; let hi ← parseBound hi
    let li := li == "1"; let hi' := hi' == "1"
    let m := s.findRange k lo hi li hi'
    let sp := rangeSpec s k lo hi li hi'
    pure (z, { model := showIds m, spec := showIds sp,
               sig := if sameSet m sp then "-" else rangeSig "zm-findrange" s k lo hi m sp })
  | ["findprops", conds] => do
    let conds ← parseConds conds
    let m := s.findProps conds
    let sp := s.live.filter (fun n => conds.all (fun kv => holds (s.props.get n kv.1) (fun x => valEq x kv.2)))
    pure (z, { model := showIds m, spec := showIds sp,
               sig := if sameSet m sp then "-" else
                 match firstDiff m sp with
                 | some n => if !s.live.contains n then "zm-find-nonlive-node"
                             else if conds.any (fun kv => isNumV kv.2 && (isNaNV kv.2 || !(s.props.get n kv.1 == some kv.2))) then "zm-find-float-bits"
                             else "zm-find-missed-live-node"
                 | none => "-" })
  | ["plan", k, op, v] => do
    let k ← k.toNat?; let op ← parseOp op; let v ← parseV v
    let sp := s.genericPath k op v
    let m := if negLiteral v then sp else s.planFilter k op v
    pure (z, { model := showIds m, spec := showIds sp,
               sig := if sameSet m sp then "-" else
                 let path := match s.choosePath k op v with
                   | .pruned => "pruned" | .index => "index" | .range => "range" | .generic => "generic"
                 -- by `c10_planner_paths_agree` only the index path can deviate, and only by
                 -- missing a live node whose property was written before the node existed
                 if path == "index" then
                   (match firstDiff m sp with
                    | some n => if sp.contains n then "zm-plan-index-missed-live-node" else "zm-plan-index-unexpected"
                    | none => "-")
                 else if path == "pruned" then prunedSig "zm-plan-pruned" s k op v m sp
                 else setDiffSig ("zm-plan-" ++ path) s k op v m sp })
  | ["get", id, k] => do
    let id ← id.toNat?; let k ← k.toNat?
    pure (z, { model := match s.props.get id k with | some v => showV v | none => "none" })
  | _ => none

end Grafeo.DriverZm
