import GrafeoModel.Model.RdfConc
import GrafeoModel.Model.LpgConc
import GrafeoModel.Driver.Proto

/-! Stream `conc`: multi-step store operations under a forced interleaving (C20). Stateless lines. -/
namespace Grafeo.DriverConc
open Grafeo.Proto Grafeo.Rdf Grafeo.RdfConc

def parseROp (s : String) : Option COp :=
  match s.toList with
  | k :: r =>
    match ((String.ofList r).splitOn ".").mapM (·.toNat?) with
    | some [a, b, c] =>
      if k == 'i' then some (.insert ⟨a, b, c⟩) else if k == 'r' then some (.remove ⟨a, b, c⟩) else none
    | _ => none
  | [] => none

def parseRProgs (s : String) : Option (List (List COp)) :=
  (s.splitOn ";").mapM (fun p => if p == "-" || p == "" then some [] else (p.splitOn ",").mapM parseROp)

def showResults (t : Thread) : String :=
  if t.results.isEmpty then "-" else String.ofList (t.results.map (fun b => if b then '1' else '0'))

def tripleLt (a b : Triple) : Bool :=
  a.s < b.s || (a.s == b.s && (a.p < b.p || (a.p == b.p && a.o < b.o)))

def insertT (x : Triple) : List Triple → List Triple
  | [] => [x]
  | y :: ys => if tripleLt x y then x :: y :: ys else y :: insertT x ys

def showTriples (ts : List Triple) : String :=
  let s := ts.foldr insertT []
  if s.isEmpty then "-" else joinWith "," (s.map (fun t => s!"{t.s}.{t.p}.{t.o}"))

/-! ### `conc lpg` -/

def parseLOp (s : String) : Option LpgConc.COp :=
  match s.toList with
  | 'c' :: r =>
    let t := String.ofList r
    if t == "" then some (.create []) else ((t.splitOn ".").mapM (fun (x : String) => x.toNat?)).map .create
  | 'd' :: r => (String.ofList r).toNat?.map .delete
  | 'a' :: r => match ((String.ofList r).splitOn ".").mapM (·.toNat?) with
    | some [i, l] => some (.addLabel i l) | _ => none
  | 'r' :: r => match ((String.ofList r).splitOn ".").mapM (·.toNat?) with
    | some [i, l] => some (.remLabel i l) | _ => none
  | 'p' :: r => match (String.ofList r).splitOn "=" with
    | [ik, v] => match (ik.splitOn ".").mapM (·.toNat?) with
      | some [i, k] => some (.setProp i k v) | _ => none
    | _ => none
  | 'q' :: r => match ((String.ofList r).splitOn ".").mapM (·.toNat?) with
    | some [i, k] => some (.remProp i k) | _ => none
  | _ => none

def parseLProgs (s : String) : Option (List (List LpgConc.COp)) :=
  (s.splitOn ";").mapM (fun p => if p == "-" || p == "" then some [] else (p.splitOn ",").mapM parseLOp)

def insertNat (x : Nat) : List Nat → List Nat
  | [] => [x]
  | y :: ys => if x ≤ y then x :: y :: ys else y :: insertNat x ys
def sortNat (l : List Nat) : List Nat := l.foldr insertNat []

def insertKV (x : Nat × String) : List (Nat × String) → List (Nat × String)
  | [] => [x]
  | y :: ys => if x.1 ≤ y.1 then x :: y :: ys else y :: insertKV x ys

/-- canonical dump: nodes (live flag, labels, properties), label index per label, property index of key 0 -/
def showLpg (s : Lpg.Store) (nLabels : Nat) (vals : List String) : String :=
  let live := s.nodeIds
  let nodes := (List.range s.nextNode).map (fun id =>
    let ls := natList (sortNat (s.nodeLabelsOf id))
    let ps := joinWith "&" (((s.nodePropsOf id).foldr insertKV []).map (fun kv => s!"{kv.1}={kv.2}"))
    s!"{id}{if live.contains id then "L" else "D"}:{ls}:{ps}")
  let lidx := (List.range nLabels).map (fun l => s!"{l}:{natList (sortNat (s.nodesByLabel l))}")
  let pidx := vals.map (fun v => s!"{v}:{natList (sortNat (s.findByProp 0 v))}")
  s!"nodes={joinWith ";" nodes} lidx={joinWith ";" lidx} pidx={joinWith ";" pidx}"

def lpgResults (t : LpgConc.Thread) : String := if t.results.isEmpty then "-" else joinWith "," t.results

def handleLpg (kind n0 progs sched : String) : Option Proto.Out := do
  let n0 ← n0.toNat?
  let progs ← parseLProgs progs
  let sched ← parseNatList sched
  let fuel := 6 * (progs.map List.length).sum + 6
  let st := LpgConc.finishAll fuel (LpgConc.runSched (LpgConc.init n0 progs) sched)
  let ok := LpgConc.consistent st.store
  if kind == "lpg" then
    pure { model := s!"res={joinWith ";" (st.threads.map lpgResults)} {showLpg st.store 3 ["I1", "I2", "S61"]}" }
  else
    let v := if ok then "ok" else "torn"
    pure { model := v, spec := "ok", sig := if ok then "-" else "lpg-index-torn" }

def handleRdf (kind io progs sched : String) : Option Proto.Out := do
  let progs ← parseRProgs progs
  let sched ← parseNatList sched
  let fuel := 4 * (progs.map List.length).sum + 4
  let s := finishAll false fuel (runSched false (init (io == "1") progs) sched)
  let ok := consistent s.store
  if kind == "rdf" then
    pure { model := s!"res={joinWith ";" (s.threads.map showResults)} triples={showTriples s.store.triples} idx={if ok then "ok" else "torn"}" }
  else if kind == "rdf.inv" then
    let v := if ok then "ok" else "torn"
    pure { model := v, spec := "ok", sig := if ok then "-" else "rdf-index-torn" }
  else none

def handle (args : List String) : Option Proto.Out :=
  match args with
  | [kind, a, progs, sched] =>
    if kind == "lpg" || kind == "lpg.inv" then handleLpg kind a progs sched
    else handleRdf kind a progs sched
  | _ => none

end Grafeo.DriverConc
