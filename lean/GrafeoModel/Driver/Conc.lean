import GrafeoModel.Model.RdfConc
import GrafeoModel.Driver.Proto

/-! Stream `conc`: multi-step store operations under a forced interleaving (C20). Stateless lines. -/
namespace Grafeo.DriverConc
open Grafeo.Proto Grafeo.Rdf Grafeo.RdfConc

def parseROp (s : String) : Option COp :=
  match s.toList with
  | k :: r =>
    match ((String.ofList r).splitOn ".").mapM (·.toNat?) with
    | some [a, b, c] =>
      if k == 'i' then some (.insert ⟨a, b, c⟩) else if k == 'r' then some (.remove ⟨a, b, c⟩) else none
    | _ => none
  | [] => none

def parseRProgs (s : String) : Option (List (List COp)) :=
  (s.splitOn ";").mapM (fun p => if p == "-" || p == "" then some [] else (p.splitOn ",").mapM parseROp)

def showResults (t : Thread) : String :=
  if t.results.isEmpty then "-" else String.ofList (t.results.map (fun b => if b then '1' else '0'))

def tripleLt (a b : Triple) : Bool :=
  a.s < b.s || (a.s == b.s && (a.p < b.p || (a.p == b.p && a.o < b.o)))

def insertT (x : Triple) : List Triple → List Triple
  | [] => [x]
  | y :: ys => if tripleLt x y then x :: y :: ys else y :: insertT x ys

def showTriples (ts : List Triple) : String :=
  let s := ts.foldr insertT []
  if s.isEmpty then "-" else joinWith "," (s.map (fun t => s!"{t.s}.{t.p}.{t.o}"))

def handle (args : List String) : Option Proto.Out :=
  match args with
  | [kind, io, progs, sched] => do
    let progs ← parseRProgs progs
    let sched ← parseNatList sched
    let fuel := 4 * (progs.map List.length).sum + 4
    let s := finishAll false fuel (runSched false (init (io == "1") progs) sched)
    let ok := consistent s.store
    if kind == "rdf" then
      pure { model := s!"res={joinWith ";" (s.threads.map showResults)} triples={showTriples s.store.triples} idx={if ok then "ok" else "torn"}" }
    else if kind == "rdf.inv" then
      let v := if ok then "ok" else "torn"
      pure { model := v, spec := "ok", sig := if ok then "-" else "rdf-index-torn" }
    else none
  | _ => none

end Grafeo.DriverConc
