import GrafeoModel.Model.Val
import GrafeoModel.Driver.Proto

/-! Stream `val`: value wrappers (C16). Values are tokens:
`N` `B0|B1` `I<dec>` `F<16 hex>` `S<hex utf8>` `Y<hex>` `T<dec>` `V(<8 hex>;..)` `L(<v>;..)`
`M(<hex key>=<v>;..)`.
`f2i` / `trunc` tie the models of `f as i64` and `f.trunc()` (used by the exact Int64/Float64
comparison) to the hardware. -/
namespace Grafeo.DriverVal
open Grafeo.Val Grafeo.F64 Grafeo.Proto

def hexNat (s : String) : Option Nat :=
  s.toList.foldlM (fun acc c => do pure (acc * 16 + (← hexVal c))) 0

/-- split `a;b;c` at top level (respecting parentheses) -/
def splitTop (cs : List Char) : List (List Char) :=
  let rec go (cs : List Char) (depth : Nat) (cur : List Char) (acc : List (List Char)) : List (List Char) :=
    match cs with
    | [] => (cur.reverse :: acc).reverse
    | c :: rest =>
      if c == '(' then go rest (depth + 1) (c :: cur) acc
      else if c == ')' then go rest (depth - 1) (c :: cur) acc
      else if c == ';' && depth == 0 then go rest depth [] (cur.reverse :: acc)
      else go rest depth (c :: cur) acc
  if cs.isEmpty then [] else go cs 0 [] []

def inner (cs : List Char) : Option (List Char) :=
  match cs with
  | '(' :: rest => if rest.getLast? == some ')' then some rest.dropLast else none
  | _ => none

partial def parseHV (cs : List Char) : Option HV :=
  match cs with
  | ['N'] => some .null
  | ['B', '0'] => some (.bool false)
  | ['B', '1'] => some (.bool true)
  | 'I' :: r => (String.ofList r).toInt?.map .int
  | 'F' :: r => (hexNat (String.ofList r)).map .float
  | 'S' :: r => (parseHex (if r.isEmpty then "-" else String.ofList r)).map .str
  | 'Y' :: r => (parseHex (if r.isEmpty then "-" else String.ofList r)).map .bytes
  | 'T' :: r => (String.ofList r).toInt?.map .ts
  | 'V' :: r => do
    let body ← inner r
    let parts ← (splitTop body).mapM (fun p => hexNat (String.ofList p))
    pure (.vec parts)
  | 'L' :: r => do
    let body ← inner r
    let parts ← (splitTop body).mapM parseHV
    pure (.list parts)
  | 'M' :: r => do
    let body ← inner r
    let parts ← (splitTop body).mapM (fun p => do
      let k := p.takeWhile (· != '=')
      let v := (p.dropWhile (· != '=')).drop 1
      let kb ← parseHex (if k.isEmpty then "-" else String.ofList k)
      let hv ← parseHV v
      pure (kb, hv))
    pure (.map parts)
  | _ => none

def toOV : HV → Option OV
  | .int i => some (.int i)
  | .float b => some (.float b)
  | .str s => some (.str s)
  | .bool b => some (.bool b)
  | .ts t => some (.ts t)
  | _ => none

def ordStr : Ordering → String
  | .lt => "lt" | .eq => "eq" | .gt => "gt"

def feedStr (l : List Int) : String := joinWith "," (l.map toString)

def boolStr (b : Bool) : String := if b then "true" else "false"

def mk (m s sig : String) : Proto.Out := { model := m, spec := s, sig := if m == s then "-" else sig }

/-- laws of a pair: eq ⇒ equal hash feed; cmp = Equal ⇔ eq; eq symmetric; cmp antisymmetric -/
def pairVerdict (same : Bool) (eqab eqba : Bool) (cmpab cmpba : Option Ordering) (hashEq : Bool) : String :=
  if same && !eqab then "eq-not-reflexive"
  else if eqab != eqba then "eq-not-symmetric"
  else if eqab && !hashEq then "eq-but-hash-differs"
  else match cmpab, cmpba with
    | some x, some y =>
      if (x == .eq) != eqab then "cmp-eq-mismatch"
      else if y != x.swap then "cmp-not-antisymmetric"
      else "ok"
    | _, _ => "ok"

def handle (args : List String) : Option Proto.Out :=
  match args with
  | ["i2f", i] => do
    let i ← i.toInt?
    pure { model := toString (i64ToF64 i) }
  | ["f2i", a] => do pure { model := toString (f64ToI64 (← hexNat a)) }
  | ["trunc", a] => do
    let a ← hexNat a
    pure { model := if isNaN a then "nan" else toString (truncBits a) }
  | ["of.eq", a, b] => do pure { model := boolStr (ofEq (← hexNat a) (← hexNat b)) }
  | ["of.cmp", a, b] => do pure { model := ordStr (ofCmp (← hexNat a) (← hexNat b)) }
  | ["of.law", a, b] => do
    let a ← hexNat a
    let b ← hexNat b
    let v := pairVerdict (a == b) (ofEq a b) (ofEq b a) (some (ofCmp a b)) (some (ofCmp b a)) (ofHashFeed a == ofHashFeed b)
    pure (mk v "ok" ("ordered-float-" ++ v))
  | ["of.trans", a, b, c] => do
    let a ← hexNat a
    let b ← hexNat b
    let c ← hexNat c
    let v := if ofEq a b && ofEq b c && !ofEq a c then "eq-not-transitive"
      else if ofCmp a b != .gt && ofCmp b c != .gt && ofCmp a c == .gt then "cmp-not-transitive" else "ok"
    pure (mk v "ok" ("ordered-float-" ++ v))
  -- spec of `==` / `cmp`: equality / lexicographic order of the exact order keys (`ovKey`)
  | ["ov.eq", a, b] => do
    let a ← toOV (← parseHV a.toList)
    let b ← toOV (← parseHV b.toList)
    pure (mk (boolStr (ovEq a b)) (boolStr (ovKey a == ovKey b)) "orderable-eq-not-value-equality")
  | ["ov.cmp", a, b] => do
    let a ← toOV (← parseHV a.toList)
    let b ← toOV (← parseHV b.toList)
    pure (mk (ordStr (ovCmp a b)) (ordStr (keyCmp (ovKey a) (ovKey b))) "orderable-cmp-not-value-order")
  | ["ov.hash", a] => do pure { model := feedStr (ovHashFeed (← toOV (← parseHV a.toList))) }
  | ["ov.law", ta, tb] => do
    let a ← toOV (← parseHV ta.toList)
    let b ← toOV (← parseHV tb.toList)
    let v := pairVerdict (ta == tb) (ovEq a b) (ovEq b a) (some (ovCmp a b)) (some (ovCmp b a)) (ovHashFeed a == ovHashFeed b)
    pure (mk v "ok" ("orderable-" ++ v))
  | ["ov.trans", a, b, c] => do
    let a ← toOV (← parseHV a.toList)
    let b ← toOV (← parseHV b.toList)
    let c ← toOV (← parseHV c.toList)
    let v := if ovEq a b && ovEq b c && !ovEq a c then "eq-not-transitive"
      else if ovCmp a b != .gt && ovCmp b c != .gt && ovCmp a c == .gt then "cmp-not-transitive"
      else if ovEq a b && (ovCmp a c != ovCmp b c || ovCmp c a != ovCmp c b) then "cmp-ignores-eq" else "ok"
    pure (mk v "ok" ("orderable-" ++ v))
  | ["hv.eq", a, b] => do pure { model := boolStr (hvEq (← parseHV a.toList) (← parseHV b.toList)) }
  | ["hv.hash", a] => do pure { model := feedStr (hvFeed (← parseHV a.toList)) }
  | ["hv.law", ta, tb] => do
    let a ← parseHV ta.toList
    let b ← parseHV tb.toList
    let v := pairVerdict (ta == tb) (hvEq a b) (hvEq b a) none none (hvFeed a == hvFeed b)
    pure (mk v "ok" ("hashable-" ++ v))
  | _ => none

end Grafeo.DriverVal
