import GrafeoModel.Model.Ops
import GrafeoModel.Driver.Proto

/-! Stream `ops`: pull operators over chunk streams (C11 operator level). Rows are value tokens. -/
namespace Grafeo.DriverOps
open Grafeo.Ops Grafeo.Proto

/-- `a,b|c|_|d` → [[a,b],[c],[],[d]]; `-` → no chunks at all. -/
def parseChunks (s : String) : List (List String) :=
  if s == "-" then [] else (s.splitOn "|").map (fun c => if c == "" || c == "_" then [] else c.splitOn ",")

def showChunks (cs : List (List String)) : String :=
  if cs.isEmpty then "-" else joinWith "|" (cs.map (fun c => if c.isEmpty then "_" else joinWith "," c))

def showFlat (rows : List String) : String := if rows.isEmpty then "-" else joinWith "," rows

/-- `RowKey::from_row` for one column: one key part per value, floats by bit pattern in their
own variant (repaired code) — i.e. the key of a token is the token. -/
def rowKey (tok : String) : String := tok

def dedupTokens : List String → List String → List String
  | _, [] => []
  | seen, r :: rs => if seen.contains r then dedupTokens seen rs else r :: dedupTokens (r :: seen) rs

def mk (m s sig : String) : Proto.Out := { model := m, spec := s, sig := if m == s then "-" else sig }

def handle (args : List String) : Option Proto.Out :=
  match args with
  | ["limit.c", n, cs] => do
    pure { model := showChunks (limitOp (← n.toNat?) 0 (parseChunks cs)) }
  | ["limit.f", n, cs] => do
    let n ← n.toNat?
    let c := parseChunks cs
    pure (mk (showFlat (limitOp n 0 c).flatten) (showFlat (c.flatten.take n)) "limit-window")
  | ["skip.c", s, cs] => do
    pure { model := showChunks (skipOp (← s.toNat?) 0 (parseChunks cs)) }
  | ["skip.f", s, cs] => do
    let s ← s.toNat?
    let c := parseChunks cs
    pure (mk (showFlat (skipOp s 0 c).flatten) (showFlat (c.flatten.drop s)) "skip-window")
  | ["ls.c", s, n, cs] => do
    pure { model := showChunks (limitSkipOp (← s.toNat?) (← n.toNat?) 0 0 (parseChunks cs)) }
  | ["ls.f", s, n, cs] => do
    let s ← s.toNat?
    let n ← n.toNat?
    let c := parseChunks cs
    pure (mk (showFlat (limitSkipOp s n 0 0 c).flatten) (showFlat ((c.flatten.drop s).take n)) "skip-limit-window")
  | "union.f" :: inputs =>
    let ins := inputs.map parseChunks
    some (mk (showFlat (unionOp ins).flatten) (showFlat (ins.map List.flatten).flatten) "union-concat")
  | ["distinct.c", cs] =>
    some { model := showChunks (distinctOp rowKey Generated.chunkCapacity [] (parseChunks cs)) }
  | ["distinct.f", cs] =>
    let c := parseChunks cs
    let m := (distinctOp rowKey Generated.chunkCapacity [] c).flatten
    let s := dedupTokens [] c.flatten
    let big := c.any (fun x => x.length > Generated.chunkCapacity)
    some (mk (showFlat m) (showFlat s) (if big then "distinct-oversized-chunk" else "distinct-merges-or-splits"))
  | _ => none

end Grafeo.DriverOps
