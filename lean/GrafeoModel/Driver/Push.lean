import GrafeoModel.Model.Push
import GrafeoModel.Model.Exec
import GrafeoModel.Generated.Constants
import GrafeoModel.Driver.Proto

/-! Stream `push` (C17): push pipeline, pull operators, parallel pipeline, spilling.
Stateless lines; see harness/src/push.rs for the line formats. -/
namespace Grafeo.DriverPush
open Grafeo.Proto Grafeo.Push

/-! ### tokens, rows, tables -/

def hex16 (n : Nat) : String :=
  String.ofList ((List.range 16).reverse.map (fun i => hexDigit (n / 16 ^ i % 16)))

def parseHexNat (s : String) : Option Nat :=
  s.toList.foldlM (fun acc c => do pure (acc * 16 + (← hexVal c))) 0

def parseTok (s : String) : Option Val :=
  match s.toList with
  | ['N'] => some .null
  | ['B', '0'] => some (.bool false)
  | ['B', '1'] => some (.bool true)
  | 'I' :: r => (String.ofList r).toInt?.map .int
  | 'F' :: r => (parseHexNat (String.ofList r)).map .flt
  | 'S' :: r => (parseHex (if r.isEmpty then "-" else String.ofList r)).map .str
  | _ => none

def showTok : Val → String
  | .null => "N"
  | .bool b => if b then "B1" else "B0"
  | .int i => s!"I{i}"
  | .flt b => "F" ++ hex16 b
  | .str s => "S" ++ hexBytes s

def parseRow (s : String) : Option Row := (s.splitOn ",").mapM parseTok
def showRow (r : Row) : String := joinWith "," (r.map showTok)

def genRows (n mult md : Nat) : List Row :=
  (List.range n).map (fun i => [.int ((i * mult % md : Nat) : Int), .int (i : Int)])

def parseTable (s : String) : Option (List Row) :=
  if s == "-" || s.startsWith "e" then some []
  else if s.startsWith "gen:" then
    match (s.drop 4).toString.splitOn ":" with
    | [n, m, d] => do pure (genRows (← n.toNat?) (← m.toNat?) (← d.toNat?))
    | _ => none
  else (s.splitOn ";").mapM parseRow

def showRows (rs : List Row) : String := if rs.isEmpty then "norows" else joinWith ";" (rs.map showRow)

def insertStr (x : String) : List String → List String
  | [] => [x]
  | y :: ys => if x ≤ y then x :: y :: ys else y :: insertStr x ys

def sortStrs (l : List String) : List String := (l.toArray.qsort (· < ·)).toList

def showSorted (rs : List Row) : String :=
  if rs.isEmpty then "norows" else joinWith ";" (sortStrs (rs.map showRow))

def parseSizes (s : String) : Option (List Nat) :=
  let t := if s.startsWith "c:" then (s.drop 2).toString else s
  parseNatList t

/-- `split_chunks` of the harness: the listed sizes, then whatever is left as one more chunk -/
def splitChunks : List Nat → List Row → List (List Row)
  | [], rows => if rows.isEmpty then [] else [rows]
  | n :: ns, rows => rows.take n :: splitChunks ns (rows.drop n)

/-! ### operator items -/

def parseCmp : String → Option Cmp
  | "eq" => some .eq | "ne" => some .ne | "lt" => some .lt | "le" => some .le | "gt" => some .gt | "ge" => some .ge
  | _ => none

def parseArith : String → Option Arith
  | "add" => some .add | "sub" => some .sub | "mul" => some .mul | "div" => some .div | "mod" => some .mod
  | _ => none

def parseLeaf (s : String) : Option Ex :=
  match s.toList with
  | 'c' :: r => (String.ofList r).toNat?.map .col
  | 'k' :: r => (parseTok (String.ofList r)).map .const
  | _ => none

/-- `c<k>` | `k<tok>` | `b<op>.<leaf>.<leaf>` (the stream nests no deeper) -/
def parseEx (s : String) : Option Ex :=
  match s.toList with
  | 'b' :: r =>
    match (String.ofList r).splitOn "." with
    | [op, l, rr] => do pure (.bin (← parseArith op) (← parseLeaf l) (← parseLeaf rr))
    | _ => none
  | _ => parseLeaf s

def parseCols (s : String) : Option (List Nat) :=
  if s == "-" || s == "" then some [] else (s.splitOn ".").mapM (·.toNat?)

def parseKey (s : String) : Option SortKey :=
  let cs := s.toList
  let n := cs.length
  if n < 3 then none
  else do
    let col ← (String.ofList (cs.take (n - 2))).toNat?
    pure ⟨col, cs[n - 2]? == some 'a', cs[n - 1]? == some 'f'⟩

def parseKeys (s : String) : Option (List SortKey) := (s.splitOn ".").mapM parseKey

def parseAgg (s : String) : Option AggE :=
  match s.toList with
  | ['c', 's'] => some ⟨.countStar, 0⟩
  | 'm' :: 'n' :: r => (String.ofList r).toNat?.map (⟨.min, ·⟩)
  | 'm' :: 'x' :: r => (String.ofList r).toNat?.map (⟨.max, ·⟩)
  | 'c' :: r => (String.ofList r).toNat?.map (⟨.count, ·⟩)
  | 's' :: r => (String.ofList r).toNat?.map (⟨.sum, ·⟩)
  | _ => none

def parseOp (s : String) : Option OpD :=
  match s.splitOn ":" with
  | ["f", c, o, t] => do pure (.filter (← c.toNat?) (← parseCmp o) (← parseTok t))
  | ["p", es] => do pure (.project (← (es.splitOn ",").mapM parseEx))
  | ["l", n] => do pure (.limit (← n.toNat?))
  | ["s", n] => do pure (.skip (← n.toNat?))
  | ["sl", s, n] => do pure (.skipLimit (← s.toNat?) (← n.toNat?))
  | ["d"] => some (.distinct none)
  | ["d", cs] => do pure (.distinct (some (← parseCols cs)))
  | ["dm"] => some (.distinctMat none)
  | ["dm", cs] => do pure (.distinctMat (some (← parseCols cs)))
  | ["o", ks] => do pure (.sort (← parseKeys ks))
  | ["g", gs, as] => do
    let aggs ← ((as.splitOn ".").filter (fun a => a != "" && a != "-")).mapM parseAgg
    pure (.agg (← parseCols gs) aggs)
  | _ => none

def lastGroupedAgg (ds : List OpD) : Bool :=
  match ds.getLast? with
  | some (.agg g _) => !g.isEmpty
  | _ => false

def showOut (ds : List OpD) (rs : List Row) : String := if lastGroupedAgg ds then showSorted rs else showRows rs

def mk (m s sig : String) : Proto.Out := { model := m, spec := s, sig := if m == s then "-" else sig }

/-! ### chain -/

/-- the code as it is now -/
def cur : Quirks := Quirks.current

def pushOps (q : Quirks) (ds : List OpD) : List (Op Row K GState) := ds.map (OpD.toPush q)
def specOps (ds : List OpD) : List (Op Row K GState) := ds.map OpD.toSpec

/-- operator after operator on the whole input (what a correct pipeline computes) -/
def staged (q : Quirks) (ds : List OpD) (rows : List Row) : List Row :=
  semPipe (initStages (pushOps q ds)) rows

/-- the push pipeline under quirk set `q`; `none` = `execute()` never returns -/
def chainOut (q : Quirks) (src : String) (ds : List OpD) (rows : List Row) : Option String :=
  if src == "v" then
    some (match runVector q.pipe (pushOps q ds) rows with
      | none => "hang"
      | some out => showOut ds out)
  else do
    let sizes ← parseSizes src
    pure (showOut ds (run q.pipe (pushOps q ds) (splitChunks sizes rows)))

/-- the deviations that are switched on in `cur` and change this line's result when switched off -/
def sigsOf (out : Quirks → Option String) (cands : List (String × (Quirks → Bool) × (Quirks → Quirks))) : String :=
  let base := out cur
  let l := cands.filterMap (fun (name, isOn, off) =>
    if isOn cur && out (off cur) != base then some name else none)
  if l.isEmpty then "unexplained" else joinWith "+" l.eraseDups

def opQuirks : List (String × (Quirks → Bool) × (Quirks → Quirks)) :=
  [("push-hash-key-collision", (·.hashKeys), fun q => { q with hashKeys := false }),
   ("push-filter-comparison-semantics", (·.predNoCoercion), fun q => { q with predNoCoercion := false }),
   -- one finding as long as both halves are open; the boolean half keeps its own name afterwards
   (if cur.predNoCoercion then "push-filter-comparison-semantics" else "push-filter-bool-order",
    (·.predBoolOrder), fun q => { q with predBoolOrder := false }),
   ("push-sum-float-or-null", (·.floatSum), fun q => { q with floatSum := false })]

def chainQuirks : List (String × (Quirks → Bool) × (Quirks → Quirks)) :=
  [("limit0-chunk-size-zero-hang", (·.zeroChunk), fun q => { q with zeroChunk := false }),
   ("push-limit-not-last-drops-rows", (·.dropOnStop), fun q => { q with dropOnStop := false })] ++ opQuirks

def handleChain (src table : String) (opToks : List String) : Option Proto.Out := do
  let rows ← parseTable table
  let ds ← opToks.mapM parseOp
  let model ← chainOut cur src ds rows
  let spec := showOut ds (specChain (specOps ds) rows)
  if model == spec then pure { model := model, spec := spec }
  else pure (mk model spec (sigsOf (fun q => chainOut q src ds rows) chainQuirks))

/-! ### pull -/

def handlePull (src table : String) (opToks : List String) : Option Proto.Out := do
  let rows ← parseTable table
  let ds ← opToks.mapM parseOp
  let sizes ← parseSizes src
  let out := (pullChain Generated.chunkCapacity (ds.map OpD.toPull) (splitChunks sizes rows)).flatten
  let model := showOut ds out
  let spec := showOut ds (specChain (specOps ds) rows)
  let hasAgg := ds.any (fun d => match d with | .agg _ _ => true | _ => false)
  pure (mk model spec (if hasAgg then "pull-group-key-float-bits" else "pull-deviation"))

/-! ### par -/

def morselSize : String → Option Nat
  | "pN" => some 65536 | "pM" => some 32768 | "pH" => some 16384 | "pC" => some 1024
  | s => s.toNat?

/-- sequence with every maximal block of rows whose sort-key columns print alike in textual order -/
def canonTies (keys : List SortKey) (rows : List Row) : List Row :=
  let keytxt (r : Row) : String := joinWith "," (keys.map (fun k => match r[k.col]? with | some v => showTok v | none => "?"))
  let rec go (fuel : Nat) (rows : List Row) : List Row :=
    match fuel, rows with
    | 0, _ => []
    | _, [] => []
    | fuel + 1, r :: rest =>
      let block := r :: rest.takeWhile (fun x => keytxt x == keytxt r)
      let others := rest.dropWhile (fun x => keytxt x == keytxt r)
      let sorted := (block.toArray.qsort (fun a b => showRow a < showRow b)).toList
      sorted ++ go fuel others
  go rows.length rows

def parBody (q : Quirks) (ds : List OpD) (rows : List Row) : String :=
  match ds.getLast? with
  | some (.sort keys) =>
    let pre := staged q ds.dropLast rows
    showRows (canonTies keys (pre.mergeSort (rowLe sortCmpVals keys)))
  | some (.distinct _) => showSorted (dedupFirst (rowKey q none) (staged q ds.dropLast rows))
  | some (.distinctMat _) => showSorted (dedupFirst (rowKey q none) (staged q ds.dropLast rows))
  | _ => showSorted (staged q ds rows)

def handlePar (morsel table : String) (opToks : List String) : Option Proto.Out := do
  let rows ← parseTable table
  let ds ← opToks.mapM parseOp
  let size ← morselSize morsel
  let nm := (Exec.generateMorsels rows.length size).length
  let head := s!"m{nm}r{if nm == 0 then 0 else rows.length}|"
  let body (q : Quirks) := if nm == 0 then "norows" else parBody q ds rows
  let m := head ++ body cur
  let sp := head ++ body Quirks.none
  if m == sp then pure { model := m, spec := sp }
  else pure (mk m sp (sigsOf (fun q => some (body q)) opQuirks))

/-! ### external sort -/

def isSortedBy (le : Row → Row → Bool) : List Row → Bool
  | [] => true
  | [_] => true
  | a :: b :: rest => le a b && isSortedBy le (b :: rest)

def xsortSig (le : Row → Row → Bool) (rowsM rowsS : List Row) (active : Nat) : String :=
  let a := if rowsM == rowsS then []
    else if isSortedBy le rowsM && sortStrs (rowsM.map showRow) == sortStrs (rowsS.map showRow)
      then ["spill-sort-tie-order"] else ["spill-sort-wrong"]
  let b := if active != 0 then ["spill-manager-active-files-stale"] else []
  if (a ++ b).isEmpty then "unexplained" else joinWith "+" (a ++ b)

def handleXsort (thr src table keys : String) : Option Proto.Out := do
  let rows ← parseTable table
  let sizes ← parseSizes src
  let ks ← parseKeys keys
  let t ← thr.toNat?
  let cmp := cmpRows sortCmpVals ks
  let le := rowLe sortCmpVals ks
  let chunks := splitChunks sizes rows
  let out := xsortRun cur.heapTies cmp t chunks
  let nruns := (xsortState le t chunks).2.length
  let active := if cur.staleActive then nruns else 0
  let sp := rows.mergeSort le
  pure (mk s!"{showRows out}|runs{nruns}|left0,0|active{active}" s!"{showRows sp}|runs{nruns}|left0,0|active0"
    (xsortSig le out sp active))

def handleXruns (keys mem : String) (runToks : List String) : Option Proto.Out := do
  let ks ← parseKeys keys
  let memRows ← parseTable mem
  let runs ← runToks.mapM parseTable
  let disk := runs.filter (fun r => !r.isEmpty)
  let cmp := cmpRows sortCmpVals ks
  let le := rowLe sortCmpVals ks
  let out := mergeAll cur.heapTies cmp disk memRows
  let sp := (disk.flatten ++ memRows).mergeSort le
  let n := disk.length
  let active := if cur.staleActive then n else 0
  pure (mk s!"{showRows out}|runs{n}|left0,0|active{active}" s!"{showRows sp}|runs{n}|left0,0|active0"
    (xsortSig le out sp active))

/-! ### spillable aggregation -/

def distinctKeys (gcols : List Nat) (rows : List Row) : Nat :=
  (dedupFirst (idKey (some gcols)) rows).length

/-- does some push end with at least `threshold` groups (then the largest partition is spilled)? -/
def xaggSpills (gcols : List Nat) (threshold : Nat) : List Row → List (List Row) → Bool
  | _, [] => false
  | seenRows, c :: cs =>
    if c.isEmpty then xaggSpills gcols threshold seenRows cs
    else if distinctKeys gcols (seenRows ++ c) ≥ threshold then true
    else xaggSpills gcols threshold (seenRows ++ c) cs

def handleXagg (thr src table op : String) : Option Proto.Out := do
  let rows ← parseTable table
  let sizes ← parseSizes src
  let t ← thr.toNat?
  let d ← parseOp op
  match d with
  | .agg gcols _ =>
    -- the partitioned state is keyed by the serialized key values: value identity
    let q : Quirks := { cur with hashKeys := false }
    let out := staged q [d] rows
    let sp := staged Quirks.none [d] rows
    let spilled := if gcols.isEmpty then false else xaggSpills gcols t [] (splitChunks sizes rows)
    let tail := s!"|spilled{if spilled then 1 else 0}|left0,0"
    pure (mk (showSorted out ++ tail) (showSorted sp ++ tail) "push-sum-float-or-null")
  | _ => none

/-! ### PartitionedState -/

def showPairs (l : List (Row × Int)) : String :=
  if l.isEmpty then "none" else joinWith ";" (sortStrs (l.map (fun (k, v) => s!"{showRow k}={v}")))

/-- one script command; `single` = one partition (files are tracked); `tidy` = specification
(cleanup and drop delete their files) -/
def partStep (single tidy : Bool) (s : PartSt) (cmd : String) : Option (PartSt × String) :=
  let spillRes (r : PartSt × Bool) : PartSt × String :=
    if single then (r.1, if r.2 then "w" else "0") else (s, "x")
  match cmd.splitOn ":" with
  | ["i", k, v] => do
    let k ← parseRow k
    let v ← v.toInt?
    let l := s.load
    pure ({ l with data := assocSet k v l.data }, match assocGet k l.data with | some o => s!"old{o}" | none => "new")
  | ["a", k, v] => do
    let k ← parseRow k
    let v ← v.toInt?
    let l := s.load
    let nv := (assocGet k l.data).getD 0 + v
    pure ({ l with data := assocSet k nv l.data }, toString nv)
  | ["g", k] => do
    let k ← parseRow k
    let l := s.load
    pure (l, match assocGet k l.data with | some o => toString o | none => "none")
  | ["sp", _] => some (spillRes s.spill)
  | ["sl"] => some (spillRes s.spill)
  | ["su"] => some (spillRes s.spill)
  | ["it"] => let l := s.load; some (l, showPairs l.data)
  | ["dr"] => let r := s.drain; some (r.1, showPairs r.2)
  | ["cl"] => some (s.cleanup (!tidy), "ok")
  | ["sz"] => some (s, toString s.data.length)
  | ["fs"] => some (s, if single then toString s.filesOnDisk else "x")
  | _ => none

def partRun (single tidy : Bool) (script : List String) : Option String := do
  let (s, outs) ← script.foldlM (fun (acc : PartSt × List String) cmd => do
    let (s', o) ← partStep single tidy acc.1 cmd
    pure (s', acc.2 ++ [o])) ({}, [])
  let left := if !single then 0 else s.leftAtDrop (!tidy)
  pure s!"{joinWith " " outs}|left{left},0|bytes0"

def handlePart (n : String) (script : List String) : Option Proto.Out := do
  let n ← n.toNat?
  let m ← partRun (n == 1) (!cur.leakFiles) script
  let sp ← partRun (n == 1) true script
  pure (mk m sp "partitioned-state-leaves-spill-files")

/-! ### one operator on a chunk with a selection vector -/

/-- physical positions (from the selection, in order) of the rows that are new under `key` -/
def newPositions (key : Row → List (List Nat)) (phys : Array Row) : List (List (List Nat)) → List Nat → List Nat
  | _, [] => []
  | seen, i :: is =>
    match phys[i]? with
    | none => newPositions key phys seen is
    | some r => if seen.contains (key r) then newPositions key phys seen is
                else i :: newPositions key phys (key r :: seen) is

def handleSelop (op phys sel : String) : Option Proto.Out := do
  let d ← parseOp op
  let rows ← parseTable phys
  let selIdx ← parseNatList sel
  let arr := rows.toArray
  let s := some selIdx
  let selected := selRows arr s
  let len := selLen arr s
  let flag (b : Bool) := if b then "go" else "stop"
  -- specification: the operator applied to the selected rows
  let specOp := d.toPush cur
  let sr := specOp.push St.empty selected
  let spec := s!"{showRows (sr.2.1 ++ specOp.finalize sr.1)}|{flag sr.2.2}"
  let model :=
    match d with
    | .filter col c k =>
      let p := predWith (!cur.predNoCoercion) cur.predBoolOrder col c k
      s!"{showRows (if len == 0 then [] else if cur.physSel then filterSel p arr s else filterSelNew p arr s)}|go"
    | .limit n =>
      if n == 0 then "norows|stop"
      else if len ≤ n then s!"{showRows selected}|{flag (decide (len < n))}"
      else if cur.physSel then
        match limitSel n arr s with
        | some r => s!"{showRows r}|stop"
        | none => "panic"
      else s!"{showRows (sliceSel 0 n arr s)}|stop"
    | .skip k =>
      if k == 0 then s!"{showRows selected}|go"
      else if len ≤ k then "norows|go"
      else s!"{showRows (if cur.physSel then skipSel k arr s else sliceSel k (len - k) arr s)}|go"
    | .distinct cols =>
      if len == 0 then "norows|go"
      else if cur.physSel then s!"{showRows (distinctSel (newPositions (hashKey cols) arr [] selIdx) arr s)}|go"
      else spec
    | _ => spec
  pure (mk model spec "selection-vector-physical-index")

/-! ### one big chunk: 16-bit selection indices -/

def digest (rows : List Row) : String :=
  let n := rows.length
  let h := rows.foldl (fun (h : Nat) r =>
    let h1 := (showRow r).toUTF8.foldl (fun (h : Nat) b => ((h ^^^ b.toNat) * 1099511628211 % 2 ^ 64) % 1000000007) h
    ((h1 ^^^ 59) * 1099511628211 % 2 ^ 64) % 1000000007) 1469598103934665603
  let head := rows.take 3
  let tail := rows.drop (max (n - 3) (min 3 n))
  s!"n{n}|{joinWith ";" (head.map showRow)}|{joinWith ";" (tail.map showRow)}|h{h}"

/-- an operator applied to the ONE chunk that reaches it, selections built as the OLD code did;
`none` = panic. (Rows of the generated table are pairwise different.) -/
def bigStepOld (d : OpD) (rows : List Row) : Option (List Row) :=
  let arr := rows.toArray
  let len := rows.length
  match d with
  | .filter col c k =>
    if len == 0 then some []
    else some (chunkFilter arr none (fromPredicate len (fun i => match arr[i]? with | some r => pushPred col c k r | none => false)))
  | .limit n => if len ≤ n then some rows else limitSel n arr none
  | .skip k => if k == 0 then some rows else if len ≤ k then some [] else some (skipSel k arr none)
  | .distinct _ => if len == 0 then some [] else some (chunkFilter arr none (fromPredicate len (fun _ => true)))
  | d => let o := d.toPush Quirks.asIs; some ((o.push St.empty rows).2.1 ++ o.finalize (o.push St.empty rows).1)

/-- the repaired code: limit / skip cut with `slice`, distinct copies rows, and behind a sort the
chunks have the standard size; only a filter applied DIRECTLY to the one big source chunk still
builds a selection with 16-bit positions. `direct` = no breaker so far. -/
def bigStepNew (d : OpD) (st : List Row × Bool) : List Row × Bool :=
  let rows := st.1
  match d with
  | .filter col c k =>
    let p := predWith (!cur.predNoCoercion) cur.predBoolOrder col c k
    if st.2 && rows.length > 0 then
      (chunkFilter rows.toArray none (fromPredicate rows.length
        (fun i => match rows.toArray[i]? with | some r => p r | none => false)), false)
    else (rows.filter p, false)
  | .limit n => (rows.take n, st.2)
  | .skip k => (rows.drop k, st.2)
  | .distinct _ => (rows, st.2)
  | .distinctMat _ => (rows, false)
  | d => let o := d.toPush cur; ((o.push St.empty rows).2.1 ++ o.finalize (o.push St.empty rows).1, false)

def handleBig (n mult : String) (opToks : List String) : Option Proto.Out := do
  let n ← n.toNat?
  let m ← mult.toNat?
  let ds ← opToks.mapM parseOp
  let rows := genRows n m n
  let model :=
    if cur.physSel || cur.oneChunk then
      match ds.foldlM (fun r d => bigStepOld d r) rows with
      | some r => digest r
      | none => "panic"
    else digest (ds.foldl (fun st d => bigStepNew d st) (rows, true)).1
  -- rows of the generated table are pairwise different: DISTINCT is the identity on them
  let noDistinct := ds.filter (fun d => match d with | .distinct _ => false | .distinctMat _ => false | _ => true)
  let spec := digest (specChain (pushOps cur noDistinct) rows)
  pure (mk model spec (if model == "panic" then "limit-selection-assert-panic" else "selection-u16-index-wrap"))

/-! ### BinaryExpr -/

def handleExpr (op a b : String) : Option Proto.Out := do
  let o ← parseArith op
  let x ← parseTok a
  let y ← parseTok b
  let ev (panics : Bool) : String := match x, y with
    | .int l, .int r => (match arithInt panics o l r with | some v => showTok v | none => "panic")
    | _, _ => "N"
  -- specification: no integer result (division by zero, i64::MIN / -1) is NULL, as on the pull side
  pure (mk (ev cur.divPanics) (ev false) "project-div-overflow-panic")

/-! ### merge of per-worker DISTINCT results -/

/-- `hash_row` of parallel/merge.rs: ONE hasher is fed every column in turn, so the key of a row
is the concatenation of its columns' feeds -/
def flatKey (r : Row) : List Nat := (r.map hashFeed).flatten

def handleDmerge (tables : List String) : Option Proto.Out := do
  let ts ← tables.mapM parseTable
  let sp := showRows (dedupFirst (fun r => r) ts.flatten)
  pure (mk (if cur.flatRowHash then showRows (dedupFirst flatKey ts.flatten) else sp) sp
    "merge-distinct-row-hash-collision")

def handle (args : List String) : Option Proto.Out :=
  match args with
  | "chain" :: src :: table :: ops => handleChain src table ops
  | "pull" :: src :: table :: ops => handlePull src table ops
  | "par" :: _w :: m :: _c :: _sk :: table :: ops => handlePar m table ops
  | ["xsort", t, src, table, keys] => handleXsort t src table keys
  | "xruns" :: keys :: mem :: runs => handleXruns keys mem runs
  | ["xagg", t, src, table, op] => handleXagg t src table op
  | "part" :: n :: script => handlePart n script
  | ["selop", op, phys, sel] => handleSelop op phys sel
  | "big" :: n :: m :: ops => handleBig n m ops
  | ["expr", op, a, b] => handleExpr op a b
  | "dmerge" :: tables => handleDmerge tables
  | _ => none

end Grafeo.DriverPush
