import GrafeoModel.Driver.Proto
/-! stream `jo` (stub; replaced by its builder) -/
open Grafeo Grafeo.Proto
namespace DriverJoinOrder
def handle (_args : List String) : Option Out := none
end DriverJoinOrder
