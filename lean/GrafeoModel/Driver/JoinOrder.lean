import GrafeoModel.Driver.Proto
import GrafeoModel.Model.JoinOrder
/-! stream `jo`: the join-order search (C09). Formats: see `harness/src/jo.rs`. -/
open Grafeo Grafeo.Proto Grafeo.JoinOrder
namespace DriverJoinOrder

def parseEdge (k : Nat) (s : String) : Option Edge :=
  match s.splitOn ":" with
  | [a, b] => do
    let f ← a.toNat?
    let t ← b.toNat?
    pure { id := k, frm := f, to := t }
  | _ => none

def parseEdgesGo : Nat → List String → Option (List Edge)
  | _, [] => some []
  | k, s :: rest => do
    let e ← parseEdge k s
    let es ← parseEdgesGo (k + 1) rest
    pure (e :: es)

def parseEdges (s : String) : Option (List Edge) :=
  if s == "-" then some [] else parseEdgesGo 0 (s.splitOn ",")

structure Args where
  n : Nat
  edges : List Edge
  cards : List Nat

def parseArgs (n e c : String) : Option Args := do
  let n ← n.toNat?
  let es ← parseEdges e
  let cs ← parseNatList c
  if n > 64 || cs.length != n || es.any (fun e => e.frm ≥ n || e.to ≥ n) then none
  else pure { n := n, edges := es, cards := cs }

def showCond (e : Edge) : String := toString e.id ++ ":" ++ toString e.frm ++ ">" ++ toString e.to

def showTree : Tree → String
  | .leaf i => toString i
  | .join l r cs =>
    "( " ++ showTree l ++ " " ++ showTree r ++ " " ++ (if cs.isEmpty then "-" else joinWith "," (cs.map showCond)) ++ " )"

def parseCond (s : String) : Option Edge :=
  match s.splitOn ":" with
  | [k, ft] =>
    match ft.splitOn ">" with
    | [f, t] => do
      let k ← k.toNat?
      let f ← f.toNat?
      let t ← t.toNat?
      pure { id := k, frm := f, to := t }
    | _ => none
  | _ => none

def parseConds (s : String) : Option (List Edge) :=
  if s == "-" then some [] else (s.splitOn ",").mapM parseCond

def parseTree : Nat → List String → Option (Tree × List String)
  | 0, _ => none
  | _, [] => none
  | fuel + 1, tok :: rest =>
    if tok == "(" then
      match parseTree fuel rest with
      | some (l, r1) =>
        match parseTree fuel r1 with
        | some (r, c :: close :: r3) =>
          if close == ")" then (parseConds c).map (fun cs => (Tree.join l r cs, r3)) else none
        | _ => none
      | none => none
    else tok.toNat?.map (fun i => (Tree.leaf i, rest))

def insertNat (x : Nat) : List Nat → List Nat
  | [] => [x]
  | y :: ys => if x ≤ y then x :: y :: ys else y :: insertNat x ys

def sortNat (xs : List Nat) : List Nat := xs.foldr insertNat []

/-- the verdict on a join tree for the conditions `0 .. m-1` over `n` relations -/
def verdict (n : Nat) (es : List Edge) (t : Tree) : String :=
  let m := es.length
  let seen := (condsOf t).map (·.id)
  -- a condition over one relation connects nothing: DPccp never hands it to a join, and the
  -- optimizer never gives it one (`collect_join_tree` refuses such a tree)
  let missing := (es.filter (fun e => !seen.contains e.id && e.frm != e.to)).map (·.id)
  let dup := (List.range m).filter (fun k => seen.count k > 1)
  let piece (name : String) (xs : List Nat) : List String :=
    if xs.isEmpty then [] else [name ++ ":" ++ natList (sortNat xs)]
  let out :=
    (if sortNat (leaves t) == List.range n then [] else ["leaves"])
      ++ piece "missing" missing ++ piece "dup" dup
      ++ piece "uncovered" ((uncoveredConds t).map (·.id))
  if out.isEmpty then "ok" else joinWith "+" out

/-- a tree that is not valid is a deviation without a listed finding (both former ones are repaired) -/
def verdictOut (a : Args) (t : Tree) : Out :=
  let v := verdict a.n a.edges t
  if v == "ok" then { model := v, spec := "ok" } else { model := v, spec := "ok", sig := "c09-joinorder:invalid" }

def parseMembers (s : String) (n : Nat) : Option (List (List Nat)) := do
  let ms ← (s.splitOn ",").mapM (fun m => if m == "-" then some [] else (m.splitOn ".").mapM (fun x => x.toNat?))
  if ms.length != n || ms.any (fun m => m.any (· > 63)) then none else pure ms

def handle (args : List String) : Option Out :=
  match args with
  | ["order", n, e, c] => do
    let a ← parseArgs n e c
    match optimize (build a.n a.edges) (costLt a.cards) with
    | some t => pure { model := showTree t }
    | none => pure { model := "none" }
  | ["valid", n, e, c] => do
    let a ← parseArgs n e c
    match optimize (build a.n a.edges) (costLt a.cards) with
    | some t => pure (verdictOut a t)
    | none => pure { model := "kept" }
  | "check" :: n :: e :: c :: rest => do
    let a ← parseArgs n e c
    let g := build a.n a.edges
    let expectNone : Bool := a.n = 0 || a.n > maxReordered || (a.n ≥ 2 && !(isConnected g (full a.n)))
    if rest == ["none"] then
      pure { model := if expectNone then "kept" else "unexpected-none" }
    else
      let (t, left) ← parseTree (rest.length + 1) rest
      if !left.isEmpty then none
      else if expectNone then pure { model := "unexpected-tree" }
      else pure (verdictOut a t)
  | ["opt", n, e, c] => do
    let a ← parseArgs n e c
    if a.n = 0 then none
    else pure { model := showTree (reorder a.n a.edges (costLt a.cards)) }
  | ["rows", n, e, c, m] => do
    let a ← parseArgs n e c
    if a.n = 0 || a.n > 6 then none
    else
      let ms ← parseMembers m a.n
      let before := rowsWith ms (appliedConds (leftDeep a.n a.edges))
      let after := rowsWith ms (appliedConds (reorder a.n a.edges (costLt a.cards)))
      let same := before == after
      let out := toString before.length ++ "/" ++ toString after.length ++ "/" ++ (if same then "eq" else "ne")
      let want := toString before.length ++ "/" ++ toString before.length ++ "/eq"
      if same then pure { model := out, spec := want }
      else pure { model := out, spec := want, sig := "c09-joinorder:rows-differ" }
  | _ => none

end DriverJoinOrder
