import GrafeoModel.Model.Mem
import GrafeoModel.Driver.Proto

/-! Stream `mem`: `BufferManager` accounting under a forced interleaving (C20). Stateless lines. -/
namespace Grafeo.DriverMem
open Grafeo.Proto Grafeo.Mem

def parseOp (s : String) : Option Op :=
  match s.toList with
  | 'a' :: r =>
    match (String.ofList r).splitOn "." with
    | [a, b] => do pure (.alloc (← a.toNat?) (← b.toNat?))
    | _ => none
  | 'd' :: r => (String.ofList r).toNat?.map .drop
  | _ => none

def parseProgs (s : String) : Option (List (List Op)) :=
  (s.splitOn ";").mapM (fun p => if p == "-" || p == "" then some [] else (p.splitOn ",").mapM parseOp)

def showResults (t : Thread) : String :=
  if t.results.isEmpty then "-" else String.ofList (t.results.map (fun b => if b then '1' else '0'))

def runIt (hard : Nat) (progs : List (List Op)) (sched : List Nat) : State :=
  -- a program of n operations needs at most 6 steps per operation when run alone
  let fuel := 8 * (progs.map List.length).sum + 8
  finishAll false fuel (runSched false (init hard progs) sched)

def handle (args : List String) : Option Proto.Out :=
  match args with
  | [kind, hard, progs, sched] => do
    let hard ← hard.toNat?
    let progs ← parseProgs progs
    let sched ← parseNatList sched
    let st := runIt hard progs sched
    if kind == "run" then
      let rs := match st.regions with
        | [a, b, c, d] => s!"{a}.{b}.{c}.{d}"
        | _ => "?"
      pure { model := s!"res={joinWith ";" (st.threads.map showResults)} alloc={st.allocated} regions={rs} max={st.maxAlloc} held={heldTotal st}" }
    else if kind == "inv" then
      let v := if st.maxAlloc > hard then "over-limit"
               else if st.allocated != heldTotal st || st.regions.sum != heldTotal st then "accounting"
               else "ok"
      pure { model := v, spec := "ok", sig := if v == "ok" then "-" else "mem-" ++ v }
    else none
  | _ => none

end Grafeo.DriverMem
