import GrafeoModel.Model.Lex2Cypher
import GrafeoModel.Model.Lex2Sparql
import GrafeoModel.Model.Lex2Graphql
import GrafeoModel.Model.Lex2Gremlin
import GrafeoModel.Driver.Proto
import GrafeoModel.Driver.Lex

/-!
Stream `lex2` (C12): the Cypher, SPARQL, GraphQL and Gremlin lexers.  Stateless lines; query text =
lowercase hex of its UTF-8 bytes (`-` = empty).

  lex2 <lang> <hex> [<alpha> <num>]      CORRESPONDENCE: the token list of the language's `tokenize`
                                         in `Model/Lex2*.lean` (the functions the theorems of
                                         `Props/C12Lex2.lean` are about) as `kind:start-end,…`;
                                         `spec = -` (the token list itself is not constrained)
  lex2 <lang>.ok <hex> [<alpha> <num>]   model = `verdict` computed on that token list (every span on
                                         character boundaries, ordered, non-empty unless `eof`,
                                         exactly one `eof`, last, at most chars+1 tokens);
                                         spec = `ok` (what `c12_boundary` / `c12_progress` /
                                         `c12_terminates` / `c12_ordered` prove for every input)

`<alpha>` / `<num>` (graphql, gremlin only): the non-ASCII code points of the text for which
`char::is_alphabetic` / `char::is_numeric` hold — the models take these two Unicode tables as
parameters (the theorems hold for every such pair of predicates).
-/
open Grafeo Grafeo.Proto
namespace DriverLex2
open Grafeo.Lex (utf8Len)
open Grafeo.Lex2

def kName : K → String
  | .eof => "eof" | .error => "error" | .str => "str" | .lstr => "lstr" | .qid => "qid"
  | .int => "int" | .dec => "dec" | .flt => "flt" | .word => "word" | .punct => "punct"
  | .var => "var" | .iri => "iri" | .pname => "pname" | .bnode => "bnode"

def showTok (t : Tok) : String := s!"{kName t.k}:{t.start}-{t.stop}"

/-- the harness stops after 10000 tokens and appends `runaway` when no `eof` arrived by then -/
def maxTokens : Nat := 10000

def showToks (ts : List Tok) : String :=
  if ts.length > maxTokens then joinWith "," ((ts.take maxTokens).map showTok ++ ["runaway"])
  else joinWith "," (ts.map showTok)

/-- `char::is_alphabetic` / `char::is_numeric` restricted to the text at hand: ASCII by the ASCII
rule, other characters by the table the op line carries -/
def uniPred (ascii : Char → Bool) (tbl : List Nat) (c : Char) : Bool :=
  if c.toNat < 0x80 then ascii c else tbl.contains c.toNat

/-- (token list, offset width) of one language; `none` = unknown language / malformed arguments -/
def lexOf (lang : String) (cs : List Char) (extra : List String) : Option (List Tok × (Char → Nat)) :=
  match lang, extra with
  | "cypher", [] => some (Cypher.tokenize cs, utf8Len)
  | "sparql", [] => some (Sparql.tokenize cs, utf8Len)
  | "graphql", [a, n] => do
    let al ← parseNatList a
    let nu ← parseNatList n
    some (Graphql.tokenize (uniPred Grafeo.Lex.isAlpha al) (uniPred Grafeo.Lex.isDigit nu) cs, utf8Len)
  | "gremlin", [a, n] => do
    let al ← parseNatList a
    let nu ← parseNatList n
    some (Gremlin.tokenize (uniPred Grafeo.Lex.isAlpha al) (uniPred Grafeo.Lex.isDigit nu) cs, Gremlin.w1)
  | _, _ => none

def handle (args : List String) : Option Out :=
  match args with
  | lang :: h :: extra => do
    let cs ← DriverLex.parseText h
    if lang.endsWith ".ok" then
      let (ts, w) ← lexOf (lang.dropRight 3) cs extra
      pure { model := verdict w cs ts, spec := "ok", sig := if verdict w cs ts == "ok" then "-" else "lex2-" ++ lang }
    else
      let (ts, _) ← lexOf lang cs extra
      pure { model := showToks ts }
  | _ => none

end DriverLex2
