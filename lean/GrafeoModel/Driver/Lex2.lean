import GrafeoModel.Driver.Proto
/-! stream `lex2` (stub; replaced by its builder) -/
open Grafeo Grafeo.Proto
namespace DriverLex2
def handle (_args : List String) : Option Out := none
end DriverLex2
