import GrafeoModel.Model.Ops2
import GrafeoModel.Generated.Constants
import GrafeoModel.Driver.Proto

/-! Stream `ops2` (C11, predicate / sort / aggregate level). Stateless lines; see
harness/src/ops2.rs for the line formats. -/
namespace Grafeo.DriverOps2
open Grafeo.Proto Grafeo.Ops2

/-! ### tokens, rows, tables -/

def hex16 (n : Nat) : String :=
  String.ofList ((List.range 16).reverse.map (fun i => hexDigit (n / 16 ^ i % 16)))

def parseHexNat (s : String) : Option Nat :=
  s.toList.foldlM (fun acc c => do pure (acc * 16 + (← hexVal c))) 0

def parseTok (s : String) : Option Val :=
  match s.toList with
  | ['N'] => some .null
  | ['B', '0'] => some (.bool false)
  | ['B', '1'] => some (.bool true)
  | 'I' :: r => (String.ofList r).toInt?.map .int
  | 'F' :: r => (parseHexNat (String.ofList r)).map .flt
  | 'S' :: r => (parseHex (if r.isEmpty then "-" else String.ofList r)).map .str
  | _ => none

def showTok : Val → String
  | .null => "N"
  | .bool b => if b then "B1" else "B0"
  | .int i => s!"I{i}"
  | .flt b => "F" ++ hex16 b
  | .str s => "S" ++ hexBytes s

def parseRow (s : String) : Option Row := (s.splitOn ",").mapM parseTok
def showRow (r : Row) : String := joinWith "," (r.map showTok)

def parseTable (s : String) : Option (List Row) :=
  if s == "-" then some [] else (s.splitOn ";").mapM parseRow

def parseSizes (s : String) : Option (List Nat) :=
  let t := if s.startsWith "c:" then (s.drop 2).toString else s
  parseNatList t

/-- the harness appends the row's position as one more column -/
def withPositions (rows : List Row) : List Row :=
  rows.zipIdx.map (fun p => p.1 ++ [.int (p.2 : Int)])

def posOf (r : Row) : String :=
  match r.getLast? with
  | some (.int i) => toString i
  | _ => "?"

def showPosFlat (rows : List Row) : String := if rows.isEmpty then "-" else joinWith "," (rows.map posOf)

def showPosChunks (cs : List (List Row)) : String :=
  if cs.isEmpty then "-" else joinWith "|" (cs.map (fun c => if c.isEmpty then "_" else joinWith "," (c.map posOf)))

def showRowsFlat (rows : List Row) : String := if rows.isEmpty then "-" else joinWith ";" (rows.map showRow)

def showRowsChunks (cs : List (List Row)) : String :=
  if cs.isEmpty then "-" else joinWith "|" (cs.map (fun c => if c.isEmpty then "_" else joinWith ";" (c.map showRow)))

/-! ### predicates (Polish notation) -/

def parseBOp : String → Option BOp
  | "eq" => some .eq | "ne" => some .ne | "lt" => some .lt | "le" => some .le | "gt" => some .gt | "ge" => some .ge
  | "and" => some .and | "or" => some .or | "xor" => some .xor
  | "add" => some .add | "sub" => some .sub | "mul" => some .mul | "div" => some .div | "mod" => some .mod
  | "sw" => some .sw | "ew" => some .ew | "ct" => some .ct
  | _ => none

def parseUOp : String → Option UOp
  | "not" => some .not | "isn" => some .isNull | "nn" => some .notNull | "neg" => some .neg
  | _ => none

mutual
/-- one expression from the front of the token list; `fuel` bounds the nesting -/
def parseEx (ncols : Nat) : Nat → List String → Option (Ex × List String)
  | 0, _ => none
  | _, [] => none
  | fuel + 1, t :: rest =>
    match parseBOp t with
    | some b => do
      let (l, r1) ← parseEx ncols fuel rest
      let (r, r2) ← parseEx ncols fuel r1
      pure (.bin b l r, r2)
    | none =>
      match parseUOp t with
      | some u => do
        let (e, r1) ← parseEx ncols fuel rest
        pure (.un u e, r1)
      | none =>
        if t == "m" then some (.mis, rest)
        else if t.startsWith "in" then do
          let k ← (t.drop 2).toString.toNat?
          let (l, r1) ← parseEx ncols fuel rest
          let (items, r2) ← parseItems ncols fuel k r1
          pure (.inl l items, r2)
        else if t.startsWith "l" then do
          let v ← parseTok (t.drop 1).toString
          pure (.lit v, rest)
        else if t.startsWith "c" then do
          let k ← (t.drop 1).toString.toNat?
          -- only the data columns are bound to variables
          pure (if k < ncols then .col k else .mis, rest)
        else none
def parseItems (ncols : Nat) : Nat → Nat → List String → Option (ExList × List String)
  | 0, _, _ => none
  | _, 0, ts => some (.nil, ts)
  | fuel + 1, k + 1, ts => do
    let (h, r1) ← parseEx ncols fuel ts
    let (t, r2) ← parseItems ncols fuel k r1
    pure (.cons h t, r2)
end

def parsePred (ncols : Nat) (s : String) : Option Ex :=
  let ts := s.splitOn ","
  match parseEx ncols (ts.length + 1) ts with
  | some (e, []) => some e
  | _ => none

def parseKey (s : String) : Option SortKey :=
  let cs := s.toList
  let n := cs.length
  if n < 3 then none
  else do
    let col ← (String.ofList (cs.take (n - 2))).toNat?
    pure ⟨col, cs[n - 2]? == some 'a', cs[n - 1]? == some 'f'⟩

def parseKeys (s : String) : Option (List SortKey) :=
  if s == "-" then some [] else (s.splitOn ",").mapM parseKey

def parseStage (ncols : Nat) (s : String) : Option Stage :=
  match s.splitOn "=" with
  | ["f", p] => (parsePred ncols p).map .filter
  | ["d"] => some (.distinct none)
  | ["d", cs] => do pure (.distinct (some (← (cs.splitOn "+").mapM (·.toNat?))))
  | ["o", ks] => (parseKeys ks).map .sort
  | ["s", n] => n.toNat?.map .skip
  | ["l", n] => n.toNat?.map .limit
  | ["w", sn] =>
    match sn.splitOn "+" with
    | [a, b] => do pure (.window (← a.toNat?) (← b.toNat?))
    | _ => none
  | _ => none

def parseStages (ncols : Nat) (s : String) : Option (List Stage) :=
  if s == "-" then some [] else (s.splitOn ";").mapM (parseStage ncols)

/-! ### TLP: three filters, the specification's three classes, signatures -/

/-- positions of the rows the three filters `p`, `NOT p`, `p IS NULL` return, evaluated with the
quirks `q`; with `keepLost = false` a row that is in none of the three (the predicate's value is
neither a boolean nor NULL) counts as unknown -/
def threeParts (q : Quirks) (keepLost : Bool) (p : Ex) (rows : List Row) : List Row × List Row × List Row :=
  let t := rows.filter (passes q p)
  let f := rows.filter (passes q p.not)
  let u := rows.filter (fun r => passes q p.isNull r ||
    (!keepLost && !passes q p r && !passes q p.not r))
  (t, f, u)

/-- the same for nodes (query level): a NULL cell is a missing property -/
def threePartsNode (q : Quirks) (keepLost : Bool) (p : Ex) (rows : List Row) : List Row × List Row × List Row :=
  let t := rows.filter (passesNode q p)
  let f := rows.filter (passesNode q p.not)
  let u := rows.filter (fun r => passesNode q p.isNull r ||
    (!keepLost && !passesNode q p r && !passesNode q p.not r))
  (t, f, u)

def showParts (x : List Row × List Row × List Row) : String :=
  showPosFlat x.1 ++ "/" ++ showPosFlat x.2.1 ++ "/" ++ showPosFlat x.2.2

/-- the departures the code (`Quirks.code`) has, each switched on alone on top of SQL's rules -/
def quirkNames : List (String × Quirks × Bool) :=
  let c := Quirks.code
  (if c.strictBool then [("and-or-not-kleene", (⟨true, false, false, false⟩ : Quirks), false)] else []) ++
  (if c.nullEq then [("null-compared-as-value", (⟨false, true, false, false⟩ : Quirks), false)] else []) ++
  (if c.epsEq then [("float-eq-epsilon", (⟨false, false, true, false⟩ : Quirks), false)] else []) ++
  (if c.inTwoValued then [("in-two-valued", (⟨false, false, false, true⟩ : Quirks), false)] else []) ++
  [("nonboolean-predicate-row-in-no-part", Quirks.sql, true)]

/-- … and each switched off alone, the others as the code has them -/
def quirkOffNames : List (String × Quirks × Bool) :=
  let c := Quirks.code
  (if c.strictBool then [("and-or-not-kleene", { c with strictBool := false }, true)] else []) ++
  (if c.nullEq then [("null-compared-as-value", { c with nullEq := false }, true)] else []) ++
  (if c.epsEq then [("float-eq-epsilon", { c with epsEq := false }, true)] else []) ++
  (if c.inTwoValued then [("in-two-valued", { c with inTwoValued := false }, true)] else []) ++
  [("nonboolean-predicate-row-in-no-part", c, false)]

def tlpSigWith (parts : Quirks → Bool → Ex → List Row → List Row × List Row × List Row)
    (p : Ex) (rows : List Row) (model spec : String) : String :=
  if model == spec then "-"
  else
    let alone := quirkNames.filter (fun (_, q, k) => showParts (parts q k p rows) != spec)
    if !alone.isEmpty then joinWith "+" (alone.map (·.1))
    else
      let off := quirkOffNames.filter (fun (_, q, k) => showParts (parts q k p rows) != model)
      if !off.isEmpty then joinWith "+" (off.map (·.1)) else "three-valued-logic"

def tlpSig := tlpSigWith threeParts

/-! ### chains -/

def belowStages (pred : Option Ex) (skip limit : Option Nat) : List Stage :=
  (match pred with | some e => [Stage.filter e] | none => []) ++
  (match skip, limit with
   | none, none => []
   | some s, none => [.skip s]
   | none, some n => [.limit n]
   | some s, some n => [.window s n])

def optNat (s : String) : Option (Option Nat) := if s == "-" then some none else s.toNat?.map some

def showCounts (cs : List (List (Nat × Nat))) : String :=
  if cs.isEmpty then "-" else joinWith "|" (cs.map (fun c =>
    if c.isEmpty then "_" else joinWith ";" (c.map (fun x => s!"I{x.1},I{x.2}"))))

def cap : Nat := Generated.chunkCapacity

def mk (m s sig : String) : Proto.Out := { model := m, spec := s, sig := if m == s then "-" else sig }

def handle (args : List String) : Option Proto.Out :=
  match args with
  | ["tlp", n, p, sz, t] => do
    let n ← n.toNat?
    let e ← parsePred n p
    let rows := withPositions (← parseTable t)
    let _ ← parseSizes sz       -- the flat result does not depend on the chunking (theorem)
    let m := showParts (threeParts Quirks.code true e rows)
    let s := showParts (threeParts Quirks.sql false e rows)
    pure { model := m, spec := s, sig := tlpSig e rows m s }
  | ["tlp.c", n, p, sz, t] => do
    let n ← n.toNat?
    let e ← parsePred n p
    let rows := withPositions (← parseTable t)
    let cs := splitChunks (← parseSizes sz) rows
    pure { model := showPosChunks (filterOp (passes Quirks.code e) cs) }
  | ["sort", n, k, sz, t] => do
    let _ ← n.toNat?
    let keys ← parseKeys k
    let rows := withPositions (← parseTable t)
    let cs := splitChunks (← parseSizes sz) rows
    pure (mk (showPosFlat (sortOp cap keys cs).flatten) (showPosFlat (rows.mergeSort (specRowLe keys))) "sort-order")
  | ["sort.c", n, k, sz, t] => do
    let _ ← n.toNat?
    let keys ← parseKeys k
    let rows := withPositions (← parseTable t)
    let cs := splitChunks (← parseSizes sz) rows
    pure { model := showPosChunks (sortOp cap keys cs) }
  | ["sort.m", _hint, n, k, sz, t] => do
    -- kept for the regression lines of the corpus (the old comparator could make `sort_by` panic
    -- here): since the repair, an ordinary sort
    let _ ← n.toNat?
    let keys ← parseKeys k
    let rows := withPositions (← parseTable t)
    let cs := splitChunks (← parseSizes sz) rows
    pure (mk (showPosFlat (sortOp cap keys cs).flatten) (showPosFlat (rows.mergeSort (specRowLe keys))) "sort-order")
  | ["count", n, c, p, sk, li, sz, t] => do
    let n ← n.toNat?
    let c ← c.toNat?
    let pred ← if p == "-" then some none else (parsePred n p).map some
    let sk ← optNat sk
    let li ← optNat li
    let rows := withPositions (← parseTable t)
    let cs := splitChunks (← parseSizes sz) rows
    let below := pullChain cap (belowStages pred sk li) cs
    let plain := below.flatten
    let r := s!"I{plain.length},I{(plain.filter (nonNullAt c)).length}"
    let m := showCounts (simpleAgg c below) ++ "/" ++ showCounts (hashAggCoded c below) ++ "/" ++ r
    pure (mk m (r ++ "/" ++ r ++ "/" ++ r) "hash-aggregate-no-row-on-empty-input")
  | ["qtlp", n, p, t] => do
    let n ← n.toNat?
    let e ← parsePred n p
    let rows := withPositions (← parseTable t)
    let m := showParts (threePartsNode Quirks.code true e rows)
    let s := showParts (threePartsNode Quirks.sql false e rows)
    pure { model := m, spec := s, sig := tlpSigWith threePartsNode e rows m s }
  | ["qord", k, sk, li, t] => do
    -- the query text carries no null order: the planner always asks for NullsLast
    let keys := (← parseKeys k).map (fun k => { k with nullsFirst := false })
    let sk ← optNat sk
    let li ← optNat li
    let rows := withPositions (← parseTable t)
    let win (l : List Row) : List Row :=
      let l := match sk with | some s => l.drop s | none => l
      match li with | some n => l.take n | none => l
    pure (mk (showPosFlat (win (rows.mergeSort (rowLe keys)))) (showPosFlat (win (rows.mergeSort (specRowLe keys)))) "sort-order")
  | ["qord.m", _hint, k, t] => do
    let keys := (← parseKeys k).map (fun k => { k with nullsFirst := false })
    let rows := withPositions (← parseTable t)
    pure (mk (showPosFlat (rows.mergeSort (rowLe keys))) (showPosFlat (rows.mergeSort (specRowLe keys))) "sort-order")
  | ["qcnt", n, c, p, t] => do
    let n ← n.toNat?
    let c ← c.toNat?
    let pred ← if p == "-" then some none else (parsePred n p).map some
    let rows := withPositions (← parseTable t)
    let plain := match pred with
      | some e => rows.filter (passesNode Quirks.code e)
      | none => rows
    let r := s!"I{plain.length},I{(plain.filter (nonNullAt c)).length}/I{plain.length}"
    pure (mk r r "count-differs-from-rows")
  | ["pipe.f", n, st, sz, t] => do
    let n ← n.toNat?
    let stages ← parseStages n st
    let rows ← parseTable t
    let cs := splitChunks (← parseSizes sz) rows
    pure (mk (showRowsFlat (pullChain cap stages cs).flatten) (showRowsFlat (specChainT stages rows)) "chain-not-the-list-result")
  | ["pipe.c", n, st, sz, t] => do
    let n ← n.toNat?
    let stages ← parseStages n st
    let rows ← parseTable t
    let cs := splitChunks (← parseSizes sz) rows
    pure { model := showRowsChunks (pullChain cap stages cs) }
  | _ => none

end Grafeo.DriverOps2
