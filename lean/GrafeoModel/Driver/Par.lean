import GrafeoModel.Driver.Proto
/-! stream `par` (stub; replaced by its builder) -/
open Grafeo Grafeo.Proto
namespace DriverPar
def handle (_args : List String) : Option Out := none
end DriverPar
