import GrafeoModel.Model.Par
import GrafeoModel.Driver.Proto

/-! Stream `par`: partition sources, rayon fold/reduce helpers, morsel scheduler (C17). -/
open Grafeo Grafeo.Proto Grafeo.Par Grafeo.Exec
namespace DriverPar

def dashList (s : String) : Option (List Int) :=
  if s == "-" || s == "_" then some [] else (s.splitOn ",").mapM (fun t => t.toInt?)

def showRow (r : List Int) : String := joinWith "." (r.map toString)
def showRows (rs : List (List Int)) : String := if rs.isEmpty then "-" else joinWith "," (rs.map showRow)

/-- a drained source: chunks of rows, or `loop` / `panic` -/
inductive D where
  | ok (chunks : List (List (List Int)))
  | loop
  | panic

def ofRes (rows : List (List Int)) : Res → D
  | .ok rs => .ok (rs.map (sliceRows rows))
  | .loop => .loop
  | .panic => .panic

def showSizes : D → String
  | .ok cs => if cs.isEmpty then "-" else joinWith "," (cs.map (fun c => toString c.length))
  | .loop => "loop"
  | .panic => "panic"

def catRows : List D → Option (List (List Int)) → String
  | [], none => "-"
  | [], some acc => showRows acc
  | .ok cs :: rest, acc => catRows rest (some ((acc.getD []) ++ cs.flatten))
  | .loop :: _, _ => "loop"
  | .panic :: _, _ => "panic"

structure Src where
  n0 : Nat
  rows : List (List Int)                 -- the table (readable rows)
  whole : Nat → D                        -- chunk size ↦ drained whole source
  part : Nat → Nat → Nat → D             -- start stop cs
  /-- the specification constrains partitions of this table (rectangular, in range) -/
  regular : Bool
  inRange : Nat → Bool                   -- is a morsel end acceptable for the contract

def mkSrc (kind data : String) : Option Src :=
  match kind with
  | "vec" =>
    if data == "none" then
      some { n0 := 0, rows := [], whole := fun _ => .ok [], part := fun _ _ _ => .ok [], regular := true, inRange := fun _ => true }
    else do
      let cols ← (data.splitOn "/").mapM dashList
      let n0 := (cols.head?.map List.length).getD 0
      let L := cols.foldl (fun m c => min m c.length) n0
      let rows := (List.range L).map (fun i => cols.map (fun c => c.getD i 0))
      pure { n0 := n0, rows := rows,
             whole := fun cs => ofRes rows (wholeRanges L false n0 cs),
             part := fun a b cs => ofRes rows (partRanges L false a b cs),
             regular := cols.all (fun c => c.length == n0), inRange := fun b => b ≤ n0 }
  | "range" => do
    let n ← data.toNat?
    let gen (k : Nat) : List (List Int) := (List.range k).map (fun (i : Nat) => [Int.ofNat i])
    pure { n0 := n, rows := gen n,
           whole := fun cs => ofRes (gen n) (wholeRanges n false n cs),
           part := fun a b cs => ofRes (gen b) (partRanges b false a b cs),
           regular := true, inRange := fun b => b ≤ n }
  | "triple" => do
    let t ← dashList data
    let rows := t.map (fun v => [v, v + 1, v + 2])
    let n := rows.length
    pure { n0 := n, rows := rows,
           whole := fun cs => ofRes rows (wholeRanges n true n cs),
           part := fun a b cs => ofRes rows (partRanges n true a b cs),
           regular := true, inRange := fun _ => true }
  | "node" => do
    let t ← dashList data
    let rows := t.map (fun v => [v])
    let n := rows.length
    pure { n0 := n, rows := rows,
           whole := fun cs => ofRes rows (wholeRanges n true n cs),
           part := fun a b cs => ofRes rows (partRanges n true a b cs),
           regular := true, inRange := fun _ => true }
  | "chunk" => do
    let chunks : List (List (List Int)) ←
      if data == "-" then some [] else (data.splitOn "|").mapM (fun c => (dashList c).map (fun v => v.map (fun x => [x])))
    let rows := chunks.flatten
    pure { n0 := rows.length, rows := rows,
           whole := fun _ => .ok (drainChunkWhole chunks),
           part := fun a b cs => .ok (drainChunkPart chunks cs a b),
           regular := true, inRange := fun _ => true }
  | _ => none

/-- morsel token ↦ (morsels, generated?) -/
def parseMorsels (s : String) (n0 : Nat) : Option (List (Nat × Nat) × Option Nat) :=
  if s.startsWith "g" then do
    let sz ← (s.drop 1).toString.toNat?
    pure ((generateMorsels n0 sz).map (fun m => (m.start, m.stop)), some sz)
  else if s == "-" then some ([], none)
  else do
    let ms ← (s.splitOn ",").mapM (fun t =>
      match t.splitOn "-" with
      | [a, b] => do pure ((← a.toNat?), (← b.toNat?))
      | _ => none)
    pure (ms, none)

def mk (m s sig : String) : Out := { model := m, spec := s, sig := if m == s then "-" else sig }

def handleSrc (chunksView : Bool) (kind data morsels cs : String) : Option Out := do
  let src ← mkSrc kind data
  let cs ← cs.toNat?
  let (ms, gen) ← parseMorsels morsels src.n0
  let whole := src.whole cs
  let parts := ms.map (fun m => src.part m.1 m.2 cs)
  if chunksView then
    let p := if parts.isEmpty then "-" else joinWith ";" (parts.map showSizes)
    pure { model := s!"W={showSizes whole} P={p} reset=ok" }
  else
    let model := s!"W={catRows [whole] none} P={catRows parts none}"
    let constrained := cs > 0 && src.regular && gen != some 0 && ms.all (fun m => src.inRange m.2)
    if !constrained then pure { model := model }
    else
      let want : List (List Int) :=
        match gen with
        | some _ => src.rows
        | none =>
          -- a partition source "produces data only for the row range specified in the morsel"
          let tbl := if kind == "range" then (List.range (ms.foldl (fun m x => max m x.2) 0)).map (fun (i : Nat) => [Int.ofNat i]) else src.rows
          ms.flatMap (fun m => sliceRows tbl m)
      pure (mk model s!"W={showRows src.rows} P={showRows want}" "partition-rows-differ")

/-! ### fold -/

def perThreads (threads : List Nat) (one many : String) : String :=
  joinWith "|" (threads.map (fun t => if t == 1 then one else many))

def showInts (xs : List Int) : String := if xs.isEmpty then "-" else intList xs

def showOptInt : Option Int → String
  | some v => toString v
  | none => "panic"

def showKV : Option KV → String
  | some (k, t) => s!"{k}:{t}"
  | none => "N"

def hex16 (n : Nat) : String :=
  String.ofList ((List.range 16).map (fun i => hexDigit (n / 16 ^ (15 - i) % 16)))

def showFB : FB → String
  | some (k, t) => if k == 0 && t == 1 then "-0" else toString k
  | none => "nan"
def showOptFB : Option FB → String
  | some v => showFB v
  | none => "N"
def showSum : Option Int → String
  | some v => toString v
  | none => "nan"
def showStats (s : Stats) : String := s!"{s.count};{showSum s.sum};{showOptFB s.min};{showOptFB s.max}"

/-- which operand the compiled `f64::min`/`f64::max` calls of the pinned build return for operands
that compare equal (`+0.0`/`-0.0`): the left one, in the fold step and in the reduce step -/
def tieFold : Bool := true
def tieReduce : Bool := true

def insertKey (kv : Int × List Int) : List (Int × List Int) → List (Int × List Int)
  | [] => [kv]
  | x :: xs => if kv.1 < x.1 then kv :: x :: xs else x :: insertKey kv xs
def showPart (m : List (Int × List Int)) : String :=
  if m.isEmpty then "-" else joinWith ";" ((m.foldr insertKey []).map (fun kv => s!"{kv.1}={intList kv.2}"))

def process (x : Int) : Except Int Int := if x % 3 == 0 then .error x else .ok x

def checkedSeq (xs : List Int) : Option Int := xs.foldl (fun s x => cadd s (some x)) (some 0)

/-- (one-thread-pool result, sequential result) -/
def foldResults (f items : String) : Option (String × String) :=
  match f with
  | "min" | "max" => do
    let kvs : List KV ← if items == "-" then some [] else (items.splitOn ",").mapM (fun t =>
      match t.splitOn ":" with
      | [k, g] => do pure ((← k.toInt?), (← g.toNat?))
      | _ => none)
    if f == "min" then pure (showKV (parMin (shape1 kvs)), showKV (kvs.foldl minF none))
    else pure (showKV (parMax (shape1 kvs)), showKV (kvs.foldl maxF none))
  | "stats" => do
    let xs : List FB ← if items == "-" then some [] else (items.splitOn ",").mapM (fun t =>
      if t == "nan" then some none else if t == "nz" then some (some (0, 1)) else t.toInt?.map (fun v => some (v, 0)))
    pure (showStats (parStats tieFold tieReduce (shape1 xs)), showStats (xs.foldl (statsF tieFold) Stats.init))
  | _ => do
    let xs ← dashList items
    match f with
    | "count" => pure (toString (parCount (fun x => x % 2 == 0) (shape1 xs)), toString (xs.foldl (countF (fun x => x % 2 == 0)) 0))
    | "sum_i64" => pure (showOptInt (parSumI64Checked (shape1 xs)), showOptInt (checkedSeq xs))
    | "sumf" =>
      let ys := xs.map rne53
      pure (hex16 (F64.i64ToF64 (parSumF (shape1 ys))), hex16 (F64.i64ToF64 (ys.foldl fadd 0)))
    | "try" =>
      let sh (r : List Int × List Int) := s!"{showInts r.1}/{showInts r.2}"
      pure (sh (parTryCollect process (shape1 xs)), sh (xs.foldl (tcF process) ([], [])))
    | "part" =>
      pure (showPart (parPartition (fun x => x % 4) id (shape1 xs)), showPart (xs.foldl (partF (fun x => x % 4) id) []))
    | "fr" =>
      pure (showInts (foldReduce [] (fun acc x => acc ++ [x]) (· ++ ·) (shape1 xs)), showInts (xs.foldl (fun acc x => acc ++ [x]) []))
    | "frw" =>
      pure (toString (foldReduce (100 : Int) (· + ·) (fun a b => a + b - 100) (shape1 xs)), toString (xs.foldl (· + ·) (100 : Int)))
    | "frwbad" =>
      pure (toString (foldReduce (100 : Int) (· + ·) (· + ·) (shape1 xs)), toString (xs.foldl (· + ·) (100 : Int)))
    | _ => none

def handleFold (f items threads : String) : Option Out := do
  let ts ← parseNatList threads
  if ts.isEmpty || ts.any (fun t => t == 0 || t > 8) then none
  let (one, seq) ← foldResults f items
  -- pools of more than one thread: rayon's shape is not determined; the model answers with the
  -- sequential value, which the theorems justify for the shape-independent helpers
  -- the specification (= sequential fold) constrains the line unless the sequential value itself
  -- is outside C17: inexact f64 sums (order-dependent by nature), i64 overflow (a panic in debug
  -- builds), and `frwbad` (the caller's own non-neutral `init`)
  let absSum : Nat := ((dashList items).getD []).foldl (fun a x => a + x.natAbs) 0
  let free := f == "frwbad" || (f == "sumf" && absSum ≥ 2 ^ 53) || (f == "sum_i64" && absSum ≥ 2 ^ 63)
  if free then pure { model := perThreads ts one seq }
  else pure (mk (perThreads ts one seq) (perThreads ts seq seq)
    (if f == "stats" then "stats-nan-split-dependent" else s!"fold-{f}-shape-dependent"))

/-! ### scheduler -/

def showRet : Option Nat → String
  | some m => toString m
  | none => "N"

def schedStep (w : Nat) (step : String) (s : Sched) : Option (String × Sched) :=
  let op := (step.take 1).toString
  let arg := (step.drop 1).toString
  let widx (a : String) : Option Nat := a.toNat?.bind (fun i => if i < w then some i else none)
  match op with
  | "s" => do pure (".", submit (← arg.toNat?) s)
  | "b" => do
    let ids ← if arg == "" then some [] else (arg.splitOn ".").mapM (fun t => t.toNat?)
    pure (".", submitBatch ids s)
  | "f" => if arg == "" then some (".", finishSubmission s) else none
  | "G" => if arg == "" then (let r := getGlobal s; some (showRet r.1, r.2)) else none
  | "g" => do
    let i ← widx arg
    let r := getWork i s
    pure (showRet r.1, r.2)
  | "t" => do
    let i ← arg.toNat?
    if i > 64 then none
    let r := stealWork i s
    pure (showRet r.1, r.2)
  | "p" =>
    match arg.splitOn "." with
    | [a, b] => do pure (".", pushLocal (← widx a) (← b.toNat?) s)
    | _ => none
  | "c" => do
    let _ ← widx arg
    pure (".", complete s)
  | _ => none

def runSched (w : Nat) : List String → Sched → List String → Option (List String × Sched)
  | [], s, acc => some (acc.reverse, s)
  | st :: rest, s, acc => do
    let (ret, s') ← schedStep w st s
    runSched w rest s' (s!"{ret}/{s'.active}/{if s'.done then 1 else 0}" :: acc)

def handleSched (workers numa program : String) : Option Out := do
  let w ← workers.toNat?
  if w > 16 then none
  let wpn ←
    if numa == "d" then some (autoWpn w)
    else if numa.startsWith "n" then
      match (numa.drop 1).toString.splitOn "x" with
      | [a, b] => do
        let _ ← a.toNat?
        let b ← b.toNat?
        if b == 0 then none else some (some b)
      | _ => none
    else none
  let steps := if program == "-" then [] else program.splitOn ";"
  let (outs, s) ← runSched w steps (Sched.init w wpn) []
  pure { model := s!"{if outs.isEmpty then "-" else joinWith "," outs} T={s.total} S={if s.subDone then 1 else 0}" }

def handle (args : List String) : Option Out :=
  match args with
  | ["src", kind, data, morsels, cs] => handleSrc false kind data morsels cs
  | ["src.chunks", kind, data, morsels, cs] => handleSrc true kind data morsels cs
  | ["fold", f, items, threads] => handleFold f items threads
  | ["sched", w, numa, program] => handleSched w numa program
  | _ => none

end DriverPar
