import GrafeoModel.Model.Sess
import GrafeoModel.Driver.Lpg

/-! Stream `sess`: sessions over one in-memory database (C01, C02). Stateful; reset at `# case`.
The specification is the textbook snapshot-isolation oracle. -/
namespace Grafeo.DriverSess
open Grafeo.Lpg Grafeo.Sess Grafeo.TxMgr Grafeo.Proto Grafeo.DriverLpg

structure SGraph where
  nodes : AList (List Nat × AList String) := []
  edges : AList EdgeRec := []

inductive W where
  | node (id : Nat) (labels : List Nat)
  | edge (id : Nat) (r : EdgeRec)

def SGraph.apply (g : SGraph) : W → SGraph
  | .node id ls => { g with nodes := aset g.nodes id (ls.foldl sinsert [], []) }
  | .edge id r => { g with edges := aset g.edges id r }

structure STx where
  snap : SGraph
  writes : List W := []

structure St where
  w : World := {}
  committed : SGraph := {}
  txs : AList (Option STx) := []        -- session ↦ open transaction of the oracle

def St.view (z : St) (k : Nat) : SGraph :=
  match (aget z.txs k).getD none with
  | some t => t.writes.foldl SGraph.apply t.snap
  | none => z.committed

/-- who created node `id` according to the model's version chain, and what became of them -/
def classifyExtra (z : St) (k id : Nat) : String :=
  match aget z.w.store.nodes id with
  | some (v :: _) =>
    if v.owner == systemTx then "autocommit-after-snapshot-visible"
    else
      let slot := v.owner - TxMgr.firstTxId
      match z.w.mgr.get slot with
      | some t =>
        match t.state with
        | .active => if z.w.curOf k == some slot then "extra-entity" else "dirty-read"
        | .aborted => "rolled-back-work-visible"
        | .committed => "committed-after-snapshot-visible"
      | none => "extra-entity"
  | _ => "extra-entity"

def sigIds (z : St) (k : Nat) (m s : List Nat) : String :=
  match m.filter (fun x => !s.contains x) with
  | x :: _ => classifyExtra z k x
  | [] => if (s.filter (fun x => !m.contains x)).isEmpty then "-" else "committed-entity-not-enumerated"

def rStr : R → String
  | .ok => "ok"
  | .err k => "err:" ++ k

def parseIso : String → Option Iso
  | "rc" => some .readCommitted
  | "si" => some .snapshot
  | "ser" => some .serializable
  | _ => none

def mk' (m s sig : String) : Proto.Out := { model := m, spec := s, sig := if m == s then "-" else sig }

def showEdge : Option (EdgeRec × AList String) → String
  | none => "none"
  | some (r, _) => s!"{r.src}>{r.dst}:{r.ty}"

def handle (z : St) (args : List String) : Option (St × Proto.Out) :=
  match args with
  | ["new"] => some ({}, { model := "-" })
  | ["begin", k, iso] => do
    let k ← k.toNat?
    let iso ← parseIso iso
    let (w', r) := z.w.begin k iso
    let had := ((aget z.txs k).getD none).isSome
    let txs' := if had then z.txs else aset z.txs k (some { snap := z.committed })
    pure ({ z with w := w', txs := txs' }, mk' (rStr r) (if had then "err:invalid" else "ok") "begin-result")
  | ["commit", k] => do
    let k ← k.toNat?
    let (w', r) := z.w.commit k
    let st := (aget z.txs k).getD none
    -- the oracle accepts every commit of an open transaction (these histories record no conflicts)
    let sr := if st.isSome then "ok" else "err:invalid"
    let committed' := match st, r with
      | some t, .ok => t.writes.foldl SGraph.apply z.committed
      | _, _ => z.committed
    pure ({ z with w := w', committed := committed', txs := aset z.txs k none }, mk' (rStr r) sr "commit-result")
  | ["rollback", k] => do
    let k ← k.toNat?
    let (w', r) := z.w.rollback k
    let st := (aget z.txs k).getD none
    pure ({ z with w := w', txs := aset z.txs k none }, mk' (rStr r) (if st.isSome then "ok" else "err:invalid") "rollback-result")
  | ["cn", k, ls] => do
    let k ← k.toNat?
    let ls ← parseNatList ls
    let (w', id) := z.w.createNode k ls
    let z' := match (aget z.txs k).getD none with
      | some t => { z with w := w', txs := aset z.txs k (some { t with writes := t.writes ++ [.node id ls] }) }
      | none => { z with w := w', committed := z.committed.apply (.node id ls) }
    pure (z', { model := toString id })
  | ["ce", k, s, d, t] => do
    let k ← k.toNat?
    let r : EdgeRec := ⟨← s.toNat?, ← d.toNat?, ← t.toNat?⟩
    let (w', id) := z.w.createEdge k r.src r.dst r.ty
    let z' := match (aget z.txs k).getD none with
      | some t => { z with w := w', txs := aset z.txs k (some { t with writes := t.writes ++ [.edge id r] }) }
      | none => { z with w := w', committed := z.committed.apply (.edge id r) }
    pure (z', { model := toString id })
  -- `CREATE (n:L..) RETURN id(n)` as query text: the operator stamps what `cn` stamps
  | ["qcn", k, ls] => do
    let k ← k.toNat?
    let ls ← parseNatList ls
    let (w', id) := z.w.createNode k ls
    let z' := match (aget z.txs k).getD none with
      | some t => { z with w := w', txs := aset z.txs k (some { t with writes := t.writes ++ [.node id ls] }) }
      | none => { z with w := w', committed := z.committed.apply (.node id ls) }
    pure (z', { model := toString id, spec := toString id })
  -- `MATCH (a) WHERE id(a) = s CREATE (a)-[e:Tt]->(b:Ll) RETURN id(b), id(e)`
  | ["qce", k, s, t, l] => do
    let k ← k.toNat?
    let s ← s.toNat?
    let t ← t.toNat?
    let l ← l.toNat?
    let vis := (z.w.scanAll k).contains s
    let specVis := (aget (z.view k).nodes s).isSome
    if vis then
      let (w1, b) := z.w.createNode k [l]
      let (w2, e) := w1.createEdge k s b t
      let ws := [W.node b [l], W.edge e ⟨s, b, t⟩]
      let z' := match (aget z.txs k).getD none with
        | some tx => { z with w := w2, txs := aset z.txs k (some { tx with writes := tx.writes ++ ws }) }
        | none => { z with w := w2, committed := ws.foldl SGraph.apply z.committed }
      let m := s!"I{b}.I{e}"
      pure (z', mk' m (if specVis then m else "norows") (classifyExtra z k s))
    else
      pure (z, mk' "norows" (if specVis then "created" else "norows") "committed-entity-not-enumerated")
  | ["dbcn", ls] => do
    let ls ← parseNatList ls
    let (s', id) := z.w.store.createNode ls z.w.store.epoch systemTx
    pure ({ z with w := { z.w with store := s' }, committed := z.committed.apply (.node id ls) }, { model := toString id })
  | ["gn", k, id] => do
    let k ← k.toNat?
    let id ← id.toNat?
    let m := z.w.getNode k id
    let s := aget (z.view k).nodes id
    let sig := if m.isSome && s.isNone then classifyExtra z k id
      else if m.isNone && s.isSome then "committed-entity-invisible" else "node-content"
    pure (z, mk' (showNode m) (showNode s) sig)
  | ["ge", k, id] => do
    let k ← k.toNat?
    let id ← id.toNat?
    let m := z.w.getEdge k id
    let s := (aget (z.view k).edges id).map (fun r => (r, ([] : AList String)))
    pure (z, mk' (showEdge m) (showEdge s) (if m.isSome && s.isNone then "edge-visible-outside-snapshot" else "edge-invisible"))
  | ["out", k, n] => do
    let k ← k.toNat?
    let n ← n.toNat?
    let m := z.w.outgoing k n
    let v := z.view k
    let s := (v.edges.filter (fun kv => kv.2.src == n)).map (fun kv => (kv.2.dst, kv.1))
    -- whose edge is the first extra entry?
    let extra := m.filter (fun p => !s.contains p)
    let sig := match extra with
      | (_, e) :: _ =>
        match aget z.w.store.edges e with
        | some (v :: _, _) =>
          if v.owner == systemTx then "neighbours-outside-snapshot"
          else match z.w.mgr.get (v.owner - TxMgr.firstTxId) with
            | some t => (match t.state with
              | .aborted => "rolled-back-edge-in-adjacency"
              | .active => if z.w.curOf k == some (v.owner - TxMgr.firstTxId) then "neighbours-outside-snapshot" else "dirty-read-adjacency"
              | .committed => "neighbours-outside-snapshot")
            | none => "rolled-back-edge-in-adjacency"
        | _ => "rolled-back-edge-in-adjacency"
      | [] => "neighbours-missing"
    pure (z, mk' (showPairs m) (showPairs s) sig)
  | ["scanl", k, l] => do
    let k ← k.toNat?
    let l ← l.toNat?
    let m := z.w.scanLabel k l
    let s := ((z.view k).nodes.filter (fun kv => kv.2.1.contains l)).map (·.1)
    pure (z, mk' (showIds m) (showIds s) (sigIds z k m s))
  | ["scan", k] => do
    let k ← k.toNat?
    let m := z.w.scanAll k
    let s := (z.view k).nodes.map (·.1)
    pure (z, mk' (showIds m) (showIds s) (sigIds z k m s))
  | ["count"] =>
    let m := z.w.store.nodeIds.length
    let s := z.committed.nodes.length
    some (z, mk' (toString m) (toString s) (if m < s then "committed-entity-not-enumerated" else "count-includes-uncommitted"))
  | _ => none

end Grafeo.DriverSess
