import GrafeoModel.Model.SessSpec
import GrafeoModel.Driver.Lpg

/-! Stream `sess`: sessions over one in-memory database (C01, C02). Stateful; reset at `# case`.
The specification is the textbook snapshot-isolation oracle; its state and step definitions (`SGraph`, `W`,
`STx`, `St`, `St.view`, `SGraph.apply`, `St.recordWrite`, `St.touch`) live in `Model/SessSpec.lean`, where
`Props/C01SI.lean` proves the creation-only refinement theorem about them. -/
namespace Grafeo.DriverSess
open Grafeo.Lpg Grafeo.Sess Grafeo.TxMgr Grafeo.Proto Grafeo.DriverLpg Grafeo.SessSpec

/-- the stream state (`Driver.lean` refers to it under this name) -/
abbrev St := SessSpec.St

/-- who created node `id` according to the model's version chain, and what became of them -/
def classifyExtra (z : St) (k id : Nat) : String :=
  match aget z.w.store.nodes id with
  | some (v :: _) =>
    if v.owner == systemTx then "autocommit-after-snapshot-visible"
    else
      let slot := v.owner - TxMgr.firstTxId
      match z.w.mgr.get slot with
      | some t =>
        match t.state with
        | .active => if z.w.curOf k == some slot then "extra-entity" else "dirty-read"
        | .aborted => "rolled-back-work-visible"
        | .committed => "committed-after-snapshot-visible"
      | none => "extra-entity"
  | _ => "extra-entity"

/-- signature of a deviation on an entity that some query mutated in place: properties, labels and
deletion marks are single-version, so the change is visible to everybody at once and survives a
rollback. Which of the two it is decides the property it is charged to (C02 / C01). -/
def inPlaceSig (z : St) (key : Nat) : String :=
  if z.abortedTouched.contains key then "rolled-back-change-persists" else "in-place-change-outside-transaction"

def sigIds (z : St) (k : Nat) (m s : List Nat) : String :=
  let extra := m.filter (fun x => !s.contains x)
  let missing := s.filter (fun x => !m.contains x)
  match (extra ++ missing).find? (fun x => z.touched.contains (2 * x)) with
  | some x => inPlaceSig z (2 * x)
  | none =>
    match extra with
    | x :: _ => classifyExtra z k x
    | [] => if missing.isEmpty then "-" else "committed-entity-not-enumerated"

def mk' (m s sig : String) : Proto.Out := { model := m, spec := s, sig := if m == s then "-" else sig }

/-- a mutation `MATCH … WHERE id(x) = target <clause>`: `mm` = the implementation's model matched,
`sm` = the oracle's view of session `k` holds the target. -/
def inPlaceOp (z : St) (k key : Nat) (w' : World) (mm sm : Bool) (wr : W) (mOut : String) : St × Proto.Out :=
  let z1 := { z with w := w' }
  let z2 := if sm then z1.recordWrite k wr else z1
  let z3 := if mm then z2.touch k key else z2
  let sig := if z.touched.contains key then inPlaceSig z key
             else if mm && !sm then (if key % 2 == 0 then classifyExtra z k (key / 2) else "edge-visible-outside-snapshot")
             else "committed-entity-not-enumerated"
  (z3, mk' (if mm then mOut else "norows") (if sm then mOut else "norows") sig)

def rStr : R → String
  | .ok => "ok"
  | .err k => "err:" ++ k

def parseIso : String → Option Iso
  | "rc" => some .readCommitted
  | "si" => some .snapshot
  | "ser" => some .serializable
  | _ => none


def showEdge : Option (EdgeRec × AList String) → String
  | none => "none"
  | some (r, _) => s!"{r.src}>{r.dst}:{r.ty}"

def handle (z : St) (args : List String) : Option (St × Proto.Out) :=
  match args with
  | ["new"] => some ({}, { model := "-" })
  | ["begin", k, iso] => do
    let k ← k.toNat?
    let iso ← parseIso iso
    let (w', r) := z.w.begin k iso
    let had := ((aget z.txs k).getD none).isSome
    let txs' := if had then z.txs else aset z.txs k (some { snap := z.committed, beginSeq := z.seq })
    pure ({ z with w := w', txs := txs' }, mk' (rStr r) (if had then "err:invalid" else "ok") "begin-result")
  | ["commit", k] => do
    let k ← k.toNat?
    let (w', r) := z.w.commit k
    let st := (aget z.txs k).getD none
    -- first committer wins: refused when a transaction that committed after this one began modified
    -- an entity this one modified too; creations never conflict
    let conflict := match st with
      | some t => z.commits.any (fun c => c.1 > t.beginSeq && c.2.any (fun e => t.modified.contains e))
      | none => false
    let sr := if st.isNone then "err:invalid" else if conflict then "err:conflict" else "ok"
    let committed' := match st, r with
      | some t, .ok => t.writes.foldl SGraph.apply z.committed
      | _, _ => z.committed
    let (seq', commits') := match st, r with
      | some t, .ok => (z.seq + 1, (z.seq + 1, t.modified) :: z.commits)
      | _, _ => (z.seq, z.commits)
    let aborted' := match st, r with
      | some _, .ok => z.abortedTouched
      | some t, _ => z.abortedTouched ++ t.touchedKeys
      | none, _ => z.abortedTouched
    pure ({ z with w := w', committed := committed', txs := aset z.txs k none, seq := seq', commits := commits',
                   abortedTouched := aborted' },
          mk' (rStr r) sr (if rStr r == "ok" && conflict then "lost-update-accepted-at-session" else "commit-result"))
  | ["rollback", k] => do
    let k ← k.toNat?
    let (w', r) := z.w.rollback k
    let st := (aget z.txs k).getD none
    let aborted' := match st with | some t => z.abortedTouched ++ t.touchedKeys | none => z.abortedTouched
    pure ({ z with w := w', txs := aset z.txs k none, abortedTouched := aborted' },
          mk' (rStr r) (if st.isSome then "ok" else "err:invalid") "rollback-result")
  | ["cn", k, ls] => do
    let k ← k.toNat?
    let ls ← parseNatList ls
    let (w', id) := z.w.createNode k ls
    let z' := match (aget z.txs k).getD none with
      | some t => { z with w := w', txs := aset z.txs k (some { t with writes := t.writes ++ [.node id ls] }) }
      | none => { z with w := w', committed := z.committed.apply (.node id ls) }
    pure (z', { model := toString id })
  | ["ce", k, s, d, t] => do
    let k ← k.toNat?
    let r : EdgeRec := ⟨← s.toNat?, ← d.toNat?, ← t.toNat?⟩
    let (w', id) := z.w.createEdge k r.src r.dst r.ty
    let z' := match (aget z.txs k).getD none with
      | some t => { z with w := w', txs := aset z.txs k (some { t with writes := t.writes ++ [.edge id r] }) }
      | none => { z with w := w', committed := z.committed.apply (.edge id r) }
    pure (z', { model := toString id })
  -- `CREATE (n:L..) RETURN id(n)` as query text: the operator stamps what `cn` stamps
  | ["qcn", k, ls] => do
    let k ← k.toNat?
    let ls ← parseNatList ls
    let (w', id) := z.w.createNode k ls
    let z' := match (aget z.txs k).getD none with
      | some t => { z with w := w', txs := aset z.txs k (some { t with writes := t.writes ++ [.node id ls] }) }
      | none => { z with w := w', committed := z.committed.apply (.node id ls) }
    pure (z', { model := toString id, spec := toString id })
  -- `MATCH (a) WHERE id(a) = s CREATE (a)-[e:Tt]->(b:Ll) RETURN id(b), id(e)`
  | ["qce", k, s, t, l] => do
    let k ← k.toNat?
    let s ← s.toNat?
    let t ← t.toNat?
    let l ← l.toNat?
    let vis := (z.w.scanAll k).contains s
    let specVis := (aget (z.view k).nodes s).isSome
    if vis then
      let (w2, b, e) := z.w.createNodeAndEdge k s l t
      let ws := [W.node b [l], W.edge e ⟨s, b, t⟩]
      let z' := match (aget z.txs k).getD none with
        | some tx => { z with w := w2, txs := aset z.txs k (some { tx with writes := tx.writes ++ ws }) }
        | none => { z with w := w2, committed := ws.foldl SGraph.apply z.committed }
      let m := s!"I{b}.I{e}"
      pure (z', mk' m (if specVis then m else "norows") (if z.touched.contains (2 * s) then inPlaceSig z (2 * s) else classifyExtra z k s))
    else
      pure (z, mk' "norows" (if specVis then "created" else "norows")
        (if z.touched.contains (2 * s) then inPlaceSig z (2 * s) else "committed-entity-not-enumerated"))
  -- `MATCH (n) WHERE id(n) = x SET n.k<key> = v RETURN id(n)`
  | ["qset", k, id, key, v] => do
    let k ← k.toNat?
    let id ← id.toNat?
    let key ← key.toNat?
    let (w', mm) := z.w.qSetProp k id key v
    pure (inPlaceOp z k (2 * id) w' mm (aget (z.view k).nodes id).isSome (.setProp id key v) (toString id))
  | ["qlab", k, id, l] => do
    let k ← k.toNat?
    let id ← id.toNat?
    let l ← l.toNat?
    let (w', mm) := z.w.qAddLabel k id l
    pure (inPlaceOp z k (2 * id) w' mm (aget (z.view k).nodes id).isSome (.addLabel id l) "ok")
  | ["qunlab", k, id, l] => do
    let k ← k.toNat?
    let id ← id.toNat?
    let l ← l.toNat?
    let (w', mm) := z.w.qRemoveLabel k id l
    pure (inPlaceOp z k (2 * id) w' mm (aget (z.view k).nodes id).isSome (.remLabel id l) "ok")
  -- `MATCH (n) WHERE id(n) = x DETACH DELETE n`
  | ["qdel", k, id] => do
    let k ← k.toNat?
    let id ← id.toNat?
    let (w', mm) := z.w.qDetachDelete k id
    -- `delete_node_edges` removes every incident edge of the adjacency lists, whether or not the
    -- deleting session can see it: all of them are touched in place
    let incident := ((z.w.store.outEdges id) ++ (z.w.store.inEdges id)).map (fun p => 2 * p.2 + 1)
    -- the deleter removes the incident edges IT sees; an edge another session creates meanwhile is
    -- outside its snapshot and stays (dangling) — snapshot isolation does not forbid that
    let seen := ((z.view k).edges.filter (fun kv => kv.2.src == id || kv.2.dst == id)).map (·.1)
    let (z', out) := inPlaceOp z k (2 * id) w' mm (aget (z.view k).nodes id).isSome (.delNode id seen) "ok"
    pure (if mm then incident.foldl (fun acc key => acc.touch k key) z' else z', out)
  -- `MATCH (a)-[e]->(b) WHERE id(e) = x DELETE e`
  | ["qdele", k, e] => do
    let k ← k.toNat?
    let e ← e.toNat?
    let (w', mm) := z.w.qDeleteEdge k e
    let v := z.view k
    let sm := match aget v.edges e with
      | some r => (aget v.nodes r.src).isSome && (aget v.nodes r.dst).isSome
      | none => false
    -- an endpoint deleted in place hides the edge from the match
    let key := match aget v.edges e with
      | some r => if z.touched.contains (2 * r.src) then 2 * r.src else if z.touched.contains (2 * r.dst) then 2 * r.dst else 2 * e + 1
      | none => 2 * e + 1
    let (z', out) := inPlaceOp z k (2 * e + 1) w' mm sm (.delEdge e) "ok"
    pure (z', if out.sig == "committed-entity-not-enumerated" && z.touched.contains key then { out with sig := inPlaceSig z key } else out)
  -- `MERGE (n:Ll) RETURN id(n)`: `matched`, or the id of the node it created
  | ["qmerge", k, l] => do
    let k ← k.toNat?
    let l ← l.toNat?
    let (w', r) := z.w.qMerge k l
    let specMatched := (z.view k).nodes.any (fun kv => kv.2.1.contains l)
    let z1 := { z with w := w' }
    match r with
    | some id =>
      -- the oracle's ids follow the implementation's allocation
      let z2 := match (aget z1.txs k).getD none with
        | some t => { z1 with txs := aset z1.txs k (some { t with writes := t.writes ++ [.node id [l]] }) }
        | none => { z1 with committed := z1.committed.apply (.node id [l]) }
      let m := s!"created:{id}"
      pure (z2, mk' m (if specMatched then "matched" else m)
        (if z.touched.isEmpty then "committed-entity-not-enumerated" else inPlaceSig z (z.touched.headD 0)))
    | none =>
      pure (z1, mk' "matched" (if specMatched then "matched" else "created")
        (if z.touched.isEmpty then "extra-entity" else inPlaceSig z (z.touched.headD 0)))
  | ["dbcn", ls] => do
    let ls ← parseNatList ls
    let (w', id) := z.w.dbCreateNode ls
    pure ({ z with w := w', committed := z.committed.apply (.node id ls) }, { model := toString id })
  | ["gn", k, id] => do
    let k ← k.toNat?
    let id ← id.toNat?
    let m := z.w.getNode k id
    let s := aget (z.view k).nodes id
    let sig := if z.touched.contains (2 * id) then inPlaceSig z (2 * id)
      else if m.isSome && s.isNone then classifyExtra z k id
      else if m.isNone && s.isSome then "committed-entity-invisible" else "node-content"
    pure (z, mk' (showNode m) (showNode s) sig)
  | ["ge", k, id] => do
    let k ← k.toNat?
    let id ← id.toNat?
    let m := z.w.getEdge k id
    let s := (aget (z.view k).edges id).map (fun r => (r, ([] : AList String)))
    pure (z, mk' (showEdge m) (showEdge s) (if z.touched.contains (2 * id + 1) then inPlaceSig z (2 * id + 1)
      else if m.isSome && s.isNone then "edge-visible-outside-snapshot" else "edge-invisible"))
  | ["out", k, n] => do
    let k ← k.toNat?
    let n ← n.toNat?
    let m := z.w.outgoing k n
    let v := z.view k
    -- an edge whose far endpoint is not (or no longer) part of the view is no neighbour listing entry
    let s := ((v.edges.filter (fun kv => kv.2.src == n)).filter (fun kv => (aget v.nodes kv.2.dst).isSome)).map (fun kv => (kv.2.dst, kv.1))
    -- whose edge is the first extra entry?
    let extra := m.filter (fun p => !s.contains p)
    let missing := s.filter (fun p => !m.contains p)
    let sig := if z.touched.contains (2 * n) && !(extra ++ missing).isEmpty then inPlaceSig z (2 * n) else
      match (extra ++ missing).find? (fun p => z.touched.contains (2 * p.2 + 1) || z.touched.contains (2 * p.1)) with
      | some p => inPlaceSig z (if z.touched.contains (2 * p.2 + 1) then 2 * p.2 + 1 else 2 * p.1)
      | none =>
      match extra with
      | (_, e) :: _ =>
        match aget z.w.store.edges e with
        | some (v :: _, _) =>
          if v.owner == systemTx then "neighbours-outside-snapshot"
          else match z.w.mgr.get (v.owner - TxMgr.firstTxId) with
            | some t => (match t.state with
              | .aborted => "rolled-back-edge-in-adjacency"
              | .active => if z.w.curOf k == some (v.owner - TxMgr.firstTxId) then "neighbours-outside-snapshot" else "dirty-read-adjacency"
              | .committed => "neighbours-outside-snapshot")
            | none => "rolled-back-edge-in-adjacency"
        | _ => "rolled-back-edge-in-adjacency"
      | [] => "neighbours-missing"
    pure (z, mk' (showPairs m) (showPairs s) sig)
  | ["in", k, n] => do
    let k ← k.toNat?
    let n ← n.toNat?
    let m := z.w.incoming k n
    let v := z.view k
    let s := ((v.edges.filter (fun kv => kv.2.dst == n)).filter (fun kv => (aget v.nodes kv.2.src).isSome)).map (fun kv => (kv.2.src, kv.1))
    let diff := (m.filter (fun p => !s.contains p)) ++ (s.filter (fun p => !m.contains p))
    let sig := match diff.find? (fun p => z.touched.contains (2 * p.2 + 1) || z.touched.contains (2 * p.1) || z.touched.contains (2 * n)) with
      | some p => inPlaceSig z (if z.touched.contains (2 * p.2 + 1) then 2 * p.2 + 1 else if z.touched.contains (2 * p.1) then 2 * p.1 else 2 * n)
      | none => "incoming-neighbours-differ"
    pure (z, mk' (showPairs m) (showPairs s) sig)
  -- one-hop pattern reads: `qexp k n o|i <type|->`
  | ["qexp", k, n, dir, ty] => do
    let k ← k.toNat?
    let n ← n.toNat?
    let out := dir == "o"
    let ty := ty.toNat?
    let m := z.w.expandFrom k n out ty
    let v := z.view k
    let s := if (aget v.nodes n).isNone then [] else
      ((v.edges.filter (fun kv => (if out then kv.2.src else kv.2.dst) == n && (match ty with | some t => kv.2.ty == t | none => true))).filter
        (fun kv => (aget v.nodes (if out then kv.2.dst else kv.2.src)).isSome)).map (fun kv => ((if out then kv.2.dst else kv.2.src), kv.1))
    let diff := (m.filter (fun p => !s.contains p)) ++ (s.filter (fun p => !m.contains p))
    let sig := match diff.find? (fun p => z.touched.contains (2 * p.2 + 1) || z.touched.contains (2 * p.1) || z.touched.contains (2 * n)) with
      | some p => inPlaceSig z (if z.touched.contains (2 * p.2 + 1) then 2 * p.2 + 1 else if z.touched.contains (2 * p.1) then 2 * p.1 else 2 * n)
      | none => "pattern-read-differs"
    pure (z, mk' (showPairs m) (showPairs s) sig)
  -- `MATCH p = shortestPath((a:Lx)-[*]->(b:Ly)) RETURN length(p)`: sorted lengths, N = no path
  | ["qsp", k, x, y] => do
    let k ← k.toNat?
    let x ← x.toNat?
    let y ← y.toNat?
    let showLens (l : List (Option Nat)) : String :=
      let nums := sortNat (l.filterMap id)
      let nulls := (l.filter Option.isNone).length
      let parts := nums.map toString ++ List.replicate nulls "N"
      if parts.isEmpty then "norows" else joinWith "," parts
    let m := z.w.shortestPaths k x y
    let v := z.view k
    let succ := fun n => ((v.edges.filter (fun kv => kv.2.src == n && (aget v.nodes kv.2.dst).isSome)).map (fun kv => kv.2.dst))
    let withL := fun l => (v.nodes.filter (fun kv => kv.2.1.contains l)).map (·.1)
    let s := (withL x).flatMap (fun a => (withL y).map (fun b => Sess.bfsLen succ b (v.nodes.length + 1) [a] [a] 0))
    let sig := if z.touched.isEmpty then "shortest-path-differs"
      else if z.touched.any (fun key => z.abortedTouched.contains key) then "rolled-back-change-persists"
      else "in-place-change-outside-transaction"
    pure (z, mk' (showLens m) (showLens s) sig)
  | ["scanl", k, l] => do
    let k ← k.toNat?
    let l ← l.toNat?
    let m := z.w.scanLabel k l
    let s := ((z.view k).nodes.filter (fun kv => kv.2.1.contains l)).map (·.1)
    pure (z, mk' (showIds m) (showIds s) (sigIds z k m s))
  | ["scan", k] => do
    let k ← k.toNat?
    let m := z.w.scanAll k
    let s := (z.view k).nodes.map (·.1)
    pure (z, mk' (showIds m) (showIds s) (sigIds z k m s))
  -- the raw adjacency indexes, unfiltered; the specification constrains them when no transaction
  -- is open: exactly the committed edges
  | ["adj", n] => do
    let n ← n.toNat?
    let showL (l : List (Nat × Nat)) : String := joinWith "," ((sortPairs l).map (fun p => s!"{p.1}.{p.2}"))
    let render (outOf inOf : Nat → List (Nat × Nat)) : String :=
      let parts := (List.range n).filterMap (fun id =>
        let o := outOf id
        let i := inOf id
        if o.isEmpty && i.isEmpty then none else some s!"{id}>{showL o}<{showL i}")
      if parts.isEmpty then "none" else joinWith ";" parts
    let m := render z.w.store.outEdges z.w.store.inEdges
    let anyOpen := z.txs.any (fun kv => kv.2.isSome)
    let ce := z.committed.edges
    let s := if anyOpen then "-" else
      render (fun id => (ce.filter (fun kv => kv.2.src == id)).map (fun kv => (kv.2.dst, kv.1)))
             (fun id => (ce.filter (fun kv => kv.2.dst == id)).map (fun kv => (kv.2.src, kv.1)))
    let sig := if z.touched.isEmpty then "adjacency-differs"
      else if z.touched.any (fun key => z.abortedTouched.contains key) then "rolled-back-change-persists"
      else "in-place-change-outside-transaction"
    pure (z, { model := m, spec := s, sig := if s == "-" || m == s then "-" else sig })
  | ["count"] =>
    let m := z.w.store.nodeCount
    let s := z.committed.nodes.length
    -- fewer than committed: only an in-place deletion can hide a committed node from the count
    let fewer := if z.touched.any (fun key => z.abortedTouched.contains key) then "rolled-back-change-persists"
      else if !z.touched.isEmpty then "in-place-change-outside-transaction" else "committed-entity-not-enumerated"
    some (z, mk' (toString m) (toString s) (if m < s then fewer else "count-includes-uncommitted"))
  | _ => none

end Grafeo.DriverSess
