import GrafeoModel.Driver.Proto

/-! Stream `ser` (stub: filled in by the owner of this stream). Stateless lines; if you need
per-case state, keep it inside one op line. -/
namespace Grafeo.DriverSer
open Grafeo.Proto

def handle (args : List String) : Option Proto.Out :=
  match args with
  | _ => none

end Grafeo.DriverSer
