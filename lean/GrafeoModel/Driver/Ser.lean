import GrafeoModel.Driver.Proto
import GrafeoModel.Model.Ser

/-! Stream `ser` (C16, serialisation half). Stateless lines; see harness/src/ser.rs for the ops.

Value tokens: `N`, `B0|B1`, `I<dec>`, `F<16 hex>`, `S<hex utf8>`, `Y<hex>`, `T<dec>`, `V<8 hex per f32>`,
`L(<tok>,…)`, `M(<hex key>:<tok>,…)`. -/
namespace Grafeo.DriverSer
open Grafeo.Proto
open Grafeo.Ser

/-! ### tokens -/

def hexU8s (bs : List UInt8) : String := hexBytes (bs.map UInt8.toNat)
/-- `-` for the empty byte string where a whole output field is a hex string -/
def hexField (bs : List UInt8) : String := if bs.isEmpty then "-" else hexU8s bs

def hexFixed (digits : Nat) (n : Nat) : String :=
  String.ofList ((List.range digits).reverse.map fun i => hexDigit (n / 16 ^ i % 16))

def i64Str (x : UInt64) : String :=
  if x.toNat < 9223372036854775808 then toString x.toNat else "-" ++ toString (18446744073709551616 - x.toNat)

mutual
def tok : SVal → String
  | .null => "N"
  | .bool b => if b then "B1" else "B0"
  | .int x => "I" ++ i64Str x
  | .float x => "F" ++ hexFixed 16 x.toNat
  | .str s => "S" ++ hexU8s s
  | .bytes b => "Y" ++ hexU8s b
  | .ts t => "T" ++ i64Str t
  | .vec fs => "V" ++ String.join (fs.map fun f => hexFixed 8 f.toNat)
  | .list xs => "L(" ++ joinWith "," (tokList xs) ++ ")"
  | .map es => "M(" ++ joinWith "," (tokEntries es) ++ ")"
def tokList : List SVal → List String
  | [] => []
  | x :: xs => tok x :: tokList xs
def tokEntries : List (List UInt8 × SVal) → List String
  | [] => []
  | (k, v) :: es => (hexU8s k ++ ":" ++ tok v) :: tokEntries es
end

def isStop (c : Char) : Bool := c == ',' || c == ')' || c == ':'

def spanTok (cs : List Char) : List Char × List Char := cs.span (fun c => !isStop c)

def parseBytes (cs : List Char) : Option (List UInt8) :=
  (parseHexAux cs).map fun ns => ns.map UInt8.ofNat

def parseI64 (cs : List Char) : Option UInt64 :=
  match (String.ofList cs).toInt? with
  | some i =>
    if i ≥ 0 then some (UInt64.ofNat i.toNat) else some (UInt64.ofNat (18446744073709551616 - (-i).toNat))
  | none => none

def hexNat (cs : List Char) : Option Nat :=
  cs.foldl (fun acc c => match acc, hexVal c with
    | some a, some d => some (16 * a + d)
    | _, _ => none) (some 0)

def chunks8 : Nat → List Char → Option (List UInt32)
  | _, [] => some []
  | 0, _ => none
  | f + 1, cs =>
    if cs.length < 8 then none
    else match hexNat (cs.take 8), chunks8 f (cs.drop 8) with
      | some n, some r => some (UInt32.ofNat n :: r)
      | _, _ => none

mutual
def parseVal : Nat → List Char → Option (SVal × List Char)
  | 0, _ => none
  | f + 1, cs =>
    match cs with
    | [] => none
    | 'N' :: r => some (.null, r)
    | 'B' :: '0' :: r => some (.bool false, r)
    | 'B' :: '1' :: r => some (.bool true, r)
    | 'I' :: r => let (a, r') := spanTok r; (parseI64 a).map fun x => (.int x, r')
    | 'T' :: r => let (a, r') := spanTok r; (parseI64 a).map fun x => (.ts x, r')
    | 'F' :: r => let (a, r') := spanTok r
                  if a.length = 16 then (hexNat a).map fun n => (.float (UInt64.ofNat n), r') else none
    | 'S' :: r => let (a, r') := spanTok r; (parseBytes a).map fun b => (.str b, r')
    | 'Y' :: r => let (a, r') := spanTok r; (parseBytes a).map fun b => (.bytes b, r')
    | 'V' :: r => let (a, r') := spanTok r; (chunks8 (a.length + 1) a).map fun fs => (.vec fs, r')
    | 'L' :: '(' :: ')' :: r => some (.list [], r)
    | 'L' :: '(' :: r => (parseItems f r).map fun p => (.list p.1, p.2)
    | 'M' :: '(' :: ')' :: r => some (.map [], r)
    | 'M' :: '(' :: r => (parseEntries f r).map fun p => (.map (mkMap p.1), p.2)
    | _ => none
def parseItems : Nat → List Char → Option (List SVal × List Char)
  | 0, _ => none
  | f + 1, cs =>
    match parseVal f cs with
    | some (v, ',' :: r) => (parseItems f r).map fun p => (v :: p.1, p.2)
    | some (v, ')' :: r) => some ([v], r)
    | _ => none
def parseEntries : Nat → List Char → Option (List (List UInt8 × SVal) × List Char)
  | 0, _ => none
  | f + 1, cs =>
    let (a, r0) := spanTok cs
    match parseBytes a, r0 with
    | some k, ':' :: r1 =>
      match parseVal f r1 with
      | some (v, ',' :: r) => (parseEntries f r).map fun p => ((k, v) :: p.1, p.2)
      | some (v, ')' :: r) => some ([(k, v)], r)
      | _ => none
    | _, _ => none
end

def untok (s : String) : Option SVal :=
  let cs := s.toList
  match parseVal (cs.length + 1) cs with
  | some (v, []) => some v
  | _ => none

/-! ### outcomes -/

def errStr : Err → String
  | .eof => "err:eof"
  | .utf8 => "err:utf8"
  | .tag t => "err:tag" ++ toString t.toNat
  | .cols => "err:cols"
  | .inttype => "err:inttype"
  | .variant => "err:other"
  | .badbool => "err:bool"
  | .version => "err:version"
  | .limit => "err:limit"

/-- bincode names `UnexpectedEnd` what the spill reader calls `UnexpectedEof` -/
def binErrStr : Err → String
  | .eof => "err:end"
  | e => errStr e

def resStr {α : Type} (errs : Err → String) (okStr : α → String) : Res α → String
  | .ok a => okStr a
  | .err e => errs e
  | .panic => "panic"
  | .abort => "abort:alloc"
  | .fuel => "model-out-of-fuel"

def parseBytesArg (s : String) : Option (List UInt8) :=
  (parseHex s).map fun ns => ns.map UInt8.ofNat

def tokRow (vs : List SVal) : String := if vs.isEmpty then "-" else joinWith "," (vs.map tok)

/-- which JSON loss hits a value first (traversal order of `value_to_json`). -/
def jsonSig (v : SVal) : String :=
  let t := tok v
  -- the signature names the first cause present in the value, in a fixed priority order
  if Json.safe v then "json-roundtrip"
  else if (t.splitOn "Y").length > 1 then "json-bytes-as-list"
  else if (t.splitOn "V").length > 1 then "json-vector-as-list"
  else if (t.splitOn "F7ff").length > 1 || (t.splitOn "Ffff").length > 1 then "json-nonfinite-null"
  else "json-timestamp-key-capture"

/-- FNV-1a over bytes: the digest both sides print for outputs too long for a line. -/
def fnv (bs : List UInt8) : UInt64 :=
  bs.foldl (fun h b => (h ^^^ b.toUInt64) * 0x100000001b3) 0xcbf29ce484222325

def hex16 (x : UInt64) : String :=
  let ds := (List.range 16).map (fun i => hexDigit ((x.toNat / 16 ^ (15 - i)) % 16))
  String.ofList ds

def zeroPad (w n : Nat) : String :=
  let t := toString n
  String.ofList (List.replicate (w - t.length) '0') ++ t

/-- the large value of `ser big`: `n` elements, the LAST one different from the rest. -/
def bigValue (kind : String) (n : Nat) : Option SVal :=
  let last (i : Nat) : Bool := i + 1 == n
  match kind with
  | "list" => some (.list ((List.range n).map (fun i => .int (UInt64.ofNat (if last i then 99 else i % 7)))))
  | "str" => some (.str ((List.range n).map (fun i => if last i then 'z'.toNat.toUInt8 else 'a'.toNat.toUInt8)))
  | "bytes" => some (.bytes ((List.range n).map (fun i => if last i then 0xfe else UInt8.ofNat (i % 5))))
  | "vec" => some (.vec ((List.range n).map (fun i => if last i then 0x40200000 else 0x3f800000)))
  | "map" => some (.map ((List.range n).map (fun i =>
      (("k" ++ zeroPad 6 i).toUTF8.toList, SVal.int (if last i then 99 else 1)))))
  | _ => none

def bigOut {α : Type} (bytes : List UInt8) (r : Res (α × List UInt8)) (same : α → Bool) (errs : Err → String) : String :=
  let back := match r with
    | .ok p => if same p.1 then "same" else "differs"
    | .err e => errs e
    | .panic => "panic"
    | .abort => "abort:alloc"
    | .fuel => "model-out-of-fuel"
  let rest := match r with | .ok p => p.2.length | _ => 0
  s!"len={bytes.length} fnv={hex16 (fnv bytes)} back={back} rest={rest}"

def handle (args : List String) : Option Proto.Out :=
  match args with
  | ["big", kind, n, fmt] => do
    let n ← n.toNat?
    let v ← bigValue kind n
    match fmt with
    | "spill" =>
      let bytes := Spill.enc v
      let m := bigOut bytes (Spill.decode bytes) (fun b => tok b == tok v) errStr
      let s := s!"len={bytes.length} fnv={hex16 (fnv bytes)} back=same rest=0"
      pure { model := m, spec := s, sig := if m == s then "-" else "spill-roundtrip" }
    | "row" =>
      let row := [SVal.int 1, v, SVal.int 2]
      let bytes := Spill.encRow row
      let m := bigOut bytes (Spill.decodeRow 3 bytes) (fun b => tokRow b == tokRow row) errStr
      let s := s!"len={bytes.length} fnv={hex16 (fnv bytes)} back=same rest=0"
      pure { model := m, spec := s, sig := if m == s then "-" else "spill-row-roundtrip" }
    | "bin" =>
      let bytes := Bin.enc v
      let m := bigOut bytes (Bin.decode bytes) (fun b => tok b == tok v) binErrStr
      let s := s!"len={bytes.length} fnv={hex16 (fnv bytes)} back=same rest=0"
      pure { model := m, spec := s, sig := if m == s then "-" else "bincode-roundtrip" }
    | _ => none
  | ["meta"] =>
    some { model := s!"value={sizeofValue} f32=4 keyval=32 isize_max={isizeMax}", spec := "-" }
  | ["spill", t] => do
    let v ← untok t
    let bytes := Spill.enc v
    let back := resStr errStr (fun (p : SVal × List UInt8) => s!"{tok p.1} {bytes.length} {p.2.length}") (Spill.decode bytes)
    let m := s!"{hexU8s bytes} {back}"
    let s := s!"{hexU8s bytes} {tok v} {bytes.length} 0"
    pure { model := m, spec := s, sig := if m == s then "-" else "spill-roundtrip" }
  | "row" :: ts => do
    let vs ← ts.mapM untok
    let bytes := Spill.encRow vs
    let back := resStr errStr (fun (p : List SVal × List UInt8) => tokRow p.1) (Spill.decodeRow vs.length bytes)
    let m := s!"{hexU8s bytes} {back}"
    let s := s!"{hexU8s bytes} {tokRow vs}"
    pure { model := m, spec := s, sig := if m == s then "-" else "spill-row-roundtrip" }
  | ["bin", t] => do
    let v ← untok t
    let bytes := Bin.enc v
    let back := resStr binErrStr (fun (p : SVal × List UInt8) => tok p.1) (Bin.decode bytes)
    let m := s!"{hexU8s bytes} {back}"
    let s := s!"{hexU8s bytes} {tok v}"
    pure { model := m, spec := s, sig := if m == s then "-" else "bincode-roundtrip" }
  | ["wal", t] => do
    let v ← untok t
    let bytes := Bin.encSetNodeProp 7 [107] v
    let back := resStr binErrStr (fun (p : SVal × List UInt8) => tok p.1) (Bin.decode (Bin.enc v))
    let m := s!"{hexU8s bytes} {back} 2"
    let s := s!"{hexU8s bytes} {tok v} 2"
    pure { model := m, spec := s, sig := if m == s then "-" else "wal-roundtrip" }
  | ["snap", t] => do
    let v ← untok t
    let bytes := Bin.encSnapshot1 0 [107] v
    let back := resStr binErrStr (fun (p : SVal × List UInt8) => tok p.1) (Bin.decode (Bin.enc v))
    let m := s!"{hexU8s bytes} {back} 0"
    let s := s!"{hexU8s bytes} {tok v} 0"
    pure { model := m, spec := s, sig := if m == s then "-" else "snapshot-roundtrip" }
  | ["json", t] => do
    let v ← untok t
    let r := tok (Json.roundTrip v)
    let m := s!"{r} {r}"
    let s := s!"{tok v} {tok v}"
    pure { model := m, spec := s, sig := if m == s then "-" else jsonSig v }
  | ["dec", "spill", h] => do
    let bs ← parseBytesArg h
    -- the decoder returns on all inputs (c16ser_spill_decode_never_panics): its answer is the specification
    let m := resStr errStr (fun (p : SVal × List UInt8) => s!"ok {tok p.1} {bs.length - p.2.length}") (Spill.decode bs)
    pure { model := m, spec := m }
  | ["dec", "row", h] => do
    let bs ← parseBytesArg h
    let m := resStr errStr (fun (p : List SVal × List UInt8) => s!"ok {tokRow p.1} {bs.length - p.2.length}") (Spill.decodeRow 0 bs)
    pure { model := m, spec := m }
  | ["dec", "bin", h] => do
    let bs ← parseBytesArg h
    let r := Bin.decode bs
    let m := resStr binErrStr (fun (p : SVal × List UInt8) => s!"ok {tok p.1} {bs.length - p.2.length}") r
    pure (if r.returned then { model := m, spec := m } else { model := m, spec := "err:end", sig := "bincode-decode-panic" })
  | ["dec", "snap", h] => do
    let bs ← parseBytesArg h
    let r := Bin.importSnapshot bs
    let m := resStr (fun e => if e == .version then "err:version" else "err:decode")
      (fun (p : Nat × Nat) => s!"ok {p.1} {p.2}") r
    -- since the repair the decode runs within a byte budget: the import returns on every input of a
    -- modelled size (c16ser_snapshot_import_never_panics), its answer is the specification
    pure (if r.returned then { model := m, spec := m }
          else { model := m, spec := "err:decode", sig := "snapshot-import-no-return" })
  | _ => none

end Grafeo.DriverSer
