import GrafeoModel.Model.Lpg
import GrafeoModel.Driver.Proto

/-! Stream `lpg`: LpgStore driven directly (C14). Stateful; reset at `# case`. -/
namespace Grafeo.DriverLpg
open Grafeo.Lpg Grafeo.Proto

/-- the specification: a plain graph. -/
structure SNode where
  alive : Bool
  labels : List Nat
  props : AList String
structure SEdge where
  alive : Bool
  src : Nat
  dst : Nat
  ty : Nat
  props : AList String

structure St where
  st : Store := {}
  sn : AList SNode := []
  se : AList SEdge := []
  sidx : List Nat := []             -- indexed keys (no semantic effect in the spec)
  ghost : List Nat := []            -- node ids that received a property while not alive
  ghostE : List Nat := []           -- edge ids likewise

def sortNat (l : List Nat) : List Nat :=
  let ins := fun (x : Nat) (acc : List Nat) =>
    let rec go : List Nat → List Nat
      | [] => [x]
      | y :: ys => if y < x then y :: go ys else x :: y :: ys
    go acc
  l.foldr ins []

def pairLt (a b : Nat × Nat) : Bool := a.1 < b.1 || (a.1 == b.1 && a.2 < b.2)
def sortPairs (l : List (Nat × Nat)) : List (Nat × Nat) :=
  let ins := fun (x : Nat × Nat) (acc : List (Nat × Nat)) =>
    let rec go : List (Nat × Nat) → List (Nat × Nat)
      | [] => [x]
      | y :: ys => if pairLt y x then y :: go ys else x :: y :: ys
    go acc
  l.foldr ins []

def showIds (l : List Nat) : String := if l.isEmpty then "-" else natList (sortNat l)
def showPairs (l : List (Nat × Nat)) : String :=
  if l.isEmpty then "-" else joinWith "," ((sortPairs l).map (fun p => s!"{p.1}.{p.2}"))
def showProps (p : AList String) : String :=
  let keys := sortNat (p.map (·.1))
  joinWith "," (keys.map (fun k => s!"{k}={(aget p k).getD "?"}"))
def showNode : Option (List Nat × AList String) → String
  | none => "none"
  | some (ls, ps) => s!"{natList (sortNat ls)};{showProps ps}"
def boolStr (b : Bool) : String := if b then "true" else "false"

def sAliveNode (z : St) (id : Nat) : Bool := match aget z.sn id with | some n => n.alive | none => false
def sLiveEdges (z : St) : List (Nat × SEdge) := z.se.filter (fun kv => kv.2.alive)

def mk (m s sig : String) : Proto.Out := { model := m, spec := s, sig := if m == s then "-" else sig }

def parseLabels (s : String) : Option (List Nat) := parseNatList s

def handle (z : St) (args : List String) : Option (St × Proto.Out) :=
  match args with
  | ["new", b] => some ({ st := { hasBwd := b == "1" } }, { model := "-" })
  | ["cn", ls] => do
    let ls ← parseLabels ls
    let (st', id) := z.st.createNode ls z.st.epoch systemTx
    pure ({ z with st := st', sn := aset z.sn id ⟨true, ls.foldl sinsert [], []⟩ }, { model := toString id })
  | ["dn", id] => do
    let id ← id.toNat?
    let (st', r) := z.st.deleteNodeAt id z.st.epoch
    let sAlive := sAliveNode z id
    let sn' := match aget z.sn id with | some n => aset z.sn id { n with alive := false, labels := [], props := [] } | none => z.sn
    pure ({ z with st := st', sn := sn' }, mk (boolStr r) (boolStr sAlive) "delete-node-flag")
  | ["dne", id] => do
    let id ← id.toNat?
    let se' := z.se.map (fun kv => if kv.2.alive && (kv.2.src == id || kv.2.dst == id) then (kv.1, { kv.2 with alive := false, props := [] }) else kv)
    pure ({ z with st := z.st.deleteNodeEdges id, se := se' }, { model := "-" })
  | ["ce", s, d, t] => do
    let s ← s.toNat?
    let d ← d.toNat?
    let t ← t.toNat?
    let (st', id) := z.st.createEdge s d t z.st.epoch systemTx
    pure ({ z with st := st', se := aset z.se id ⟨true, s, d, t, []⟩ }, { model := toString id })
  | ["de", id] => do
    let id ← id.toNat?
    let (st', r) := z.st.deleteEdgeAt id z.st.epoch
    let sAlive := match aget z.se id with | some e => e.alive | none => false
    let se' := match aget z.se id with | some e => aset z.se id { e with alive := false, props := [] } | none => z.se
    pure ({ z with st := st', se := se' }, mk (boolStr r) (boolStr sAlive) "delete-edge-flag")
  | ["snp", id, k, v] => do
    let id ← id.toNat?
    let k ← k.toNat?
    let sn' := match aget z.sn id with
      | some n => if n.alive then aset z.sn id { n with props := aset n.props k v } else z.sn
      | none => z.sn
    -- a write to an id that is not alive is refused (repaired code): nothing becomes a ghost
    let ghost' := z.ghost
    pure ({ z with st := z.st.setNodeProp id k v, sn := sn', ghost := ghost' }, { model := "-" })
  | ["rnp", id, k] => do
    let id ← id.toNat?
    let k ← k.toNat?
    let (st', old) := z.st.removeNodeProp id k
    let sOld := match aget z.sn id with | some n => if n.alive then aget n.props k else none | none => none
    let sn' := match aget z.sn id with
      | some n => if n.alive then aset z.sn id { n with props := aerase n.props k } else z.sn
      | none => z.sn
    pure ({ z with st := st', sn := sn' }, mk (old.getD "none") (sOld.getD "none")
      (if z.ghost.contains id then "property-set-on-missing-node" else "remove-prop-result"))
  | ["sep", id, k, v] => do
    let id ← id.toNat?
    let k ← k.toNat?
    let se' := match aget z.se id with
      | some e => if e.alive then aset z.se id { e with props := aset e.props k v } else z.se
      | none => z.se
    let alive := match aget z.se id with | some e => e.alive | none => false
    pure ({ z with st := z.st.setEdgeProp id k v, se := se', ghostE := z.ghostE }, { model := "-" })
  | ["al", id, l] => do
    let id ← id.toNat?
    let l ← l.toNat?
    let (st', r) := z.st.addLabel id l
    let can := sAliveNode z id && !(((aget z.sn id).map (·.labels)).getD []).contains l
    let sn' := match aget z.sn id with
      | some n => if can then aset z.sn id { n with labels := n.labels ++ [l] } else z.sn
      | none => z.sn
    pure ({ z with st := st', sn := sn' }, mk (boolStr r) (boolStr can) "add-label-flag")
  | ["rl", id, l] => do
    let id ← id.toNat?
    let l ← l.toNat?
    let (st', r) := z.st.removeLabel id l
    let can := sAliveNode z id && (((aget z.sn id).map (·.labels)).getD []).contains l
    let sn' := match aget z.sn id with
      | some n => if can then aset z.sn id { n with labels := serase n.labels l } else z.sn
      | none => z.sn
    pure ({ z with st := st', sn := sn' }, mk (boolStr r) (boolStr can) "remove-label-flag")
  | ["ci", k] => do
    let k ← k.toNat?
    pure ({ z with st := z.st.createIndex k, sidx := sinsert z.sidx k }, { model := "-" })
  | ["di", k] => do
    let k ← k.toNat?
    pure ({ z with st := z.st.dropIndex k, sidx := serase z.sidx k }, { model := "-" })
  | ["nbl", l] => do
    let l ← l.toNat?
    let s := (z.sn.filter (fun kv => kv.2.alive && kv.2.labels.contains l)).map (·.1)
    pure (z, mk (showIds (z.st.nodesByLabel l)) (showIds s) "label-index-vs-node-labels")
  | ["gn", id] => do
    let id ← id.toNat?
    let s := match aget z.sn id with
      | some n => if n.alive then some (n.labels, n.props) else none
      | none => none
    pure (z, mk (showNode (z.st.getNodeAt id z.st.epoch)) (showNode s)
      (if z.ghost.contains id then "property-set-on-missing-node" else "get-node"))
  | ["out", n] => do
    let n ← n.toNat?
    let s := ((sLiveEdges z).filter (fun kv => kv.2.src == n && sAliveNode z n && sAliveNode z kv.2.dst)).map (fun kv => (kv.2.dst, kv.1))
    let m := z.st.outEdges n
    let dangling := m.any (fun p => !sAliveNode z p.1) || (!sAliveNode z n && !m.isEmpty)
    pure (z, mk (showPairs m) (showPairs s) (if dangling then "edge-to-or-from-deleted-node" else "out-edges-vs-live-edges"))
  | ["in", n] => do
    let n ← n.toNat?
    let s := ((sLiveEdges z).filter (fun kv => kv.2.dst == n && sAliveNode z n && sAliveNode z kv.2.src)).map (fun kv => (kv.2.src, kv.1))
    let m := z.st.inEdges n
    let dangling := m.any (fun p => !sAliveNode z p.1) || (!sAliveNode z n && !m.isEmpty)
    pure (z, mk (showPairs m) (showPairs s) (if dangling then "edge-to-or-from-deleted-node" else "in-edges-vs-live-edges"))
  | ["deg", n] => do
    let n ← n.toNat?
    -- degrees must equal the lengths of the listings the store itself gives
    let m := s!"{(z.st.outEdges n).length};{(z.st.inEdges n).length}"
    pure (z, { model := m })
  | ["fbp", k, v] => do
    let k ← k.toNat?
    let s := (z.sn.filter (fun kv => kv.2.alive && aget kv.2.props k == some v)).map (·.1)
    let m := z.st.findByProp k v
    let viaIndex := (aget z.st.pidx k).isSome
    let dead := m.any (fun id => !sAliveNode z id)
    pure (z, mk (showIds m) (showIds s)
      (if (m ++ s).any (fun id => z.ghost.contains id) then "property-set-on-missing-node"
       else if viaIndex && dead then "property-index-lists-deleted-node"
       else if viaIndex then "property-index-vs-scan" else "property-scan"))
  | ["cnt"] =>
    let s := s!"{(z.sn.filter (fun kv => kv.2.alive)).length};{(sLiveEdges z).length}"
    some (z, mk s!"{z.st.nodeIds.length};{z.st.edgeIds.length}" s "counts-vs-enumeration")
  | ["ids"] =>
    let s := s!"{showIds ((z.sn.filter (fun kv => kv.2.alive)).map (·.1))};{showIds ((sLiveEdges z).map (·.1))}"
    some (z, mk s!"{showIds z.st.nodeIds};{showIds z.st.edgeIds}" s "enumeration")
  | _ => none

end Grafeo.DriverLpg
