import GrafeoModel.Driver.Proto
import GrafeoModel.Model.Plan

/-!
Stream `plan` (C09): the logical optimizer as a plan-to-plan function. Stateless lines.

  plan pushdown  <src> <sexpr>                       model = `pushFilters`, printed in the same syntax
  plan projdown  <src> <sexpr>                       model = `pushProjections`
  plan joinorder <src> <stats> <sexpr> => <sexpr'>   model = `ok` (the run re-derives `<sexpr'>`);
                                                     spec = verdict of `joinCheck`
  plan rows <nodes> <edges> <mask> <src> <sexpr>     model = rows of `eval` on the rewritten plan,
                                                     spec = rows of `eval` on the plan as translated

`spec` of a rewrite line is `-` when the soundness theorem of Props/C09 applies to the plan
(`wfPush`, all columns known) or the rewrite changed nothing; otherwise the only output the law
covers is the unchanged plan, and the signature names the residual condition that fails:
`join-underreport` (pushed into the right input although the left input has an unreported column of
that name), `join-duplicate-column` (the mirror image, sound in the first-occurrence model, not on
the planner, which reads the last column of a name), `star-item`, `unknown-columns`.
-/
namespace Grafeo.DriverPlan
open Grafeo.Proto Grafeo.Plan

/-! ### s-expressions -/

inductive SX where
  | atom (s : String)
  | list (xs : List SX)
  deriving Inhabited

def tokenize (s : String) : List String :=
  let spaced := s.toList.flatMap (fun c => if c == '(' || c == ')' then [' ', c, ' '] else [c])
  ((String.ofList spaced).splitOn " ").filter (· ≠ "")

/-- parse one s-expression from the token list; returns it and the remaining tokens -/
partial def parseSX : List String → Option (SX × List String)
  | [] => none
  | "(" :: rest =>
    let rec go (acc : List SX) (ts : List String) : Option (SX × List String) :=
      match ts with
      | [] => none
      | ")" :: r => some (.list acc.reverse, r)
      | ts => match parseSX ts with
        | some (x, r) => go (x :: acc) r
        | none => none
    go [] rest
  | ")" :: _ => none
  | t :: rest => some (.atom t, rest)

def optAtom (x : SX) : Option (Option String) :=
  match x with
  | .atom "~" => some none
  | .atom s => some (some s)
  | _ => none

partial def sxArgs : List Expr → Expr
  | [] => .argNil
  | e :: es => .argCons e (sxArgs es)

partial def toExpr : SX → Option Expr
  | .list [.atom "lit", .atom t] => some (.lit (Val.ofTok t))
  | .list [.atom "var", .atom x] => some (.var x)
  | .list [.atom "prop", .atom x, .atom k] => some (.prop x k)
  | .list [.atom "bin", .atom op, l, r] => do
    let l ← toExpr l
    let r ← toExpr r
    pure (.bin op l r)
  | .list [.atom "un", .atom op, e] => do
    let e ← toExpr e
    pure (.un op e)
  | .list [.atom "vf", .atom tag, .atom x] => some (.vf tag x)
  | .list [.atom "o", .atom "param", .atom x] => some (.param x)
  | .list [.atom "o", .atom tag, .atom fp] => some (.subq tag fp)
  | .list (.atom "n" :: .atom tag :: .list info :: args) => do
    let info ← info.mapM (fun m => match m with | .atom s => some s | _ => none)
    let args ← args.mapM toExpr
    pure (.call tag info (sxArgs args))
  | _ => none

def toItems (x : SX) : Option (List Item) :=
  match x with
  | .list xs => xs.mapM (fun it => match it with
    | .list [e, a] => do
      let e ← toExpr e
      let a ← optAtom a
      pure (e, a)
    | _ => none)
  | _ => none

def toJoinType (s : String) : Option JoinType :=
  if s == "inner" then some .inner else if s == "left" then some .left
  else if s == "right" then some .right else if s == "full" then some .full
  else if s == "cross" then some .cross else if s == "semi" then some .semi
  else if s == "anti" then some .anti else none

def atomsOf (xs : List SX) : Option (List String) :=
  xs.mapM (fun m => match m with | .atom s => some s | _ => none)

partial def toPlan : SX → Option Plan
  | .list [.atom "scan", .atom v, lb] => do
    let lb ← optAtom lb
    pure (.scan v lb)
  | .list [.atom "scanin", .atom v, lb, i] => do
    let lb ← optAtom lb
    let i ← toPlan i
    pure (.scanIn v lb i)
  | .list [.atom "expand", .atom src, .atom dst, e, .atom dir, ty, .atom mn, .atom mx, al, i] => do
    let e ← optAtom e
    let ty ← optAtom ty
    let al ← optAtom al
    let mn ← mn.toNat?
    let mx ← if mx == "~" then some none else mx.toNat?.map some
    let i ← toPlan i
    pure (.expand { src := src, dst := dst, edge := e, dir := dir, ty := ty, minHops := mn, maxHops := mx, alias := al } i)
  | .list [.atom "filter", p, i] => do
    let p ← toExpr p
    let i ← toPlan i
    pure (.filter p i)
  | .list [.atom "project", items, i] => do
    let items ← toItems items
    let i ← toPlan i
    pure (.project items i)
  | .list [.atom "return", .atom d, items, i] => do
    let items ← toItems items
    let i ← toPlan i
    pure (.ret (d == "1") items i)
  | .list [.atom "join", .atom ty, .list cs, l, r] => do
    let ty ← toJoinType ty
    let cs ← cs.mapM (fun c => match c with
      | .list [a, b] => do
        let a ← toExpr a
        let b ← toExpr b
        pure (a, b)
      | _ => none)
    let l ← toPlan l
    let r ← toPlan r
    pure (.join ty cs l r)
  | .list [.atom "limit", .atom n, i] => do
    let n ← n.toNat?
    let i ← toPlan i
    pure (.limit n i)
  | .list [.atom "skip", .atom n, i] => do
    let n ← n.toNat?
    let i ← toPlan i
    pure (.skip n i)
  | .list [.atom "sort", .list ks, i] => do
    let ks ← ks.mapM (fun k => match k with
      | .list [e, .atom o] => do
        let e ← toExpr e
        pure (e, o == "asc")
      | _ => none)
    let i ← toPlan i
    pure (.sort ks i)
  | .list [.atom "distinct", c, i] => do
    let c ← match c with
      | .atom "~" => some none
      | .list cs => (atomsOf cs).map some
      | _ => none
    let i ← toPlan i
    pure (.distinct c i)
  | .list [.atom "agg", .list gb, .list aggs, h, i] => do
    let gb ← gb.mapM toExpr
    let aggs ← aggs.mapM (fun a => match a with
      | .list [.atom f, .atom d, e, al, pct] => do
        let e ← match e with
          | .atom "~" => some none
          | e => (toExpr e).map some
        let al ← optAtom al
        let pct ← optAtom pct
        pure ({ func := f, distinct := d == "1", expr := e, alias := al, pct := pct } : AggSpec)
      | _ => none)
    let h ← match h with
      | .atom "~" => some none
      | h => (toExpr h).map some
    let i ← toPlan i
    pure (.agg gb aggs h i)
  | .list [.atom "other", .atom name, .atom fp, c] => do
    let c ← match c with
      | .atom "?" => some ["?"]
      | .list cs => atomsOf cs
      | _ => none
    pure (.other name fp c)
  | _ => none

def parsePlan (toks : List String) : Option Plan :=
  match parseSX (tokenize (joinWith " " toks)) with
  | some (sx, []) => toPlan sx
  | _ => none

/-! ### printer (the harness' syntax, character for character) -/

def showOpt : Option String → String
  | some s => s
  | none => "~"

partial def showArgs : Expr → String
  | .argNil => ""
  | .argCons e r => " " ++ showExprAux e ++ showArgs r
  | e => " " ++ showExprAux e
where
  showExprAux : Expr → String
  | .lit v => "(lit " ++ v.tok ++ ")"
  | .var x => "(var " ++ x ++ ")"
  | .prop x k => "(prop " ++ x ++ " " ++ k ++ ")"
  | .bin op l r => "(bin " ++ op ++ " " ++ showExprAux l ++ " " ++ showExprAux r ++ ")"
  | .un op e => "(un " ++ op ++ " " ++ showExprAux e ++ ")"
  | .vf tag x => "(vf " ++ tag ++ " " ++ x ++ ")"
  | .param x => "(o param " ++ x ++ ")"
  | .subq tag fp => "(o " ++ tag ++ " " ++ fp ++ ")"
  | .call tag info a => "(n " ++ tag ++ " (" ++ joinWith " " info ++ ")" ++ showArgs a ++ ")"
  | .argNil => "()"
  | .argCons e r => showExprAux e ++ showArgs r

def showExpr (e : Expr) : String := showArgs.showExprAux e

def showItems (items : List Item) : String :=
  "(" ++ joinWith " " (items.map (fun it => "(" ++ showExpr it.1 ++ " " ++ showOpt it.2 ++ ")")) ++ ")"

def showJoinType : JoinType → String
  | .inner => "inner" | .left => "left" | .right => "right" | .full => "full"
  | .cross => "cross" | .semi => "semi" | .anti => "anti"

def showPlan : Plan → String
  | .scan v lb => "(scan " ++ v ++ " " ++ showOpt lb ++ ")"
  | .scanIn v lb i => "(scanin " ++ v ++ " " ++ showOpt lb ++ " " ++ showPlan i ++ ")"
  | .expand s i =>
    "(expand " ++ s.src ++ " " ++ s.dst ++ " " ++ showOpt s.edge ++ " " ++ s.dir ++ " " ++ showOpt s.ty ++ " "
      ++ toString s.minHops ++ " " ++ (match s.maxHops with | some m => toString m | none => "~") ++ " "
      ++ showOpt s.alias ++ " " ++ showPlan i ++ ")"
  | .filter p i => "(filter " ++ showExpr p ++ " " ++ showPlan i ++ ")"
  | .project items i => "(project " ++ showItems items ++ " " ++ showPlan i ++ ")"
  | .ret d items i => "(return " ++ (if d then "1" else "0") ++ " " ++ showItems items ++ " " ++ showPlan i ++ ")"
  | .join ty cs l r =>
    "(join " ++ showJoinType ty ++ " ("
      ++ joinWith " " (cs.map (fun c => "(" ++ showExpr c.1 ++ " " ++ showExpr c.2 ++ ")")) ++ ") "
      ++ showPlan l ++ " " ++ showPlan r ++ ")"
  | .limit n i => "(limit " ++ toString n ++ " " ++ showPlan i ++ ")"
  | .skip n i => "(skip " ++ toString n ++ " " ++ showPlan i ++ ")"
  | .sort ks i =>
    "(sort (" ++ joinWith " " (ks.map (fun k => "(" ++ showExpr k.1 ++ " " ++ (if k.2 then "asc" else "desc") ++ ")"))
      ++ ") " ++ showPlan i ++ ")"
  | .distinct c i =>
    "(distinct " ++ (match c with | none => "~" | some cs => "(" ++ joinWith " " cs ++ ")") ++ " " ++ showPlan i ++ ")"
  | .agg gb aggs h i =>
    "(agg (" ++ joinWith " " (gb.map showExpr) ++ ") ("
      ++ joinWith " " (aggs.map (fun a => "(" ++ a.func ++ " " ++ (if a.distinct then "1" else "0") ++ " "
          ++ (match a.expr with | some e => showExpr e | none => "~") ++ " " ++ showOpt a.alias ++ " " ++ showOpt a.pct ++ ")"))
      ++ ") " ++ (match h with | some e => showExpr e | none => "~") ++ " " ++ showPlan i ++ ")"
  | .other name fp c =>
    "(other " ++ name ++ " " ++ fp ++ " " ++ (if c == ["?"] then "?" else "(" ++ joinWith " " c ++ ")") ++ ")"

/-! ### which side condition fails (naming only; the decision is `wfPush`) -/

def unknownCols : Plan → Bool
  | .scan _ _ => false
  | .scanIn _ _ i => unknownCols i
  | .expand _ i => unknownCols i
  | .filter _ i => unknownCols i
  | .project _ i => unknownCols i
  | .ret _ _ i => unknownCols i
  | .join _ _ l r => unknownCols l || unknownCols r
  | .limit _ i => unknownCols i
  | .skip _ i => unknownCols i
  | .sort _ i => unknownCols i
  | .distinct _ i => unknownCols i
  | .agg _ _ _ i => unknownCols i
  | .other _ _ c => c == ["?"]

def whyNot (pred : Expr) : Plan → Option String
  | .project items i =>
    if pred.vars.all (passesThrough items) then
      if !pred.vars.all (passThrough items (cols i)) then some "star-item" else whyNot pred i
    else none
  | .ret _ items i =>
    if pred.vars.all (passesThrough items) then
      if !pred.vars.all (passThrough items (cols i)) then some "star-item" else whyNot pred i
    else none
  | .expand s i =>
    if allIn pred.vars (outVars i) then
      if !pred.vars.all (fun v => (cols i).contains v || !(expandCols s).contains v) then some "overreport-proved-impossible"
      else whyNot pred i
    else none
  | .join ty _ l r =>
    if pushesLeft pred ty l r then
      if !pred.vars.all (fun v => (cols l).contains v || !(cols r).contains v) then some "overreport-proved-impossible"
      else whyNot pred l
    else if pushesRight pred ty l r then
      if !pred.vars.all (fun v => !(cols l).contains v) then some "join-underreport"
      else whyNot pred r
    else none
  | _ => none

def firstSome : List (Option String) → Option String
  | [] => none
  | some s :: _ => some s
  | none :: r => firstSome r

def whyPlan : Plan → Option String
  | .filter pred i => firstSome [whyPlan i, if containsSubquery pred then none else whyNot pred (pushFilters i)]
  | .ret _ _ i => whyPlan i
  | .project _ i => whyPlan i
  | .limit _ i => whyPlan i
  | .skip _ i => whyPlan i
  | .sort _ i => whyPlan i
  | .distinct _ i => whyPlan i
  | .expand _ i => whyPlan i
  | .join _ _ l r => firstSome [whyPlan l, whyPlan r]
  | .agg _ _ _ i => whyPlan i
  | _ => none

/-- The model resolves a column name bound twice to its first occurrence; the planner does not do
so consistently (filter, project and return take the last one). A predicate pushed into a join's
left input although the right input has a column of the same name is therefore outside what the
model can vouch for, even where `wfPush` holds. Naming only. -/
def dupWhy (pred : Expr) : Plan → Option String
  | .project items i => if pred.vars.all (passesThrough items) then dupWhy pred i else none
  | .ret _ items i => if pred.vars.all (passesThrough items) then dupWhy pred i else none
  | .expand _ i => if allIn pred.vars (outVars i) then dupWhy pred i else none
  | .join ty _ l r =>
    if pushesLeft pred ty l r then
      if pred.vars.any (fun v => (cols r).contains v) then some "join-duplicate-column" else dupWhy pred l
    else if pushesRight pred ty l r then dupWhy pred r
    else none
  | _ => none

def dupPlan : Plan → Option String
  | .filter pred i => firstSome [dupPlan i, if containsSubquery pred then none else dupWhy pred (pushFilters i)]
  | .ret _ _ i => dupPlan i
  | .project _ i => dupPlan i
  | .limit _ i => dupPlan i
  | .skip _ i => dupPlan i
  | .sort _ i => dupPlan i
  | .distinct _ i => dupPlan i
  | .expand _ i => dupPlan i
  | .join _ _ l r => firstSome [dupPlan l, dupPlan r]
  | .agg _ _ _ i => dupPlan i
  | _ => none

/-- `none` when the soundness theorem covers this rewrite (and no duplicate column is involved) -/
def pushVerdict (p : Plan) : Option String :=
  if pushFilters p == p then none
  else if !wfPush p then some ((whyPlan p).getD "side-condition")
  else if unknownCols p then some "unknown-columns"
  else dupPlan p

/-! ### graphs and rows -/

def parseTokVal (t : String) : Val := Val.ofTok t

def parseNodes (s : String) : Option (List Node) :=
  if s == "-" then some [] else
  (s.splitOn ",").mapM (fun n =>
    match n.splitOn ":" with
    | [id, ls, ps] => do
      let id ← id.toNat?
      let labels := if ls == "" then [] else (ls.splitOn ".").map (fun l => "L" ++ l)
      let props ← if ps == "" then some [] else (ps.splitOn "&").mapM (fun kv =>
        match kv.splitOn "=" with
        | [k, v] => some ("k" ++ k, parseTokVal v)
        | _ => none)
      pure ({ id := id, labels := labels, props := props } : Node)
    | _ => none)

def parseEdges (s : String) : Option (List Edge) :=
  if s == "-" then some [] else
  (s.splitOn ",").mapM (fun e =>
    match e.splitOn ":" with
    | [id, sd, ty] =>
      match sd.splitOn ">" with
      | [a, b] => do
        let id ← id.toNat?
        let a ← a.toNat?
        let b ← b.toNat?
        pure ({ id := id, src := a, dst := b, ty := "T" ++ ty, props := [] } : Edge)
      | _ => none
    | _ => none)

/-- the interpretation used for executed lines: `hasLabel(x, 'L')` is the one function the
translators emit inside patterns -/
def stdEnv (nodes : List Node) (edges : List Edge) : Env where
  nodes := nodes
  edges := edges
  fn := fun tag info args =>
    if tag == "fn" && info.head? == some "hasLabel" then
      match args with
      | [.node i, .str h] =>
        match nodes.find? (·.id == i) with
        | some n => .bool (n.labels.any (fun l => Proto.hexBytes (l.toUTF8.toList.map (·.toNat)) == h))
        | none => .null
      | _ => .null
    else .null
  vfn := fun _ _ => .null
  param := fun _ => .null
  subq := fun _ _ _ => .null
  otherRows := fun _ _ => []

def insertStr (x : String) : List String → List String
  | [] => [x]
  | y :: ys => if x ≤ y then x :: y :: ys else y :: insertStr x ys

def sortStrs (xs : List String) : List String := xs.foldr insertStr []

def showRows (rows : List Row) : String :=
  let rs := sortStrs (rows.map (fun r => joinWith "|" (r.map (fun kv => kv.2.tok))))
  if rs.isEmpty then "norows" else joinWith ";" rs

def splitArrow (toks : List String) : Option (List String × List String) :=
  let rec go (acc : List String) : List String → Option (List String × List String)
    | [] => none
    | "=>" :: r => some (acc.reverse, r)
    | t :: r => go (t :: acc) r
  go [] toks

def handle (args : List String) : Option Proto.Out :=
  match args with
  | "pushdown" :: _src :: rest => do
    let p ← parsePlan rest
    let out := showPlan (pushFilters p)
    match pushVerdict p with
    | none => pure { model := out }
    | some why => pure { model := out, spec := showPlan p, sig := "c09-pushdown-outside-law:" ++ why }
  -- every accepted text under all eight switch sets on the real engine: the answers agree (the
  -- property's own statement; no model of the query is involved)
  | ["masks", _nodes, _edges, _src] => pure { model := "same", spec := "same", sig := "-" }
  | "projdown" :: _src :: rest => do
    let p ← parsePlan rest
    pure { model := showPlan (pushProjections p) }
  | "joinorder" :: _src :: _stats :: rest => do
    let (b, a) ← splitArrow rest
    let b ← parsePlan b
    let a ← parsePlan a
    match joinCheck b a with
    | none => pure { model := "ok", spec := "ok" }
    | some why => pure { model := "ok", spec := "bad:" ++ why, sig := "c09-joinorder:" ++ why }
  | "rows" :: nodes :: edges :: mask :: _src :: rest => do
    let ns ← parseNodes nodes
    let es ← parseEdges edges
    let m ← mask.toNat?
    let p ← parsePlan rest
    let env := stdEnv ns es
    let q := if m % 2 == 1 then pushFilters p else p
    let q := if m / 4 % 2 == 1 then pushProjections q else q
    let model := showRows (eval env q)
    let spec := showRows (eval env p)
    if model == spec then pure { model := model, spec := spec }
    else pure { model := model, spec := spec, sig := "c09-rows-differ:" ++ ((pushVerdict p).getD "unexplained") }
  | _ => none

end Grafeo.DriverPlan
