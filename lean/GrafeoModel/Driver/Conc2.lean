import GrafeoModel.Driver.Proto
/-! stream `conc2` (stub; replaced by its builder) -/
open Grafeo Grafeo.Proto
namespace DriverConc2
def handle (_args : List String) : Option Out := none
end DriverConc2
