import GrafeoModel.Model.TxConc
import GrafeoModel.Model.EdgeConc
import GrafeoModel.Driver.Proto

/-! Stream `conc2`: the transaction manager (and edge operations) under a forced interleaving
(C20). Stateless lines: `conc2 tx <progs> <sched>`, `conc2 tx.inv <progs> <sched>`. -/
open Grafeo Grafeo.Proto
namespace DriverConc2
open Grafeo.TxMgr Grafeo.TxConc

def parseIso : Nat → Option Iso
  | 0 => some .readCommitted
  | 1 => some .snapshot
  | 2 => some .serializable
  | _ => none

def nums (r : List Char) : Option (List Nat) := ((String.ofList r).splitOn ".").mapM (·.toNat?)

def parseTOp (s : String) : Option COp :=
  match s.toList with
  | ['g'] => some .gc
  | ['e'] => some .advance
  | 'b' :: r => match nums r with
    | some [v, i] => (parseIso i).map (.begin v)
    | _ => none
  | 'w' :: r => match nums r with
    | some [v, e] => some (.write v e) | _ => none
  | 'r' :: r => match nums r with
    | some [v, e] => some (.read v e) | _ => none
  | 'c' :: r => match nums r with
    | some [v] => some (.commit v) | _ => none
  | 'a' :: r => match nums r with
    | some [v] => some (.abort v) | _ => none
  | _ => none

def parseTProgs (s : String) : Option (List (List COp)) :=
  (s.splitOn ";").mapM (fun p => if p == "-" || p == "" then some [] else (p.splitOn ",").mapM parseTOp)

/-- an answer as the harness prints it; `adv` tells `advance_epoch` (prints `e<n>`) from `gc` -/
def showOut (adv : Bool) : TxMgr.Out → String
  | .id x => toString x
  | .flag b => if b then "ok" else "err"
  | .commit (.ok e) => s!"ok:{e}"
  | .commit .invalid => "err:invalid"
  | .commit .writeConflict => "err:conflict"
  | .commit .serFail => "err:serialization"
  | .count n => if adv then s!"e{n}" else toString n

def showEv (keys : List Nat) (useSeq : Bool) (ev : Ev) : String :=
  let adv := ev.op == .advance
  if useSeq then
    match ev.sout with
    | .id p => match keys[p]? with
      | some x => toString x
      | none => "?"
    | o => showOut adv o
  else showOut adv ev.cout

def showThreads (n : Nat) (keys : List Nat) (useSeq : Bool) (log : List Ev) : String :=
  joinWith ";" ((List.range n).map (fun i =>
    let rs := (log.filter (fun ev => ev.thread == i)).map (showEv keys useSeq)
    if rs.isEmpty then "-" else joinWith "," rs))

def showMgr (next : Nat) (keys : List Nat) (m : Mgr) : String :=
  let states := String.join ((List.range next).map (fun id =>
    match m.get (keys.idxOf id) with
    | none => "-"
    | some t => match t.state with
      | .active => "A" | .committed => "C" | .aborted => "X"))
  s!"epoch={m.epoch} min={m.minActiveEpoch} active={m.activeCount} txs={if states == "" then "-" else states}"

def distinct : List Nat → Bool
  | [] => true
  | x :: xs => !xs.contains x && distinct xs

def handleTx (kind progs sched : String) : Option Proto.Out := do
  let progs ← parseTProgs progs
  let sched ← parseNatList sched
  let fuel := 2 * (progs.map List.length).sum + 2
  let st := finishAll fuel (runSched (init progs) sched)
  if kind == "tx" then
    -- the specification: the sequential manager run on the calls in linearisation order
    let sq := srun (st.log.map (·.op))
    let seqLog := (st.log.zip sq.2).map (fun p => { p.1 with sout := p.2 })
    let model := s!"res={showThreads st.threads.length st.keys false st.log} {showMgr st.next st.keys st.m}"
    let spec := s!"res={showThreads st.threads.length st.keys true seqLog} {showMgr st.next st.keys sq.1}"
    pure { model := model, spec := spec, sig := if model == spec then "-" else "tx-not-linearizable" }
  else if kind == "tx.inv" then
    let ok := distinct (st.log.filterMap evBeginId) && distinct (st.log.filterMap evEpoch)
    let v := if ok then "ok" else "torn"
    pure { model := v, spec := "ok", sig := if ok then "-" else "tx-ids-or-epochs-repeat" }
  else none

/-! ### `conc2 edge` -/

def parseEOp (s : String) : Option EdgeConc.COp :=
  match s.toList with
  | 'c' :: r => match nums r with
    | some [a, b] => some (.create a b) | _ => none
  | 'd' :: r => match nums r with
    | some [e] => some (.delEdge e) | _ => none
  | 'n' :: r => match nums r with
    | some [n] => some (.delNode n) | _ => none
  | _ => none

def parseEProgs (s : String) : Option (List (List EdgeConc.COp)) :=
  (s.splitOn ";").mapM (fun p => if p == "-" || p == "" then some [] else (p.splitOn ",").mapM parseEOp)

def insertPair (x : Nat × Nat) : List (Nat × Nat) → List (Nat × Nat)
  | [] => [x]
  | y :: ys => if x.2 < y.2 || (x.2 == y.2 && x.1 ≤ y.1) then x :: y :: ys else y :: insertPair x ys

def showAdj (l : List (Nat × List (Nat × Nat))) : String :=
  joinWith ";" (l.map (fun kv => s!"{kv.1}:{joinWith "," ((kv.2.foldr insertPair []).map (fun p => s!"{p.1}.{p.2}"))}"))

def showView (v : EdgeConc.View) : String :=
  let es := joinWith ";" (v.edges.map (fun e => s!"{e.1}:{e.2.1}>{e.2.2}"))
  s!"edges={if es == "" then "-" else es} fwd={showAdj v.fwd} bwd={showAdj v.bwd} nodes={if v.nodes.isEmpty then "-" else natList v.nodes}"

def showERes (rs : List (List Nat)) : String :=
  joinWith ";" (rs.map (fun r => if r.isEmpty then "-" else natList r))

def handleEdge (kind n0 progs sched : String) : Option Proto.Out := do
  let n0 ← n0.toNat?
  let progs ← parseEProgs progs
  let sched ← parseNatList sched
  let fuel := 6 * (progs.map List.length).sum + 6
  let st := EdgeConc.finishAll fuel (EdgeConc.runSched (EdgeConc.init n0 progs) sched)
  let ok := EdgeConc.consistent st.store
  if kind == "edge" then
    -- the specification: every call in one piece, in linearisation order
    let sq := EdgeConc.replay (EdgeConc.initStore n0) st.log
    let seqRes := (List.range st.threads.length).map (fun i =>
      ((st.log.zip sq.2).filter (fun p => p.1.thread == i)).map (·.2))
    let model := s!"res={showERes (st.threads.map (·.results))} {showView (EdgeConc.view st.store (n0 + 1))}"
    let spec := s!"res={showERes seqRes} {showView (EdgeConc.view sq.1 (n0 + 1))}"
    pure { model := model, spec := spec, sig := if model == spec then "-" else "edge-adjacency-torn" }
  else if kind == "edge.inv" then
    let v := if ok then "ok" else "torn"
    pure { model := v, spec := "ok", sig := if ok then "-" else "edge-adjacency-torn" }
  else none

def handle (args : List String) : Option Proto.Out :=
  match args with
  | [kind, progs, sched] =>
    if kind == "tx" || kind == "tx.inv" then handleTx kind progs sched else none
  | [kind, n0, progs, sched] =>
    if kind == "edge" || kind == "edge.inv" then handleEdge kind n0 progs sched else none
  | _ => none
end DriverConc2
