import GrafeoModel.Driver.Proto

/-! Stream `hnsw` (stub: filled in by the owner of this stream). Stateless lines. -/
namespace Grafeo.DriverHnsw
open Grafeo.Proto

def handle (args : List String) : Option Proto.Out :=
  match args with
  | _ => none

end Grafeo.DriverHnsw
