import GrafeoModel.Model.Hnsw
import GrafeoModel.Driver.Proto

/-!
Stream `hnsw` (C18). Stateless lines; the text forms are described in `harness/src/hnsw.rs`.

  hnsw search      <recipe> <query> <k> <ef> <graph> <dists>
        model = `Hnsw.searchWithEf` on the dumped graph with the carried distances (f32 bit patterns
        through `ordKey`), printed as `id:dist,…`; spec = model when `checkSound` accepts the model's
        own result (`c18_model_passes_check`: it always does on a closed dump), else `unsound-model`
        (signature = the failing clause).
  hnsw search.ties <same>   some distances are equal: the model still runs and is checked, but only the
        verdict is printed (model = verdict on the model's result, spec = `sound`)
  hnsw search.nan  <same>   a NaN distance: outside the model; model = spec = `sound` (the harness prints the
        verdict on the real result)
  hnsw removed <recipe> <query> <k> <ef> <id>     model = spec = `absent` when the recipe really leaves
        `id` removed (else `bad-op`)
  hnsw live <recipe>        model = spec = `<n>:<sorted live ids>` computed from the recipe (set semantics)
  hnsw batch <recipe> <k> <queries>               model = spec = `equal`  (`c18_batch_eq_singles`)
  hnsw bf <metric> <k> <query> <vectors> <dists>  model = `Hnsw.bruteForceKnn`; spec = model when
        `checkKnn` accepts it (`c18_brute_force_exact`), else `inexact-model`
  hnsw bf.nan <same>        some distance is NaN, at most 20 vectors: model = `Hnsw.bruteForceKnnNan` (std's
        insertion sort under `partial_cmp(..).unwrap_or(Equal)`); spec = the k nearest with NaN ordered last
        (`OrderedFloat`'s total order, which the HNSW path uses); signature `nan-distance-breaks-brute-force-order`
-/
namespace Grafeo.DriverHnsw
open Grafeo.Proto Grafeo.Hnsw

def parseHexNat (s : String) : Option Nat :=
  if s.isEmpty then none
  else s.toList.foldlM (fun acc c => do let v ← hexVal c; pure (acc * 16 + v)) 0

def hex8 (n : Nat) : String :=
  String.ofList ((List.range 8).reverse.map fun i => hexDigit (n / 16 ^ i % 16))

def parseIds (s : String) : Option (List Nat) :=
  if s == "_" then some [] else (s.splitOn ",").mapM (fun t => t.toNat?)

structure Dump where
  entry : Option Nat
  maxLevel : Nat
  adj : List (Nat × List (List Nat))

def parseNode (t : String) : Option (Nat × List (List Nat)) :=
  match t.splitOn "=" with
  | [i, ls] => do
    let i ← i.toNat?
    let ls ← (ls.splitOn "/").mapM parseIds
    pure (i, ls)
  | _ => none

def parseGraph (s : String) : Option Dump :=
  match s.splitOn ";" with
  | e :: ml :: nodes => do
    let entry ← if e == "N" then some none else (e.toNat?).map some
    let ml ← ml.toNat?
    let adj ← nodes.mapM parseNode
    pure { entry := entry, maxLevel := ml, adj := adj }
  | _ => none

def lookup {α : Type} (i : Nat) : List (Nat × α) → Option α
  | [] => none
  | (j, a) :: rest => if i == j then some a else lookup i rest

def Dump.toGraph (D : Dump) : Graph :=
  { nodes := D.adj.map (·.1)
    nbrs := fun i l => match lookup i D.adj with
      | some ls => ls.getD l []
      | none => []
    entry := D.entry
    maxLevel := D.maxLevel }

def parsePair (t : String) : Option (Nat × Nat) :=
  match t.splitOn ":" with
  | [i, b] => do
    let i ← i.toNat?
    let b ← parseHexNat b
    pure (i, b)
  | _ => none

def parseDists (s : String) : Option (List (Nat × Nat)) :=
  if s == "-" then some [] else (s.splitOn ",").mapM parsePair

/-- `f32::MAX`: what `node_distance` returns for an id that is not in the map -/
def f32MaxBits : Nat := 0x7f7fffff

def bitsOf (tbl : List (Nat × Nat)) (i : Nat) : Nat := (lookup i tbl).getD f32MaxBits

def showPairs (tbl : List (Nat × Nat)) (r : List (Nat × Nat)) : String :=
  if r.isEmpty then "-" else joinWith "," (r.map fun p => s!"{p.1}:{hex8 (bitsOf tbl p.1)}")

def fuelOf (D : Dump) : Nat :=
  D.adj.length + (D.adj.map fun n => (n.2.map List.length).foldl (· + ·) 0).foldl (· + ·) 0 + 2

/-- run the model on one search line: the result and the verdict of the executable specification -/
def runSearch (k ef : Nat) (D : Dump) (tbl : List (Nat × Nat)) : List (Nat × Nat) × String :=
  let G := D.toGraph
  let d := fun i => ordKey (bitsOf tbl i)
  let r := searchWithEf G d k ef (fuelOf D)
  (r, checkSound G.nodes d k r)

/-! recipe: only the op sequence matters to the model side (`live`, `removed`) -/

inductive ROp where
  | ins (id : Nat)
  | rem (id : Nat)

def parseROp (t : String) : Option ROp :=
  if t.startsWith "i" then
    match (t.drop 1).toString.splitOn ":" with
    | [i, _] => (i.toNat?).map ROp.ins
    | _ => none
  else if t.startsWith "r" then ((t.drop 1).toString.toNat?).map ROp.rem
  else none

def parseRecipeOps (s : String) : Option (List ROp) :=
  match s.splitOn ";" with
  | [_, _, _, _, _, ops] => if ops == "_" then some [] else (ops.splitOn "|").mapM parseROp
  | _ => none

def insertNat (x : Nat) : List Nat → List Nat
  | [] => [x]
  | y :: ys => if x < y then x :: y :: ys else if x == y then y :: ys else y :: insertNat x ys

/-- the ids an index holds after the op sequence (sorted) -/
def liveIds (ops : List ROp) : List Nat :=
  ops.foldl (fun acc o => match o with
    | .ins i => insertNat i acc
    | .rem i => acc.erase i) []

def parseVecs (s : String) : Option (List Nat) :=
  if s == "-" then some []
  else (s.splitOn ";").mapM (fun t => match t.splitOn ":" with
    | [i, _] => i.toNat?
    | _ => none)

def handle (args : List String) : Option Proto.Out :=
  match args with
  | [kind, _recipe, _query, k, ef, graph, dists] =>
    if kind == "search" || kind == "search.ties" || kind == "search.nan" then do
      let k ← k.toNat?
      let ef ← ef.toNat?
      let D ← parseGraph graph
      let tbl ← parseDists dists
      if kind == "search.nan" then
        pure { model := "sound", spec := "sound" }
      else
        let (r, v) := runSearch k ef D tbl
        if kind == "search" then
          let m := showPairs tbl r
          if v == "sound" then pure { model := m, spec := m }
          else pure { model := m, spec := "unsound-model", sig := v }
        else
          pure { model := v, spec := "sound", sig := if v == "sound" then "-" else v }
    else none
  | ["removed", recipe, _query, _k, _ef, id] => do
    let ops ← parseRecipeOps recipe
    let id ← id.toNat?
    if (liveIds ops).contains id then none
    else pure { model := "absent", spec := "absent" }
  | ["live", recipe] => do
    let ops ← parseRecipeOps recipe
    let l := liveIds ops
    let m := s!"{l.length}:{if l.isEmpty then "-" else natList l}"
    pure { model := m, spec := m }
  | ["batch", recipe, k, _queries] => do
    let _ ← parseRecipeOps recipe
    let _ ← k.toNat?
    pure { model := "equal", spec := "equal" }
  | ["bf", _metric, k, _query, vectors, dists] => do
    let k ← k.toNat?
    let ids ← parseVecs vectors
    let tbl ← parseDists dists
    if ids != tbl.map (·.1) then none
    else
      let xs := tbl.map fun p => (p.1, ordKey p.2)
      let r := bruteForceKnn k xs
      let v := checkKnn k xs r
      let m := showPairs tbl r
      if v == "exact" then pure { model := m, spec := m }
      else pure { model := m, spec := "inexact-model", sig := v }
  | ["bf.nan", _metric, k, _query, vectors, dists] => do
    let k ← k.toNat?
    let ids ← parseVecs vectors
    let tbl ← parseDists dists
    if ids != tbl.map (·.1) || tbl.length > 20 then none
    else
      -- `cmp_distance`: ascending, NaN after every number (stable among equals)
      let isNan := fun (b : Nat) => b % 2147483648 > 2139095040
      let total := bruteForceKnn k (tbl.map fun p => (p.1, if isNan p.2 then 4294967296 else ordKey p.2))
      let sp := showPairs tbl total
      pure { model := sp, spec := sp }
  | _ => none

end Grafeo.DriverHnsw
