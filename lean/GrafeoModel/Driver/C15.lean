import GrafeoModel.Model.Codec
import GrafeoModel.Driver.Proto

/-! Stream `c15`: codec model outputs in the exact text format of the Rust harness. -/
namespace Grafeo.DriverC15
open Grafeo.Codec Grafeo.Proto

def i64s (xs : List Int) : List (BitVec 64) := xs.map (BitVec.ofInt 64)
def toI (xs : List (BitVec 64)) : List Int := xs.map (·.toInt)

def resList : Res (List Nat) → String
  | .ok l => "ok:" ++ natList l
  | .err => "err"
  | .panic => "panic"

def resNat : Res Nat → String
  | .ok v => "ok:" ++ toString v
  | .err => "none"
  | .panic => "panic"

def optNat : Option Nat → String
  | some v => "ok:" ++ toString v
  | none => "none"

def packedStr (p : Packed) : String :=
  s!"{p.bits};{p.count};{natList p.data}"

def dev (ok : Bool) (sig : String) : String := if ok then "-" else sig

def handle (args : List String) : Option Out :=
  match args with
  | ["zz.enc", v] => do
    let i ← v.toInt?
    pure { model := s!"{(zzEnc (BitVec.ofInt 64 i)).toNat}" }
  | ["zz.dec", v] => do
    let i ← v.toInt?
    let d := (zzDec (zzEnc (BitVec.ofInt 64 i))).toInt
    pure { model := s!"{d}", spec := s!"{i}", sig := dev (d == i) "zigzag-lossy" }
  | ["sdelta.enc", l] => do
    let xs ← parseIntList l
    let e := SDeltaEnc.encode (i64s xs)
    pure { model := s!"{e.base.toNat};{e.count};{natList (e.deltas.map (·.toNat))}" }
  | ["sdelta.dec", l] => do
    let xs ← parseIntList l
    let d := toI (SDeltaEnc.encode (i64s xs)).decode
    pure { model := "ok:" ++ intList d, spec := "ok:" ++ intList xs,
           sig := dev (d == xs) "sdelta-lossy" }
  | ["delta.enc", l] => do
    let xs ← parseNatList l
    let e := DeltaEnc.encode xs
    pure { model := s!"{e.base};{e.count};{natList e.deltas}" }
  | ["delta.dec", l] => do
    let xs ← parseNatList l
    let d := (DeltaEnc.encode xs).decode
    pure { model := "ok:" ++ natList d, spec := "ok:" ++ natList xs, sig := dev (d == xs) "delta-lossy" }
  | ["delta.bytes", l] => do
    let xs ← parseNatList l
    let e := DeltaEnc.encode xs
    pure { model := hexBytes e.toBytes }
  | ["delta.rt", l] => do
    -- from_bytes(to_bytes(encode)).decode
    let xs ← parseNatList l
    let e := DeltaEnc.encode xs
    let m := match DeltaEnc.fromBytes e.toBytes with
      | some e' => "ok:" ++ natList e'.decode
      | none => "err"
    pure { model := m, spec := "ok:" ++ natList xs, sig := dev (m == "ok:" ++ natList xs) "delta-bytes-lossy" }
  | ["delta.fb", h] => do
    let bs ← parseHex h
    let m := match DeltaEnc.fromBytes bs with
      | some e => s!"ok:{e.base};{e.count};{natList e.deltas}"
      | none => "err"
    pure { model := m }
  | ["pack.enc", l] => do
    let xs ← parseNatList l
    pure { model := packedStr (pack xs) }
  | ["pack.dec", l] => do
    let xs ← parseNatList l
    let d := resList (pack xs).unpack
    pure { model := d, spec := "ok:" ++ natList xs, sig := dev (d == "ok:" ++ natList xs) "pack-lossy" }
  | ["pack.get", l, i] => do
    let xs ← parseNatList l
    let i ← i.toNat?
    let d := resNat ((pack xs).get i)
    let s := optNat xs[i]?
    pure { model := d, spec := s, sig := dev (d == s) "pack-get" }
  | ["pack.bytes", l] => do
    let xs ← parseNatList l
    pure { model := hexBytes (pack xs).toBytes }
  | ["pack.rt", l] => do
    let xs ← parseNatList l
    let m := match Packed.fromBytes (pack xs).toBytes with
      | .ok p => resList p.unpack
      | .err => "err"
      | .panic => "panic"
    pure { model := m, spec := "ok:" ++ natList xs, sig := dev (m == "ok:" ++ natList xs) "pack-bytes-lossy" }
  | ["pack.fb", h] => do
    let bs ← parseHex h
    let m := match Packed.fromBytes bs with
      | .ok p => "ok:" ++ packedStr p
      | .err => "err"
      | .panic => "panic"
    pure { model := m }
  | ["dbp.enc", l] => do
    let xs ← parseNatList l
    let e := DBP.encode xs
    pure { model := s!"{e.base};{packedStr e.deltas}" }
  | ["dbp.dec", l] => do
    let xs ← parseNatList l
    let e := DBP.encode xs
    let d := resList e.decode
    let s := "ok:" ++ natList xs
    pure { model := s!"{d};{e.len}", spec := s!"{s};{xs.length}",
           sig := dev (d == s && e.len == xs.length) (if xs == [0] then "dbp-zero-singleton" else "dbp-lossy") }
  | ["dbp.rt", l] => do
    let xs ← parseNatList l
    let m := match DBP.fromBytes (DBP.encode xs).toBytes with
      | .ok p => resList p.decode
      | .err => "err"
      | .panic => "panic"
    let s := "ok:" ++ natList xs
    pure { model := m, spec := s,
           sig := dev (m == s) (if xs == [0] then "dbp-zero-singleton" else "dbp-bytes-lossy") }
  | ["rle.enc", l] => do
    let xs ← parseNatList l
    let e := Rle.encode xs
    pure { model := s!"{e.total};" ++ joinWith "," (e.runs.map (fun (v, n) => s!"{v}x{n}")) }
  | ["rle.dec", l] => do
    let xs ← parseNatList l
    let d := (Rle.encode xs).decode
    pure { model := "ok:" ++ natList d, spec := "ok:" ++ natList xs, sig := dev (d == xs) "rle-lossy" }
  | ["rle.get", l, i] => do
    let xs ← parseNatList l
    let i ← i.toNat?
    let d := optNat ((Rle.encode xs).get i)
    let s := optNat xs[i]?
    pure { model := d, spec := s, sig := dev (d == s) "rle-get" }
  | ["rle.rt", l] => do
    let xs ← parseNatList l
    let m := match Rle.fromBytes (Rle.encode xs).toBytes with
      | some r => s!"ok:{natList r.decode};{r.total}"
      | none => "err"
    let s := s!"ok:{natList xs};{xs.length}"
    pure { model := m, spec := s, sig := dev (m == s) "rle-bytes-lossy" }
  | ["rle.bytes", l] => do
    let xs ← parseNatList l
    pure { model := hexBytes (Rle.encode xs).toBytes }
  | ["srle.dec", l] => do
    let xs ← parseIntList l
    let d := toI (SRle.decode (SRle.encode (i64s xs)))
    pure { model := "ok:" ++ intList d, spec := "ok:" ++ intList xs, sig := dev (d == xs) "srle-lossy" }
  | _ => none

end Grafeo.DriverC15
