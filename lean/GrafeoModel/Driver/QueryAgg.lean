import GrafeoModel.Model.QueryAgg
import GrafeoModel.Driver.Query
import GrafeoModel.Driver.Proto

/-! Stream `qa`: grouping / aggregates through GQL and Cypher, and the Gremlin and GraphQL front
ends, over a graph given in the op line (C08).

* `qa agg nodes edges start hops preds items ord skip lim lang`
  items: `key:v.k`, `cstar`, `cntv:v`, `cntvd:v`, `<fn>:v.k` with fn ∈ cnt cntd sum sumd avg avgd min max col cold
  ord: `<item index><a|d>,…`
* `qa gremlin nodes edges start hops preds order skip lim proj dedup agg`
  order: `-` | `<key><a|d>`; proj: `-` | key; dedup: `0|n|v`; agg: `-|count|sum|mean|min|max`
* `qa graphql nodes edges label hops preds cols order skip first`
* `qa gqlstar nodes edges label t1 t2`
* `qa cross nodes edges label hops preds key` — one question, four languages
Results: rows `cell|cell;…` sorted unless ordered, `norows`, `error:<kind>`, `panic`; cells
`N`, `I<n>`, `S<hex>`, `F<16 hex>` / `Fnan`, `L[<sorted cells>]`. -/
namespace Grafeo.DriverQueryAgg
open Grafeo.Query Grafeo.QueryAgg Grafeo.Proto Grafeo.DriverQuery

def hexDigits16 (n : Nat) : String :=
  let ds := Nat.toDigits 16 n
  String.ofList (List.replicate (16 - ds.length) '0' ++ ds)

def sortStrs (xs : List String) : List String := xs.foldr insertStr []

def showF (b : Nat) : String := if F64.isNaN b then "Fnan" else "F" ++ hexDigits16 b

def showV : QueryAgg.Val → String
  | .null => "N"
  | .int i => s!"I{i}"
  | .str s => "S" ++ hexBytes (s.toList.map (·.toNat))
  | .float b => showF b

def parseHexNat (s : String) : Option Nat :=
  s.toList.foldl (fun acc c => do
    let a ← acc
    let d ← hexVal c
    pure (16 * a + d)) (some 0)

/-- `id:l.l:k=v&k=v`; a value `F<16 hex>` is a float: it goes to the float table, not to the node -/
def parseNodeF (s : String) : Option (Node × FloatTab) := do
  match s.splitOn ":" with
  | [id, ls, ps] =>
    let id ← id.toNat?
    let labels ← if ls == "" then some [] else (ls.splitOn ".").mapM (·.toNat?)
    let kvs ← if ps == "" then some [] else (ps.splitOn "&").mapM (fun kv =>
      match kv.splitOn "=" with
      | [k, v] => do pure (← k.toNat?, v)
      | _ => none)
    let isF := fun (v : String) => v.toList.head? == some 'F'
    let fl ← (kvs.filter (fun kv => isF kv.2)).mapM (fun kv => do
      pure (id, kv.1, ← parseHexNat (String.ofList (kv.2.toList.drop 1))))
    let props ← (kvs.filter (fun kv => !isF kv.2)).mapM (fun kv => do pure (kv.1, ← parseVal kv.2))
    pure (⟨id, labels, props⟩, fl)
  | _ => none

def parseGraphF (nodes edges : String) : Option (Graph × FloatTab) := do
  let ns ← parseList parseNodeF nodes
  pure (⟨ns.map (·.1), ← parseList parseEdge edges⟩, (ns.map (·.2)).flatten)

def showA : AVal → String
  | .null => "N"
  | .int i => s!"I{i}"
  | .str s => "S" ++ hexBytes (s.toList.map (·.toNat))
  | .float b => showF b
  | .list l => "L[" ++ joinWith "," (sortStrs (l.map showV)) ++ "]"

def showARows (ordered : Bool) (rows : List (List AVal)) : String :=
  let rs := rows.map (fun r => joinWith "|" (r.map showA))
  let rs := if ordered then rs else sortStrs rs
  if rs.isEmpty then "norows" else joinWith ";" rs

def showRes (ordered : Bool) : Res → String
  | .rows r => showARows ordered r
  | .error k => "error:" ++ k
  | .unconstrained => "-"

def parseVK (s : String) : Option (Nat × Nat) :=
  match s.splitOn "." with
  | [v, k] => do pure (← v.toNat?, ← k.toNat?)
  | _ => none

def parseItem (s : String) : Option Item :=
  match s.splitOn ":" with
  | ["cstar"] => some (.agg .countStar false (.node 0))
  | ["key", vk] => (parseVK vk).map (fun (v, k) => .key v k)
  | ["cntv", v] => v.toNat?.map (fun v => .agg .count false (.node v))
  | ["cntvd", v] => v.toNat?.map (fun v => .agg .count true (.node v))
  | [f, vk] => do
    let (v, k) ← parseVK vk
    let (fn, d) ← (match f with
      | "cnt" => some (SFn.count, false) | "cntd" => some (.count, true)
      | "sum" => some (.sum, false) | "sumd" => some (.sum, true)
      | "avg" => some (.avg, false) | "avgd" => some (.avg, true)
      | "min" => some (.min, false) | "max" => some (.max, false)
      | "col" => some (.collect, false) | "cold" => some (.collect, true)
      | _ => none)
    pure (.agg fn d (.prop v k))
  | _ => none

/-- both translators build the same plan for these queries: the language token only selects the
front end on the implementation side -/
def parseLang : String → Option Unit
  | "gql" => some () | "cypher" => some () | _ => none

/-- model rows rearranged into RETURN order -/
def toReturnOrder (items : List Item) (row : List AVal) : List AVal :=
  (List.range items.length).map (fun i => row.getD (outPos items i) .null)

def resMapRows (f : List AVal → List AVal) : Res → Res
  | .rows r => .rows (r.map f)
  | x => x

def itemHasMinMax : Item → Bool
  | .agg .min _ _ => true
  | .agg .max _ _ => true
  | _ => false

def itemIsSumAvg : Item → Bool
  | .agg .sum _ _ => true
  | .agg .avg _ _ => true
  | _ => false

/-- the kinds of deviation that remain open, in the order they are looked for -/
def aggSig (ft : FloatTab) (g : Graph) (q : AggQ) (ordered : Bool) (m s : Res) : String :=
  let sh := showRes ordered
  match s with
  | .error "type" => "agg-non-number-summed"
  | _ =>
    let m' := resMapRows (toReturnOrder q.items) m
    let kept := (Pipe.bindings g q.core).filter (passes q.preds)
    if sh m' == sh s then "agg-key-columns-first"
    else
      -- the first aggregate that deviates on its own (same keys, this aggregate only)
      let alone := (aggItems q.items).filter (fun it =>
        let q1 : AggQ := { q with items := keyItems q.items ++ [it], orderBy := [], skip := none, limit := none }
        showRes false (Pipe.execAgg ft g q1) != showRes false (Spec.evalAgg ft g q1))
      match alone.head? with
      | some it =>
        let fl := kept.any (fun b => isFloat (srcVal ft b (itemSrc it)))
        if itemHasMinMax it then "agg-min-max-numeric-text"
        else if itemIsSumAvg it then (if fl then "agg-float-accumulation" else "agg-avg-double-rounding")
        else "agg-differs"
      | none => "agg-differs"

def parseOrderKey (s : String) : Option (Option (Nat × Bool)) :=
  if s == "-" then some none
  else match s.toList.reverse with
    | 'a' :: r => (String.ofList r.reverse).toNat?.map (fun k => some (k, true))
    | 'd' :: r => (String.ofList r.reverse).toNat?.map (fun k => some (k, false))
    | _ => none

def parseDedup : String → Option DedupAt
  | "0" => some .none | "n" => some .nodes | "v" => some .values | _ => none

def parseGAgg : String → Option (Option GAgg)
  | "-" => some none | "count" => some (some .count) | "sum" => some (some .sum) | "mean" => some (some .mean)
  | "min" => some (some .min) | "max" => some (some .max) | _ => none

def gremSig (q : GremQ) (s : Res) : String :=
  match s with
  | .error "type" => "agg-non-number-summed"
  | _ =>
    if q.proj.isSome && (match q.agg with | some .min => true | some .max => true | _ => false) then "agg-min-max-numeric-text"
    else if q.proj.isSome && (match q.agg with | some .mean => true | _ => false) then "agg-avg-double-rounding"
    else "gremlin-differs"

def mkOut (ordered : Bool) (m s : Res) (sig : Unit → String) : Proto.Out :=
  let ms := showRes ordered m
  let ss := showRes ordered s
  { model := ms, spec := ss, sig := if ss == "-" || ms == ss then "-" else sig () }

def handle (args : List String) : Option Proto.Out :=
  match args with
  | ["agg", nodes, edges, start, hops, preds, items, ord, skip, lim, lang] => do
    let (g, ft) ← parseGraphF nodes edges
    let _ ← parseLang lang
    let q : AggQ := { start := ⟨← optNat start⟩, hops := ← parseList parseHop hops, preds := ← parseList parsePred preds,
                      items := ← parseList parseItem items, orderBy := ← parseOrd ord,
                      skip := ← optNat skip, limit := ← optNat lim }
    let ordered := !q.orderBy.isEmpty
    let m := Pipe.execAgg ft g q
    let s := Spec.evalAgg ft g q
    pure (mkOut ordered m s (fun _ => aggSig ft g q ordered m s))
  -- statistics aid: does some group of this `agg` line hold an Int64 and a Float64 in one aggregated
  -- column (`mixed`), floats only in some column (`float`), or neither (`plain`)?
  | ["aggmix", nodes, edges, start, hops, preds, items, _ord, _skip, _lim, _lang] => do
    let (g, ft) ← parseGraphF nodes edges
    let q : AggQ := { start := ⟨← optNat start⟩, hops := ← parseList parseHop hops, preds := ← parseList parsePred preds,
                      items := ← parseList parseItem items, orderBy := [], skip := none, limit := none }
    let kept := (Pipe.bindings g q.core).filter (passes q.preds)
    let keys := dedupKeys (kept.map (keyVals ft q))
    let cols := fun (k : List QueryAgg.Val) => (aggItems q.items).map (fun it =>
      ((kept.filter (fun b => keyVals ft q b == k)).map (fun b => srcVal ft b (itemSrc it))))
    let mixed := keys.any (fun k => (cols k).any (fun c => c.any isFloat && c.any isInt))
    let anyF := keys.any (fun k => (cols k).any (fun c => c.any isFloat))
    pure { model := if mixed then "mixed" else if anyF then "float" else "plain" }
  | ["gremlin", nodes, edges, start, hops, preds, order, skip, lim, proj, dedup, agg] => do
    let (g, ft) ← parseGraphF nodes edges
    let q : GremQ := { start := ⟨← optNat start⟩, hops := ← parseList parseHop hops, preds := ← parseList parsePred preds,
                       order := ← parseOrderKey order, skip := ← optNat skip, limit := ← optNat lim,
                       proj := ← optNat proj, dedup := ← parseDedup dedup, agg := ← parseGAgg agg }
    let ordered := q.order.isSome && q.agg.isNone && q.dedup != .values
    let m := Pipe.execGremlin g q
    let s := Spec.evalGremlin g q
    pure (mkOut ordered m s (fun _ => gremSig q s))
  | ["graphql", nodes, edges, label, hops, preds, cols, order, skip, first] => do
    let (g, ft) ← parseGraphF nodes edges
    let q : GqlQ := { label := ← label.toNat?, hops := ← parseList parseHop hops, preds := ← parseList parsePred preds,
                      cols := ← parseList parseVK cols, order := ← parseOrderKey order,
                      skip := ← optNat skip, first := ← optNat first }
    -- rows of one root object tie on the sort key: compare as a set when there are hops
    let ordered := q.order.isSome && q.hops.isEmpty
    let m := Pipe.execGraphql g q
    let s := Spec.evalGraphql g q
    pure (mkOut ordered m s (fun _ => "graphql-differs"))
  -- the same question in the four languages: `label`-scan, outgoing typed hops, comparisons,
  -- one property of the last vertex; four answers `gql/cypher/gremlin/graphql`
  | ["cross", nodes, edges, label, hops, preds, key] => do
    let (g, ft) ← parseGraphF nodes edges
    let l ← label.toNat?
    let hs ← parseList parseHop hops
    let ps ← parseList parsePred preds
    let k ← key.toNat?
    let cq : Q := { start := ⟨some l⟩, hops := hs, preds := ps, ret := .props [(hs.length, k)], distinct := false,
                    orderBy := [], skip := none, limit := none }
    let gq : GremQ := { start := ⟨some l⟩, hops := hs, preds := ps, order := none, skip := none, limit := none,
                        proj := some k, dedup := .none, agg := none }
    let lq : GqlQ := { label := l, hops := hs, preds := ps, cols := [(hs.length, k)], order := none, skip := none, first := none }
    let core := showRows false (Pipe.exec g cq)
    let m := joinWith "/" [core, core, showRes false (Pipe.execGremlin g gq), showRes false (Pipe.execGraphql g lq)]
    let sc := showRows false (Spec.eval g cq)
    let s := joinWith "/" [sc, sc, showRes false (Spec.evalGremlin g gq), showRes false (Spec.evalGraphql g lq)]
    pure { model := m, spec := s, sig := if m == s then "-" else "cross-language-differs" }
  | ["gqlstar", nodes, edges, label, t1, t2] => do
    let (g, ft) ← parseGraphF nodes edges
    let m := Pipe.execStar g (← label.toNat?) (← t1.toNat?) (← t2.toNat?)
    let s := Spec.evalStar g (← label.toNat?) (← t1.toNat?) (← t2.toNat?)
    pure (mkOut false m s (fun _ => "graphql-siblings-differ"))
  | _ => none

end Grafeo.DriverQueryAgg
