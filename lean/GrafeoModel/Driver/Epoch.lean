import GrafeoModel.Driver.Proto
/-! stream `epo` (stub; replaced by its builder) -/
open Grafeo Grafeo.Proto
namespace DriverEpoch
def handle (_args : List String) : Option Out := none
end DriverEpoch
