import GrafeoModel.Model.Epoch
import GrafeoModel.Driver.Proto

/-! Stream `epo`: compressed epoch blocks and the epoch store (`harness/src/epo.rs` documents the
line formats). Stateless lines: a store history is encoded inside one line. -/
open Grafeo Grafeo.Proto Grafeo.Epoch
namespace DriverEpoch

/-! ### parsing -/

def parseFields (s : String) : Option (List Nat) := (s.splitOn ".").mapM (fun t => t.toNat?)

/-- `key:f1.f2.….f8`, every field within its type. -/
def parseRec (ws : List Nat) (s : String) : Option KRec :=
  match s.splitOn ":" with
  | [k, fs] => do
    let k ← k.toNat?
    let fs ← parseFields fs
    if k < 18446744073709551616 ∧ wfRec ws fs then pure (k, fs) else none
  | _ => none

def parseRecs (ws : List Nat) (s : String) : Option (List KRec) :=
  if s == "-" then some [] else (s.splitOn ",").mapM (parseRec ws)

def tailS (s : String) (n : Nat) : String := String.ofList (s.toList.drop n)

def u64? (s : String) : Option Nat := do
  let v ← s.toNat?
  if v < 18446744073709551616 then pure v else none
def u32? (s : String) : Option Nat := do
  let v ← s.toNat?
  if v < 4294967296 then pure v else none
def u16? (s : String) : Option Nat := do
  let v ← s.toNat?
  if v < 65536 then pure v else none

/-! ### printing -/

def recS : Option (List Nat) → String
  | none => "none"
  | some fs => joinWith "." (fs.map toString)

def entryS (e : Entry) : String := s!"{e.id}@{e.offset}+{e.length}"
def entriesS (es : List Entry) : String := if es.isEmpty then "-" else joinWith "," (es.map entryS)
def boolS (b : Bool) : String := if b then "1" else "0"

/-- the records of the input carrying key `id`. -/
def candidates (xs : List KRec) (id : Nat) : List (List Nat) := (xs.filter (fun x => x.1 == id)).map (·.2)

/-- spec of a by-id answer: the record stored under the id; when the id was supplied several
times any of its records is acceptable. -/
def specById (xs : List KRec) (id : Nat) (m : Option (List Nat)) : Option (List Nat) :=
  match m with
  | some r => if (candidates xs id).contains r then some r else lookupLast xs id
  | none => lookupLast xs id

/-- one block query: (model, spec, signature on deviation). -/
def blockQuery (ns es : List KRec) (b : Block) (ni ei : List Entry) (q : String) :
    Option (String × String × String) :=
  let c := q.toList.headD ' '
  let c2 := (q.toList.drop 1).headD ' '
  if c == 'n' then do
    let id ← u64? (tailS q 1)
    let m := b.getNodeById id
    pure (recS m, recS (specById ns id m), "epoch-block-by-id")
  else if c == 'e' then do
    let id ← u64? (tailS q 1)
    let m := b.getEdgeById id
    pure (recS m, recS (specById es id m), "epoch-block-by-id")
  else if c == 'N' || c == 'E' then
    match (tailS q 1).splitOn ":" with
    | [o, l] => do
      let o ← u32? o
      let l ← u16? l
      let m := if c == 'N' then b.getNode o l else b.getEdge o l
      pure (recS m, recS m, "-")
    | _ => none
  else if c == 'i' || c == 'j' then do
    let k ← (tailS q 1).toNat?
    let (idx, xs) := if c == 'i' then (ni, ns) else (ei, es)
    match idx[k]? with
    | none => pure ("oob", "oob", "-")
    | some en =>
      let m := if c == 'i' then b.getNode en.offset en.length else b.getEdge en.offset en.length
      pure (s!"{entryS en}={recS m}", s!"{entryS en}={recS (specById xs en.id m)}", "epoch-block-by-offset")
  else if c == 'm' && (c2 == 'n' || c2 == 'e') then do
    let id ← u64? (tailS q 2)
    let (side, xs) := if c2 == 'n' then (b.nodes, ns) else (b.edges, es)
    let m := mightContain side id
    -- soundness only: a present id must never be excluded
    pure (boolS m, boolS (if hasKey xs id then true else m), "epoch-zone-map-excludes-present")
  else if q == "c" then
    let z := s!"{b.nodeCount},{b.edgeCount},{b.nodes.count},{b.edges.count}"
    pure (z, s!"{ns.length},{es.length},{ns.length},{es.length}", "epoch-block-count")
  else if q == "h" then
    let z := s!"{b.epoch},{b.compression},{b.nodes.minId},{b.nodes.maxId},{b.edges.minId},{b.edges.maxId},{b.zMinEpoch},{b.zMaxEpoch},{b.nodeDataSize},{b.edgeDataSize},{b.nodeUncompressed},{b.edgeUncompressed},{b.compressedSize}"
    pure (z, z, "-")
  else if q == "x" then
    let z := s!"{entriesS ni}/{entriesS ei}"
    pure (z, z, "-")
  else none

def sigOf (parts : List (String × String × String)) : String :=
  let bad := (parts.filter (fun p => p.1 != p.2.1)).map (·.2.2)
  let bad := bad.eraseDups
  if bad.isEmpty then "-" else joinWith "+" bad

/-! ### store programs -/

structure SState where
  st : Store
  sp : SpecStore

def specNodes (sp : SpecStore) (e : Nat) : Option (List KRec) := (specFind sp e).map (·.1)
def specEdges (sp : SpecStore) (e : Nat) : Option (List KRec) := (specFind sp e).map (·.2)

def specSum (f : List KRec × List KRec → Nat) (sp : SpecStore) : Nat :=
  (sp.map (fun p => f p.2)).foldl (· + ·) 0

def storeOp (s : SState) (q : String) : Option (SState × String × String × String) :=
  let c := q.toList.headD ' '
  if c == 'F' then
    match (tailS q 1).splitOn "|" with
    | [e, ns, es] => do
      let e ← u64? e
      let ns ← parseRecs nodeWs ns
      let es ← parseRecs edgeWs es
      let r := s.st.freeze e ns es
      let z := s!"F:{r.2.1.length}:{r.2.2.length}"
      pure ({ st := r.1, sp := specFreeze s.sp e ns es }, z, s!"F:{ns.length}:{es.length}", "epoch-block-count")
    | _ => none
  else if c == 'G' then do
    let m ← u64? (tailS q 1)
    let r := s.st.gc m
    let r' := specGc s.sp m
    pure ({ st := r.1, sp := r'.1 }, s!"G:{r.2}", s!"G:{r'.2}", "epoch-store-gc")
  else if c == 'n' || c == 'e' then
    match (tailS q 1).splitOn ":" with
    | [e, id] => do
      let e ← u64? e
      let id ← u64? id
      let m := if c == 'n' then s.st.getNodeById e id else s.st.getEdgeById e id
      let xs := ((if c == 'n' then specNodes s.sp e else specEdges s.sp e)).getD []
      pure (s, recS m, recS (specById xs id m), "epoch-store-by-id")
    | _ => none
  else if c == 'N' || c == 'E' then
    match (tailS q 1).splitOn ":" with
    | [e, o, l] => do
      let e ← u64? e
      let o ← u32? o
      let l ← u16? l
      let m := if c == 'N' then s.st.getNode e o l else s.st.getEdge e o l
      pure (s, recS m, recS m, "-")
    | _ => none
  else if c == 'c' then do
    let e ← u64? (tailS q 1)
    pure (s, boolS (s.st.containsEpoch e), boolS (specFind s.sp e).isSome, "epoch-store-contains")
  else if c == 'b' then do
    let e ← u64? (tailS q 1)
    let m := match s.st.getBlock e with
      | none => "none"
      | some b => s!"{b.epoch},{b.nodeCount},{b.edgeCount}"
    let sp := match specFind s.sp e with
      | none => "none"
      | some v => s!"{e},{v.1.length},{v.2.length}"
    pure (s, m, sp, "epoch-store-block")
  else if q == "k" then
    pure (s, toString s.st.epochCount, toString s.sp.length, "epoch-store-count-after-refreeze")
  else if q == "t" then
    pure (s, toString s.st.totalSize, toString (sumSizes s.st.blocks), "epoch-store-count-after-refreeze")
  else if q == "s" then
    let (a, b, c', d, e) := s.st.stats
    let z := s!"{a},{b},{c'},{d},{e},{boolS (d == e)}"
    let sp := s!"{s.sp.length},{specSum (fun v => v.1.length) s.sp},{specSum (fun v => v.2.length) s.sp},{d},{e},{boolS (d == e)}"
    pure (s, z, sp, "epoch-store-stats")
  else none

def runStore : SState → List String → List (String × String × String) → Option (List (String × String × String))
  | _, [], acc => some acc.reverse
  | s, q :: qs, acc =>
    match storeOp s q with
    | none => none
    | some (s', m, sp, sg) => runStore s' qs ((m, sp, sg) :: acc)

def render (parts : List (String × String × String)) : Out :=
  let m := joinWith ";" (parts.map (·.1))
  let s := joinWith ";" (parts.map (·.2.1))
  { model := m, spec := s, sig := sigOf parts }

def handle (args : List String) : Option Out :=
  match args with
  | ["block", e, ns, es, qs] => do
    let e ← u64? e
    let ns ← parseRecs nodeWs ns
    let es ← parseRecs edgeWs es
    let (b, ni, ei) := fromRecords e ns es
    let parts ← (qs.splitOn ",").mapM (blockQuery ns es b ni ei)
    pure (render parts)
  | ["enc", kind, r] => do
    -- byte layout of one record: bincode bytes, and decode of the bytes
    let ws ← if kind == "n" then some nodeWs else if kind == "e" then some edgeWs else none
    let fs ← parseFields r
    if wfRec ws fs then
      let bs := encRec fs
      let m := s!"{hexBytes bs}|{recS (decRec ws bs)}"
      pure { model := m, spec := s!"{hexBytes bs}|{recS (some fs)}", sig := if decRec ws bs == some fs then "-" else "epoch-record-codec" }
    else none
  | ["dec", kind, hex] => do
    let ws ← if kind == "n" then some nodeWs else if kind == "e" then some edgeWs else none
    let bs ← parseHex hex
    pure { model := recS (decRec ws bs) }
  | ["store", prog] => do
    let parts ← runStore ⟨Store.empty, []⟩ (prog.splitOn "/") []
    pure (render parts)
  | _ => none

end DriverEpoch
