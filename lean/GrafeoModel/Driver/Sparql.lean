import GrafeoModel.Model.Sparql
import GrafeoModel.Driver.Proto

/-! Stream `sparql` (C13, query level). Stateless lines:

    sparql sel <io> <triples> <scan> <n> <d>;<proj>;<order>;<off>;<lim>;<group>
    sparql chk <io> <triples> <scan> <n> <same as sel>        (an unordered slice: size and containment)
    sparql cnt <io> <triples> <scan> <n> <d>;<arg>;<alias>;<groupBy>;<order>;<off>;<lim>;<group>
    sparql upd <io> <triples> <scan> <n> <update>

`triples`: `s.p.o,…` (term codes, insertion order, duplicates allowed); `scan`: the distinct triples
in the iteration order of the store's primary hash set (`-`: insertion order); `n`: number of
variables `v0 … v(n-1)`; group syntax: `T[v0.c2.v1/…]`, `O{…}`, `U{…}{…}`, `G{…}`,
`F(<expr>)`, expressions `e(a,b)` `n(a,b)` `l(a,b)` `b(v0)` `!(e)` `&(e,e)` `|(e,e)`.
-/
namespace Grafeo.DriverSparql
open Grafeo.Proto Grafeo.Rdf Grafeo.Sparql

/-! ### the term pool (must agree with `harness/src/sparql.rs`) -/

def lexStr (c : Nat) : String :=
  match c with
  | 0 => "http://ex.org/a" | 1 => "http://ex.org/b" | 2 => "http://ex.org/p" | 3 => "x"
  | 4 => "_:x" | 5 => "_:b1"
  | 6 => "x" | 7 => "x" | 8 => "x" | 9 => "x" | 10 => "1" | 11 => "1" | 12 => ""
  | 16 => "_:x" | 17 => "_:b1" | 18 => "http://ex.org/a" | 19 => "10" | 20 => "9" | 21 => "10" | 22 => "9"
  | c => s!"http://ex.org/n{c}"

def poolKind (c : Nat) : Kind :=
  match c with
  | 4 => .blank | 5 => .blank
  | 6 => .plain | 7 => .lang | 8 => .lang | 9 => .other | 10 => .int 1 | 11 => .plain | 12 => .plain
  | 16 => .plain | 17 => .plain | 18 => .plain | 19 => .plain | 20 => .plain | 21 => .int 10 | 22 => .int 9
  | _ => .iri

def poolSize : Nat := 23

/-- identifier of a lexical form: the smallest code that is written that way -/
def lexId (c : Nat) : Nat :=
  if c ≥ poolSize then c else ((List.range c).find? fun d => lexStr d == lexStr c).getD c

def poolNum (l : Nat) : Option Int :=
  match l with
  | 10 => some 1 | 19 => some 10 | 20 => some 9
  | _ => none

def poolLitNorm (c : Nat) : Nat :=
  match c with
  | 7 => 6 | 8 => 6 | 9 => 6
  | c => c

def poolConstVal (c : Nat) : FVal :=
  match poolKind c with
  | .int n => .int n
  | _ => .str (lexId c)

/-- `value_to_term` on the pool's lexical forms -/
def poolBack (l : Nat) : Nat :=
  match l with
  | 3 => 6 | 4 => 16 | 5 => 17 | 10 => 10 | 12 => 12 | 19 => 21 | 20 => 22
  | l => l                                   -- `http://…` → the IRI

def poolEnv (vfix : Bool) : Env :=
  { lex := lexId, emptyLex := 12, strLt := fun a b => lexStr a < lexStr b, num := poolNum,
    litNorm := poolLitNorm, constVal := poolConstVal, back := poolBack, kind := poolKind, vfix := vfix }

/-- `Env.vfix` is read by `Sparql.Old` only (the `ValueVector` of before /repo commit ea119b4) -/
def asIs : Bool := true

/-! ### parsing -/

def parseTriple (s : String) : Option Triple :=
  match s.splitOn "." with
  | [a, b, c] => do pure ⟨← a.toNat?, ← b.toNat?, ← c.toNat?⟩
  | _ => none

def parseTriples (s : String) : Option (List Triple) :=
  if s == "-" then some [] else (s.splitOn ",").mapM parseTriple

def parsePT (s : String) : Option PT :=
  match s.toList with
  | 'v' :: r => (String.ofList r).toNat?.map .var
  | 'c' :: r => (String.ofList r).toNat?.map .const
  | _ => none

def parseTP (s : String) : Option TP :=
  match s.splitOn "." with
  | [a, b, c] => do pure ⟨← parsePT a, ← parsePT b, ← parsePT c⟩
  | _ => none

def parseTPs (s : String) : Option (List TP) :=
  if s == "" || s == "-" then some [] else (s.splitOn "/").mapM parseTP

/-- characters up to (not including) the first `stop`; the rest starts behind it -/
def takeUntil (stop : Char) : List Char → Option (List Char × List Char)
  | [] => none
  | c :: cs => if c == stop then some ([], cs) else (takeUntil stop cs).map fun p => (c :: p.1, p.2)

partial def parseExpr : List Char → Option (Expr × List Char)
  | 'e' :: '(' :: r => bin2 Expr.eq r
  | 'n' :: '(' :: r => bin2 Expr.ne r
  | 'l' :: '(' :: r => bin2 Expr.lt r
  | 'b' :: '(' :: r => do
    let (a, r1) ← takeUntil ')' r
    match ← parsePT (String.ofList a) with
    | .var v => pure (.bound v, r1)
    | _ => none
  | '!' :: '(' :: r => do
    let (e, r1) ← parseExpr r
    match r1 with
    | ')' :: r2 => pure (.not e, r2)
    | _ => none
  | '&' :: '(' :: r => binE Expr.and r
  | '|' :: '(' :: r => binE Expr.or r
  | _ => none
where
  bin2 (f : PT → PT → Expr) (r : List Char) : Option (Expr × List Char) := do
    let (a, r1) ← takeUntil ',' r
    let (b, r2) ← takeUntil ')' r1
    pure (f (← parsePT (String.ofList a)) (← parsePT (String.ofList b)), r2)
  binE (f : Expr → Expr → Expr) (r : List Char) : Option (Expr × List Char) := do
    let (a, r1) ← parseExpr r
    match r1 with
    | ',' :: r2 =>
      let (b, r3) ← parseExpr r2
      match r3 with
      | ')' :: r4 => pure (f a b, r4)
      | _ => none
    | _ => none

/-- the elements of a group up to its closing `}` (or the end of the input at top level) -/
partial def parseGrp : List Char → Option (Grp × List Char)
  | [] => some (.nil, [])
  | '}' :: r => some (.nil, '}' :: r)
  | 'T' :: '[' :: r => do
    let (a, r1) ← takeUntil ']' r
    let tps ← parseTPs (String.ofList a)
    let (rest, r2) ← parseGrp r1
    pure (.triples tps rest, r2)
  | 'O' :: '{' :: r => do
    let (g, r1) ← parseGrp r
    match r1 with
    | '}' :: r2 =>
      let (rest, r3) ← parseGrp r2
      pure (.optional g rest, r3)
    | _ => none
  | 'G' :: '{' :: r => do
    let (g, r1) ← parseGrp r
    match r1 with
    | '}' :: r2 =>
      let (rest, r3) ← parseGrp r2
      pure (.group g rest, r3)
    | _ => none
  | 'U' :: '{' :: r => do
    let (a, r1) ← parseGrp r
    match r1 with
    | '}' :: '{' :: r2 =>
      let (b, r3) ← parseGrp r2
      match r3 with
      | '}' :: r4 =>
        let (rest, r5) ← parseGrp r4
        pure (.union a b rest, r5)
      | _ => none
    | _ => none
  | 'F' :: '(' :: r => do
    let (e, r1) ← parseExpr r
    match r1 with
    | ')' :: r2 =>
      let (rest, r3) ← parseGrp r2
      pure (.filter e rest, r3)
    | _ => none
  | _ => none

def parseGroup (s : String) : Option Grp :=
  match parseGrp s.toList with
  | some (g, []) => some g
  | _ => none

def optNat (s : String) : Option (Option Nat) := if s == "-" then some none else s.toNat?.map some

def parseNats (s : String) : Option (List Nat) :=
  if s == "-" then some [] else (s.splitOn ",").mapM (·.toNat?)

def parseOrder (s : String) : Option (List (Nat × Bool)) :=
  if s == "-" then some [] else (s.splitOn ",").mapM fun k =>
    match k.toList.reverse with
    | 'a' :: r => (String.ofList r.reverse).toNat?.map fun v => (v, false)
    | 'd' :: r => (String.ofList r.reverse).toNat?.map fun v => (v, true)
    | _ => none

def parseSelect (s : String) : Option Select :=
  match s.splitOn ";" with
  | [d, proj, ord, off, lim, g] => do
    let pr ← if proj == "*" then some none else (parseNats proj).map some
    pure { distinct := d == "1", proj := pr, order := ← parseOrder ord, offset := ← optNat off, limit := ← optNat lim,
           where_ := ← parseGroup g }
  | _ => none

def parseCount (s : String) : Option Count :=
  match s.splitOn ";" with
  | [d, arg, al, gb, ord, off, lim, g] => do
    let a ← if arg == "*" then some none else arg.toNat?.map some
    pure { distinct := d == "1", arg := a, alias := ← al.toNat?, groupBy := ← parseNats gb, order := ← parseOrder ord,
           offset := ← optNat off, limit := ← optNat lim, where_ := ← parseGroup g }
  | _ => none

def constTriple (tp : TP) : Option Triple :=
  match tp.s, tp.p, tp.o with
  | .const a, .const b, .const c => some ⟨a, b, c⟩
  | _, _, _ => none

def parseUpdate (s : String) : Option Update :=
  match s.toList with
  | 'I' :: 'D' :: '[' :: r => do
    let (a, rest) ← takeUntil ']' r
    if !rest.isEmpty then none
    let tps ← parseTPs (String.ofList a)
    pure (.insertData (← tps.mapM constTriple))
  | 'D' :: 'D' :: '[' :: r => do
    let (a, rest) ← takeUntil ']' r
    if !rest.isEmpty then none
    let tps ← parseTPs (String.ofList a)
    pure (.deleteData (← tps.mapM constTriple))
  | 'D' :: 'W' :: '[' :: r => do
    let (a, rest) ← takeUntil ']' r
    if !rest.isEmpty then none
    pure (.deleteWhere (← parseTPs (String.ofList a)))
  | 'M' :: 'O' :: '[' :: r => do
    let (d, r1) ← takeUntil ']' r
    match r1 with
    | '[' :: r2 =>
      let (i, r3) ← takeUntil ']' r2
      match r3 with
      | '{' :: r4 =>
        let (g, r5) ← parseGrp r4
        if r5 != ['}'] then none
        pure (.modify (← parseTPs (String.ofList d)) (← parseTPs (String.ofList i)) g)
      | _ => none
    | _ => none
  | _ => none

/-! ### printing -/

def sortStrs (l : List String) : List String := l.mergeSort (fun a b => decide (a ≤ b))

def sortNats (l : List Nat) : List Nat := l.mergeSort (fun a b => decide (a ≤ b))

def showCell : Cell → String
  | .null => "~"
  | .str l => toString l
  | .int n => s!"#{n}"

/-- one result row as `v=cell,…` sorted; a row whose width is not the header's: `!cell,cell` -/
def showRow (cols : List Nat) (r : Row) : String :=
  if r.length != cols.length then "!" ++ joinWith "," (r.map showCell)
  else joinWith "," (sortStrs ((cols.zip r).filterMap fun vc =>
    match vc.2 with
    | .null => none
    | c => some s!"{vc.1}={showCell c}"))

def keyCells (cols : List Nat) (keys : List Nat) (r : Row) : List String :=
  keys.map fun k => match (cols.zip r).reverse.find? (fun vc => vc.1 == k) with
    | some (_, c) => showCell c
    | none => "~"

/-- adjacent rows with equal sort keys are put in a canonical order (the order of ties is not
determined by ORDER BY) -/
def canonTies : List (List String × String) → List String
  | [] => []
  | (k, s) :: rest =>
    let run := rest.takeWhile (·.1 == k)
    sortStrs (s :: run.map (·.2)) ++ canonTies (rest.drop run.length)
termination_by l => l.length
decreasing_by simp [List.length_drop]; omega

def showTable (cols : List Nat) (rows : List Row) (ordered : List Nat) : String :=
  let hdr := natList (sortNats cols)
  let body :=
    if ordered.isEmpty then sortStrs (rows.map (showRow cols))
    else canonTies (rows.map fun r => (keyCells cols ordered r, showRow cols r))
  hdr ++ "|" ++ joinWith ";" body

def solRow (env : Env) (cols : List Nat) (μ : Sol) : Row :=
  cols.map fun v => match μ.get v with
    | some x => .str (env.lex x)
    | none => .null

def ptVars : PT → List Nat
  | .var v => [v]
  | .const _ => []

def tpVars (tp : TP) : List Nat := ptVars tp.s ++ ptVars tp.p ++ ptVars tp.o

/-- the variables in scope of a group (those of its triple patterns) -/
def grpVars : Grp → List Nat
  | .nil => []
  | .triples tps rest => tps.flatMap tpVars ++ grpVars rest
  | .optional g rest => grpVars g ++ grpVars rest
  | .union a b rest => grpVars a ++ grpVars b ++ grpVars rest
  | .group g rest => grpVars g ++ grpVars rest
  | .filter _ rest => grpVars rest

def showTriples (l : List Triple) : String :=
  joinWith "," (sortStrs (l.map fun t => s!"{t.s}.{t.p}.{t.o}"))

/-! ### the domain of the stream -/

/-- blank nodes cannot be written as constants (in a pattern they are variables) -/
def noBlankConst (cs : List Nat) : Bool := cs.all fun c => poolKind c != .blank

/-! ### signatures: the first hypothesis of the partial theorems that the line violates -/

def exprHasBound : Expr → Bool
  | .bound _ => true
  | .not e => exprHasBound e
  | .and a b | .or a b => exprHasBound a || exprHasBound b
  | _ => false

def patHasFilter : Pat → Bool
  | .unit | .scan _ => false
  | .filter _ _ => true
  | .join a b | .union a b => patHasFilter a || patHasFilter b
  | .leftJoin a b c => patHasFilter a || patHasFilter b || c.isSome

def bodyRows (s : String) : List String :=
  match s.splitOn "|" with
  | [_, b] => if b == "" then [] else b.splitOn ";"
  | _ => []

def exprVars : Expr → List Nat
  | .eq a b | .ne a b | .lt a b => ptCols a ++ ptCols b
  | .bound v => [v]
  | .not e => exprVars e
  | .and a b | .or a b => exprVars a ++ exprVars b

/-- an OPTIONAL whose FILTER reads a variable the optional part does not bind: the standard
evaluates the FILTER on the joined solution, the engine inside the optional part -/
def optFilterScope : Pat → Bool
  | .unit | .scan _ => false
  | .join a b | .union a b => optFilterScope a || optFilterScope b
  | .filter _ a => optFilterScope a
  | .leftJoin a b none => optFilterScope a || optFilterScope b
  | .leftJoin a b (some e) =>
    (exprVars e).any (fun v => !(patCols b).contains v) || optFilterScope a || optFilterScope b

/-- a join (or OPTIONAL) on a variable that one side may leave unbound: the engine's join takes a null
for a value that equals nothing, the algebra takes the variable from the other side -/
def joinUnbound : Pat → Bool
  | .unit | .scan _ => false
  | .join a b | .leftJoin a b _ =>
    (patCols a).any (fun v => (patCols b).contains v && !((certain a).contains v && (certain b).contains v)) ||
      joinUnbound a || joinUnbound b
  | .union a b => joinUnbound a || joinUnbound b
  | .filter _ a => joinUnbound a

/-- signature of a model ≠ spec deviation on a query line: the first cause in a fixed order -/
def querySig (G : List Triple) (g : Grp) (ordered sliced : Bool) (model specStr : String) : String :=
  let code := transCode g
  let std := simpUnit (transStd g)
  if model == "err" then "sparql-variable-not-a-column-error"
  else if ordered && sortStrs (bodyRows model) == sortStrs (bodyRows specStr) &&
      (model.splitOn "|").head? == (specStr.splitOn "|").head? then "sparql-order-by"
  else if (patConsts code).any (fun c => poolLitNorm c != c) then "sparql-literal-constant-loses-tag"
  else if optFilterScope std then "sparql-optional-filter-scope"
  else if joinUnbound code then "sparql-unbound-handling"
  else if lexClash (poolEnv asIs) (triplesTerms G ++ patConsts code) then "sparql-terms-compared-as-strings"
  else if patHasFilter code then "sparql-filter-semantics"
  else if ordered then "sparql-order-by"
  else if sliced then "sparql-slice"
  else "sparql-other"

/-! ### the handler -/

def dedupT (l : List Triple) : List Triple := l.foldl (fun acc t => if acc.contains t then acc else acc ++ [t]) []

structure Ctx where
  st : Store
  full : List Triple
  G : List Triple
  n : Nat

def mkCtx (io ts sc n : String) : Option Ctx := do
  let triples ← parseTriples ts
  let st := triples.foldl (fun st t => (st.insert t).1) (Store.new (io == "1"))
  let full ← if sc == "-" then some st.triples else parseTriples sc
  pure { st := st, full := full, G := st.triples, n := ← n.toNat? }

def inDomainPat (p : Pat) : Bool := noBlankConst (patConsts p)

/-- model output of a SELECT -/
def runSelect (_vfix : Bool) (c : Ctx) (q : Select) : String :=
  match execSelect (poolEnv asIs) c.st c.full q with
  | none => "err"
  | some t => showTable t.cols t.rows (q.order.map (·.1))

def specSelectStr (c : Ctx) (q : Select) : String :=
  let env := poolEnv asIs
  let cols := match q.proj with
    | none => (grpVars q.where_).eraseDups
    | some vs => vs
  showTable cols ((specSelect env c.n c.G q).map (solRow env cols)) (q.order.map (·.1))

def countRowCells (env : Env) (r : CountRow) : Row :=
  (r.key.map fun k => match k with | some x => Cell.str (env.lex x) | none => .null) ++ [.int r.count]

def runCount (_vfix : Bool) (c : Ctx) (q : Count) : String :=
  match execCount (poolEnv asIs) c.st c.full q with
  | none => "err"
  | some t => showTable t.cols t.rows (q.order.map (·.1))

def specCountStr (c : Ctx) (q : Count) : String :=
  let env := poolEnv asIs
  showTable (q.groupBy ++ [q.alias]) ((specCount env c.n c.G q).map (countRowCells env)) (q.order.map (·.1))

/-- is `small` contained in `big` as a multiset (both sorted)? -/
partial def subSorted : List String → List String → Bool
  | [], _ => true
  | _ :: _, [] => false
  | x :: xs, y :: ys => if x == y then subSorted xs ys else if y < x then subSorted (x :: xs) ys else false

def subBag (small big : List String) : Bool := subSorted (sortStrs small) (sortStrs big)

def chkStr (sliced full : String) : String :=
  if sliced == "err" || full == "err" then "err"
  else s!"n={(bodyRows sliced).length};sub={if subBag (bodyRows sliced) (bodyRows full) then 1 else 0}"

def selectStarAfter (_vfix : Bool) (st : Store) (full : List Triple) : String :=
  let q : Select := { distinct := false, proj := none, order := [], offset := none, limit := none,
                      where_ := .triples [⟨.var 0, .var 1, .var 2⟩] .nil }
  match execSelect (poolEnv asIs) st full q with
  | none => "err"
  | some t => showTable t.cols t.rows []

def specStarAfter (G : List Triple) : String :=
  let env := poolEnv asIs
  showTable [0, 1, 2] (G.map fun t => [Cell.str (env.lex t.s), .str (env.lex t.p), .str (env.lex t.o)]) []

def runUpdate (vfix : Bool) (c : Ctx) (u : Update) : String :=
  match execUpdate (poolEnv vfix) ⟨c.st, c.full⟩ u with
  | none => "err:" ++ showTriples c.st.triples ++ "/" ++ selectStarAfter vfix c.st c.full
  | some u' => showTriples u'.st.triples ++ "/" ++ selectStarAfter vfix u'.st u'.full

def specUpdateStr (c : Ctx) (u : Update) : String :=
  match specUpdate (poolEnv asIs) c.n c.G u with
  | none => "err:" ++ showTriples c.G ++ "/" ++ specStarAfter c.G
  | some G' => showTriples G' ++ "/" ++ specStarAfter G'

def updatePlan : Update → Pat
  | .deleteWhere tps => bgp tps
  | .modify _ _ w => transCode w
  | _ => .unit

def updateConsts : Update → List Nat
  | .insertData ts | .deleteData ts => triplesTerms ts
  | .deleteWhere tps => tps.flatMap tpConsts
  | .modify d i w => d.flatMap tpConsts ++ i.flatMap tpConsts ++ patConsts (transCode w)

def backStable (env : Env) (terms : List Nat) : Bool := terms.all fun t => env.back (env.lex t) == t

def updateSig (c : Ctx) (u : Update) (model : String) : String :=
  let env := poolEnv asIs
  let plan := updatePlan u
  if model.startsWith "err" then "sparql-update-rejected"
  else if (updateConsts u).any (fun k => poolLitNorm k != k) then "sparql-literal-constant-loses-tag"
  else match u with
    | .insertData _ | .deleteData _ => "sparql-update-data"
    | _ =>
      if !backStable env (triplesTerms c.G) then "sparql-update-term-from-string"
      else if optFilterScope (simpUnit (match u with | .modify _ _ w => transStd w | _ => plan)) then "sparql-optional-filter-scope"
      else if joinUnbound plan then "sparql-unbound-handling"
      else if lexClash env (triplesTerms c.G ++ patConsts plan) then "sparql-terms-compared-as-strings"
      else if patHasFilter plan then "sparql-filter-semantics"
      else "sparql-update-other"

/-- the signature is computed only for a deviation -/
def mk (m s : String) (sig : Unit → String) : Proto.Out := { model := m, spec := s, sig := if m == s then "-" else sig () }

def handle (args : List String) : Option Proto.Out :=
  match args with
  | ["sel", io, ts, sc, n, qs] => do
    let c ← mkCtx io ts sc n
    let q ← parseSelect qs
    if !inDomainPat (transCode q.where_) then pure { model := "unmodelled", spec := "-" }
    else
      let m := runSelect asIs c q
      let sliced := q.offset.isSome || q.limit.isSome
      if sliced && q.order.isEmpty then pure { model := m, spec := "-" }     -- any such subset is right: see `chk`
      else
        let s := specSelectStr c q
        pure (mk m s fun _ => querySig c.G q.where_ (!q.order.isEmpty) sliced m s)
  | ["chk", io, ts, sc, n, qs] => do
    let c ← mkCtx io ts sc n
    let q ← parseSelect qs
    if !inDomainPat (transCode q.where_) then pure { model := "unmodelled", spec := "-" }
    else
      let whole := { q with offset := none, limit := none }
      let m := chkStr (runSelect asIs c q) (runSelect asIs c whole)
      let s := chkStr (specSelectStr c q) (specSelectStr c whole)
      pure (mk m s fun _ => querySig c.G q.where_ false true m s)
  | ["cnt", io, ts, sc, n, qs] => do
    let c ← mkCtx io ts sc n
    let q ← parseCount qs
    if !inDomainPat (transCode q.where_) then pure { model := "unmodelled", spec := "-" }
    else
      let m := runCount asIs c q
      let sliced := q.offset.isSome || q.limit.isSome
      if sliced && q.order.isEmpty then pure { model := m, spec := "-" }
      else
        let s := specCountStr c q
        pure (mk m s fun _ => querySig c.G q.where_ (!q.order.isEmpty) sliced m s)
  | ["upd", io, ts, sc, n, us] => do
    let c ← mkCtx io ts sc n
    let u ← parseUpdate us
    if !noBlankConst (updateConsts u) then pure { model := "unmodelled", spec := "-" }
    else
      let m := runUpdate asIs c u
      pure (mk m (specUpdateStr c u) fun _ => updateSig c u m)
  | _ => none

end Grafeo.DriverSparql
