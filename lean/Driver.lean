import GrafeoModel.Driver.Proto
import GrafeoModel.Driver.C15

/-!
`gdriver`: reads op lines `<stream> <op> <arg>*` on stdin, writes one line per op:
`<model>\t<spec>\t<sig>`; lines starting with `#` are echoed; an op the driver cannot parse
yields `bad-op` (never a default answer).
-/
open Grafeo Grafeo.Proto

def dispatch (line : String) : String :=
  let toks := (line.trimAscii.toString.splitOn " ").filter (· ≠ "")
  match toks with
  | [] => "bad-op"
  | stream :: args =>
    let r : Option Out :=
      if stream == "c15" then DriverC15.handle args
      else none
    match r with
    | some o => o.render
    | none => "bad-op"

partial def loop (h : IO.FS.Stream) (out : IO.FS.Stream) : IO Unit := do
  let line ← h.getLine
  if line.isEmpty then return ()
  if line.startsWith "#" then out.putStr line
  else out.putStrLn (dispatch line)
  loop h out

def main : IO Unit := do
  let i ← IO.getStdin
  let o ← IO.getStdout
  loop i o
