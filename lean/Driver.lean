import GrafeoModel.Driver.Proto
import GrafeoModel.Driver.C15
import GrafeoModel.Driver.Tx
import GrafeoModel.Driver.Rdf
import GrafeoModel.Driver.Wal
import GrafeoModel.Driver.Ops
import GrafeoModel.Driver.Ops2
import GrafeoModel.Driver.Val
import GrafeoModel.Driver.Exec
import GrafeoModel.Driver.Lpg
import GrafeoModel.Driver.Sess
import GrafeoModel.Driver.Algo
import GrafeoModel.Driver.Hnsw
import GrafeoModel.Driver.Pers
import GrafeoModel.Driver.Lex
import GrafeoModel.Driver.Plan
import GrafeoModel.Driver.Conc
import GrafeoModel.Driver.Mem
import GrafeoModel.Driver.Zm
import GrafeoModel.Driver.Sparql
import GrafeoModel.Driver.Push
import GrafeoModel.Driver.Ser
import GrafeoModel.Driver.QueryAgg
import GrafeoModel.Driver.C15b
import GrafeoModel.Driver.Query
import GrafeoModel.Driver.SparqlTx
import GrafeoModel.Driver.Join
import GrafeoModel.Driver.Epoch
import GrafeoModel.Driver.Par
import GrafeoModel.Driver.JoinOrder
import GrafeoModel.Driver.Conc2
import GrafeoModel.Driver.HnswBuild
import GrafeoModel.Driver.Algo2
import GrafeoModel.Driver.Lex2
import GrafeoModel.Driver.Fact
import GrafeoModel.Driver.Idx

/-!
`gdriver`: reads op lines `<stream> <op> <arg>*` on stdin, writes one line per op:
`<model>\t<spec>\t<sig>`; lines starting with `#` are echoed (a `# case` line resets all
stream state); an op the driver cannot parse yields `bad-op` (never a default answer).
-/
open Grafeo Grafeo.Proto

structure DState where
  tx : DriverTx.St := {}
  rdf : DriverRdf.St := {}
  lpg : DriverLpg.St := {}
  sess : DriverSess.St := {}
  pers : DriverPers.St := {}
  zm : DriverZm.St := {}

def dispatch (st : DState) (line : String) : DState × String :=
  let toks := (line.trimAscii.toString.splitOn " ").filter (· ≠ "")
  match toks with
  | [] => (st, "bad-op")
  | stream :: args =>
    if stream == "c15" then
      match DriverC15.handle args with
      | some o => (st, o.render)
      | none => (st, "bad-op")
    else if stream == "wal" then
      match DriverWal.handle args with
      | some o => (st, o.render)
      | none => (st, "bad-op")
    else if stream == "ops" then
      match DriverOps.handle args with
      | some o => (st, o.render)
      | none => (st, "bad-op")
    else if stream == "ops2" then
      match DriverOps2.handle args with
      | some o => (st, o.render)
      | none => (st, "bad-op")
    else if stream == "val" then
      match DriverVal.handle args with
      | some o => (st, o.render)
      | none => (st, "bad-op")
    else if stream == "exec" then
      match DriverExec.handle args with
      | some o => (st, o.render)
      | none => (st, "bad-op")
    else if stream == "algo" then
      match DriverAlgo.handle args with
      | some o => (st, o.render)
      | none => (st, "bad-op")
    else if stream == "hnsw" then
      match DriverHnsw.handle args with
      | some o => (st, o.render)
      | none => (st, "bad-op")
    else if stream == "plan" then
      match DriverPlan.handle args with
      | some o => (st, o.render)
      | none => (st, "bad-op")
    else if stream == "conc" then
      match DriverConc.handle args with
      | some o => (st, o.render)
      | none => (st, "bad-op")
    else if stream == "mem" then
      match DriverMem.handle args with
      | some o => (st, o.render)
      | none => (st, "bad-op")
    else if stream == "sparql" then
      match DriverSparql.handle args with
      | some o => (st, o.render)
      | none => (st, "bad-op")
    else if stream == "push" then
      match DriverPush.handle args with
      | some o => (st, o.render)
      | none => (st, "bad-op")
    else if stream == "ser" then
      match DriverSer.handle args with
      | some o => (st, o.render)
      | none => (st, "bad-op")
    else if stream == "qa" then
      match DriverQueryAgg.handle args with
      | some o => (st, o.render)
      | none => (st, "bad-op")
    else if stream == "c15b" then
      match DriverC15b.handle args with
      | some o => (st, o.render)
      | none => (st, "bad-op")
    else if stream == "idx" then
      match DriverIdx.handle args with
      | some o => (st, o.render)
      | none => (st, "bad-op")
    else if stream == "fact" then
      match DriverFact.handle args with
      | some o => (st, o.render)
      | none => (st, "bad-op")
    else if stream == "lex2" then
      match DriverLex2.handle args with
      | some o => (st, o.render)
      | none => (st, "bad-op")
    else if stream == "alg2" then
      match DriverAlgo2.handle args with
      | some o => (st, o.render)
      | none => (st, "bad-op")
    else if stream == "hcon" then
      match DriverHnswBuild.handle args with
      | some o => (st, o.render)
      | none => (st, "bad-op")
    else if stream == "conc2" then
      match DriverConc2.handle args with
      | some o => (st, o.render)
      | none => (st, "bad-op")
    else if stream == "jo" then
      match DriverJoinOrder.handle args with
      | some o => (st, o.render)
      | none => (st, "bad-op")
    else if stream == "par" then
      match DriverPar.handle args with
      | some o => (st, o.render)
      | none => (st, "bad-op")
    else if stream == "epo" then
      match DriverEpoch.handle args with
      | some o => (st, o.render)
      | none => (st, "bad-op")
    else if stream == "join" then
      match DriverJoin.handle args with
      | some o => (st, o.render)
      | none => (st, "bad-op")
    else if stream == "sptx" then
      match DriverSparqlTx.handle args with
      | some o => (st, o.render)
      | none => (st, "bad-op")
    else if stream == "lex" then
      match DriverLex.handle args with
      | some o => (st, o.render)
      | none => (st, "bad-op")
    else if stream == "opt" then
      match args with
      | "run" :: rest =>
        match DriverQuery.handle ("optrun" :: rest) with
        | some o => (st, o.render)
        | none => (st, "bad-op")
      | "cfg" :: rest =>
        match DriverQuery.handle ("optcfg" :: rest) with
        | some o => (st, o.render)
        | none => (st, "bad-op")
      | "hist" :: rest =>
        match DriverQuery.handle ("opthist" :: rest) with
        | some o => (st, o.render)
        | none => (st, "bad-op")
      | "cache2" :: rest =>
        match DriverQuery.handle ("optcache2" :: rest) with
        | some o => (st, o.render)
        | none => (st, "bad-op")
      | _ => (st, "bad-op")
    else if stream == "q" then
      match DriverQuery.handle args with
      | some o => (st, o.render)
      | none => (st, "bad-op")
    else if stream == "zm" then
      match DriverZm.handle st.zm args with
      | some (t', o) => ({ st with zm := t' }, o.render)
      | none => (st, "bad-op")
    else if stream == "tx" then
      match DriverTx.handle st.tx args with
      | some (t', o) => ({ st with tx := t' }, o.render)
      | none => (st, "bad-op")
    else if stream == "lpg" then
      match DriverLpg.handle st.lpg args with
      | some (t', o) => ({ st with lpg := t' }, o.render)
      | none => (st, "bad-op")
    else if stream == "sess" then
      match DriverSess.handle st.sess args with
      | some (t', o) => ({ st with sess := t' }, o.render)
      | none => (st, "bad-op")
    else if stream == "pers" then
      match DriverPers.handle st.pers args with
      | some (t', o) => ({ st with pers := t' }, o.render)
      | none => (st, "bad-op")
    else if stream == "rdf" then
      match DriverRdf.handle st.rdf args with
      | some (t', o) => ({ st with rdf := t' }, o.render)
      | none => (st, "bad-op")
    else (st, "bad-op")

partial def loop (h : IO.FS.Stream) (out : IO.FS.Stream) (st : DState) : IO Unit := do
  let line ← h.getLine
  if line.isEmpty then return ()
  if line.startsWith "#" then
    out.putStr line
    loop h out (if line.startsWith "# case" then {} else st)
  else
    let (st', r) := dispatch st line
    out.putStrLn r
    loop h out st'

def main : IO Unit := do
  let i ← IO.getStdin
  let o ← IO.getStdout
  loop i o {}
